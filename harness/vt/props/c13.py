"""C13 -- ALF export writes consistent object tables that load back to the same spikes (DESIGN.md section 8 C13)."""
import copy
import os
import shutil
import tempfile

from .. import coqenc as q
from .. import datasets as D
from .. import datasets_c13 as D13

ID = 'C13'
RULE = ('generated dense KS/phy source directories (tens of spikes, 3-8 channels, a few with 13-14 channels so that the '
        'exported width 12 binds) over the option product: raw data present/absent, features none/all spikes/subset of '
        'spikes, curated (operation histories, curated without empty ids, a cluster file equal to the templates) or not, '
        'last template without spikes, probe table none/constant/two/three probes (Merger-like channel maps), shanks, '
        'KSLabel and other tsv files, channel labels, cluster probes/shanks, drift files, temp_wh.dat, earlier subset '
        'files, (n,) vs (n,1) vectors, id/time/channel-map dtypes, ids up to 300, params.py present/absent; labels '
        '{"", probe00, imec1} plus 32 labels that collide with the written names (every ALF attribute and object name: '
        'templates, clusters, amps, times, ...; npy, csv; prefixes/suffixes and dotted combinations: temp, plates, '
        'spikes.times, times.npy, x.amps, ...); unit factors {1, 2.5}; targets: a fresh directory under seven spellings '
        '(new, existing empty, through a symlink, <src>/../out, another directory with the same last component, relative, '
        'the source path in another letter case) '
        'or the source directory under 14 spellings (same path, Path object, /., trailing /, other/../src, <src>/sub/.. '
        'with and without the sub-directory, symlink, chain of symlinks, symlinked parent, <src>/self -> ., relative, '
        'relative ../src, relative .). Corpus first, then every pair of values of the main axes, '
        'then seeded random. Stage 3: convert(force=True) on 12 % of the fresh-target cases; cluster ids 65534/65535 (65536-row '
        'clusters.* tables; the two pure peak-channel properties of TemplateModel are memoised for these datasets only, the '
        'unpatched export takes > 11 minutes and writes identical files); InBeyond = one step outside the statement, judged by '
        'model equality only: cluster id 65536, sparse template storage; InCompress = compress_spikes_dtypes called on a bare '
        'directory (ids around 65535/65536, negative ids, (n,1), labels templates/clusters, decoy names, a missing file). '
        'Non-trivial = conversion ran to completion (or was refused for the same directory; InBeyond: any outcome; '
        'InCompress: compressed or StopIteration); distinct = distinct abstract input. '
        'Stage 5: 45 % of the conversion cases carry 1-5 bystander files (non-array regular files the export has no business with) whose '
        'names are close to temp_wh.dat, params.py, cluster_KSLabel.tsv or the raw-data names: infix between stem and extension, prefix, '
        'trailing suffix, other extension, other letter case, one character changed/dropped/added, glob metacharacters, plain other '
        '*.dat / *.bin / cluster_*.tsv / spikes.* names; 40 % of the raw-data cases have their .dat/.bin files under another name '
        '(temp_wh_session1.dat, temp_wh2.dat, my data.dat, ..., or temp_wh.dat itself = the one file that may be deleted); 11 forced '
        'instances run first. '
        'Stage 6: 15 % of the conversion cases have source files (the two id vectors / the copied files / any subset / all regular files, raw data '
        'and params.py included) present as links into a store outside the directory (symbolic with absolute or relative target, chain of two '
        'links, hard link); an exported file that is itself a link is shown to the comparator as a non-array file of unknown content. 30 % of the '
        'unlabelled fresh-target cases carry a HISTORY of the output directory: an earlier convert() of the same source directory into the same '
        'target with the same or an earlier clustering (uncurated, another operation history, a merge creating id max+1), optionally damage to the '
        'exported files (uuids file shortened / lengthened / junk, arrays with other row counts, files removed or emptied), then the judged '
        'convert(force=True), compared with the model of an export into a fresh directory; 14 forced instances run first.')
EXHAUSTIVE = {'quick': False, 'thorough': False}
CLAUSES = {
    1: 'observed output / source directory differs from the Coq model PV.C13.Model.convert (file set, dtypes, shapes, determined values); '
       'InBeyond / InCompress: the only code besides 20 and 28',
    20: 'conversion of a well-formed dense dataset (or the read-back of its output) failed',
    21: 'C13_rows: first dimension of every spikes.* / clusters.* / templates.* / channels.* file (and number of uuids)',
    22: 'C13_units: spikes.samples are the source samples, spikes.times = samples / sample_rate (seconds)',
    23: 'C13_label: label inserted before the extension of exactly the spikes/clusters/templates/channels files',
    24: 'C13_uuids: one identifier per cluster, pairwise distinct',
    25: 'C13_roundtrip: the output directory loads back to the same times, samples, clusters, templates, channel map, positions',
    26: 'C13_guard: writing into the source directory must be refused, nothing written',
    27: 'C13_frame: source files byte-identical except the deletion of temp_wh.dat; only the three subset files added '
        '(also judged, in its partial form, when a conversion to a fresh target raised)',
    28: 'C13_dtypes: spikes.clusters / spikes.templates stored as uint16 with unchanged ids (< 65536)',
}
TRUSTED = ['np.load/np.save, pathlib.glob/rename/resolve, shutil.copy, uuid.uuid4 (count and distinctness observed)',
           'the values of waveforms/amplitudes/depths/peak channels and the spike-subset files are oracles here (C14, C03, C17)',
           'PV.C04.Model.load as the model of the read-back; Coq primitive floats reproduce samples/rate',
           'for the datasets with cluster ids >= 65534 only: TemplateModel.clusters_channels / templates_channels computed once per '
           'model instead of at every access (harness/vt/props/c13.py:_memoised; files identical to the unpatched export, checked by hand); '
           'run-length printer of 65536-row tables (datasets_c13.coq_arr / PV.C13.Fast.rle)']
ASSUMES = ['source = dense KS/phy-named directory with amplitudes.npy, consistent shapes, no axis of length 1 other than the '
           '(n,1) vector layout, cluster/template ids < 65536, no clusters.channels.npy / clusters.peakToTrough.npy in the source',
           'probe tables with several probes have Merger-like channel maps (re-based raw indices non-negative); the channel-map '
           'round trip is claimed for single-probe datasets, for several probes the re-based rawInd is what loads back',
           'earlier spike-subset files are present only when there is no raw data (otherwise they are regenerated)',
           'fresh (non-existing or empty) output directory, or (stage 6) a directory holding an earlier UNLABELLED export of the same source '
           'directory (the source brought back to the modelled regime in between: subset files written by the earlier export removed) with '
           'force=True; re-export with a non-empty label is drawn only with VT_C13_LABEL_HISTORY=1 until the repair fix-c13-r5 of rename_with_label is on main (notes, stage 6)']
TIMEOUT = {'quick': 60, 'thorough': 120}

# spellings of the source directory as target (all must be refused) and of a fresh target (none may be refused)
SAME = ['same', 'same_pathobj', 'same_dot', 'same_slash', 'same_dotdot', 'same_sub_dotdot', 'same_sub_missing',
        'same_symlink', 'same_link_chain', 'same_parent_link', 'same_inner_link', 'same_rel', 'same_rel_dotdot', 'same_rel_dot']
FRESH_ALT = ['fresh_empty', 'fresh_symlink', 'fresh_dotdot', 'fresh_samename', 'fresh_rel', 'fresh_case']
# labels that collide with what the written names are made of: attribute names, object names, extensions, and
# prefixes / suffixes / dotted combinations of them ("inserted into EVERY file" must hold for these too)
LABELS_ATTR = ['templates', 'clusters', 'amps', 'times', 'samples', 'depths', 'channels', 'spikes', 'waveforms',
               'waveformsChannels', 'uuids', 'rawInd', 'localCoordinates', 'probes', 'peakToTrough', 'labels', 'shanks']
LABELS_ODD = ['npy', 'csv', 'temp', 'plates', 'amp', 's', 'spikes.times', 'times.npy', 'clusters.amps', 'amps.x', 'x.amps',
              'npy.npy', 'probe00.templates', 'templates.probe00', 'a.b']


# ---- generator ------------------------------------------------------------------------------------------

CORPUS = [
    # the configurations behind the defects seen on the unrepaired tree, and the boundary rules
    dict(curated='nogap', features='no', raw=False),                    # nan_idx empty (float array): IndexError
    dict(curated='nogap', features='all', raw=True, label='probe00'),
    dict(curated='ops', features='subset', raw=False),                  # get_depths() -> None: AttributeError
    dict(curated='no', features='subset', raw=True, label='probe00'),
    dict(curated='no', last_template_empty=True, raw=False),            # n_clusters vs n_templates (fix-c08 / fix-c09)
    dict(curated='no', last_template_empty=True, raw=True, factor=1),   # int factor + raw data (7bdfb3a)
    dict(curated='same_file', last_template_empty=True),
    dict(curated='no', other_template_empty='first', n_templates=4, raw=False), dict(curated='no', other_template_empty='middle', n_templates=4, raw=True),
    dict(curated='ops', other_template_empty='middle', n_templates=3, last_template_empty=True, label='probe00'),
    dict(curated='ops', big_ids=True, n_samples_wf=2, n_channels=3, n_spikes=9, raw=False, cluster_probes=False, cluster_shanks=False),
    dict(n_channels=13, raw=False, curated='no'), dict(n_channels=14, raw=True, curated='ops', label='probe00'),
    dict(n_channels=12, raw=False), dict(spike_attr=True, raw=True, label='probe00'), dict(spike_attr=True, vec2d=True, raw=False),
    dict(probes='two', cm_dtype='uint32', label='probe00'), dict(probes='three', cm_dtype='int32'),
    dict(probes='const1', cm_dtype='uint32'), dict(probes='two', vec2d=True, cm_dtype='int64', raw=True),
    dict(vec2d=True, cluster_probes=True, cluster_shanks=True, labels=True, drift=True, label='probe00'),
    dict(vec2d=False, cluster_probes=True, labels=True, drift=True, label=''),
    dict(temp_wh=True, raw=True, kslabel=True, group_tsv=True), dict(temp_wh=True, raw=False, old_subset=True),
    dict(params_py=False, raw=False, label='probe00'), dict(params_py=False, raw=True, label=''),
    dict(label='a.b', raw=False), dict(label='imec1', whitening='tri'),
    dict(target='same'), dict(target='same_dot'), dict(target='same_dotdot'), dict(target='same_symlink', temp_wh=True, raw=True),
    dict(target='same_rel'),
    # seeded change C13-m1 (guard on absolute() instead of resolve()): <src>/sub/.. and links, on directories where
    # a conversion that is NOT refused would visibly write (raw data: subset files; temp_wh.dat: deletion)
    dict(target='same_sub_dotdot', temp_wh=True, raw=True, label='probe00'), dict(target='same_sub_dotdot', raw=False, params_py=False),
    dict(target='same_symlink', raw=False, params_py=False), dict(target='same_dotdot', raw=False, params_py=False, temp_wh=True),
    dict(target='same_link_chain', params_py=False), dict(target='same_parent_link', temp_wh=True), dict(target='same_inner_link', params_py=False),
    dict(target='same_sub_missing'), dict(target='same_slash'), dict(target='same_pathobj'), dict(target='same_rel_dotdot', params_py=False),
    dict(target='same_rel_dot', label='probe00'),
    # ... and targets that only look like the source directory must NOT be refused
    dict(target='fresh_empty'), dict(target='fresh_symlink', label='probe00'), dict(target='fresh_dotdot', raw=True),
    dict(target='fresh_samename', label='probe00'), dict(target='fresh_rel', params_py=False), dict(target='fresh_case'),
]
# seeded change C13-m3 (files whose stem already ends with .<label> skipped): every colliding label once, on small
# directories, in the quick tier as well
CORPUS += [dict(label=L, raw=False, n_spikes=4, features='no', curated=c, cluster_probes=(i % 3 == 0), labels=(i % 4 == 0),
                kslabel=(i % 2 == 0))
           for i, (L, c) in enumerate(zip(LABELS_ATTR + LABELS_ODD, ['no', 'ops', 'same_file', 'nogap'] * 20))]

# stage 3: the uint16 boundary (cluster ids 65534 / 65535: inside the statement; 65536: one step outside, judged by model
# equality only), sparse template storage (outside the statement: the export raises), convert(force=True)
CORPUS_EDGE = [dict(big_top='edge', label='probe00', features='no'), dict(big_top='edge', label='', features='all', params_py=False)]
CORPUS_BEYOND = [dict(big_top='over', label='probe00', features='no'),
                 dict(sparse=True, curated='no'), dict(sparse=True, curated='ops', label='probe00'), dict(sparse=True, curated='same_file')]
CORPUS_FORCE = [dict(force=True, raw=False), dict(force=True, raw=True, temp_wh=True, label='probe00', old_subset=False),
                dict(force=True, raw=False, old_subset=True, drift=True, labels=True, cluster_probes=True, kslabel=True),
                dict(force=True, target='fresh_empty', vec2d=True), dict(force=True, target='same_dot')]
# stage 5 (seeded change C13-m11: FILE_DELETES as a glob pattern): bystander files close to temp_wh.dat / params.py /
# cluster_KSLabel.tsv / the raw-data names, with and without temp_wh.dat itself; raw data under a name close to temp_wh.dat
CORPUS_BYSTANDERS = [
    dict(bystanders='near_delete', temp_wh=True, raw=True, dat_name='temp_wh_session1', label='probe00'),
    dict(bystanders='near_delete', temp_wh=False, raw=False), dict(bystanders='near_delete', temp_wh=True, raw=False, params_py=False),
    dict(bystanders='near_copy', kslabel=True, raw=False, label='probe00'), dict(bystanders='near_copy', kslabel=False, params_py=False, raw=True),
    dict(bystanders='near_raw', raw=True, dat_name='near'), dict(bystanders='mixed', raw=True, dat_name='temp_wh', temp_wh=False),
    dict(bystanders='mixed', raw=True, dat_name='near', temp_wh=True, force=True), dict(bystanders='plain', raw=False, temp_wh=True),
    dict(bystanders='near_delete', target='same_dotdot', temp_wh=True), dict(bystanders='mixed', target='fresh_symlink', raw=True, dat_name='near'),
]
# stage 6 (seeded changes C13-m12 / C13-m13): a history of the output directory (an earlier export of the same source with the same
# or an earlier clustering, possibly damaged afterwards, then convert(force=True)); source files present as links into a store
CORPUS_HISTORY = [
    dict(history='recurate', curated='nogap', raw=False, label='', corrupt=[]), dict(history='recurate', curated='no', raw=True, label='', corrupt=[]),
    dict(history='recurate', curated='ops', raw=False, label='', temp_wh=True, kslabel=True, corrupt=['uuids_long']),
    dict(history='same', curated='ops', raw=True, label='', corrupt=['uuids_short']), dict(history='same', curated='no', label='', corrupt=['npy_rows', 'delete_some']),
    dict(history='recurate', curated='same_file', label='', vec2d=True, target='fresh_symlink', corrupt=['uuids_junk', 'empty_files']),
]
CORPUS_LABEL_HISTORY = [dict(history='same', label='probe00', raw=False, corrupt=[]), dict(history='recurate', label='probe00', raw=True, curated='nogap', corrupt=[]),
                        dict(history='recurate', label='templates', curated='ops', corrupt=['uuids_long']), dict(history='same', label='a.b', corrupt=['delete_some']),
                        dict(history='recurate', label='amps', curated='no', cluster_probes=True, labels=True, kslabel=True, corrupt=['npy_rows'])]
CORPUS_LINKS = [
    dict(links='clusters', link_kind='abs', curated='ops', raw=False, clu_dtype='int32', label='probe00'),
    dict(links='clusters', link_kind='rel', curated='same_file', vec2d=True, raw=True, label=''),
    dict(links='copied', link_kind='chain', curated='nogap', kslabel=True, cluster_probes=True, labels=True, drift=True),
    dict(links='all', link_kind='abs', curated='ops', raw=True, temp_wh=True, kslabel=True), dict(links='all', link_kind='hard', curated='ops', raw=False, temp_wh=True),
    dict(links='any', raw=True, dat_name='near', bystanders='mixed', temp_wh=True), dict(links='clusters', curated='ops', target='same_dotdot'),
    dict(links='clusters', curated='ops', history='recurate', label='', corrupt=[]),
]
COMPRESS = [dict(ids='edge', label='', missing='none'), dict(ids='edge', label='probe00', missing='none', vec2d=True),
            dict(ids='over', label='', missing='none'), dict(ids='over', label='probe00', missing='none'),
            dict(ids='neg', label='', missing='none'), dict(ids='small', label='templates', missing='none'),
            dict(ids='edge', label='clusters', missing='none'), dict(ids='edge', missing='templates'), dict(ids='edge', missing='clusters'),
            dict(ids='small', label='a.b', missing='none', decoys=True)]

AXES = [
    ('raw', [False, True]), ('features', ['no', 'all', 'subset']), ('curated', ['no', 'ops', 'nogap', 'same_file']),
    ('probes', ['none', 'const0', 'two', 'three']), ('vec2d', [False, True]), ('label', ['', 'probe00']),
    ('factor', [1, 2.5]), ('temp_wh', [False, True]), ('kslabel', [False, True]), ('params_py', [True, False]),
    ('last_template_empty', [False, True]),
]


def generate(tier, rng):
    cases = []
    reps = {'quick': 1, 'thorough': 6, 'search': 2}[tier]
    for force in CORPUS:
        for _ in range(reps):
            cases.append({'kind': 'convert', 'inp': D13.gen(rng, **force)})
    n_rand = {'quick': 60, 'thorough': 900, 'search': 200}[tier]
    # every pair of values of the main axes (random completion of the others)
    pairs = []
    for i, (a, va) in enumerate(AXES):
        for b, vb in AXES[i + 1:]:
            for x in va:
                for y in vb:
                    pairs.append({a: x, b: y})
    if tier == 'quick':
        # greedy cover: each generated case covers many pairs at once; keep drawing until all are covered
        todo = [tuple(sorted(p.items())) for p in pairs]
        todo_set = set(todo)
        guard = 0
        while todo_set and guard < 400:
            guard += 1
            want = dict(rng.choice(sorted(todo_set)))
            # complete with other still-needed values where possible
            for p in sorted(todo_set):
                d = dict(p)
                if all(want.get(k, v) == v for k, v in d.items()):
                    want.update(d)
            c = D13.gen(rng, **want)
            o = c['opts']
            covered = {p for p in todo_set if all(o.get(k) == v for k, v in p)}
            if covered:
                todo_set -= covered
                cases.append({'kind': 'convert', 'inp': c})
    else:
        for p in pairs:
            for _ in range(2 if tier == 'thorough' else 1):
                cases.append({'kind': 'convert', 'inp': D13.gen(rng, **p)})
    for _ in range(n_rand):
        force = {}
        u = rng.random()
        if u < 0.10:
            force['target'] = rng.choice(SAME)
        elif u < 0.15:
            force['target'] = rng.choice(FRESH_ALT)
        if rng.random() < 0.05:
            force['n_channels'] = rng.choice([12, 13, 14])
        if rng.random() < 0.15:
            force['label'] = rng.choice(LABELS_ATTR + LABELS_ODD)
        cases.append({'kind': 'convert', 'inp': D13.gen(rng, **force)})
    # ---- stage 3 additions: a separate random stream, so that the cases above are the ones of the earlier passes ----
    import random
    rng3 = random.Random('c13-stage3-%s' % tier)
    for c in cases:
        if c['inp']['target'] == 'fresh' and rng3.random() < 0.12:
            c['inp']['force'] = True
            c['inp']['opts']['force'] = True
    for force in CORPUS_FORCE:
        for _ in range(reps):
            cases.append({'kind': 'convert', 'inp': D13.gen(rng3, **force)})
    n_edge = {'quick': 1, 'thorough': 6, 'search': 1}[tier]
    for k in range(n_edge):
        cases.append({'kind': 'convert', 'inp': D13.gen(rng3, **CORPUS_EDGE[k % len(CORPUS_EDGE)])})
    for k, force in enumerate(CORPUS_BEYOND):
        for _ in range(1 if (tier != 'thorough' or 'big_top' in force) else 4):
            cases.append({'kind': 'beyond', 'inp': D13.gen(rng3, **force)})
    for force in COMPRESS:
        for _ in range(reps):
            cases.append({'kind': 'compress', 'inp': D13.gen_compress(rng3, **force)})
    for _ in range({'quick': 10, 'thorough': 150, 'search': 40}[tier]):
        cases.append({'kind': 'compress', 'inp': D13.gen_compress(rng3)})
    # ---- stage 5 additions (again a separate stream): the frame clause quantifies over EVERY pre-existing file of the source
    # directory, so a share of all the cases above gets bystander files whose names are close to the names the export deletes /
    # copies / reads, and raw-data files under other names than raw<j>.dat; forced instances run first ----
    rng5 = random.Random('c13-stage5-%s' % tier)
    for c in cases:
        if c['kind'] == 'compress':
            continue
        if rng5.random() < 0.45:
            D13.add_bystanders(c['inp'], rng5, rng5.choice(['mixed', 'mixed', 'near_delete', 'near_copy', 'near_raw', 'plain']))
        if c['inp']['ds'].get('raw') and rng5.random() < 0.4:
            D13.set_dat_names(c['inp'], rng5, rng5.choice(['near', 'near', 'near', 'temp_wh']))
    first = []
    for force in CORPUS_BYSTANDERS:
        for _ in range(reps):
            first.append({'kind': 'convert', 'inp': D13.gen(rng5, **force)})
    # ---- stage 6 additions (a separate stream once more): the ENVIRONMENT of the source files (any regular file of the source
    # may be a symbolic / hard link into a store outside the directory) and the HISTORY of the output directory (an earlier
    # export of the same directory, with the same or an earlier clustering, possibly damaged, then convert(force=True)) ----
    rng6 = random.Random('c13-stage6-%s' % tier)
    for c in first + cases:
        if c['kind'] != 'convert':
            continue
        if rng6.random() < 0.15:
            D13.set_links(c['inp'], rng6, rng6.choice(['clusters', 'clusters', 'copied', 'any', 'any', 'all']))
        if c['inp']['target'].startswith('fresh') and (D13.LABEL_HISTORY or not c['inp']['label']) and rng6.random() < 0.3:
            D13.set_history(c['inp'], rng6, rng6.choice(['same', 'recurate', 'recurate']))
    first6 = []
    for force in CORPUS_HISTORY[:2] + CORPUS_LINKS[:2] + CORPUS_HISTORY[2:] + CORPUS_LINKS[2:] + (CORPUS_LABEL_HISTORY if D13.LABEL_HISTORY else []):
        for _ in range(reps):
            first6.append({'kind': 'convert', 'inp': D13.gen(rng6, **force)})
    return first6 + first + cases


# ---- implementation ------------------------------------------------------------------------------------

def _ta(x):
    return D.tok_array(x)


def _place_target(t, d, src):
    """(path handed to convert(), directory in which a completed export is to be found).  Spellings of the SOURCE
    directory (same*) and of a fresh target (fresh*).  Entries that a spelling needs inside the source directory
    (same_sub_dotdot, same_inner_link) are created by _prepare_source BEFORE the source is loaded and recorded."""
    out = os.path.join(d, 'out')
    if t == 'fresh':
        return out, out
    if t == 'fresh_empty':                     # an existing, empty directory
        os.mkdir(out)
        return out, out
    if t == 'fresh_symlink':                   # a link to an empty directory elsewhere
        os.mkdir(os.path.join(d, 'realout'))
        os.symlink(os.path.join(d, 'realout'), out)
        return out, out
    if t == 'fresh_dotdot':                    # passes through the source directory, ends elsewhere
        return os.path.join(src, '..', 'out'), out
    if t == 'fresh_samename':                  # same last component as the source, another directory
        os.mkdir(os.path.join(d, 'other'))
        return os.path.join(d, 'other', 'src'), os.path.join(d, 'other', 'src')
    if t == 'fresh_rel':
        os.chdir(d)
        return 'out', out
    if t == 'fresh_case':                      # differs from the source directory in letter case only
        return os.path.join(d, 'SRC'), os.path.join(d, 'SRC')
    if t == 'same':
        return src, src
    if t == 'same_pathobj':
        from pathlib import Path
        return Path(src), src
    if t == 'same_dot':
        return src + os.sep + '.', src
    if t == 'same_slash':
        return src + os.sep, src
    if t == 'same_dotdot':
        os.mkdir(os.path.join(d, 'other'))
        return os.path.join(d, 'other', '..', 'src'), src
    if t == 'same_sub_dotdot':                 # <src>/sub/.. with an existing sub-directory
        return os.path.join(src, 'sub', '..'), src
    if t == 'same_sub_missing':                # <src>/nosuch/.. (Path.resolve() is not strict)
        return os.path.join(src, 'nosuch', '..'), src
    if t == 'same_symlink':
        os.symlink(src, os.path.join(d, 'link'))
        return os.path.join(d, 'link'), src
    if t == 'same_link_chain':                 # link2 -> link -> src, link2 relative
        os.symlink(src, os.path.join(d, 'link'))
        os.symlink('link', os.path.join(d, 'link2'))
        return os.path.join(d, 'link2'), src
    if t == 'same_parent_link':                # a link to the PARENT directory, then /src
        os.symlink(d, os.path.join(d, 'up'))
        return os.path.join(d, 'up', 'src'), src
    if t == 'same_inner_link':                 # <src>/self -> .
        return os.path.join(src, 'self'), src
    if t == 'same_rel':
        os.chdir(d)
        return 'src', src
    if t == 'same_rel_dotdot':
        os.chdir(src)
        return os.path.join('..', 'src'), src
    if t == 'same_rel_dot':
        os.chdir(src)
        return '.', src
    raise ValueError(t)


def _prepare_source(t, src):
    if t == 'same_sub_dotdot':
        os.mkdir(os.path.join(src, 'sub'))
    elif t == 'same_inner_link':
        os.symlink('.', os.path.join(src, 'self'))


def _memoised(cls, names):
    """The peak-channel properties of TemplateModel are pure but recomputed from the whole waveform table at every
    access; alf.py reads them inside its per-cluster loop, so one export with 65536 cluster ids takes > 11 minutes
    (measured 674 s and 744 s; 3.8 s with the value computed once -- the 18 written arrays are identical, checked by
    hand).  For the two boundary datasets only, each property is computed once per model and a COPY is handed out at
    every access.  Returns the undo function."""
    saved = {n: cls.__dict__[n] for n in names}
    cache = {}

    def memo(name, orig):
        def get(self):
            k = (name, id(self))
            if k not in cache:
                cache[k] = orig.fget(self)
            return cache[k].copy()
        return property(get)
    for n in names:
        setattr(cls, n, memo(n, saved[n]))

    def undo():
        for n in names:
            setattr(cls, n, saved[n])
    return undo


def run_compress(case):
    import numpy as np
    from pathlib import Path
    from phylib.io.alf import EphysAlfCreator
    d = os.path.realpath(tempfile.mkdtemp(prefix='c13z_', dir=os.environ.get('VT_WORK') or None))
    try:
        for name, spec in case['inp']['files'].items():
            np.save(os.path.join(d, name), D.spec_to_np(spec))
        before, _, _ = D13.snapshot(d)
        c = EphysAlfCreator.__new__(EphysAlfCreator)         # no model needed: the method only uses out_path
        c.out_path = Path(d)
        try:
            c.compress_spikes_dtypes()
            outcome, info = 'compressed', ''
        except StopIteration:
            outcome, info = 'stop', ''
        except Exception as e:  # noqa
            outcome, info = 'crash', '%s: %s' % (type(e).__name__, str(e)[:160])
        after, other, _ = D13.snapshot(d)
        if other:
            outcome, info = 'crash', 'non-array files appeared: %r' % sorted(other)
        return ('c13z', {'outcome': outcome, 'info': info, 'before': sorted(before.items()), 'after': sorted(after.items())})
    finally:
        shutil.rmtree(d, ignore_errors=True)


def run_case(case):
    import numpy as np
    if case['kind'] == 'compress':
        return run_compress(case)
    from phylib.io.model import TemplateModel
    from phylib.io.alf import EphysAlfCreator
    inp = case['inp']
    ds = inp['ds']
    undo = (_memoised(TemplateModel, ['clusters_channels', 'templates_channels'])
            if inp['opts'].get('big_top', 'no') != 'no' else (lambda: None))
    d = tempfile.mkdtemp(prefix='c13_', dir=os.environ.get('VT_WORK') or None)
    d = os.path.realpath(d)
    cwd = os.getcwd()
    m = m2 = None
    try:
        src = os.path.join(d, 'src')
        kw = D13.rename_raw(inp, src, D.materialise(ds, src))
        if not inp['params_py']:
            os.remove(os.path.join(src, 'params.py'))
        t = inp['target']
        fresh = t.startswith('fresh')
        _prepare_source(t, src)
        # stage 6: the earlier part of the history of the output directory (performed before the source is looked at), then the
        # source files that are links into <d>/store
        placed = None
        hist_fail = ''
        if inp.get('history'):
            placed = _place_target(t, d, src)
            hist_fail = D13.run_history(inp, src, kw, placed[0], placed[1])
        D13.apply_links(inp, d, src)
        # a crash of the source load is reported by the pool as a crash of the case: encode() then falls back on
        # the static file list, which Corr.norm_src completes with what the loader model says the load creates
        m = TemplateModel(**kw)
        has_raw = m.traces is not None
        npy0, other0, hashes0 = D13.snapshot(src)
        target, out = placed or _place_target(t, d, src)
        top0 = sorted(os.listdir(d))
        outcome, info = 'converted', ''
        try:
            if hist_fail:
                raise RuntimeError('history: ' + hist_fail)
            m2 = EphysAlfCreator(m).convert(target, force=inp.get('force', False), label=inp['label'], ampfactor=inp['factor'])
        except IOError as e:
            if 'cannot be the same' in str(e):
                outcome = 'refused'
            else:
                outcome, info = 'crash', '%s: %s' % (type(e).__name__, str(e)[:160])
        except Exception as e:  # noqa
            import traceback
            fr = traceback.extract_tb(e.__traceback__)[-1]
            outcome, info = 'crash', '%s: %s @ %s:%d' % (type(e).__name__, str(e)[:160], os.path.basename(fr.filename), fr.lineno)
        os.chdir(cwd)
        # what happened to the source directory, whatever the outcome
        npy1, other1, hashes1 = D13.snapshot(src, load=False)
        obs = {'outcome': outcome, 'info': info, 'has_raw': has_raw, 'src_npy': sorted(npy0.items())}
        obs['changed'] = sorted(k for k in hashes0 if k in hashes1 and hashes1[k] != hashes0[k])
        obs['deleted'] = sorted(k for k in hashes0 if k not in hashes1)
        obs['new_names'] = sorted(k for k in hashes1 if k not in hashes0)
        shas = set(other0.values())
        nothing_touched = hashes1 == hashes0 and sorted(os.listdir(d)) == top0
        if outcome == 'refused':
            obs['untouched'] = nothing_touched
        elif not fresh and outcome == 'crash' and nothing_touched:
            # the source directory was the target and convert() raised without having touched anything: a refusal,
            # whatever the exception class / message (the statement does not fix them)
            obs['outcome'], obs['untouched'] = 'refused', True
        elif not fresh:
            # the source directory was named as the target and convert() went on (it completed, or raised after
            # having written): no separate output directory to look at
            obs['outcome'], obs['info'] = 'notrefused', (info or 'convert() returned')
        out_npy, out_other = {}, {}
        if obs['outcome'] == 'converted':
            try:
                out_npy, out_other, _ = D13.snapshot(out)
                npy1, other1, hashes1 = D13.snapshot(src)
            except Exception as e:  # noqa
                obs['outcome'], obs['info'] = 'crash', 'reading the directories after convert(): %s: %s' % (type(e).__name__, str(e)[:160])
            # an exported file that is a link (into the source's store, or anywhere) is not a written file of its own: it is
            # shown to the comparator as a non-array file of unknown content, whatever it points to
            for k in sorted(os.listdir(out)) if os.path.isdir(out) else []:
                if os.path.islink(os.path.join(out, k)):
                    out_npy.pop(k, None)
                    out_other[k] = 'LINK:' + k
            shas |= set(out_other.values())
        ids = {h: i for i, h in enumerate(sorted(shas))}
        obs['src_others'] = sorted((k, ids[v]) for k, v in other0.items())
        if obs['outcome'] == 'converted':
            txt = []
            for k, v in sorted(out_other.items()):
                if k.startswith('clusters.uuids'):
                    u = D13.parse_uuids(os.path.join(out, k))
                    txt.append((k, ('uuids', u) if u is not None else ('copy', -2)))
                else:
                    txt.append((k, ('copy', ids[v])))
            obs['out_npy'] = sorted(out_npy.items())
            obs['out_txt'] = txt
            obs['new'] = sorted((k, v) for k, v in npy1.items() if k not in hashes0)
            obs['new_other'] = sorted(k for k in other1 if k not in hashes0)
            if m2 is None:
                # no params.py was copied: convert() returned nothing, read the directory back by hand
                try:
                    m2 = TemplateModel(dir_path=out, sample_rate=kw['sample_rate'], n_channels_dat=kw['n_channels_dat'],
                                       dtype=kw['dtype'], offset=kw['offset'])
                except Exception as e:  # noqa
                    obs['outcome'], obs['info'] = 'crash', 'read-back %s: %s' % (type(e).__name__, str(e)[:160])
                    return ('c13', obs)
            obs['rl'] = {'samples': _ta(m2.spike_samples), 'times': _ta(m2.spike_times), 'sclusters': _ta(m2.spike_clusters),
                         'stemplates': _ta(m2.spike_templates), 'cmap': _ta(m2.channel_mapping), 'pos': _ta(m2.channel_positions)}
        return ('c13', obs)
    finally:
        undo()
        os.chdir(cwd)
        for x in (m2, m):
            try:
                if x is not None:
                    x.close()
            except Exception:  # noqa
                pass
        shutil.rmtree(d, ignore_errors=True)


# ---- encoding -------------------------------------------------------------------------------------------

def _files(l):
    return q.lst(l, lambda kv: '(%s, %s)' % (q.s(kv[0]), D13.coq_arr(kv[1])))


def _text(t):
    if t[0] == 'uuids':
        if len(t[1]) > 4096 and t[1] == list(range(len(t[1]))):
            return '(TUuids (zrange %d))' % len(t[1])            # 65536 distinct identifiers
        return '(TUuids %s)' % q.zl(t[1])
    return '(TCopy %s)' % q.z(t[1])


def encode(case, obs):
    if case['kind'] == 'compress':
        if obs[0] != 'c13z':
            files = sorted((name, D.spec_to_tokarr(spec)) for name, spec in case['inp']['files'].items())
            return '(InCompress %s)' % _files(files), 'ObsCrash'
        o = obs[1]
        cin = '(InCompress %s)' % _files(o['before'])
        if o['outcome'] == 'stop':
            return cin, '(ObsStop %s)' % _files(o['after'])
        if o['outcome'] == 'crash':
            return cin, 'ObsCrash'
        return cin, '(ObsCompressed %s)' % _files(o['after'])
    inp = case['inp']
    ds = inp['ds']
    ctor = 'InBeyond' if case['kind'] == 'beyond' else 'InConvert'
    same = not inp['target'].startswith('fresh')
    rate = D.coq_tok(D.tok(float(ds['params']['sample_rate'])))
    ncd = q.opt(ds['params'].get('n_channels_dat'))
    if obs[0] != 'c13':
        # the source directory could not even be loaded (or the harness failed): no snapshot.  The static
        # file list lacks the files loading creates, so the comparator answers 3 (machinery, not a verdict).
        files = sorted((name, D.spec_to_tokarr(spec)) for name, spec in ds['files'].items())
        others = sorted((k, i) for i, k in enumerate(sorted(list(ds.get('text', {})) + list(ds.get('bin', {})))))
        cin = '(' + ctor + ' (mkinp %s %s %s %s %s %s %s))' % (
            _files(files), q.lst(others, lambda kv: '(%s, %s)' % (q.s(kv[0]), q.z(kv[1]))), rate, ncd,
            q.b(bool(ds.get('raw'))), q.b(same), q.s(inp['label']))
        return cin, 'ObsCrash'
    o = obs[1]
    cin = '(' + ctor + ' (mkinp %s %s %s %s %s %s %s))' % (
        _files(o['src_npy']), q.lst(o['src_others'], lambda kv: '(%s, %s)' % (q.s(kv[0]), q.z(kv[1]))), rate, ncd,
        q.b(o['has_raw']), q.b(same), q.s(inp['label']))
    if o['outcome'] == 'crash':
        if not same and 'changed' in o:
            # a fresh target and convert() raised: the frame of the source is still judged (Corr.frame_partial_b)
            return cin, '(ObsCrashed %s %s %s)' % (q.lst(o['changed'], q.s), q.lst(o['deleted'], q.s), q.lst(o['new_names'], q.s))
        return cin, 'ObsCrash'
    if o['outcome'] == 'refused':
        return cin, '(ObsRefused %s)' % q.b(o['untouched'])
    if o['outcome'] == 'notrefused':
        return cin, '(ObsNotRefused %s %s %s)' % (q.lst(o['changed'], q.s), q.lst(o['deleted'], q.s), q.lst(o['new_names'], q.s))
    r = o['rl']
    A = D.coq_arr
    rl = '(mkrl %s %s %s %s %s %s)' % (A(r['samples']), A(r['times']), A(r['sclusters']), A(r['stemplates']),
                                       A(r['cmap']), A(r['pos']))
    cobs = '(ObsConverted (mkobs %s %s %s %s %s %s %s))' % (
        _files(o['out_npy']), q.lst(o['out_txt'], lambda kv: '(%s, %s)' % (q.s(kv[0]), _text(kv[1]))),
        q.lst(o['changed'], q.s), q.lst(o['deleted'], q.s), _files(o['new']), q.lst(o['new_other'], q.s), rl)
    return cin, cobs


def nontrivial(case, obs):
    if case['kind'] == 'compress':
        return obs[0] == 'c13z' and obs[1]['outcome'] in ('compressed', 'stop')
    if case['kind'] == 'beyond':
        return obs[0] == 'c13'
    return obs[0] == 'c13' and obs[1]['outcome'] in ('converted', 'refused')


def dist(case, obs):
    o = case['inp']['opts']
    if case['kind'] == 'compress':
        return ['kind=compress', 'outcome=' + (obs[1]['outcome'] if obs[0] == 'c13z' else 'harness-crash')] + [
            'compress.%s=%s' % (k, o[k]) for k in ('ids', 'label', 'missing', 'vec2d', 'decoys')]
    if obs[0] != 'c13':
        out = ['outcome=harness-crash:%s' % (obs[1] if len(obs) > 1 else '')]
    else:
        out = ['outcome=' + obs[1]['outcome'] + ((':' + obs[1]['info'].split(':')[0]) if obs[1]['outcome'] == 'crash' else '')]
    for k in ('raw', 'features', 'curated', 'probes', 'vec2d', 'label', 'factor', 'temp_wh', 'kslabel', 'params_py',
              'last_template_empty', 'other_template_empty', 'target', 'id_dtype', 'clu_dtype', 'cm_dtype', 'time_dtype', 'old_subset',
              'cluster_probes', 'drift', 'labels', 'big_ids', 'big_top', 'sparse', 'force', 'bystanders', 'dat_name', 'links', 'history', 'corrupt'):
        out.append('%s=%s' % (k, o.get(k)))
    out.append('n_bystanders=%d' % len(o.get('bystander_names', [])))
    for k in sorted(set((case['inp'].get('links') or {}).values())):
        out.append('link_kind=' + k)
    out.append('n_links=%d' % min(len(case['inp'].get('links') or {}), 5))
    if 'temp_wh.dat' in o.get('dat_names', []):
        out.append('raw data = temp_wh.dat')
    out.append('kind=' + case['kind'])
    out.append('n_channels=%s' % ('<12' if o['n_channels'] < 12 else '12' if o['n_channels'] == 12 else '>12'))
    out.append('n_spikes=%d' % o['n_spikes'])
    if obs[0] == 'c13' and obs[1]['outcome'] == 'converted':
        out.append('n_out_files=%d' % (len(obs[1]['out_npy']) + len(obs[1]['out_txt'])))
    return out


def size(case):
    if case['kind'] == 'compress':
        return sum(len(f['data']) + 20 for f in case['inp']['files'].values())
    ds = case['inp']['ds']
    return sum(len(f['data']) for f in ds['files'].values()) + 50 * len(ds['files']) + (200 if ds.get('raw') else 0)


OPTIONAL = ['spike_quality.npy', 'channel_shanks.npy', 'channel_probe.npy', 'similar_templates.npy', 'whitening_mat.npy', 'channel_labels.npy',
            'cluster_probes.npy', 'cluster_shanks.npy', 'drift.times.npy', 'drift.um.npy', 'drift_depths.um.npy',
            '_phy_spikes_subset.spikes.npy', '_phy_spikes_subset.channels.npy', '_phy_spikes_subset.waveforms.npy']
GROUPS = [['pc_features.npy', 'pc_feature_ind.npy', 'pc_feature_spike_ids.npy'],
          ['template_features.npy', 'template_feature_ind.npy', 'template_feature_spike_ids.npy']]


def shrink(case):
    inp = case['inp']
    if case['kind'] == 'compress':
        for name in sorted(inp['files']):
            if not (name.startswith('spikes.templates.') or name.startswith('spikes.clusters.')):
                c = copy.deepcopy(inp)
                c['files'].pop(name)
                yield {'kind': 'compress', 'inp': c}
        for name, f in sorted(inp['files'].items()):
            if len(f['data']) > 2 and f['shape'][0] == len(f['data']):
                c = copy.deepcopy(inp)
                c['files'][name]['data'] = f['data'][:1] + f['data'][-1:]
                c['files'][name]['shape'] = [2] + f['shape'][1:]
                yield {'kind': 'compress', 'inp': c}
        return
    ds = inp['ds']

    def variant(f):
        c = copy.deepcopy(inp)
        f(c)
        return {'kind': case['kind'], 'inp': c}
    if inp.get('history'):
        yield variant(lambda c: [c.pop('history'), c.__setitem__('force', False)])
        if inp['history']['corrupt']:
            yield variant(lambda c: c['history'].__setitem__('corrupt', []))
        if inp['history']['pre_clusters'] != 'keep':
            yield variant(lambda c: c['history'].__setitem__('pre_clusters', 'keep'))
    if inp.get('links'):
        yield variant(lambda c: c.pop('links'))
        if len(inp['links']) > 1:
            for name in sorted(inp['links']):
                yield variant(lambda c, name=name: c['links'].pop(name))
    if inp.get('force') and not inp.get('history'):
        yield variant(lambda c: c.__setitem__('force', False))
    if inp['label']:
        yield variant(lambda c: c.__setitem__('label', ''))
    if inp['factor'] != 1:
        yield variant(lambda c: c.__setitem__('factor', 1))
    if ds.get('raw'):
        def noraw(c):
            c['ds']['raw'] = None
            c['ds']['params']['dtype'] = 'int16'
            c['ds']['params']['offset'] = 0
        yield variant(noraw)
    for g in GROUPS:
        if g[0] in ds['files']:
            yield variant(lambda c, g=g: [c['ds']['files'].pop(n, None) for n in g])
    for name in OPTIONAL:
        if name in ds['files'] and not (name == 'channel_probe.npy' and inp['opts'].get('probes') in ('two', 'three')):
            yield variant(lambda c, name=name: c['ds']['files'].pop(name))
    for name in list(ds.get('text', {})):
        yield variant(lambda c, name=name: c['ds']['text'].pop(name))
    if ds.get('bin'):
        yield variant(lambda c: c['ds'].__setitem__('bin', {}))
        if len(ds['bin']) > 1:
            for name in list(ds['bin']):
                yield variant(lambda c, name=name: c['ds']['bin'].pop(name))
    if inp.get('dat_names'):
        yield variant(lambda c: c.pop('dat_names'))
    if not inp['params_py']:
        yield variant(lambda c: c.__setitem__('params_py', True))
    # un-curate
    if 'spike_clusters.npy' in ds['files']:
        yield variant(lambda c: [c['ds']['files'].pop('spike_clusters.npy'), c['ds']['files'].pop('cluster_probes.npy', None),
                                 c['ds']['files'].pop('cluster_shanks.npy', None)])


def repro(case):
    if case['kind'] == 'compress':
        return ("import sys, os, tempfile; sys.path[:0] = ['/verif/harness', os.environ.get('PHYLIB_REPO', '/repo')]\n"
                "from vt import npshim, datasets as D; npshim.setup_process()\n"
                "import numpy as np\nfrom pathlib import Path\nfrom phylib.io.alf import EphysAlfCreator\n"
                "files = %r\n"
                "d = tempfile.mkdtemp()\n"
                "for k, spec in files.items(): np.save(os.path.join(d, k), D.spec_to_np(spec))\n"
                "c = EphysAlfCreator.__new__(EphysAlfCreator); c.out_path = Path(d)\n"
                "try:\n    c.compress_spikes_dtypes()\nexcept StopIteration: print('StopIteration')\n"
                "for k in sorted(os.listdir(d)):\n    a = np.load(os.path.join(d, k)); print(k, a.dtype, a.shape, a.ravel(), ' was', files[k]['dtype'], files[k]['data'])\n"
                % (case['inp']['files'],))
    return ("import sys, os, tempfile; sys.path[:0] = ['/verif/harness', os.environ.get('PHYLIB_REPO', '/repo')]\n"
            "from vt import npshim, datasets as D; npshim.setup_process()\n"
            "import numpy as np\n"
            "from vt.props import c13\n"
            "from phylib.io.model import TemplateModel\nfrom phylib.io.alf import EphysAlfCreator\n"
            "inp = %r\n"
            "d = os.path.realpath(tempfile.mkdtemp()); src = os.path.join(d, 'src'); kw = D.materialise(inp['ds'], src)\n"
            "from vt import datasets_c13 as D13; kw = D13.rename_raw(inp, src, kw)    # the raw-data files under the names inp['dat_names'], if any\n"
            "if not inp['params_py']: os.remove(os.path.join(src, 'params.py'))\n"
            "c13._prepare_source(inp['target'], src)        # <src>/sub or <src>/self for those spellings of the target\n"
            "cwd = os.getcwd(); placed = None\n"
            "if inp.get('history'):      # an earlier convert() of (the earlier state of) src into the same target, then damage inp['history']['corrupt']\n"
            "    placed = c13._place_target(inp['target'], d, src); print('history:', D13.run_history(inp, src, kw, placed[0], placed[1]) or 'earlier export done')\n"
            "D13.apply_links(inp, d, src)   # the files named in inp.get('links') moved to <d>/store, links left in src\n"
            "m = TemplateModel(**kw); before = D.listing(src)\n"
            "target, out = placed or c13._place_target(inp['target'], d, src)   # the path given to convert(), where the export is found\n"
            "print('convert(', repr(target), ') of', src)\n"
            "try:\n"
            "    m2 = EphysAlfCreator(m).convert(target, force=inp.get('force', False), label=inp['label'], ampfactor=inp['factor'])\n"
            "except Exception as e:\n"
            "    m2 = None; print('convert raised', type(e).__name__, e)\n"
            "os.chdir(cwd); after = D.listing(src)\n"
            "print('source: changed', [k for k in before if k in after and after[k] != before[k]], 'deleted', sorted(set(before) - set(after)), 'new', sorted(set(after) - set(before)))\n"
            "for k in (sorted(os.listdir(out)) if out != src and os.path.isdir(out) else []):\n"
            "    print(k, (lambda a: (a.dtype, a.shape))(np.load(os.path.join(out, k))) if k.endswith('.npy') else '', 'LINK' if os.path.islink(os.path.join(out, k)) else '')\n"
            "if os.path.exists(os.path.join(out, 'clusters.uuids.csv')): print('uuids:', len(open(os.path.join(out, 'clusters.uuids.csv')).read().split(chr(10))) - 1)\n"
            "print('source ', m.spike_samples, m.spike_times, m.spike_clusters, m.spike_templates, m.channel_mapping)\n"
            "if m2 is not None: print('reload ', m2.spike_samples, m2.spike_times, m2.spike_clusters, m2.spike_templates, m2.channel_mapping)\n"
            % (case['inp'],))
