"""C11 -- merging probes conserves every spike and renumbers ids disjointly (DESIGN.md §8 C11).

Real code: phylib.io.merge.Merger(...).merge() on generated KiloSort-style probe directories
(harness/vt/datasets_c11.py).  Observed: the written per-spike files, cluster_probes.npy, the merger's
cluster/template offsets, the written cluster_*.tsv files, the arrays and metadata of the returned TemplateModel,
SHA-256 of every input file before/after, the merged templates.npy (cross-property clause 29: the merged
spike_templates index the rows of the merged templates.npy), and the integer dtypes of the merged spike_times /
spike_clusters / spike_templates files (clause 30: nothing wrapped around)."""
import copy
import itertools
import os
import shutil
import tempfile

from .. import coqenc as q
from .. import datasets as D
from .. import datasets_c11 as D11

ID = 'C11'
RULE = ('merges of generated probe directories: corpus (probe with exactly one spike, id dtypes differing between probes, '
        'heavy ties, gaps, curated clusters, TSV present in all/some/none, a probe without spikes, a non-last / middle / last '
        'probe whose trailing templates have no spike, unused middle templates, a probe whose spikes name a template beyond '
        'its templates.npy, cluster_*.tsv rows for cluster ids above the probe\'s largest spike cluster id in a non-last / '
        'last / every probe with the next probe having or lacking the file, uint16 / int32 / uint32 ids of two and three '
        'probes whose merged id range ends exactly at, one below and above 65535 (clusters and templates), first probe '
        'with a narrower id or time dtype than a later one), then EVERY pair of '
        'non-decreasing time vectors of 1..3 spikes over 3 time values (2 probes; thorough: also 3 probes of 1..2 spikes '
        'and 2 probes of up to 4 spikes) with pseudo-random ids, then seeded random merges of 1..4 probes x 1..30 spikes '
        '(ties inside and across probes, id gaps, curated clusters, time/id/amplitude dtypes, (n,1) vectors, TSV files in '
        'all/some/none, unsorted probe, 0..2 trailing templates without spikes in any probe). On half of the generated merges '
        '(and 9 corpus cases that run first) the CALLER\'s side is drawn too: directory names from 8 pools (imec<n>, probe<n> '
        'with text order != numeric order, nested <x>/ks of equal base name, mixed case, digits) passed in text-sorted, '
        'text-reversed or arbitrary order, as str / Path / relative path / trailing separator / tuple, output directory '
        'default / named before-between-after the probes / nested / already existing, explicit probe_info or the default '
        'labels (probes.description.tsv row k = k-th directory of the caller\'s list: judged by the harness on a third of them). '
        'On a quarter of the generated merges (and 8 corpus cases that run first) the HISTORY of the Merger object is drawn: '
        '1..2 earlier merge() calls ON THE SAME OBJECT (a fifth: a fresh object per merge in the same process) over earlier '
        'contents of the same directories (unchanged / re-curated: clusters split or merged, i.e. another number of cluster ids, '
        'with their TSV rows / another recording: other spike, template and cluster counts), output directory kept (TSV files of '
        'the earlier stage among those present now) or emptied in between; the observed merge is the last one and is judged '
        'against the model of the present contents alone. Non-trivial = the merge completes with >= 2 probes and at least one time shared by '
        'two probes or one TSV file present; distinct = distinct abstract input.')
EXHAUSTIVE = {'quick': True, 'thorough': True}
CLAUSES = {
    1: 'observed output differs from the Coq model PV.C11.Model.merge',
    21: 'C11_permutation: merged spike times are not exactly the input spikes (each once)',
    22: 'C11_sorted_stable: times non-decreasing, order kept within a probe, equal times ordered by probe',
    23: 'C11_payload: each spike keeps its time and amplitude; cluster/template id = original + offset of its probe',
    24: 'C11_disjoint: id intervals of different probes are disjoint (clusters and templates)',
    25: 'C11_cluster_probes: cluster_probes[id + offset_k] = k',
    26: 'C11_metadata: renumbered TSV maps id + offset -> value (files present in all/some/none of the probes)',
    27: 'the TemplateModel returned by merge() equals the written files',
    28: 'input directories byte-identical after the merge (observed by SHA-256, not proved)',
    29: 'C12_spike_template_rows (link C11 x C12): row spike_templates[i] of the merged templates.npy is the template the '
        'spike named in its own probe, on that probe\'s channel block',
    30: 'C11_no_wrap: the integer dtypes of the merged spike_times / spike_clusters / spike_templates files hold the largest '
        'input time / merged cluster id / merged template id',
}
TRUSTED = ['np.load/np.save/np.concatenate/np.argsort(kind="stable")/fancy indexing, csv reader/writer, read_python/write_python',
           "C12's functions (write_channel_data .. write_misc, write_params) run inside merge() on fixed harmless "
           'channel/template content and are not judged here',
           'phylib.io.model.TemplateModel loading of the merged directory (judged by C04)']
ASSUMES = ['every probe has >= 1 spike (np.max of an empty id array raises: modelled as an error exit) and the merged dataset '
           '>= 2 spikes (TemplateModel squeezes a one-spike dataset)',
           'ids >= 0 and times >= 0, below 2^63; every input value fits the dtype of its own file (np.concatenate of mixed '
           'uint64/int64 arrays passes through float64: exact below 2^53)',
           'every spike names one of the templates of its probe (template id < rows of templates.npy); inputs violating it '
           'are compared with the model only (the merge goes through with colliding template ids: C11_template_count_needed)',
           'metadata ids >= 0 (a row for an id that no spike carries is a cluster of the probe: fix-c11c)',
           'metadata values are canonical text (no quoting, numbers in repr form)',
           'generated inputs avoid C12 triggers: int32 channel map / index tables, 2 channels, >= 2 templates per probe']
TIMEOUT = {'quick': 30, 'thorough': 60}

TIME_DT = ['uint64', 'int64', 'int32', 'uint32']
ID_DT = ['uint32', 'int32', 'int64', 'uint16']
AMP_DT = ['float64', 'float32']
META = list(D11.META_FILES)
FIELDS = {'cluster_Amplitude.tsv': 'Amplitude', 'cluster_ContamPct.tsv': 'ContamPct', 'cluster_KSLabel.tsv': 'KSLabel'}
VALUES = {'cluster_Amplitude.tsv': ['2.5', '7', '10.25', '0.5', '100'], 'cluster_ContamPct.tsv': ['0', '12.5', '3', '100.0'],
          'cluster_KSLabel.tsv': ['good', 'mua', 'noise']}


# ---- generator -------------------------------------------------------------------------------------------

def _probe(times, rng, **o):
    n = len(times)
    nt = o.get('nt', rng.randint(1, 4))
    gap = o.get('gap', rng.random() < 0.4)
    ids = rng.sample(range(0, nt * 3 + 1), nt) if gap else list(range(nt))
    tmpl = [rng.choice(ids) for _ in range(n)]
    if o.get('curated', rng.random() < 0.4) and n:
        new = max(tmpl) + 1
        clu = [(new + rng.randint(0, 2)) if rng.random() < 0.4 else c for c in tmpl]
    else:
        clu = list(tmpl)
    p = {'times': list(times), 'amps': [rng.randint(1, 40) / 4 for _ in range(n)], 'tmpl': tmpl, 'clu': clu,
         'tdt': o.get('tdt', 'uint64'), 'adt': o.get('adt', 'float64'), 'idt': o.get('idt', 'uint32'),
         'cdt': o.get('cdt', o.get('idt', 'uint32')), 'vec2d': o.get('vec2d', False),
         'extra_t': o.get('extra_t', rng.choice([0, 0, 0, 1, 2])),
         'meta': {}}
    return p


def _add_meta(p, rng, names, wild=False):
    if not p['clu']:
        return
    mx = max(p['clu'])
    for name in names:
        # clusters without spikes above the largest spike cluster id (KiloSort lists every template in its TSV files)
        above = rng.choice([0, 0, 0, 1, 2, 3])
        ids = [c for c in range(mx + 1 + above) if rng.random() < 0.6]
        if wild and ids and rng.random() < 0.3:
            ids.append(rng.choice(ids))                # duplicate id: the last row wins
        rng.shuffle(ids)
        fld = FIELDS[name]
        if wild and rng.random() < 0.15:
            fld = fld + 'X'                            # field name differing between probes
        m = {'field': fld, 'rows': [[c, rng.choice(VALUES[name])] for c in ids]}
        if wild and rng.random() < 0.1:
            m['comma'] = True
        p['meta'][name] = m


def _times(n, rng, lo=0, span=6, sorted_=True):
    t = [lo + rng.randint(0, span) for _ in range(n)]
    return sorted(t) if sorted_ else t


def _random_case(rng, big=False):
    k = rng.choice([1, 2, 2, 2, 3, 3, 4])
    span = rng.choice([1, 3, 6, 20]) if not big else rng.choice([3, 10, 60])
    same_dt = rng.random() < 0.5
    idt, cdt, tdt = rng.choice(ID_DT), rng.choice(ID_DT), rng.choice(TIME_DT)
    probes = []
    pat = rng.choice(['all', 'some', 'none', 'some'])
    for j in range(k):
        n = rng.choice([1, 1, 2, 3, 5, 8, 13, 30]) if not big else rng.randint(1, 60)
        o = {'vec2d': rng.random() < 0.25, 'extra_t': rng.choice([0, 0, 1, 2]), 'adt': rng.choice(AMP_DT)}
        if same_dt:
            o.update(idt=idt, cdt=cdt, tdt=tdt)
        else:
            o.update(idt=rng.choice(ID_DT), cdt=rng.choice(ID_DT), tdt=rng.choice(TIME_DT))
        p = _probe(_times(n, rng, span=span, sorted_=rng.random() < 0.9), rng, **o)
        if pat == 'all':
            names = [m for m in META if rng.random() < 0.8] or META[:1]
        elif pat == 'some':
            names = [m for m in META if rng.random() < 0.4]
        else:
            names = []
        _add_meta(p, rng, names, wild=True)
        probes.append(p)
    if sum(len(p['times']) for p in probes) < 2:
        probes[0] = _probe([1, 1], rng)
    if rng.random() < 0.08:
        # cluster ids reaching the top of the uint16 range in one probe: the merged id range ends around 65535
        p = rng.choice(probes)
        if p['clu']:
            top = rng.choice([65535, 65534, 65536 - len(probes), 65530, 70000]) - max(p['clu'])
            p['clu'] = [c + top if c == max(p['clu']) else c for c in p['clu']]
            if max(p['clu']) > 65535 and p['cdt'] == 'uint16':
                p['cdt'] = 'int32'
            for m in p['meta'].values():
                m['rows'] = [r for r in m['rows'] if r[0] <= max(p['clu'])]
    return {'kind': 'merge', 'inp': {'rate': rng.choice([100.0, 128.0, 30000.0]), 'probes': probes}}


NAME_POOLS = [['imec0', 'imec1', 'imec2', 'imec3'], ['probe1', 'probe2', 'probe10', 'probe11'], ['left', 'right', 'mid', 'top'],
              ['probe_a', 'probe_b', 'probe_c', 'probe_d'], ['A', 'b', 'C', 'd'], ['n0/ks', 'n1/ks', 'n1/ks2', 'n2/sub/ks'],
              ['p.0', 'p 1', 'p-2', 'p_3'], ['9', '10', '011', '1']]
OUT_NAMES = ['merged', '0_out', 'zz_out', 'out/deep/merged', 'imec0_merged', 'n1/merged', 'M']
PASS = ['str', 'path', 'rel', 'slash', 'tuple']


def _caller(inp, rng, force=False):
    """Draws how the caller names and passes the directories: names in ANY order w.r.t. their lexicographic order (sorted,
    reversed, arbitrary permutation; mixed pools), the argument form, the output directory, an explicit probe_info."""
    k = len(inp['probes'])
    if inp.get('big') or k == 0:
        return
    if force or rng.random() < 0.8:
        pool = list(rng.choice(NAME_POOLS))
        if rng.random() < 0.25:
            pool = sorted({nm for pl in rng.sample(NAME_POOLS, 2) for nm in pl})
        names = rng.sample(pool, k)
        order = rng.choice(['any', 'any', 'reversed', 'sorted'])
        if order != 'any':
            names = sorted(names, reverse=(order == 'reversed'))
        inp['names'] = names
    if rng.random() < 0.5:
        inp['pass'] = rng.choice(PASS[1:])
    if rng.random() < 0.4:
        outs = [o for o in OUT_NAMES if all(o != nm and not o.startswith(nm + '/') and not nm.startswith(o + '/')
                                            for nm in D11.probe_names(inp))]
        inp['out'] = rng.choice(outs)
    if rng.random() < 0.2:
        inp['out_exists'] = True
    if rng.random() < 0.3:
        inp['info'] = True
    if rng.random() < 0.35:
        inp['chk_labels'] = True


def _earlier(p, rng):
    """An earlier content of the directory of probe p (before a re-curation / a re-sorting): the same spikes with other
    cluster ids (clusters split / merged since: another number of cluster ids), or another recording altogether; TSV files
    among those the probe has now, with rows for the ids of that time."""
    how = rng.choice(['same', 'recurated', 'recurated', 'recurated', 'other', 'other'])
    if how == 'same' or not p['times']:
        return copy.deepcopy(p)
    dts = {key: p[key] for key in ('tdt', 'adt', 'idt', 'cdt', 'vec2d') if key in p}
    if how == 'recurated':
        e = copy.deepcopy(p)
        e.pop('nt', None)
        mode = rng.choice(['uncurated', 'fewer', 'more', 'more'])
        mx = max(p['clu'])
        if mode == 'uncurated':
            e['clu'] = list(p['tmpl'])
        elif mode == 'fewer':
            cut = rng.randint(0, mx)
            e['clu'] = [min(c, cut) for c in p['clu']]
        else:
            d = rng.randint(1, 3)
            i = rng.randrange(len(p['clu']))
            e['clu'] = [mx + d if (j == i or (c == p['clu'][i] and rng.random() < 0.5)) else c for j, c in enumerate(p['clu'])]
        if e['cdt'] in ('int8', 'int16', 'uint16') and max(e['clu']) > 100:
            e['clu'] = list(p['clu'])
    else:
        n = rng.choice([1, 2, 3, 5, 8, len(p['times'])])
        e = _probe(_times(n, rng, span=rng.choice([1, 3, 6, 20])), rng, **dts)
        if e['cdt'] in ('int8', 'int16') or e['idt'] in ('int8', 'int16'):
            e['cdt'] = e['idt'] = 'int32'
    e['meta'] = {}
    _add_meta(e, rng, [fn for fn in META if fn in p.get('meta', {}) and rng.random() < 0.85])
    return e


def _norm_hist(inp):
    """Keeps the history inside the regime: one earlier probe per directory; when the output directory is kept between the
    merges, an earlier stage has no cluster_*.tsv file that the present merge does not write (= no probe has a row of it now:
    the earlier merge's file would stay in the output directory: a stale file of the directory, which a fresh Merger pointed
    at a used directory leaves too)."""
    if not inp.get('history'):
        for key in HIST_KEYS:
            inp.pop(key, None)
        return inp
    now = {fn for p in inp['probes'] for fn, m in p.get('meta', {}).items() if m['rows']}      # files the merge writes now
    for st in inp['history']:
        assert len(st) == len(inp['probes'])
        for e in st:
            if inp.get('hist_out') != 'clear':
                e['meta'] = {fn: m for fn, m in e.get('meta', {}).items() if fn in now}
    return inp


def _history(inp, rng, force=False):
    """Draws the history of the Merger object: 1..2 earlier merges of earlier contents of the same directories (by the same
    object, or a fresh object per merge in the same process), the output directory kept or emptied in between."""
    ps = inp['probes']
    if inp.get('big') or not ps or any(not p['times'] for p in ps) or any(
            D11.n_templates(p) <= max(p['tmpl']) for p in ps):
        return
    inp['history'] = [[_earlier(p, rng) for p in ps] for _ in range(rng.choice([1, 1, 1, 2]))]
    for st in inp['history']:
        if sum(len(e['times']) for e in st) < 2:
            st[0] = _probe([1, 1], rng)
    if rng.random() < 0.2:
        inp['hist_merger'] = 'fresh'
    if rng.random() < 0.25:
        inp['hist_out'] = 'clear'
    _norm_hist(inp)


HIST_KEYS = ('history', 'hist_merger', 'hist_out')


def _nondecr(n, vals):
    return [list(c) for c in itertools.combinations_with_replacement(vals, n)]


def _corpus(rng):
    cases = []

    def add(probes, rate=100.0):
        cases.append({'kind': 'merge', 'inp': {'rate': rate, 'probes': probes}})
    P0 = {'times': [1, 3, 3, 7], 'amps': [1.0, 2.0, 3.0, 4.0], 'tmpl': [0, 2, 2, 1], 'clu': [0, 4, 2, 1],
          'meta': {'cluster_KSLabel.tsv': {'field': 'KSLabel', 'rows': [[0, 'good'], [4, 'mua']]}}}
    P1 = {'times': [0, 3, 9], 'amps': [5.0, 6.0, 7.0], 'tmpl': [1, 0, 1], 'clu': [1, 0, 1],
          'meta': {'cluster_KSLabel.tsv': {'field': 'KSLabel', 'rows': [[1, 'good']]},
                   'cluster_Amplitude.tsv': {'field': 'Amplitude', 'rows': [[0, '2.5'], [1, '7']]}}}
    P2 = {'times': [3], 'amps': [8.0], 'tmpl': [0], 'clu': [3], 'meta': {}}
    # the caller's order is the probe order, whatever the directory names (stage 5): names passed in reversed / arbitrary
    # lexicographic order, nested directories of the same base name, numeric suffixes whose text order differs from their
    # numeric order, every argument form, explicit probe_info, output directory sorting before / between the probes
    def addc(probes, **kw):
        cases.append({'kind': 'merge', 'inp': dict({'rate': 100.0, 'probes': probes}, **kw)})
    addc([P0, P1], names=['probe_b', 'probe_a'])
    addc([P1, P0], names=['imec1', 'imec0'], info=True)
    addc([P0, P1, P2], names=['probe2', 'probe10', 'probe1'], **{'pass': 'path'})
    addc([P0, P1, P2], names=['probe2', 'probe10', 'probe1'], chk_labels=True)
    addc([P2, P1, P0], names=['m', 'z', 'a'], out='n', info=True, chk_labels=True)
    addc([P0, P1], names=['b/ks', 'a/ks'], out='a/merged', **{'pass': 'rel'})
    addc([P1, P2, P0, P1], names=['right', 'left', 'B', 'a'], out='0_out', out_exists=True, **{'pass': 'slash'})
    addc([P0, P1], names=['probe10', 'probe2'], **{'pass': 'tuple'})                 # control: text-sorted, not number-sorted
    addc([P0, P0], names=['y', 'x'], chk_labels=True)                              # identical content: only the labels differ
    # the history of the Merger object (stage 6): merge(), the probes are re-curated (a non-last probe gains / loses cluster
    # ids, with their TSV rows; another spike count; a TSV file appears), merge() AGAIN ON THE SAME OBJECT: the second merged
    # dataset is the one a fresh Merger writes.  Controls: unchanged inputs, a fresh object per merge, output emptied between
    KS_ = lambda rows: {'cluster_KSLabel.tsv': {'field': 'KSLabel', 'rows': rows}}
    P0s = dict(P0, clu=[0, 4, 2, 5], meta=KS_([[0, 'good'], [4, 'mua'], [5, 'noise']]))          # cluster 1 -> new cluster 5
    P0f = dict(P0, clu=[0, 2, 2, 1], meta=KS_([[0, 'good'], [2, 'mua']]))                      # cluster 4 merged into 2
    addc([P0s, P1], history=[[P0, P1]])
    addc([P0f, P1, P2], history=[[P0, P1, P2]], names=['b', 'a', 'c'])
    addc([P1, P0s, P1], history=[[P1, P0f, P1], [P1, P0, P1]])
    addc([P0, P1], history=[[dict(P0, times=[1, 3], amps=[1.0, 2.0], tmpl=[0, 2], clu=[0, 1], meta={}), dict(P1, meta={})]])
    addc([P0s, P1], history=[[P0, P1]], hist_out='clear', info=True)
    addc([P0s, P1], history=[[P0, P1]], hist_merger='fresh')
    addc([P0, P1], history=[[P0, P1]])
    addc([dict(P0, extra_t=1), P1], history=[[dict(P0, tmpl=[0, 1, 1, 1], meta={}), P1]])       # template count changed
    # fixed defect 1 (fix-c11): a probe with exactly one spike, in every position, alone with a second one-spike probe
    add([P0, P1, P2]); add([P2, P0]); add([P0, P2, P1]); add([P2, dict(P2, times=[3], clu=[0])])
    add([dict(P2, vec2d=True), P1])
    # fixed defect 2 (fix-c11): id dtypes differing between probes (uint32 += int32 scalar)
    for a, b in [('int32', 'uint32'), ('int64', 'uint32'), ('int32', 'uint16'), ('uint32', 'int32'), ('uint16', 'int64')]:
        add([dict(P0, idt=a, cdt=a), dict(P1, idt=b, cdt=b)])
    add([dict(P0, cdt='int32', idt='uint32'), dict(P1, cdt='uint32', idt='uint32'), dict(P0, cdt='int32', idt='int32')])
    # boundary cases written down when the model was transcribed
    add([P0]); add([P0, P1]); add([P1, P0]); add([P0, P0]); add([P0, P0, P0, P0])
    add([dict(P0, times=[5, 5, 5, 5]), dict(P1, times=[5, 5, 5])])                  # all spikes simultaneous
    add([dict(P0, times=[7, 3, 3, 1]), P1])                                          # a probe that is not time-sorted
    add([dict(P0, clu=[0, 0, 0, 0], tmpl=[0, 0, 0, 0], meta={}), dict(P1, clu=[0, 0, 0], tmpl=[0, 0, 0], meta={})])   # one id each
    add([dict(P0, clu=[9, 9, 2, 9], meta={}), P1])                                   # gap: ids 0,1,3..8 unused
    add([dict(P0, meta={}), dict(P1, meta={})])                                      # TSV in none
    add([P0, dict(P1, meta={})])                                                     # TSV in the first only
    add([dict(P0, meta={}), P1])                                                     # TSV in the second only
    add([dict(P0, meta={'cluster_KSLabel.tsv': {'field': 'KSLabel', 'rows': []}}), dict(P1, meta={})])   # header only
    add([dict(P0, meta={'cluster_KSLabel.tsv': {'field': 'KSLabel', 'rows': [[4, 'good'], [4, 'mua'], [0, 'mua']]}}), P1])
    add([dict(P0, meta={'cluster_KSLabel.tsv': {'field': 'A', 'rows': [[1, 'x']]}}),
         dict(P1, meta={'cluster_KSLabel.tsv': {'field': 'B', 'rows': [[1, 'y']]}}), dict(P2, times=[4], meta={})])
    add([dict(P0, tdt='int32', adt='float32', extra_t=1), dict(P1, tdt='uint64', adt='float64')])
    # cross-property defect (fix-c11b): template offsets must be the cumulative ROW COUNTS of templates.npy.  Trailing
    # templates without spikes in a non-last probe (first / middle), two of them, in every probe; controls where
    # max(spike_templates)+1 happens to be the count: unused MIDDLE templates, trailing unused templates in the last probe only
    add([dict(P0, extra_t=1), P1]); add([dict(P0, extra_t=2), P1, P2]); add([P0, dict(P1, extra_t=1), P2])
    add([dict(P0, extra_t=1), dict(P1, extra_t=2), dict(P2, extra_t=1)])
    add([dict(P0, tmpl=[0, 0, 0, 0], clu=[0, 0, 0, 0], meta={}, extra_t=3), dict(P1, meta={})])
    add([dict(P0, tmpl=[0, 3, 3, 0], meta={}), P1]); add([dict(P0, tmpl=[4, 4, 1, 4], meta={}), dict(P1, tmpl=[2, 0, 2]), P2])
    add([P0, dict(P1, extra_t=2)]); add([P0, P1, dict(P2, extra_t=2)])
    # guard violated (a spike names a template beyond the probe's templates.npy): compared with the model only
    add([dict(P0, nt=2, meta={}), dict(P1, meta={})]); add([dict(P1, nt=1, meta={}), dict(P0, meta={})])
    # fixed defect 3 (fix-c11c): cluster_*.tsv rows for cluster ids above the probe's largest SPIKE cluster id (clusters
    # without spikes, which KiloSort lists too): the row keeps an id of the probe's own range.  Next probe with / without
    # the file, in the last probe only, in every probe, different files naming different ids, an id far above
    KS = lambda rows: {'cluster_KSLabel.tsv': {'field': 'KSLabel', 'rows': rows}}
    Q0 = dict(P2, times=[1], clu=[0], tmpl=[0], meta={})
    add([dict(Q0, meta=KS([[0, 'good'], [1, 'mua']])), dict(Q0, times=[2], meta=KS([[0, 'noise']]))])
    add([dict(Q0, meta=KS([[0, 'good'], [1, 'mua']])), dict(Q0, times=[2])])
    add([Q0, dict(Q0, times=[2], meta=KS([[0, 'good'], [3, 'mua']]))])
    add([dict(P0, meta=KS([[0, 'good'], [4, 'mua'], [5, 'noise'], [7, 'good']])), dict(P1, meta=KS([[1, 'good'], [2, 'mua']])),
         dict(P2, meta=KS([[3, 'good'], [9, 'noise']]))])
    add([dict(P0, meta={'cluster_Amplitude.tsv': {'field': 'Amplitude', 'rows': [[6, '2.5']]},
                        'cluster_KSLabel.tsv': {'field': 'KSLabel', 'rows': [[5, 'good']]}}), P1])
    add([dict(P0, meta=KS([[40, 'mua']])), P1, P2])
    add([dict(P1, meta=KS([[2, 'mua']])), dict(P0, meta={})])
    # fixed defect 4 (fix-c11c): merged ids must not wrap around their integer dtype.  Cluster ids of two uint16 probes
    # whose merged range ends one below / exactly at / one above 65535; a middle probe whose own dtype cannot hold its
    # shifted ids; a first probe narrower than a later one; an offset that does not fit the later probe's dtype
    B0 = dict(P2, times=[1, 2], amps=[1.0, 2.0], tmpl=[0, 1], clu=[0, 65530], meta={})
    B1 = dict(P2, times=[2, 3], amps=[3.0, 4.0], tmpl=[0, 1], clu=[0, 4], meta={})
    add([dict(B0, cdt='uint16', clu=[0, 65529]), dict(B1, cdt='uint16')])
    add([dict(B0, cdt='uint16'), dict(B1, cdt='uint16')])
    add([dict(B0, cdt='uint16'), dict(B1, cdt='uint16', clu=[0, 5])])
    add([dict(B1, cdt='int32'), dict(B0, cdt='uint16'), dict(B1, cdt='int32')])
    add([dict(B1, cdt='uint16'), dict(B1, cdt='int32', clu=[0, 70000])])
    add([dict(B1, cdt='int32', clu=[0, 70000]), dict(B1, cdt='uint16')])
    add([dict(B1, cdt='uint16', clu=[0, 65535]), dict(B1, cdt='uint16', clu=[0, 65535]), dict(B1, cdt='uint16', clu=[3, 65535])])
    add([dict(B0, cdt='uint16', meta=KS([[65534, 'mua']])), dict(B1, cdt='uint16', clu=[0, 1])])      # the metadata id counts
    # the same for template ids (65531 templates in one probe: the content of templates.npy is not transcribed)
    T0 = dict(P2, times=[1, 2], amps=[1.0, 2.0], tmpl=[0, 65530], clu=[0, 1], meta={}, nt=65531, idt='uint16')
    T1 = dict(P2, times=[2, 3], amps=[3.0, 4.0], tmpl=[0, 1], clu=[0, 1], meta={}, idt='uint16')
    big = []
    big.append([T0, dict(T1, nt=5, tmpl=[0, 4])]); big.append([T0, dict(T1, nt=6, tmpl=[0, 5])])
    big.append([dict(T1, nt=2, idt='int32'), T0, dict(T1, nt=3, idt='int32')])
    big.append([dict(T1, nt=2), dict(T0, idt='int64')])
    for probes in big:
        cases.append({'kind': 'merge', 'inp': {'rate': 100.0, 'probes': probes, 'big': True}})
    # ... and for spike times: a first probe whose time dtype is narrower than a later probe's largest time
    add([dict(B1, clu=[0, 1], tdt='uint32'), dict(B1, clu=[0, 1], tdt='int64', times=[3, 2 ** 32 + 1])])
    add([dict(B1, clu=[0, 1], tdt='int32'), dict(B1, clu=[0, 1], tdt='uint64', times=[3, 2 ** 31 + 5])])
    add([dict(B1, clu=[0, 1], tdt='int32', times=[1, 2 ** 31 - 1]), dict(B1, clu=[0, 1], tdt='uint32', times=[2, 2 ** 31 - 1])])
    add([dict(B1, clu=[0, 1], tdt='uint32', times=[1, 2 ** 32 - 1]), dict(B1, clu=[0, 1], tdt='uint64', times=[2, 2 ** 32])])
    # a SIGNED first dtype is promoted to the smallest signed type that holds the value (boundaries at powers of two:
    # 2^31 with int32 times, 2^15 with int16 cluster ids; a value beyond uint32 must not end in float64; int8 -> int16)
    add([dict(B1, clu=[0, 1], tdt='int32'), dict(B1, clu=[0, 1], tdt='int64', times=[3, 2 ** 31])])
    add([dict(B1, clu=[0, 1], tdt='int32'), dict(B1, clu=[0, 1], tdt='int64', times=[3, 2 ** 32 + 1])])
    add([dict(B1, cdt='int16', clu=[0, 32760]), dict(B1, cdt='int16', clu=[0, 6])])
    add([dict(B1, cdt='int16', clu=[0, 32760]), dict(B1, cdt='int16', clu=[0, 7])])
    add([dict(B1, cdt='int8', clu=[0, 100]), dict(B1, cdt='int32', clu=[0, 32666])])
    # a probe without spikes: np.max raises (error exit of the model)
    add([P0, {'times': [], 'amps': [], 'tmpl': [], 'clu': [], 'meta': {}}])
    for c in cases:
        for p in c['inp']['probes'] + [e for st in c['inp'].get('history', []) for e in st]:
            for key, dv in (('tdt', 'uint64'), ('adt', 'float64'), ('idt', 'uint32'), ('cdt', 'uint32'), ('vec2d', False),
                            ('extra_t', 0)):
                p.setdefault(key, dv)
    return copy.deepcopy(cases)


def generate(tier, rng):
    cases = _corpus(rng)
    ncorpus = len(cases)
    if tier == 'search':
        cases = cases + [_random_case(rng, big=(i % 3 == 0)) for i in range(1500)]
        for c in cases[ncorpus:]:
            if rng.random() < 0.5:
                _caller(c['inp'], rng)
        for c in cases[ncorpus:]:
            if rng.random() < 0.3:
                _history(c['inp'], rng)
        return cases
    quick = tier == 'quick'
    vals = [0, 1, 2]
    # exhaustive: every pair of non-decreasing time vectors (the tie structure inside and across probes)
    nmax = 3 if quick else 4
    vecs = [v for n in range(1, nmax + 1) for v in _nondecr(n, vals)]
    for a in vecs:
        for b in vecs:
            if len(a) + len(b) > (6 if quick else 7):
                continue
            pa, pb = _probe(a, rng), _probe(b, rng)
            if rng.random() < 0.3:
                _add_meta(pa, rng, META[:rng.randint(0, 3)])
                _add_meta(pb, rng, META[:rng.randint(0, 3)])
            cases.append({'kind': 'merge', 'inp': {'rate': 100.0, 'probes': [pa, pb]}})
    if not quick:
        v2 = [v for n in range(1, 3) for v in _nondecr(n, vals)]
        for a in v2:
            for b in v2:
                for c in v2:
                    cases.append({'kind': 'merge', 'inp': {'rate': 100.0, 'probes': [_probe(a, rng), _probe(b, rng), _probe(c, rng)]}})
    # id-dtype pairs across two probes (all 16), time-dtype pairs
    for a in ID_DT:
        for b in ID_DT:
            cases.append({'kind': 'merge', 'inp': {'rate': 100.0, 'probes': [
                _probe(_times(3, rng), rng, idt=a, cdt=b), _probe(_times(2, rng), rng, idt=b, cdt=a)]}})
    for a in TIME_DT:
        for b in TIME_DT:
            cases.append({'kind': 'merge', 'inp': {'rate': 100.0, 'probes': [
                _probe(_times(3, rng), rng, tdt=a), _probe(_times(3, rng), rng, tdt=b)]}})
    # metadata presence patterns over 3 probes x 1 file: all 8
    for mask in itertools.product([0, 1], repeat=3):
        ps = [_probe(_times(3, rng), rng) for _ in range(3)]
        for p, on in zip(ps, mask):
            if on:
                _add_meta(p, rng, [META[2]])
        cases.append({'kind': 'merge', 'inp': {'rate': 100.0, 'probes': ps}})
    nrand = 160 if quick else 4000
    for i in range(nrand):
        cases.append(_random_case(rng, big=(not quick and i % 4 == 0)))
    # the caller's side (directory names in any order, argument form, output directory, probe_info) on half of the generated
    # merges; drawn after everything else, so that the abstract probes are the same as without this axis
    for c in cases[ncorpus:]:
        if rng.random() < 0.5:
            _caller(c['inp'], rng)
    # the history of the Merger object (earlier merges of earlier contents of the same directories) on a quarter of the
    # generated merges; drawn last, for the same reason
    for c in cases[ncorpus:]:
        if rng.random() < 0.25:
            _history(c['inp'], rng)
    return cases


# ---- implementation ------------------------------------------------------------------------------------------

def run_case(case):
    import numpy as np
    from phylib.io.merge import Merger
    inp = case['inp']
    root = tempfile.mkdtemp(prefix='c11_', dir=os.environ.get('VT_WORK') or None)
    try:
        # the history (earlier merges of earlier contents of the same directories by the same Merger object, stage 6) is
        # played first; the observed merge is the last one, of inp['probes']
        mg, dirs, out = D11.prepare(inp, root, Merger)
        before = D11.tree_hash(dirs)
        m = mg.merge()
        after = D11.tree_hash(dirs)

        def ints(a):
            a = np.asarray(a)
            if a.ndim != 1:
                raise ValueError('not one-dimensional: %r' % (a.shape,))
            return [int(x) for x in a.tolist()]

        def toks(a):
            a = np.asarray(a)
            if a.ndim != 1:
                raise ValueError('not one-dimensional: %r' % (a.shape,))
            return [D.tok(float(x)) for x in a.tolist()]
        ld = lambda fn: np.load(os.path.join(out, fn))
        T = None if inp.get('big') else ld('templates.npy')
        dts = [ld(fn).dtype.name for fn in ('spike_times.npy', 'spike_clusters.npy', 'spike_templates.npy')]
        for name in dts:
            if name not in DT:
                raise ValueError('merged file of dtype %s' % name)
        if not np.issubdtype(ld('cluster_probes.npy').dtype, np.integer):
            raise ValueError('cluster_probes.npy of dtype %s' % ld('cluster_probes.npy').dtype.name)
        obs = {
            'dts': dts,
            'templates': ([[[D.tok(float(x)) for x in row] for row in tm] for tm in T.astype(np.float64).tolist()]
                          if T is not None and T.ndim == 3 and T.size else None),
            'times': ints(ld('spike_times.npy')), 'amps': toks(ld('amplitudes.npy')),
            'tmpl': ints(ld('spike_templates.npy')), 'clu': ints(ld('spike_clusters.npy')),
            'cprobes': ints(ld('cluster_probes.npy')),
            'coffs': [int(x) for x in mg.cluster_offsets], 'toffs': [int(x) for x in mg.template_offsets],
            'meta': [], 'ret_meta': [],
            'ret': [ints(m.spike_samples), toks(m.amplitudes), ints(m.spike_templates), ints(m.spike_clusters)],
            'unchanged': before == after,
        }
        for fn in META:
            p = os.path.join(out, fn)
            if not os.path.exists(p):
                obs['meta'].append(None)
                obs['ret_meta'].append(None)
                continue
            hdr, rows = D11.read_tsv_rows(p)
            if len(hdr) != 2 or hdr[0] != 'cluster_id':
                raise ValueError('bad header %r' % (hdr,))
            obs['meta'].append([hdr[1], rows])
            d = m.metadata.get(hdr[1])
            obs['ret_meta'].append(None if d is None else [hdr[1], [[int(k), str(d[k])] for k in sorted(d)]])
        del m
        # probes.description.tsv labels the probes in the caller's order (row k = k-th directory of the caller's list / k-th
        # entry of the explicit probe_info): judged here, not by the Coq comparator, and only on the cases that ask for it
        # (a failure here is reported as a crash and would hide which clauses of the merged arrays fail on the same input)
        labels = D11.read_probe_labels(out) if inp.get('chk_labels') else None
        if inp.get('chk_labels') and labels != D11.expected_labels(inp):
            raise ValueError('probes.description.tsv labels %r, expected %r' % (labels, D11.expected_labels(inp)))
        return ('merged', obs)
    finally:
        shutil.rmtree(root, ignore_errors=True)


# ---- encoding ----------------------------------------------------------------------------------------------------

def _mt(m):
    if m is None:
        return 'None'
    fld, rows = m
    return '(Some (mkmeta %s %s))' % (q.s(fld), q.lst(rows, lambda r: '(%s, %s)' % (q.z(r[0]), q.s(r[1]))))


def _amps(l):
    return q.lst(l, D.coq_tok)


def _enc_probe(p):
    metas = []
    for fn in META:
        m = p.get('meta', {}).get(fn)
        metas.append(None if m is None else [m['field'], m['rows']])
    return '(mkprobe %s %s %s %s %s %s)' % (q.zl(p['times']), _amps([D.tok(float(a)) for a in p['amps']]), q.zl(p['tmpl']),
                                            q.zl(p['clu']), q.z(D11.n_templates(p)), q.lst(metas, _mt))


def _tlll(T):
    return q.lst(T, lambda tm: q.lst(tm, lambda row: q.lst(row, lambda v: D.coq_tok(tuple(v) if isinstance(v, list) else v))))


DT = {'uint8': 'U8', 'uint16': 'U16', 'uint32': 'U32', 'uint64': 'U64', 'int8': 'I8', 'int16': 'I16', 'int32': 'I32',
      'int64': 'I64'}


def _dts(names):
    return '(%s, %s, %s)' % tuple(DT[n] for n in names)


def _rle(l):
    runs = []
    for v in l:
        if runs and runs[-1][0] == v:
            runs[-1][1] += 1
        else:
            runs.append([v, 1])
    return '(rle %s)' % q.lst(runs, lambda r: '(%s, %s)' % (q.z(r[0]), q.z(r[1])))


def encode(case, obs):
    ps = case['inp']['probes']
    p0 = ps[0] if ps else {}
    dts = _dts([p0.get('tdt', 'uint64'), p0.get('cdt', 'uint32'), p0.get('idt', 'uint32')])
    if case['inp'].get('big'):
        ts = 'None'
    else:
        ts = '(Some %s)' % q.lst(
            [[[[D.tok(v) for v in row] for row in tm] for tm in D11.templates_of(p, k)] for k, p in enumerate(ps)], _tlll)
    cin = '(InMerge %s %s %s)' % (q.lst(ps, _enc_probe), ts, dts)
    if obs[0] == 'crash':
        return cin, 'ObsCrash'
    o = obs[1]
    r = o['ret']
    cobs = '(ObsMerged (mkobs %s %s %s %s %s %s %s %s (%s, %s, %s, %s) %s %s) %s %s)' % (
        q.zl(o['times']), _amps(o['amps']), q.zl(o['tmpl']), q.zl(o['clu']), _rle(o['cprobes']), q.zl(o['coffs']),
        q.zl(o['toffs']), q.lst(o['meta'], _mt), q.zl(r[0]), _amps(r[1]), q.zl(r[2]), q.zl(r[3]),
        q.lst(o['ret_meta'], _mt), q.b(o['unchanged']),
        'None' if o.get('templates') is None else '(Some %s)' % _tlll(o['templates']), _dts(o['dts']))
    return cin, cobs


# ---- evidence ---------------------------------------------------------------------------------------------------------

def _cross_tie(ps):
    seen = {}
    for k, p in enumerate(ps):
        for t in p['times']:
            if t in seen and seen[t] != k:
                return True
            seen.setdefault(t, k)
    return False


def nontrivial(case, obs):
    ps = case['inp']['probes']
    return obs[0] == 'merged' and len(ps) >= 2 and (_cross_tie(ps) or any(p.get('meta') for p in ps))


def _bucket(n):
    return str(n) if n <= 3 else '4-9' if n <= 9 else '10-29' if n <= 29 else '30+'


def dist(case, obs):
    ps = case['inp']['probes']
    out = ['outcome=' + obs[0] + (':' + obs[1] if obs[0] == 'crash' else ''), 'probes=%d' % len(ps),
           'spikes_total=' + _bucket(sum(len(p['times']) for p in ps)),
           'one_spike_probe=%s' % any(len(p['times']) == 1 for p in ps),
           'tie_across_probes=%s' % _cross_tie(ps),
           'tie_inside_probe=%s' % any(len(set(p['times'])) < len(p['times']) for p in ps),
           'curated=%s' % any(p['clu'] != p['tmpl'] for p in ps),
           'id_gaps=%s' % any(p['clu'] and len(set(p['clu'])) < max(p['clu']) + 1 for p in ps),
           'id_dtypes_differ=%s' % (len({(p['idt'], p['cdt']) for p in ps}) > 1),
           'time_dtypes_differ=%s' % (len({p['tdt'] for p in ps}) > 1),
           'vec2d=%s' % any(p['vec2d'] for p in ps),
           'unsorted_probe=%s' % any(p['times'] != sorted(p['times']) for p in ps),
           'unused_trailing_templates_in_nonlast_probe=%s' % any(
               p['tmpl'] and D11.n_templates(p) > max(p['tmpl']) + 1 for p in ps[:-1]),
           'unused_trailing_templates_in_last_probe=%s' % bool(
               ps and ps[-1]['tmpl'] and D11.n_templates(ps[-1]) > max(ps[-1]['tmpl']) + 1),
           'unused_middle_templates=%s' % any(p['tmpl'] and len(set(p['tmpl'])) < max(p['tmpl']) + 1 for p in ps),
           'template_guard_violated=%s' % any(p['tmpl'] and D11.n_templates(p) <= max(p['tmpl']) for p in ps),
           'meta_id_above_spike_max_nonlast=%s' % any(
               p['clu'] and any(r[0] > max(p['clu']) for m in p.get('meta', {}).values() for r in m['rows']) for p in ps[:-1]),
           'meta_id_above_spike_max_last=%s' % bool(
               ps and ps[-1]['clu'] and any(r[0] > max(ps[-1]['clu']) for m in ps[-1].get('meta', {}).values() for r in m['rows'])),
           'merged_dtypes=%s' % ('/'.join(obs[1]['dts']) if obs[0] == 'merged' else '-'),
           'dtype_promoted=%s' % (obs[0] == 'merged' and bool(ps) and
                                  obs[1]['dts'] != [ps[0].get('tdt'), ps[0].get('cdt'), ps[0].get('idt')])]
    inp = case['inp']
    nms = inp.get('names')
    out.append('dir_names=%s' % ('default' if nms is None else 'one' if len(nms) < 2 else 'text-sorted' if nms == sorted(nms)
                                 else 'text-reversed' if nms == sorted(nms, reverse=True) else 'other-order'))
    out.append('dir_names_nested=%s' % bool(nms and any('/' in nm for nm in nms)))
    out.append('passed_as=%s' % inp.get('pass', 'str'))
    out.append('out_dir=%s' % ('default' if 'out' not in inp else 'nested' if '/' in inp['out'] else 'named'))
    out.append('out_dir_exists=%s' % bool(inp.get('out_exists')))
    out.append('explicit_probe_info=%s' % bool(inp.get('info')))
    out.append('probe_labels_judged=%s' % bool(inp.get('chk_labels')))
    hist = inp.get('history', [])
    out.append('earlier_merges_by_the_same_merger=%d' % (len(hist) if inp.get('hist_merger', 'reused') == 'reused' else 0))
    out.append('earlier_merges_by_a_fresh_merger=%d' % (len(hist) if inp.get('hist_merger') == 'fresh' else 0))
    if hist:
        nid = lambda p: max(p['clu'] + [r[0] for m in p.get('meta', {}).values() for r in m['rows']]) + 1 if p['clu'] else 0
        out.append('history_out_dir=%s' % inp.get('hist_out', 'keep'))
        out.append('history_cluster_count_of_nonlast_probe_changed=%s' % any(
            nid(e) != nid(p) for st in hist for e, p in list(zip(st, ps))[:-1]))
        out.append('history_spike_count_changed=%s' % any(len(e['times']) != len(p['times']) for st in hist for e, p in zip(st, ps)))
        out.append('history_template_count_changed=%s' % any(
            D11.n_templates(e) != D11.n_templates(p) for st in hist for e, p in zip(st, ps)))
        out.append('history_unchanged_inputs=%s' % all(e == p for st in hist for e, p in zip(st, ps)))
    for fn in META:
        n = sum(1 for p in ps if fn in p.get('meta', {}))
        out.append('%s=%s' % (fn, 'none' if n == 0 else 'all' if n == len(ps) else 'some'))
    for p in ps:
        out.append('cdt=' + p['cdt'])
        out.append('tdt=' + p['tdt'])
    return out


def size(case):
    ps = case['inp']['probes']
    inp = case['inp']
    caller = sum(4 for key in CALLER_KEYS if key in inp) + sum(len(nm) for nm in inp.get('names', []))
    caller += sum(4 for key in HIST_KEYS if key in inp) + sum(
        40 + sum(20 + 10 * len(e['times']) + sum(e['times']) + sum(e['clu']) + sum(e['tmpl']) +
                 sum(r[0] for m in e.get('meta', {}).values() for r in m['rows']) +
                 5 * sum(len(m['rows']) + 1 for m in e.get('meta', {}).values()) for e in st) for st in inp.get('history', []))
    return caller + 50 * len(ps) + sum(10 * len(p['times']) + sum(p['times']) + sum(p['clu']) + sum(p['tmpl']) + (p.get('nt') or 0) +
                              sum(r[0] for m in p.get('meta', {}).values() for r in m['rows']) +
                              5 * sum(len(m['rows']) + 1 for m in p.get('meta', {}).values()) for p in ps)


CALLER_KEYS = ('names', 'pass', 'out', 'out_exists', 'info', 'chk_labels')


def _fix_meta(p):
    pass                       # any id >= 0 may be listed (a cluster without spikes), nothing to repair


def shrink(case):
    inp = case['inp']
    ps = inp['probes']

    extras = {key: copy.deepcopy(inp[key]) for key in CALLER_KEYS + HIST_KEYS if key in inp}

    def mk(new, ex=None):
        if sum(len(p['times']) for p in new) < 2 or not new:
            return None
        for p in new:
            _fix_meta(p)
        big = inp.get('big') or any(D11.n_templates(p) > 64 for p in new)
        d = dict({'rate': inp.get('rate', 100.0), 'probes': new}, **({'big': True} if big else {}))
        d.update(copy.deepcopy(extras if ex is None else ex))
        if d.get('history'):
            if big or any(len(st) != len(new) or sum(len(e['times']) for e in st) < 2 or any(not e['times'] for e in st)
                          for st in d['history']):
                return None
        _norm_hist(d)
        return {'kind': 'merge', 'inp': d}
    out = []
    # the history first: without it, without one stage, a stage's probe = the probe as it is now, fewer spikes / files / rows
    # in a stage, the defaults of the two options
    hist = extras.get('history', [])
    if hist:
        out.append(mk(copy.deepcopy(ps), {k2: v for k2, v in extras.items() if k2 not in HIST_KEYS}))
        for i in range(len(hist)):
            if len(hist) > 1:
                out.append(mk(copy.deepcopy(ps), dict(extras, history=hist[:i] + hist[i + 1:])))
        for key in ('hist_merger', 'hist_out'):
            if key in extras:
                out.append(mk(copy.deepcopy(ps), {k2: v for k2, v in extras.items() if k2 != key}))

        def hmk(i, k, e):
            h = copy.deepcopy(hist)
            h[i][k] = e
            return mk(copy.deepcopy(ps), dict(extras, history=h))
        for i, st in enumerate(hist):
            for k, e in enumerate(st):
                if e != ps[k]:
                    out.append(hmk(i, k, copy.deepcopy(ps[k])))
        for i, st in enumerate(hist):
            for k, e in enumerate(st):
                for j in range(len(e['times'])):
                    if len(e['times']) > 1:
                        e2 = copy.deepcopy(e)
                        for key in ('times', 'amps', 'tmpl', 'clu'):
                            del e2[key][j]
                        out.append(hmk(i, k, e2))
                for fn in list(e.get('meta', {})):
                    e2 = copy.deepcopy(e)
                    del e2['meta'][fn]
                    out.append(hmk(i, k, e2))
                    for j in range(len(e['meta'][fn]['rows'])):
                        e2 = copy.deepcopy(e)
                        del e2['meta'][fn]['rows'][j]
                        out.append(hmk(i, k, e2))
                for key in ('clu', 'tmpl', 'times'):
                    for j in range(len(e['times'])):
                        if e[key][j] > 0:
                            e2 = copy.deepcopy(e)
                            e2[key][j] -= 1
                            out.append(hmk(i, k, e2))
    for k in range(len(ps)):
        if len(ps) > 1:
            ex = copy.deepcopy(extras)
            if 'names' in ex:
                del ex['names'][k]
            if 'history' in ex:
                for st in ex['history']:
                    del st[k]
            out.append(mk(copy.deepcopy(ps[:k] + ps[k + 1:]), ex))
    # the caller's side: back to the defaults, one key at a time; names to the shortest names of the same relative order
    for key in CALLER_KEYS:
        if key in extras:
            out.append(mk(copy.deepcopy(ps), {k2: v for k2, v in extras.items() if k2 != key}))
    if 'names' in extras:
        rank = {nm: i for i, nm in enumerate(sorted(extras['names']))}
        canon = ['p%d' % rank[nm] for nm in extras['names']]
        if canon != extras['names'] and len(canon) <= 10:
            out.append(mk(copy.deepcopy(ps), dict(extras, names=canon)))
    for k, p in enumerate(ps):
        n = len(p['times'])
        for i in range(n):
            if n > 1:
                new = copy.deepcopy(ps)
                for key in ('times', 'amps', 'tmpl', 'clu'):
                    del new[k][key][i]
                out.append(mk(new))
        for fn in list(p.get('meta', {})):
            new = copy.deepcopy(ps)
            del new[k]['meta'][fn]
            out.append(mk(new))
            for j in range(len(p['meta'][fn]['rows'])):
                new = copy.deepcopy(ps)
                del new[k]['meta'][fn]['rows'][j]
                out.append(mk(new))
        for key, dv in (('tdt', 'uint64'), ('adt', 'float64'), ('idt', 'uint32'), ('cdt', 'uint32'), ('vec2d', False), ('extra_t', 0)):
            if p.get(key) != dv:
                new = copy.deepcopy(ps)
                new[k][key] = dv
                out.append(mk(new))
        if p.get('extra_t', 0) > 1:
            new = copy.deepcopy(ps)
            new[k]['extra_t'] = p['extra_t'] - 1
            out.append(mk(new))
        for key in ('times', 'tmpl', 'clu'):
            for i in range(n):
                if p[key][i] > 8:
                    new = copy.deepcopy(ps)
                    new[k][key][i] //= 2
                    out.append(mk(new))
                if p[key][i] > 0:
                    new = copy.deepcopy(ps)
                    new[k][key][i] -= 1
                    out.append(mk(new))
        if p.get('nt') is not None and p['nt'] > 2:
            for v in (p['nt'] // 2, p['nt'] - 1):
                new = copy.deepcopy(ps)
                new[k]['nt'] = max(2, v)
                out.append(mk(new))
        for fn in list(p.get('meta', {})):
            for j, r in enumerate(p['meta'][fn]['rows']):
                if r[0] > 0:
                    new = copy.deepcopy(ps)
                    new[k]['meta'][fn]['rows'][j][0] -= 1
                    out.append(mk(new))
        for i in range(n):
            if p['amps'][i] != 1.0:
                new = copy.deepcopy(ps)
                new[k]['amps'][i] = 1.0
                out.append(mk(new))
    for c in out:
        if c is not None:
            yield c


def repro(case):
    return ("import sys, os, tempfile; sys.path[:0] = ['/verif/harness', os.environ.get('PHYLIB_REPO', '/repo')]\n"
            "from vt import npshim, datasets_c11 as D; npshim.setup_process()\n"
            "import numpy as np\nfrom phylib.io.merge import Merger\n"
            "inp = %r\n"
            "mg, dirs, out = D.prepare(inp, tempfile.mkdtemp(), Merger)   # plays inp['history'] (earlier merges) first\n"
            "m = mg.merge()\n"
            "for fn in ('spike_times', 'amplitudes', 'spike_templates', 'spike_clusters', 'cluster_probes'):\n"
            "    print(fn, np.load(os.path.join(out, fn + '.npy')).tolist())\n"
            "print({fn: open(os.path.join(out, fn)).read() for fn in D.META_FILES if os.path.exists(os.path.join(out, fn))})\n"
            % (case['inp'],))


MATCHERS = {}
