"""C09 -- amplitude, depth, duration and peak-channel summaries follow their definitions (DESIGN.md §8 C09)."""
import copy
import os
import shutil
import tempfile

from .. import coqenc as q
from .. import datasets as D
from .. import datasets_c09 as G

ID = 'C09'
RULE = ('generated dense dataset directories loaded through TemplateModel: integer templates / inverse whitening '
        'matrix / amplitudes / positions / features (exact regime), ids without spikes at the start, middle, END, both '
        'ends, the two highest, all but one; curated (merge / split / move / gapped ids / a whole cluster renumbered to a fresh id: '
        'fewer ids in use than max id + 1) and uncurated spike clusters; '
        'unit factors {1, 2, 0.5, 2.5}; rates {100, 1000, 25000, 30000}; feature stores full / subset / absent with '
        'rows whose positive part vanishes or sums to a power of two or neither; per-id amplitude sums divisible by the counts '
        'or not; peak-to-peak ties between channels and extreme-value ties between samples; '
        'configurations: extra constructor keywords of TemplateModel (template_scaling absent / 1 / other positive and negative values; '
        'n_closest_channels and amplitude_threshold on uncurated datasets); '
        'histories on ONE loaded model: model.spike_clusters (and model.amplitudes) updated by the caller in memory - in place, through a '
        'boolean mask, or by re-assigning the attribute with another integer dtype - by merges / splits / moves / gaps / renumberings / undo, '
        'templates_amplitudes and clusters_amplitudes read after every update. '
        'Corpus and axis product first, then seeded random. Non-trivial = the dataset loads and both '
        'get_amplitudes_true calls return; distinct = distinct abstract dataset (+ factor).')
EXHAUSTIVE = {'quick': False, 'thorough': False}
CLAUSES = {
    1: 'an observed value differs from the Coq model PV.C09.Model (exact-rational instance; floats within 2^-48 relative)',
    20: 'the dataset could not be loaded, or an anchored method raised on a well-formed dense dataset',
    21: 'C09_spike_amps: spike amplitude = stored amplitude * largest channel peak-to-peak of the unwhitened template * factor',
    22: 'C09_template_amps: one mean of the scaled spike amplitudes per waveform, NaN exactly for the ids without spikes (any id, including the highest)',
    23: 'C09_rescaled / C09_rescaled_peak: rescaled templates; their largest peak-to-peak is the per-template amplitude',
    24: 'C09_mean_amps: templates_amplitudes / clusters_amplitudes = per-present-id mean of the stored amplitudes',
    25: 'C09_peak_channel: templates_channels / clusters_channels / templates_probes',
    26: 'C09_duration: (argmax - argmin) on the peak channel / rate * 1000',
    27: 'C09_depths: feature-weighted depths, NaN where the positive part vanishes, None without a full feature store '
        '(C09_depths_nocols: a store without pc_feature_ind.npy raises iff it has one row per spike)',
    28: 'outside the dense reading, outcome only (C09_sparse_channels): with template_ind.npy get_amplitudes_true raises and '
        '_channels returns the first stored channel of every template',
}
TRUSTED = ['np.load/np.save, TemplateModel loading (C04) and cluster_waveforms (C08): the stored arrays are read from the '
           'loaded model before the calls', 'np.matmul / np.bincount / np.unique / np.argmax / np.ravel_multi_index as documented',
           'observed binary64 values are converted to exact rationals and must lie within 2^-48 relative of the exact model value (NaN must be NaN): a few correctly rounded operations in any order are accepted, anything larger is not']
ASSUMES = ['dense templates (sparse ones: only the outcome "get_amplitudes_true raises, _channels = first stored channel"); '
           'amplitudes.npy present; a feature store without pc_feature_ind.npy is judged by outcome only (raises / None)',
           'exact regime: integer stored values (|template| < 2^24, float32-exact), non-negative channel y positions (no '
           'cancellation in the depth sum); unit factor and sampling rate positive and finite',
           'no array axis of length 1 (phylib squeezes every array it loads)']
TIMEOUT = {'quick': 20, 'thorough': 30}

FACTORS = [1.0, 2.0, 0.5, 2.5]
RATES = [100, 1000, 25000, 30000]
EMPTY = ['none', 'start', 'middle', 'end', 'ends', 'tail2', 'most']
ID_DTYPES = ['uint32', 'int32', 'int64', 'uint16']
# configurations: extra keywords of the constructor (TemplateModel.__init__ copies every keyword into the instance; a
# params.py may set the same names).  template_scaling is a display scaling read by _unwhiten (get_template): no value
# of it may reach the summaries of C09.  n_closest_channels / amplitude_threshold steer _find_best_channels, which the
# cluster waveforms of a CURATED dataset go through (C08's ground): drawn on uncurated datasets only.
SCALINGS = [2.5, 0.5, 3.0, 10.0, -1.0, 1.0, 0.0]


def _config(rng, curated, force=None):
    if force is not None:
        return dict(force)
    c = {}
    if rng.random() < 0.3:
        c['template_scaling'] = rng.choice(SCALINGS)
    if not curated and rng.random() < 0.15:
        c['n_closest_channels'] = rng.choice([1, 2, 3, 12, 40])
    if not curated and rng.random() < 0.1:
        c['amplitude_threshold'] = rng.choice([0, 0.5, 1.0])
    return c


def _case(rng, **o):
    sem = G.gen(rng, **o)
    return {'kind': 'dataset', 'inp': {
        'sem': sem, 'factor': o.get('factor', rng.choice(FACTORS)),
        'config': _config(rng, sem['opts']['curated'], o.get('config')),
        'render': {'id_dtype': o.get('id_dtype', rng.choice(ID_DTYPES)),
                   'tmpl_dtype': o.get('tmpl_dtype', rng.choice(['float32', 'float32', 'float64'])),
                   'vec2d': o.get('vec2d', rng.random() < 0.2)},
        # the feature store is written WITHOUT pc_feature_ind.npy (sparse_features.cols is None after loading)
        'no_ind': bool(o.get('no_ind', rng.random() < 0.06)) and sem['features'] is not None}}


def _sparse(rng):
    """sparse templates (template_ind.npy): outside the dense reading, outcome only"""
    sem = G.gen(rng, curated=False, features='none', zero_template=False)
    nc = sem['n_channels']
    cols = []
    for _ in range(sem['n_templates']):
        r = list(range(nc))
        rng.shuffle(r)
        cols.append(r)
    return {'kind': 'sparse', 'inp': {'sem': sem, 'cols': cols, 'render': {'id_dtype': rng.choice(ID_DTYPES), 'tmpl_dtype': 'float32',
                                                                        'vec2d': False}}}


def _big(rng, n):
    """n spikes repeating a period of K spikes (K a multiple of the number of templates)"""
    nt = 2
    k = nt * rng.randint(2, 4)
    sem = G.gen(rng, curated=False, nt=nt, nc=rng.randint(3, 4), nsw=2, nspk=k, features='full', vanish=0.25, wmi='none',
                empty='none', probes=False, shanks=False)
    sem['spike_templates'] = [j % nt for j in range(k)]
    # the spikes next to a batch boundary (first / last spike, 50000*m - 1, 50000*m, 50000*m + 1) must have a depth that
    # is not NaN: a spike the loop forgets keeps its NaN initial value, which a vanishing feature row would hide
    # (seeded change C09-m5 was missed once for exactly that reason)
    edge = {0, n - 1} | {b + e for b in range(50000, n + 1, 50000) for e in (-1, 0, 1)}
    for pos in sorted({j % k for j in edge if 0 <= j < n}):
        row = sem['features']['data'][pos][0]
        while not any(x > 0 for x in row):
            row = G.feature_row(rng, len(row), vanish=False)
        sem['features']['data'][pos][0] = row
    return {'kind': 'depths_big', 'inp': {'sem': sem, 'n': n, 'render': {'id_dtype': rng.choice(ID_DTYPES), 'tmpl_dtype': 'float32',
                                                                       'vec2d': False}}}


HIST_OPS = ['merge', 'split', 'move', 'gap', 'renumber', 'undo', 'amps']


def _hist(rng, ops=None, modes=None, **o):
    """a history on one loaded model: after loading, the caller updates model.spike_clusters (and / or model.amplitudes)
    in memory, 1-4 times; every step gives the FULL new arrays and how they are put into the model:
    'inplace' (sc[:] = new), 'mask' (sc[np.isin(sc, olds)] = new id, one id pair at a time, as phy's merge does),
    'assign' (model.spike_clusters = a new array of the drawn integer dtype)."""
    o.setdefault('features', 'none')
    sem = G.gen(rng, **o)
    n = sem['n_spikes']
    sc = list(sem['spike_clusters'] if sem.get('spike_clusters') is not None else sem['spike_templates'])
    amps = list(sem['amplitudes'])
    if ops is None:
        ops = [rng.choice(HIST_OPS) for _ in range(rng.randint(1, 4))]
    steps = []
    for k, op in enumerate(ops):
        new_amps = None
        if op == 'undo':
            new = list(sem['spike_templates'])
            if new == sc:
                new = G.curate(rng, sc, ops=['renumber'])
        elif op == 'amps':
            new = list(sc)
            new_amps = [float(rng.randint(-2, 9)) for _ in range(n)]
        else:
            new = G.curate(rng, sc, ops=[op])
        mode = modes[k] if modes else rng.choice(['inplace', 'mask', 'assign'])
        steps.append({'mode': mode, 'sc': new, 'amps': new_amps, 'dtype': rng.choice(ID_DTYPES + ['int16', 'uint8', 'int32']),
                      'amps_mode': rng.choice(['inplace', 'assign'])})
        sc = new
        if new_amps is not None:
            amps = new_amps
    return {'kind': 'history', 'inp': {'sem': sem, 'steps': steps, 'config': _config(rng, sem['opts']['curated'], o.get('config')),
                                       'render': {'id_dtype': rng.choice(ID_DTYPES), 'tmpl_dtype': 'float32', 'vec2d': False}}}


def _tile(sem, n):
    """the periodic dataset of n spikes"""
    k = sem['n_spikes']
    s = copy.deepcopy(sem)
    s['n_spikes'] = n
    s['spike_samples'] = list(range(n))
    for key in ('spike_templates', 'amplitudes'):
        s[key] = [sem[key][j % k] for j in range(n)]
    s['spike_clusters'] = None
    f = s['features']
    f['data'] = [sem['features']['data'][j % k] for j in range(n)]
    f['rows'] = None
    return s


def generate(tier, rng):
    cases = []
    # corpus ---------------------------------------------------------------------------------------------
    # (-2) configurations (stage 6): the rarely used constructor keyword template_scaling (display scaling of
    # get_template) set to a value != 1 -- the summaries of C09 do not depend on it
    for ts in (2.5, 0.5):
        for cur in (False, True):
            cases.append(_case(rng, curated=cur, empty='none', config={'template_scaling': ts}))
    # (-1) histories (stage 6): model.spike_clusters updated in memory after loading -- a merge through a boolean mask,
    # a split by re-assigning the attribute, a renumbering in place; the set of ids in use changes every time
    for ops, modes in [(['merge'], ['mask']), (['split'], ['assign']), (['renumber'], ['inplace']),
                       (['merge', 'split', 'undo'], ['mask', 'assign', 'inplace']), (['amps', 'move'], ['assign', 'mask'])]:
        for cur in (False, True):
            cases.append(_hist(rng, ops=ops, modes=modes, curated=cur, empty='none', nt=4, nspk=10))
    # (0) curated cluster ids with an id WITHOUT spikes below the highest id in use (number of ids in use <
    # max id + 1 = number of cluster waveforms): a whole cluster renumbered to a fresh id (what every merge / split
    # in phy does), alone and combined with the other curation steps and with empty template ids
    for o in [dict(curate_ops=['renumber'], empty='none'), dict(curate_ops=['renumber', 'renumber'], empty='none'),
              dict(curate_ops=['merge'], empty='none', nt=3), dict(curate_ops=['gap'], empty='none'),
              dict(curate_ops=['renumber', 'split'], empty='end'), dict(curate_ops=['split', 'renumber'], empty='start')]:
        cases.append(_case(rng, curated=True, **o))
    # (a) the repaired defect: the highest template id has no spikes (uncurated: also through use='clusters')
    for nt in (2, 3, 4):
        for emp in ('end', 'tail2', 'most'):
            cases.append(_case(rng, curated=False, nt=nt, empty=emp))
    cases.append(_case(rng, curated=True, nt=3, empty='end'))
    # (b) one boundary case per operator / constant of the anchored code
    for o in [dict(ties=True, curated=False), dict(ties=True, curated=True), dict(zero_template=True, empty='none'),
              dict(zero_template=True, empty='end'), dict(features='full', vanish=1.0), dict(features='full', vanish=0.0),
              dict(features='subset'), dict(features='none'), dict(wmi='none'), dict(wmi='inv'), dict(wmi='file', div=True),
              dict(wmi='file', div=False), dict(neg_amp=True), dict(probes=True, ties=True), dict(shanks=True, curated=True)]:
        for _ in range(2):
            cases.append(_case(rng, **o))
    # (b') outside the dense reading, outcome only: feature store without pc_feature_ind.npy (full: raises; subset: None),
    # sparse templates (get_amplitudes_true raises, _channels = first stored channel)
    for fk in ('full', 'subset'):
        for _ in range(2):
            cases.append(_case(rng, features=fk, no_ind=True))
    for _ in range(3):
        cases.append(_sparse(rng))
    # (c) the batch loop of get_depths (50000 spikes per batch): periodic datasets around the batch size
    for n in {'quick': (50001, 100000), 'thorough': (50000, 50001, 99999, 100000, 100001, 150003), 'search': (50001, 100001)}[tier]:
        cases.append(_big(rng, n))
    n_axis, n_rand = {'quick': (1, 170), 'thorough': (8, 4500), 'search': (2, 1500)}[tier]
    # axis product: empty-id position x curated x factor, and rate x features, each completed at random
    for _ in range(n_axis):
        for emp in EMPTY:
            for cur in (False, True):
                for f in FACTORS:
                    cases.append(_case(rng, empty=emp, curated=cur, factor=f))
        for r in RATES:
            for fk in ('full', 'subset', 'none'):
                for w in ('file', 'inv', 'none'):
                    cases.append(_case(rng, rate=r, features=fk, wmi=w))
    for _ in range(n_rand):
        cases.append(_case(rng))
    for _ in range(n_rand // 4):
        cases.append(_hist(rng))
    if tier != 'quick':
        for _ in range(n_rand // 10):
            cases.append(_case(rng, nc=rng.randint(4, 7), nt=rng.randint(4, 8), nsw=rng.randint(4, 9), curated=False,
                               nspk=rng.randint(15, 40)))
    return cases


# ---- implementation side ---------------------------------------------------------------------------------

def _toks(a):
    """nested lists of exact tokens, following the array's shape"""
    import numpy as np
    a = np.asarray(a)
    if a.ndim == 0:
        return D.tok(a.item())
    return [_toks(x) for x in a]


def _try(f):
    try:
        return f()
    except Exception as e:       # the call raised: an observable
        return {'raised': '%s: %s' % (type(e).__name__, str(e)[:120])}


def run_case(case):
    import numpy as np
    from phylib.io.model import TemplateModel
    i = case['inp']
    if case['kind'] == 'depths_big':
        return _run_big(case)
    if case['kind'] == 'sparse':
        return _run_sparse(case)
    if case['kind'] == 'history':
        return _run_hist(case)
    ds = D.render(i['sem'], None, **i['render'])
    if i.get('no_ind'):
        del ds['files']['pc_feature_ind.npy']
    d = tempfile.mkdtemp(prefix='c09_', dir=os.environ.get('VT_WORK') or None)
    try:
        kw = D.materialise(ds, d)
        kw.update(i.get('config') or {})
        m = TemplateModel(**kw)
        sf = m.sparse_features
        snap = {
            'tdata': _toks(np.array(m.sparse_templates.data)), 'cdata': _toks(np.array(m.sparse_clusters.data)),
            'tcols': m.sparse_templates.cols is not None or m.sparse_clusters.cols is not None,
            'wmi': _toks(np.array(m.wmi)), 'st': [int(x) for x in m.spike_templates], 'sc': [int(x) for x in m.spike_clusters],
            'amps': _toks(np.array(m.amplitudes)), 'nt': int(m.n_templates), 'ncl': int(m.n_clusters),
            'rate': D.tok(float(m.sample_rate)), 'probes': [int(x) for x in m.channel_probes],
            'pos': _toks(np.array(m.channel_positions)), 'nspikes': int(m.n_spikes),
            'feat': None if sf is None else {'data': _toks(np.array(sf.data)),
                                             'cols': None if sf.cols is None else [[int(x) for x in r] for r in np.array(sf.cols)]},
            'tdtype': str(m.sparse_templates.data.dtype),
        }
        f = float(i['factor'])

        def amp(use):
            a, t, v = m.get_amplitudes_true(f, use=use)
            return {'spike': _toks(a), 'phys': _toks(t), 'tamps': _toks(v), 'ndim': [a.ndim, t.ndim, v.ndim]}

        def depths():
            r = m.get_depths()
            return None if r is None else {'v': _toks(r)}
        obs = {
            'amp_t': _try(lambda: amp('templates')), 'amp_c': _try(lambda: amp('clusters')),
            'mean_t': _try(lambda: _toks(m.templates_amplitudes)), 'mean_c': _try(lambda: _toks(m.clusters_amplitudes)),
            'chan_t': _try(lambda: [int(x) for x in m.templates_channels]),
            'chan_c': _try(lambda: [int(x) for x in m.clusters_channels]),
            'probes_t': _try(lambda: [int(x) for x in m.templates_probes]),
            'dur_t': _try(lambda: _toks(m.templates_waveforms_durations)),
            'dur_c': _try(lambda: _toks(m.clusters_waveforms_durations)),
            'depths': _try(depths),
        }
        m.close()
        return ('ok', snap, obs)
    finally:
        shutil.rmtree(d, ignore_errors=True)


def _run_hist(case):
    import numpy as np
    from phylib.io.model import TemplateModel
    i = case['inp']
    ds = D.render(i['sem'], None, **i['render'])
    d = tempfile.mkdtemp(prefix='c09h_', dir=os.environ.get('VT_WORK') or None)
    try:
        kw = D.materialise(ds, d)
        kw.update(i.get('config') or {})
        m = TemplateModel(**kw)

        def look():
            with np.errstate(all='ignore'):
                return {'mean_t': _try(lambda: _toks(m.templates_amplitudes)), 'mean_c': _try(lambda: _toks(m.clusters_amplitudes)),
                        # what the model holds now (must be what the caller put there: checked by encode)
                        'sc': [int(x) for x in m.spike_clusters], 'st': [int(x) for x in m.spike_templates],
                        'amps': _toks(np.array(m.amplitudes))}
        states = [look()]
        for step in i['steps']:
            new = np.array(step['sc'])
            if step['mode'] == 'assign':
                m.spike_clusters = new.astype(step['dtype'])
            elif step['mode'] == 'mask':
                sc = m.spike_clusters
                old = sc.copy()
                for a in np.unique(old):          # every old id whose spikes all go to one new id: through a mask
                    tgt = np.unique(new[old == a])
                    if len(tgt) == 1:
                        sc[np.isin(old, [a])] = tgt[0]
                    else:
                        sc[old == a] = new[old == a]
            else:
                m.spike_clusters[:] = new
            if step.get('amps') is not None:
                a = np.array(step['amps'], dtype=np.float64)
                if step.get('amps_mode') == 'inplace' and m.amplitudes.flags.writeable:
                    m.amplitudes[:] = a
                else:
                    m.amplitudes = a
            states.append(look())
        m.close()
        return ('hist', {}, {'states': states})
    finally:
        shutil.rmtree(d, ignore_errors=True)


def _run_sparse(case):
    import numpy as np
    from phylib.io.model import TemplateModel
    i = case['inp']
    ds = D.render(i['sem'], None, **i['render'])
    cols = i['cols']
    ds['files']['template_ind.npy'] = D._spec('uint32', [len(cols), len(cols[0])], [v for r in cols for v in r])
    d = tempfile.mkdtemp(prefix='c09s_', dir=os.environ.get('VT_WORK') or None)
    try:
        m = TemplateModel(**D.materialise(ds, d))
        sc = m.sparse_templates.cols
        snap = {'cols': None if sc is None else [[int(x) for x in r] for r in np.array(sc)]}
        obs = {'amp_t': _try(lambda: m.get_amplitudes_true(1.0, use='templates') and None),
               'amp_c': _try(lambda: m.get_amplitudes_true(1.0, use='clusters') and None),
               'chan_t': _try(lambda: [int(x) for x in m.templates_channels]),
               'chan_c': _try(lambda: [int(x) for x in m.clusters_channels])}
        m.close()
        return ('sparse', snap, obs)
    finally:
        shutil.rmtree(d, ignore_errors=True)


def _run_big(case):
    import numpy as np
    from phylib.io.model import TemplateModel
    i = case['inp']
    k = i['sem']['n_spikes']
    ds = D.render(_tile(i['sem'], i['n']), None, **i['render'])
    d = tempfile.mkdtemp(prefix='c09b_', dir=os.environ.get('VT_WORK') or None)
    try:
        m = TemplateModel(**D.materialise(ds, d))
        sf = m.sparse_features
        snap = {'pos': _toks(np.array(m.channel_positions)), 'data': _toks(np.array(sf.data[:k])),
                'cols': [[int(x) for x in r] for r in np.array(sf.cols)], 'st': [int(x) for x in m.spike_templates[:k]],
                'n': int(m.n_spikes),
                # the loaded arrays really are the period repeated (else the per-period oracle would not apply)
                'periodic': bool(all(np.array_equal(sf.data[j:j + k], sf.data[:min(k, m.n_spikes - j)])
                                     for j in range(0, m.n_spikes, k)) and
                                 np.array_equal(m.spike_templates, np.resize(m.spike_templates[:k], m.n_spikes)))}

        def depths():
            r = m.get_depths()
            return None if r is None else {'v': [D.tok(float(x)) for x in r]}
        obs = {'depths': _try(depths)}
        m.close()
        return ('big', snap, obs)
    finally:
        shutil.rmtree(d, ignore_errors=True)


# ---- encoding -------------------------------------------------------------------------------------------

def _z(t):
    """exact integer of a token (the regime of C09 is integer-valued stored arrays)"""
    if isinstance(t, (list, tuple)) and len(t) == 3 and t[0] == 'n':
        _, m_, e = t
        if e >= 0:
            return q.z(m_ * 2 ** e)
    raise ValueError('C09 regime: non-integer stored value %r (generator bug)' % (t,))


def _zl(l):
    return q.lst(l, _z)


def _zll(l):
    return q.lst(l, _zl)


def _zlll(l):
    return q.lst(l, _zll)


def _tl(l):
    return q.lst([tuple(x) if isinstance(x, list) else x for x in l], D.coq_tok)


def _tll(l):
    return q.lst(l, _tl)


def _tlll(l):
    return q.lst(l, _tll)


def _raised(x):
    return isinstance(x, dict) and 'raised' in x


def _opt(x, f):
    return 'None' if _raised(x) else '(Some %s)' % f(x)


def _tk(t):
    return D.coq_tok(tuple(t) if isinstance(t, list) else t)


def _tl_chunked(l, size=400):
    """long lists are written as concat [[..]; [..]] (Coq's list notation overflows the stack on 50 000 items)"""
    if len(l) <= size:
        return _tl(l)
    return '(List.concat %s)' % q.lst([l[j:j + size] for j in range(0, len(l), size)], _tl)


def encode(case, obs):
    if obs[0] == 'crash':
        return 'InBad', 'ObsCrash'
    _, s, o = obs
    if obs[0] == 'ok':
        # the model's input is the DATASET (the files as written), not what the loader made of it: spike ids and
        # amplitudes come from the generated dataset; the loaded n_templates / n_clusters are checked by the
        # comparator against the number of stored waveforms
        sem = case['inp']['sem']
        s = dict(s)
        s['st'] = [int(x) for x in sem['spike_templates']]
        s['sc'] = [int(x) for x in (sem['spike_clusters'] if sem.get('spike_clusters') is not None else sem['spike_templates'])]
        s['amps'] = [D.tok(float(a)) for a in sem['amplitudes']]
        s['nspikes'] = int(sem['n_spikes'])
        # ... and so do the stored templates, the channel positions, the sampling rate and (when the dataset has
        # whitening_mat_inv.npy, or no whitening matrix at all) the inverse whitening matrix.  Still read from the
        # loaded model: the cluster waveforms of a curated dataset (C08), the inverse of whitening_mat.npy, probes, features
        def t3(x):
            return [[[D.tok(float(v)) for v in row] for row in t] for t in x]
        s['tdata'] = t3(sem['templates'])
        if sem.get('spike_clusters') is None:
            s['cdata'] = s['tdata']         # the uncurated branch of _load_data: the cluster waveforms ARE the templates
        s['pos'] = [[D.tok(float(v)) for v in row] for row in sem['positions']]
        s['rate'] = D.tok(float(sem['rate']))
        nc = sem['n_channels']
        if sem.get('wmi') is not None:
            s['wmi'] = [[D.tok(float(v)) for v in row] for row in sem['wmi']]
        elif sem.get('wm') is None:
            s['wmi'] = [[D.tok(1.0 if r == c else 0.0) for c in range(nc)] for r in range(nc)]
    if obs[0] == 'hist':
        sem = case['inp']['sem']
        st = [int(x) for x in sem['spike_templates']]
        sc = [int(x) for x in (sem['spike_clusters'] if sem.get('spike_clusters') is not None else sem['spike_templates'])]
        amps = [float(a) for a in sem['amplitudes']]
        want = [(sc, amps)]
        for step in case['inp']['steps']:
            sc = [int(x) for x in step['sc']]
            if step.get('amps') is not None:
                amps = [float(a) for a in step['amps']]
            want.append((sc, amps))
        got = o['states']
        if len(got) != len(want):
            raise ValueError('C09 history: %d states observed, %d expected' % (len(got), len(want)))
        for (wsc, wam), g in zip(want, got):
            # the harness's own updates took effect (a caller-side matter, not phylib's)
            if g['sc'] != wsc or g['st'] != st or [tuple(x) for x in g['amps']] != [tuple(D.tok(a)) for a in wam]:
                raise ValueError('C09 history: the in-memory update did not produce the intended arrays')
        cin = '(InHist %s %s)' % (q.zl(st), q.lst(want, lambda w: '(%s, %s)' % (q.zl(w[0]), _zl([D.tok(a) for a in w[1]]))))
        cobs = '(ObsHist %s)' % q.lst(got, lambda g: '(%s, %s)' % (_opt(g['mean_t'], _tl), _opt(g['mean_c'], _tl)))
        return cin, cobs
    if obs[0] == 'big':
        if not s['periodic']:
            raise ValueError('C09 regime: the tiled dataset did not load as a periodic one')
        cin = '(InBig %s %s %s %s %s)' % (_zll(s['pos']), _zlll(s['data']), q.zll(s['cols']), q.zl(s['st']), q.z(s['n']))
        dep = o['depths']
        if _raised(dep):
            return cin, '(ObsBig None)'
        if dep is None:
            return cin, '(ObsBig (Some None))'
        return cin, '(ObsBig (Some (Some %s)))' % _tl_chunked(dep['v'])
    if obs[0] == 'sparse':
        if s['cols'] is None:
            raise ValueError('C09 regime: the sparse dataset did not load as a sparse one')
        return '(InSparse %s)' % q.zll(s['cols']), '(ObsSparse %s %s %s %s)' % (
            'true' if _raised(o['amp_t']) else 'false', 'true' if _raised(o['amp_c']) else 'false',
            _opt(o['chan_t'], q.zl), _opt(o['chan_c'], q.zl))
    if s['tcols']:
        raise ValueError('C09 regime: sparse templates generated')
    feat, nocols = 'None', 'None'
    if s['feat'] is not None:
        if s['feat']['cols'] is None:
            if not case['inp'].get('no_ind'):
                raise ValueError('C09 regime: feature store without pc_feature_ind generated')
            nocols = '(Some %s)' % q.z(len(s['feat']['data']))
        else:
            feat = '(Some (%s, %s))' % (_zlll(s['feat']['data']), q.zll(s['feat']['cols']))
    cin = '(InModel (mkinp %s %s %s %s %s %s %s %s %s %s %s %s %s %s %s))' % (
        _zlll(s['tdata']), _zlll(s['cdata']), _zll(s['wmi']), q.zl(s['st']), q.zl(s['sc']), _zl(s['amps']),
        q.z(s['nt']), q.z(s['ncl']), _tk(D.tok(float(case['inp']['factor']))), _tk(s['rate']), q.zl(s['probes']),
        _zll(s['pos']), feat, q.z(s['nspikes']), nocols)

    def amp(x):
        if x['ndim'] != [1, 3, 1]:
            return 'None'
        return '(Some (mkampobs %s %s %s))' % (_tl(x['spike']), _tlll(x['phys']), _tl(x['tamps']))
    dep = o['depths']
    if _raised(dep):
        dtxt = 'None'
    elif dep is None:
        dtxt = '(Some None)'
    else:
        dtxt = '(Some (Some %s))' % _tl(dep['v'])
    cobs = '(ObsAll (mkobs %s %s %s %s %s %s %s %s %s %s))' % (
        'None' if _raised(o['amp_t']) else amp(o['amp_t']), 'None' if _raised(o['amp_c']) else amp(o['amp_c']),
        _opt(o['mean_t'], _tl), _opt(o['mean_c'], _tl), _opt(o['chan_t'], q.zl), _opt(o['chan_c'], q.zl),
        _opt(o['probes_t'], q.zl), _opt(o['dur_t'], _tl), _opt(o['dur_c'], _tl), dtxt)
    return cin, cobs


def nontrivial(case, obs):
    if obs[0] == 'big':
        return not _raised(obs[2]['depths']) and obs[2]['depths'] is not None
    if obs[0] == 'sparse':
        return not _raised(obs[2]['chan_t'])
    if obs[0] == 'hist':
        return all(not _raised(g['mean_c']) and not _raised(g['mean_t']) for g in obs[2]['states'])
    return obs[0] == 'ok' and not _raised(obs[2]['amp_t']) and not _raised(obs[2]['amp_c'])


def dist(case, obs):
    i = case['inp']
    if case['kind'] == 'depths_big':
        return ['kind=depths_big', 'big.n_spikes=%d' % i['n'], 'big.period=%d' % i['sem']['n_spikes'],
                'big.outcome=%s' % (obs[0] if obs[0] != 'big' else ('raised' if _raised(obs[2]['depths']) else 'array'))]
    sem = i['sem']
    if case['kind'] == 'sparse':
        return ['kind=sparse_templates', 'sparse.outcome=%s' % (obs[0] if obs[0] != 'sparse' else
                                                                 'amp_raised=%s' % _raised(obs[2]['amp_t']))]
    cfg = i.get('config') or {}
    if case['kind'] == 'history':
        o = sem['opts']
        out = ['kind=history', 'hist.curated_on_disk=%s' % o['curated'], 'hist.steps=%d' % len(i['steps']),
               'hist.template_scaling=%s' % cfg.get('template_scaling', 'absent')]
        prev = set(sem['spike_clusters'] if sem.get('spike_clusters') is not None else sem['spike_templates'])
        for k, step in enumerate(i['steps']):
            cur = set(step['sc'])
            out.append('hist.step=%s:%s:%s' % (step['mode'], 'amps' if step.get('amps') is not None else 'ids',
                                               'same_ids' if cur == prev else
                                               ('new' if cur - prev else '') + ('gone' if prev - cur else '')))
            if step['mode'] == 'assign':
                out.append('hist.assign_dtype=%s' % step['dtype'])
            prev = cur
        out.append('hist.outcome=%s' % (obs[0] if obs[0] != 'hist' else
                                        'raised' if any(_raised(g['mean_c']) for g in obs[2]['states']) else 'arrays'))
        return out
    o = sem['opts']
    out = ['curated=%s' % o['curated'], 'template_scaling=%s' % cfg.get('template_scaling', 'absent'),
           'n_closest_channels=%s' % cfg.get('n_closest_channels', 'default'),
           'amplitude_threshold=%s' % cfg.get('amplitude_threshold', 'default'), 'feature_ind=%s' % ('absent' if i.get('no_ind') else 'present' if sem['features'] else 'n/a'), 'empty_ids=%s' % o['empty'], 'wmi=%s' % o['wmi'], 'features=%s' % o['features'],
           'ties=%s' % o['ties'], 'factor=%s' % i['factor'], 'rate=%s' % int(sem['rate']),
           'id_dtype=%s' % i['render']['id_dtype'], 'tmpl_dtype=%s' % i['render']['tmpl_dtype'],
           'n_spikes=%s' % ('<=5' if sem['n_spikes'] <= 5 else '6-14' if sem['n_spikes'] <= 14 else '15+')]
    st, nt = sem['spike_templates'], sem['n_templates']
    out.append('highest_template_empty=%s' % ((nt - 1) not in st))
    out.append('first_template_empty=%s' % (0 not in st))
    sc = sem.get('spike_clusters')
    if sc is not None:
        out.append('cluster_ids_in_use_vs_max=%s' % ('equal' if len(set(sc)) == max(sc) + 1 else
                                                     'fewer_by_%s' % min(max(sc) + 1 - len(set(sc)), 3)))
    if obs[0] != 'ok':
        out.append('outcome=crash:' + str(obs[1]))
        return out
    ob = obs[2]
    for k in ('amp_t', 'amp_c', 'depths'):
        if _raised(ob[k]):
            out.append('%s=raised:%s' % (k, ob[k]['raised'].split(':')[0]))
    if not _raised(ob['amp_t']):
        nan = sum(1 for t in ob['amp_t']['tamps'] if t == 'nan')
        out.append('nan_template_amps=%s' % ('0' if nan == 0 else '1' if nan == 1 else '2+'))
    dep = ob['depths']
    if dep is None:
        out.append('depths=None')
    elif not _raised(dep):
        nan = sum(1 for t in dep['v'] if t == 'nan')
        out.append('depths=array,nan_rows=%s' % ('0' if nan == 0 else '1+'))
    return out


def shrink(case):
    i = case['inp']
    if case['kind'] in ('depths_big', 'sparse'):
        return
    if case['kind'] == 'history':
        yield from _shrink_hist(case)
        return
    sem = i['sem']
    for key in sorted(i.get('config') or {}):
        j = copy.deepcopy(i)
        del j['config'][key]
        yield {'kind': 'dataset', 'inp': j}
    for k in range(sem['n_spikes']):
        s = G.drop_spike(sem, k)
        if s is not None:
            j = copy.deepcopy(i)
            j['sem'] = s
            yield {'kind': 'dataset', 'inp': j}
    for key in ('features', 'probes', 'shanks', 'wm'):
        if sem.get(key) is not None:
            j = copy.deepcopy(i)
            j['sem'][key] = None
            if key == 'features':
                j['no_ind'] = False
            yield {'kind': 'dataset', 'inp': j}
    if i['factor'] != 1.0:
        j = copy.deepcopy(i)
        j['factor'] = 1.0
        yield {'kind': 'dataset', 'inp': j}
    if any(a != 1.0 for a in sem['amplitudes']):
        j = copy.deepcopy(i)
        j['sem']['amplitudes'] = [1.0] * sem['n_spikes']
        yield {'kind': 'dataset', 'inp': j}
    # zero one template entry at a time (largest first)
    flat = [(abs(v), t, s, c) for t, tm in enumerate(sem['templates']) for s, row in enumerate(tm) for c, v in enumerate(row) if v]
    for _, t, s, c in sorted(flat, reverse=True)[:12]:
        j = copy.deepcopy(i)
        j['sem']['templates'][t][s][c] = 0.0
        yield {'kind': 'dataset', 'inp': j}


def _shrink_hist(case):
    i = case['inp']
    steps = i['steps']
    # fewer steps: drop the last, drop one in the middle (every step carries the full arrays, so any subsequence is a history)
    for k in reversed(range(len(steps))):
        if len(steps) > 1:
            j = copy.deepcopy(i)
            del j['steps'][k]
            yield {'kind': 'history', 'inp': j}
    for key in sorted(i.get('config') or {}):
        j = copy.deepcopy(i)
        del j['config'][key]
        yield {'kind': 'history', 'inp': j}
    sem = i['sem']
    for k in range(sem['n_spikes']):
        s = G.drop_spike(sem, k)
        if s is not None:
            j = copy.deepcopy(i)
            j['sem'] = s
            for step in j['steps']:
                del step['sc'][k]
                if step.get('amps') is not None:
                    del step['amps'][k]
            yield {'kind': 'history', 'inp': j}
    for k, step in enumerate(steps):
        if step['mode'] != 'inplace':
            j = copy.deepcopy(i)
            j['steps'][k]['mode'] = 'inplace'
            yield {'kind': 'history', 'inp': j}
        if step.get('amps') is not None:
            j = copy.deepcopy(i)
            j['steps'][k]['amps'] = None
            yield {'kind': 'history', 'inp': j}


def size(case):
    if case['kind'] == 'depths_big':
        return 10 ** 6 + case['inp']['n']
    sem = case['inp']['sem']
    if case['kind'] == 'history':
        return 200 + sem['n_spikes'] * 10 * (1 + len(case['inp']['steps'])) + sum(
            (3 if st['mode'] != 'inplace' else 0) + (5 if st.get('amps') is not None else 0) for st in case['inp']['steps']) + \
            5 * len(case['inp'].get('config') or {})
    if case['kind'] == 'sparse':
        return 500 + sem['n_spikes'] * 10 + sem['n_templates'] * sem['n_channels']
    return sem['n_spikes'] * 10 + sem['n_templates'] * sem['n_samples_wf'] * sem['n_channels'] + \
        (50 if sem.get('features') else 0) + (30 if sem.get('spike_clusters') else 0) + 5 * len(case['inp'].get('config') or {})


def repro(case):
    if case['kind'] == 'depths_big':
        return ("import sys; sys.path[:0] = ['/verif/harness', '/repo']\n"
                "from vt import npshim; npshim.setup_process()\n"
                "from vt.props import c09\n"
                "tag, snap, obs = c09.run_case(%r)\n"
                "v = obs['depths']['v']; k = len(snap['st'])\n"
                "print([j for j in range(len(v)) if v[j] != v[j %% k]][:10], 'spikes whose depth differs from the depth of the same pattern in the first period')\n"
                % (case,))
    if case['kind'] == 'sparse':
        return ("import sys; sys.path[:0] = ['/verif/harness', '/repo']\n"
                "from vt import npshim; npshim.setup_process()\n"
                "from vt.props import c09\n"
                "tag, snap, obs = c09.run_case(%r)\n"
                "print('template_ind', snap['cols']); print(obs)\n" % (case,))
    if case['kind'] == 'history':
        return ("import sys; sys.path[:0] = ['/verif/harness', '/repo']\n"
                "from vt import npshim; npshim.setup_process()\n"
                "from vt.props import c09\n"
                "case = %r\n"
                "tag, snap, obs = c09.run_case(case)   # loads the dataset with TemplateModel(**kw, **config), then applies case['inp']['steps'] to model.spike_clusters / model.amplitudes in memory\n"
                "for k, g in enumerate(obs['states']):\n"
                "    print('state', k, 'spike_clusters', g['sc'], 'amplitudes (exact tokens)', g['amps'])\n"
                "    print('   templates_amplitudes', g['mean_t']); print('   clusters_amplitudes ', g['mean_c'], ' <- must be the mean amplitude of every id present in spike_clusters NOW')\n"
                % (case,))
    return ("import sys, tempfile; sys.path[:0] = ['/verif/harness', '/repo']\n"
            "from vt import npshim, datasets as D; npshim.setup_process()\n"
            "from phylib.io.model import TemplateModel\n"
            "inp = %r\n"
            "ds = D.render(inp['sem'], None, **inp['render'])\n"
            "if inp.get('no_ind'): del ds['files']['pc_feature_ind.npy']\n"
            "d = tempfile.mkdtemp(); m = TemplateModel(**dict(D.materialise(ds, d), **(inp.get('config') or {})))\n"
            "print('spike_templates', m.spike_templates, 'spike_clusters', m.spike_clusters, 'amplitudes', m.amplitudes)\n"
            "for use in ('templates', 'clusters'):\n"
            "    a, t, v = m.get_amplitudes_true(inp['factor'], use=use); print(use, 'spike amps', a, 'template amps', v); print(t)\n"
            "print(m.templates_amplitudes, m.clusters_amplitudes, m.templates_channels, m.clusters_channels, m.templates_probes)\n"
            "print(m.templates_waveforms_durations, m.clusters_waveforms_durations, m.get_depths())\n"
            % (case['inp'],))
