"""C19 -- event dispatch and progress completion (DESIGN.md §8 C19).

Abstract inputs (small JSON):
  kind 'hist': inp = {'ops': [op, ...]} with
      ['c', fid, name, owner, style, sf, last]   connect; name = event encoded in __name__ (None: no on_<event>
                                                 name); owner = object the callback is a bound method of (None:
                                                 plain function); style None = by name, int = explicit event;
                                                 sf = sender filter or None; last = bool
      ['u', [item, ...]]                         unconnect; item = ['f', fid, name, owner] | ['o', obj]
      ['r'] reset   ['ss', bool] set_silent   ['en'] enter `with silent():`   ['ex'] leave the innermost block
      ['exx'] leave the innermost block because an exception propagates out of it (stage 3)
      ['e', ev, snd, args, kw, single]           emit(event, sender, *args, **kw[, single=...]); single None|bool
  kind 'histx': inp = {'ops': [...as 'hist'...], 'raise': [fid, ...]}: the callbacks with these ids raise after
      recording the call; an emit is then observed as ['raise', calls made] when the exception propagated
  'hist' / 'histx' inputs may carry 'names': [s0, s1, bad] (stage 5) = the SPELLING of the two events (event i is the
      string s_i in emit(...) / connect(event=...), and a callback "named after event i" is a function called
      'on_' + s_i) and of the __name__ of the callbacks that are not named on_<event> (default ['ev0', 'ev1', None]:
      bad name 'cb<fid>'). The Coq model speaks about abstract event ids: the spelling is an implementation-side
      axis, every injective spelling must give the same observations.
  kind 'prog': inp = {'ops': [['inc'] | ['v', x] | ['m', x] | ['sc'] | ['rs', None|x], ...]}; 'inc' and 'sc' may carry
      a second element [[key, value], ...] = keyword arguments k<key>=value of increment() / set_complete()
"""
import itertools

from .. import coqenc as q

ID = 'C19'
RULE = ('exhaustive: every well-bracketed operation sequence up to the tier\'s length over a 12-operation '
        'emitter alphabet (3 connects: by name / explicit event / sender-filtered / last; unconnect by function '
        'and by sender; reset; silent() enter/leave; set_silent True/False; two emits, one single) and over a 7-operation silencing alphabet (connect, enter, leave, leave by an '
        'exception, set_silent True/False, emit) one step longer, that contains '
        'an emit, and every reporter history up to the tier\'s length over {increment, value in 0/1/2/5, maximum '
        'in 0/1/2/5, set_complete, reset(None/1/5)}; then seeded random longer histories over the wide alphabet '
        '(2 events, 3 senders, 5 callbacks incl. bound methods, multi-item unconnect, arguments/keywords, '
        'single None/True/False). Every emitter history is run under two implementation-side configurations '
        '(fresh EventEmitter with identity senders and direct connect calls; the module-level global emitter '
        'with decorator-style connects and value-equal sender objects). Every generated emitter history carries a '
        'drawn spelling of its two event names (any Python identifier tail: names that begin / end with the '
        'characters of the by-name prefix "on_", contain "on_", are one character long, digits, upper case, '
        'non-ASCII, and pairs where one name is a prefix / suffix / "on_"-, "n_"-, "_"-extension of the other) and of '
        'the name of the callbacks that are not on_<event> ("on_", "on", "xon_<event>", "On_<event>", "<lambda>", ...). '
        'Every emitter history is also run beside a SECOND emitter alive in the same process (a fresh EventEmitter or the '
        'module-level global one; constructed before / after the judged one or half-way; running the same history, a short '
        'fixed one or a random one, interleaved by a drawn schedule; with its own or with the same callback and sender '
        'objects): the observations of the judged emitter - and of the second one when it runs the same history - must '
        'equal the model of the history alone, and a callback of one emitter called by the other is seen as an unknown '
        'function. A third of the reporter histories is run beside an unrelated EventEmitter that is constructed, reset, '
        'silenced or emits complete/progress with the reporter as sender at drawn positions. '
        'Non-trivial = some emit called a '
        'callback or was silenced / some completion was announced; distinct = distinct abstract history.')
EXHAUSTIVE = {'quick': True, 'thorough': True}
CLAUSES = {
    1: 'observed outputs differ from the Coq model PV.C19.Model',
    21: 'C19_dispatch: emit calls exactly the currently registered matching callbacks',
    22: 'C19_dispatch: registration order, callbacks marked last after all others',
    23: 'C19_dispatch: sender and arguments passed through unchanged',
    24: 'C19_dispatch: results returned in call order (single: first result after one call)',
    25: 'C19_dispatch_all: nothing is called while silenced (set_silent inside silent() blocks included)',
    26: 'C19_progress: completion announced exactly once per crossing',
    27: 'C19_progress_values: progress events / value / maximum follow the history',
    28: 'C19_dispatch_raising: a raising callback ends the emit (calls = expected prefix up to it, exception propagated)',
}
TRUSTED = ['CPython function/bound-method identity and ==, contextlib.contextmanager (LIFO exit of with-blocks)']
ASSUMES = ['silent() blocks are left in LIFO order (a `with` statement), normally or by an exception; set_silent '
           'inside a block is covered (C19_dispatch_all)',
           'the statement is read for callbacks that do not raise (raising ones: C19_dispatch_raising, clause 28); '
           'callbacks do not re-enter the emitter; unconnect items are never None',
           'reporter histories are not run while the emitter is silenced; values and maxima are integers']
TIMEOUT = {'quick': 60, 'thorough': 120}    # a case takes < 1 ms; generous so that machine load is never read as a hang

F0 = [0, 0, None]      # plain function on_ev0
F1 = [1, 1, None]      # plain function on_ev1
F2 = [2, None, None]   # plain function whose name is not on_<event>
F3 = [3, 0, 0]         # bound method on_ev0 of object 0 (object 0 is also used as a sender)
F4 = [4, None, 1]      # bound method (no on_ name) of object 1
FUNCS = [F0, F1, F2, F3, F4]


def C(f, style=None, sf=None, last=False):
    return ['c'] + list(f) + [style, sf, last]


def U(*items):
    return ['u', [(['f'] + list(i)) if isinstance(i, list) else ['o', i] for i in items]]


def E(ev=0, snd=0, args=(), kw=(), single=None):
    return ['e', ev, snd, list(args), [list(x) for x in kw], single]


R, EN, EX, EXX = ['r'], ['en'], ['ex'], ['exx']


def SS(b):
    return ['ss', b]


def normalise(ops):
    """Drop 'leave block' operations that have no open block (not expressible with `with`)."""
    out, d = [], 0
    for o in ops:
        if o[0] == 'en':
            d += 1
        elif o[0] in ('ex', 'exx'):
            if d == 0:
                continue
            d -= 1
        out.append(o)
    return out


def _with_names(case, names):
    if names is not None and list(names) != DEFAULT_NAMES:
        case['inp']['names'] = list(names)
    return case


def _with_co(case, co):
    if co:
        case['inp']['co'] = co
    return case


def _hist(ops, names=None, co=None):
    return _with_co(_with_names({'kind': 'hist', 'inp': {'ops': normalise(ops)}}, names), co)


def _prog(ops, co=None):
    return _with_co({'kind': 'prog', 'inp': {'ops': list(ops)}}, co)


def _histx(ops, raisers, names=None, co=None):
    return _with_co(_with_names({'kind': 'histx', 'inp': {'ops': normalise(ops), 'raise': sorted(set(raisers))}}, names), co)


def CO(ops=None, sched=(), born=0, who=0, share=False):
    """A second emitter alive beside the judged one (see _run_co)."""
    return {'ops': None if ops is None else normalise(ops), 'sched': list(sched), 'born': born, 'who': who,
            'share': bool(share)}


# ---- stage 5: spelling of the event names (implementation-side axis) --------------------------------------

DEFAULT_NAMES = ['ev0', 'ev1', None]
# tails of `on_<event>`: begin with a character of the prefix, end with one, contain the prefix, one character,
# digits, upper case, dunder, non-ASCII identifiers, long
NAME_POOL = ['next', 'open', 'new_cluster', 'n', 'o', '_', 'noon', 'on', 'no', 'on_', 'on_x', 'on_on_', '__init__', '_x',
             'o0', 'n_', 'onon', 'none', 'not_on', 'select', 'cluster', 'button', 'x_', 'selection', 'xon_y', 'a', 'x',
             '0', '2d', '10', 'On_x', 'ON', 'Next', 'N', 'O', 'my_event', 'test', 'progress', 'complete', 'ev',
             'ev0', 'ev1', 'ev10', 'e', 'v', 'gui_ready', 'add_view', 'close', 'is_busy', 'request_save',
             '\u00e9', '\u00f1and\u00fa', '\u043e', '\u03bd_x', '\u4e8b\u4ef6', 'a' * 40, 'on_' * 5 + 'z']
# one name derived from the other
NAME_DERIVE = [lambda a: 'on_' + a, lambda a: 'n_' + a, lambda a: '_' + a, lambda a: 'o' + a, lambda a: 'n' + a,
               lambda a: a + '_', lambda a: a + '_on', lambda a: a + 'n', lambda a: a + a, lambda a: a.upper(),
               lambda a: a.swapcase(), lambda a: a[:-1], lambda a: a[1:], lambda a: a.lstrip('on_'), lambda a: a.strip('_'),
               lambda a: a + '0', lambda a: a[::-1]]
# __name__ of a callback that is NOT on_<event> ('{0}' = spelling of event 0): connect by name must raise ValueError
BAD_POOL = [None, 'on_', 'on', 'o', '_', 'xon_{0}', 'On_{0}', 'ON_{0}', 'on{0}', '_on_{0}', ' on_{0}', 'non_{0}', 'no_{0}',
            '{0}', '{0}_on_', 'on-{0}', '<lambda>', 'on', 'callback', 'On_', 'o_n_{0}', '\u043en_{0}']


def _rand_name(rng):
    r = rng.random()
    if r < 0.7:
        return rng.choice(NAME_POOL)
    if r < 0.9:      # over the characters of the prefix and a few others
        return ''.join(rng.choice('on_on_aexs01') for _ in range(rng.randint(1, 8)))
    return ''.join(rng.choice('abcdefghijklmnopqrstuvwxyz_0123456789ABCXYZ') for _ in range(rng.randint(1, 12)))


def _draw_names(rng):
    """[s0, s1, bad]: two distinct non-empty event names and the name of the not-on_<event> callbacks."""
    if rng.random() < 0.12:
        s0, s1 = 'ev0', 'ev1'
    else:
        while True:
            s0 = _rand_name(rng)
            s1 = rng.choice(NAME_DERIVE)(s0) if rng.random() < 0.4 else _rand_name(rng)
            if rng.random() < 0.5:
                s0, s1 = s1, s0
            if s0 and s1 and s0 != s1:
                break
    bad = rng.choice(BAD_POOL) if rng.random() < 0.8 else None
    if bad is not None:
        bad = bad.replace('{0}', s0)
        if bad[:3] == 'on_' and len(bad) > 3:       # that IS an on_<event> name (s0 itself begins with on_)
            bad = None
    return [s0, s1, bad]


def _respell(cases, rng):
    """Give every emitter history of `cases` a drawn spelling (in place)."""
    for c in cases:
        if c['kind'] in ('hist', 'histx') and 'names' not in c['inp']:
            _with_names(c, _draw_names(rng))
    return cases


# ---- stage 6: other emitters alive in the same process (environment axis) ----------------------------------

CO_ACTIONS = ['new', 'new', 'reset', 'ss', 'emit']


def _draw_co(rng, case):
    ops = case['inp']['ops']
    if case['kind'] == 'prog':
        n = rng.choice([1, 1, 2, 3])
        return sorted([rng.randrange(len(ops)), rng.choice(CO_ACTIONS)] for _ in range(n)) if ops else None
    r = rng.random()
    if r < 0.45:
        bops = None                                        # the same history on both emitters
    elif r < 0.7:
        bops = [list(o) for o in rng.choice(CO_SHORT)]
    else:
        bops = [_rand_op(rng) for _ in range(rng.randint(1, 6))]
    nb = len(ops) if bops is None else len(bops)
    bits = [0] * len(ops) + [1] * nb
    rng.shuffle(bits)
    return CO(bops, bits, rng.choice([0, 0, 1, 2]), rng.choice([0, 0, 1]), rng.random() < 0.3)


def _add_co(cases, rng, frac=1.0):
    """Give the histories of `cases` a drawn second emitter (in place; drawn last: the histories are unchanged)."""
    for c in cases:
        if 'co' not in c['inp'] and (frac >= 1.0 or rng.random() < frac):
            _with_co(c, _draw_co(rng, c))
    return cases


def _names_of(inp):
    s0, s1, bad = inp.get('names') or DEFAULT_NAMES
    return s0, s1, bad


SMALL = [C(F0), C(F1, style=0, sf=0), C(F2, style=0, last=True), U(F0), U(0), R, EN, EX, SS(True), SS(False),
         E(0, 0, (7,)), E(0, 1, (1, 2), ((0, 3),), True)]

PSMALL = [['inc'], ['v', 0], ['v', 1], ['v', 2], ['v', 5], ['m', 0], ['m', 1], ['m', 2], ['m', 5], ['sc'],
          ['rs', None], ['rs', 1], ['rs', 5]]
KWS = [[[0, 3]], [[1, 4]], [[0, 5], [1, 1]], []]
PKW = [['inc', [[0, 3]]], ['inc'], ['sc', [[0, 5], [1, 1]]], ['v', 1], ['m', 2], ['m', 0], ['rs', None]]
PQUICK = [['inc'], ['v', 0], ['v', 2], ['m', 0], ['m', 2], ['m', 5], ['sc'], ['rs', None], ['rs', 2], ['rs', 5]]


def _wellbracketed(seq):
    d = 0
    for o in seq:
        if o[0] == 'en':
            d += 1
        elif o[0] in ('ex', 'exx'):
            if d == 0:
                return False
            d -= 1
    return True


# what the other emitter does when it does not run the same history
CO_SHORT = [[R], [C(F0)], [C(F1, 0)], [C(F2, 0, None, True)], [E(0, 0, (7,))], [SS(True)], [EN], [U(F0)], [U(0)],
            [C(F0), E(0, 0, (7,))], [C(F0), R], [EN, E(0, 0, (7,)), EX], [C(F1, 0, 0), E(0, 0, (7,)), U(0)], []]

SILENCING = [C(F0), EN, EX, EXX, SS(True), SS(False), E(0, 0, (7,))]


def _exhaustive_hist(maxlen, alpha=None):
    for n in range(1, maxlen + 1):
        for seq in itertools.product(alpha or SMALL, repeat=n):
            if seq[-1][0] != 'e':
                # operations after the last emit are unobservable: the same history without them is enumerated
                continue
            if not _wellbracketed(seq):
                continue
            yield {'kind': 'hist', 'inp': {'ops': [list(o) for o in seq]}}


RAISER_SETS = [[0], [1], [2], [0, 2]]


XSMALL = [C(F0), C(F1, style=0), C(F2, style=0, last=True), U(F0), EN, EX, E(0, 0, (7,)), E(0, 0, (1,), (), True)]


def _exhaustive_histx(maxlen):
    """Connect-heavy 8-operation alphabet (no sender filters: several callbacks per emit) x raiser sets."""
    for n in range(2, maxlen + 1):
        for seq in itertools.product(XSMALL, repeat=n):
            if seq[-1][0] != 'e' or not _wellbracketed(seq):
                continue
            fids = set(o[1] for o in seq if o[0] == 'c')
            if not fids:
                continue
            for rs in RAISER_SETS:
                if fids & set(rs):
                    yield {'kind': 'histx', 'inp': {'ops': [list(o) for o in seq], 'raise': list(rs)}}


def _rand_histx(rng, lo, hi):
    ops = []
    for _ in range(rng.randint(lo, hi)):
        r = rng.random()
        if r < 0.45:
            ops.append(C(rng.choice(FUNCS), rng.choice([0, 0, 0, 1]), rng.choice([None, None, None, 0]),
                         rng.random() < 0.35))
        elif r < 0.75:
            ops.append(E(0, rng.choice([0, 0, 1]), (7,), (), rng.choice([None, None, True])))
        else:
            ops.append(_rand_op(rng))
    ops.append(E(0, 0, (7,), (), rng.choice([None, None, True])))
    fids = sorted(set(o[1] for o in ops if o[0] == 'c')) or [0]
    return _histx(ops, rng.sample(fids, min(len(fids), rng.choice([1, 1, 2]))))


def _exhaustive_prog(alpha, maxlen):
    for n in range(1, maxlen + 1):
        for seq in itertools.product(alpha, repeat=n):
            if seq[-1][0] in ('m', 'rs'):
                continue      # a trailing max/reset emits nothing: covered by the shorter history
            yield _prog([list(o) for o in seq])


def _rand_op(rng):
    r = rng.random()
    if r < 0.30:
        f = rng.choice(FUNCS)
        style = None if rng.random() < 0.45 else rng.choice([0, 1])
        sf = rng.choice([None, None, 0, 1])
        return C(f, style, sf, rng.random() < 0.35)
    if r < 0.42:
        k = 1 if rng.random() < 0.7 else 2
        return U(*[rng.choice(FUNCS) if rng.random() < 0.5 else rng.choice([0, 1, 2]) for _ in range(k)])
    if r < 0.46:
        return R
    if r < 0.54:
        return EN
    if r < 0.59:
        return EX
    if r < 0.62:
        return EXX
    if r < 0.68:
        return SS(rng.random() < 0.5)
    args = rng.choice([(), (7,), (1, 2), (0,)])
    kw = rng.choice([(), (), ((0, 3),), ((0, 1), (1, 5))])
    return E(rng.choice([0, 0, 1]), rng.choice([0, 1, 2]), args, kw, rng.choice([None, None, True, False]))


def _rand_hist(rng, lo, hi):
    n = rng.randint(lo, hi)
    ops = [_rand_op(rng) for _ in range(n)]
    ops.append(E(rng.choice([0, 1]), rng.choice([0, 1]), (7,), (), rng.choice([None, None, True])))
    return _hist(ops)


def _rand_prog(rng, lo, hi):
    vals = [-1, 0, 1, 2, 3, 5, 9]
    ops = []
    for _ in range(rng.randint(lo, hi)):
        r = rng.random()
        if r < 0.3:
            ops.append(['inc'] if rng.random() < 0.6 else ['inc', rng.choice(KWS)])
        elif r < 0.5:
            ops.append(['v', rng.choice(vals)])
        elif r < 0.7:
            ops.append(['m', rng.choice(vals)])
        elif r < 0.8:
            ops.append(['sc'] if rng.random() < 0.6 else ['sc', rng.choice(KWS)])
        else:
            ops.append(['rs', rng.choice([None] + vals)])
    return _prog(ops)


def corpus():
    cs = []
    e = E(0, 0, (7,))
    # --- minimal failing inputs of the two repaired defects (fixed: property=C19 ...) ---
    cs.append(_hist([C(F0), EN, EN, e, EX, e, EX, e]))                   # nested silent(): toggled back on
    cs.append(_hist([C(F0), SS(True), EN, e, EX, e, SS(False), e]))      # silent() under set_silent(True)
    cs.append(_prog([['m', 1], ['v', 1], ['rs', None], ['v', 1]]))       # reset() does not re-arm
    cs.append(_prog([['m', 1], ['v', 1], ['rs', 5], ['v', 5]]))          # reset(k>max) bypasses the setter
    cs.append(_prog([['m', 2], ['sc'], ['rs', 2], ['inc'], ['inc']]))
    # --- one boundary case per clause / operator of the anchored code ---
    cs.append(_hist([C(F2, 0, None, True), C(F0), C(F1, 0), e]))         # 'last' registered first goes last
    cs.append(_hist([C(F2, 0, None, True), C(F0), C(F1, 0, None, True), C(F3), E(0, 0, (7,), (), True)]))
    cs.append(_hist([C(F2, 0, None, True), E(0, 0, (1,), (), True), C(F0), E(0, 0, (1,), (), True)]))
    cs.append(_hist([E(0, 0, (), (), True), E(0, 0)]))                   # nothing registered: [] even when single
    cs.append(_hist([C(F0, None, 0), C(F1, 0, 1), C(F2, 0), E(0, 0), E(0, 1), E(0, 2), E(1, 0)]))  # filters
    cs.append(_hist([C(F0, None, 0), C(F1, 0, 1), e, U(0), e, E(0, 1), U(1), E(0, 1)]))  # unconnect by sender
    cs.append(_hist([C(F0), C(F1, 0), C(F0), e, U(F0), e, C(F0), e]))    # duplicates, unconnect by function
    cs.append(_hist([C(F3), C(F4, 0), C(F0), e, U(0), e, U(1), e]))      # unconnect by owner of a bound method
    cs.append(_hist([C(F3, None, 1), C(F0, None, 0), U(0), E(0, 1), E(0, 0)]))  # owner and sender, same object
    cs.append(_hist([C(F2), C(F4), e, C(F2, 0), e]))                     # by name without on_<event>: ValueError
    cs.append(_hist([C(F0, 1), C(F1, 0), E(0, 0), E(1, 0)]))             # explicit event overrides the name
    cs.append(_hist([C(F0), e, R, e, C(F1, 0), e]))                      # reset
    cs.append(_hist([C(F0), E(0, 0, (1, 2), ((0, 3), (1, 5))), E(0, 0, (), ((1, 1),), True),
                     E(0, 0, (0,), (), False)]))                         # argument pass-through, single=False
    cs.append(_hist([C(F0), SS(True), e, SS(False), e, EN, e, EX, e]))   # silencing
    cs.append(_hist([C(F0), EN, C(F1, 0), U(F0), EX, e]))                # registry changes while silenced
    cs.append(_hist([C(F0), EN, SS(False), e, EX, e]))                   # set_silent inside a block (stage 3: judged)
    cs.append(_hist([C(F0), EN, SS(True), EX, e, SS(False), e]))
    cs.append(_hist([C(F0), SS(True), EN, SS(False), e, EX, e, SS(False), e]))     # exit restores set_silent(True)
    cs.append(_hist([C(F0), EN, SS(False), EN, e, SS(False), e, EX, e, EX, e]))    # nested, set_silent in both
    cs.append(_hist([C(F0), EN, EN, SS(False), EX, e, SS(False), e, EX, e]))       # inner block restores True
    cs.append(_hist([C(F0), SS(True), EN, EX, e, EN, SS(False), EX, e, SS(False), EN, SS(True), EX, e]))
    # --- a block left by an exception (fixed: property=C19 56f11b0): minimal failing inputs ---
    cs.append(_hist([C(F0), EN, EXX, e]))                                # stayed silenced for good
    cs.append(_hist([C(F0), EN, EN, EXX, e, EX, e]))                     # inner block left by an exception
    cs.append(_hist([C(F0), SS(True), EN, SS(False), EXX, e, SS(False), e]))   # restores set_silent(True)
    cs.append(_hist([C(F0), EN, EXX, EN, EX, e, EN, e, EXX, e]))
    # --- raising callbacks (stage 3) ---
    cs.append(_histx([C(F0), C(F1, 0), C(F2, 0), e, e], [1]))            # F0 called, F1 raises, F2 never called
    cs.append(_histx([C(F2, 0, None, True), C(F0), C(F1, 0), e], [0]))   # first raises: the 'last' one is not reached
    cs.append(_histx([C(F2, 0, None, True), C(F0), C(F1, 0), e], [2]))   # 'last' raises after all others were called
    cs.append(_histx([C(F0), C(F1, 0), E(0, 0, (7,), (), True)], [0]))   # single: the one call raises
    cs.append(_histx([C(F0), C(F1, 0), E(0, 0, (7,), (), True), e], [1]))  # single: the raiser is not reached
    cs.append(_histx([C(F0), SS(True), e, SS(False), EN, e, EX, e], [0]))  # silenced: no call, no exception
    cs.append(_histx([C(F0, None, 1), C(F1, 0), e, E(0, 1)], [0]))       # raiser filtered out by sender
    cs.append(_histx([C(F0), C(F1, 0), e, U(F0), e, C(F0), e, R, e], [0]))  # registry unchanged by a raising emit
    cs.append(_histx([C(F3), C(F0), e, U(0), e], [3]))                   # raising bound method, unconnect by owner
    cs.append(_prog([['v', 0], ['v', 0], ['inc']]))                      # max 0: first update completes
    cs.append(_prog([['m', 2], ['inc'], ['inc'], ['inc'], ['v', 1], ['inc']]))
    cs.append(_prog([['m', 2], ['sc'], ['sc'], ['m', 3], ['sc'], ['m', 1], ['sc'], ['m', 1], ['inc']]))
    cs.append(_prog([['m', 2], ['v', 5], ['m', 5], ['inc'], ['m', 7], ['v', 7]]))
    cs.append(_prog([['m', 2], ['v', 2], ['rs', 0], ['inc'], ['rs', 2], ['inc'], ['inc']]))
    cs.append(_prog([['m', -2], ['v', -3], ['v', -2], ['rs', -1], ['inc']]))
    # --- stage 3: keyword arguments, is_complete(), progress, message callbacks ---
    cs.append(_prog([['m', 2], ['inc', [[0, 3]]], ['inc', [[0, 4], [1, 1]]], ['inc', [[1, 2]]], ['sc', [[0, 9]]]]))
    cs.append(_prog([['inc', [[0, 1]]], ['m', 3], ['sc', [[0, 2]]], ['v', 5], ['m', 8], ['v', 3], ['m', -4], ['v', -1]]))
    cs.append(_prog([['m', 3], ['v', 1], ['v', 2], ['m', 9], ['v', 5], ['v', 7], ['rs', 5], ['v', 3]]))  # inexact quotients
    # --- stage 5: the spelling of the event names (by-name connect derives the event from `on_<event>`) ---
    e1 = E(1, 0, (7,))
    byname = [C(F1, 0), C(F0), C(F3, None, None, True), C(F1), e, e1, U(F0), e, e1]     # explicit + by name, same event
    for nm in (['next', 'open', None], ['new_cluster', 'n', 'on_'], ['_', 'o', 'on'], ['noon', 'on', '<lambda>'],
               ['on_x', 'x', 'xon_on_x'], ['x', 'on_x', 'On_x'], ['n_a', 'a', 'non_n_a'], ['a', 'a_', 'a'],
               ['button', 'butto', 'o'], ['ev', 'ev0', None], ['Next', 'next', 'ON_Next'], ['0', '10', '_'],
               ['\u00e9', '\u043e', '\u043en_\u00e9'], ['on_on_', 'on_', ' on_x']):
        cs.append(_hist(byname, nm))
    cs.append(_hist([C(F2), C(F4), C(F0), e, C(F2, 0), e], ['next', 'open', 'on_']))     # ValueError for 'on_' / 'xon_..'
    cs.append(_hist([C(F2), C(F4), C(F0), e, C(F2, 0), e], ['open', 'next', 'xon_open']))
    cs.append(_histx([C(F0), C(F1, 0), C(F1), e, e1], [1], ['open', 'next', None]))
    # --- stage 6: a second emitter alive in the same process (registrations are per emitter) ---
    cs.append(_hist([C(F0), e], co=CO([], [0, 1, 0])))                   # another emitter is constructed half-way
    cs.append(_hist([C(F0), e], co=CO([R], [0, 1, 0], born=1)))          # ... is reset
    cs.append(_hist([C(F0), e], co=CO([C(F1, 0)], [0, 1, 0], born=1)))   # ... gets a callback for the same event
    cs.append(_hist([C(F0), e], co=CO([C(F1, 0), e], [0, 1, 1, 0], born=2)))     # ... emits the same event
    cs.append(_hist([C(F0), e], co=CO([SS(True)], [0, 1, 0], born=1)))   # ... is silenced
    cs.append(_hist([C(F0), e], co=CO([EN], [0, 1, 0], born=1, who=1)))  # the global emitter is silenced
    cs.append(_hist([C(F0), e, U(F0), e], co=CO([C(F0), U(F0), e], [0, 1, 0, 1, 0, 1, 0], born=1, share=True)))
    cs.append(_hist([C(F2, 0, None, True), C(F0), C(F1, 0, 0), e, U(0), e, R, e], co=CO(None, [0, 1, 0, 0, 1, 1, 0, 1, 1, 0, 0])))
    cs.append(_hist([C(F0), EN, e, EX, e], co=CO(None, [0, 1, 0, 0, 1, 1, 0], born=1, who=1)))
    cs.append(_histx([C(F0), C(F1, 0), e, e], [1], co=CO(None, [0, 1, 0, 1, 0, 1], born=0)))
    cs.append(_prog([['m', 2], ['inc'], ['inc']], [[2, 'new']]))         # an emitter constructed before the crossing
    cs.append(_prog([['m', 2], ['inc'], ['inc'], ['v', 0], ['v', 2]], [[1, 'new'], [2, 'emit'], [3, 'reset'], [4, 'ss']]))
    return cs


def generate(tier, rng):
    cases = corpus()
    if tier == 'search':
        for _ in range(6000):
            cases.append(_rand_hist(rng, 2, 10))
        for _ in range(4000):
            cases.append(_rand_prog(rng, 2, 10))
        for _ in range(3000):
            cases.append(_rand_histx(rng, 2, 10))
        return _add_co(_respell(cases, rng), rng)
    quick = tier == 'quick'
    cases += list(_exhaustive_hist(4 if quick else 5, SMALL))
    cases += list(_exhaustive_hist(5 if quick else 6, SILENCING))
    cases += list(_exhaustive_prog(PQUICK if quick else PSMALL, 4 if quick else 5))
    if quick:
        cases += list(_exhaustive_prog(PSMALL, 3))
    cases += list(_exhaustive_prog(PKW, 3 if quick else 4))
    cases += list(_exhaustive_histx(4 if quick else 5))
    nh, np_ = (3600, 1500) if quick else (40000, 20000)
    for _ in range(nh):
        cases.append(_rand_hist(rng, 2, 9 if quick else 12))
    for _ in range(np_):
        cases.append(_rand_prog(rng, 2, 9 if quick else 12))
    for _ in range(nh // 4):
        cases.append(_rand_histx(rng, 2, 9 if quick else 12))
    # stage 5: every history gets a drawn spelling of its event names (drawn last: the histories above are unchanged)
    # stage 6: every emitter history is also run beside a drawn second emitter, a third of the reporter histories
    # beside an unrelated emitter (drawn after the spellings: histories and spellings above are unchanged)
    _respell(cases, rng)
    progs = [c for c in cases if c['kind'] == 'prog']
    _add_co([c for c in cases if c['kind'] != 'prog'], rng)
    _add_co(progs, rng, 0.34)
    return cases


# ---- implementation side -------------------------------------------------------------------------

class _Obj(object):
    """Sender / owner object with identity semantics."""
    def __init__(self, i):
        self.i = i


class _VObj(object):
    """Sender / owner object compared by value: a fresh but equal instance is used at every mention."""
    def __init__(self, i):
        self.i = i

    def __eq__(self, other):
        return isinstance(other, _VObj) and other.i == self.i

    def __ne__(self, other):
        return not self.__eq__(other)

    def __hash__(self):
        return hash(self.i)


def _dec_sender(s):
    return s.i if isinstance(s, (_Obj, _VObj)) and isinstance(s.i, int) else -99


def _dec_int(x):
    if isinstance(x, bool):
        return int(x)
    return x if isinstance(x, int) else -99


def _dec_kw(kwargs):
    out = []
    for k, v in kwargs.items():
        if isinstance(k, str) and k[:1] == 'k' and k[1:].isdigit():
            ki = int(k[1:])
        elif k == 'single':
            ki = 99
        else:
            ki = 98
        out.append([ki, _dec_int(v)])
    return sorted(out)


class _BlockError(Exception):
    """The exception that leaves a silent() block in an 'exx' operation."""


class _Boom(Exception):
    """Raised by the callbacks of a 'histx' case that are listed in inp['raise']."""


class _World(object):
    """One emitter with its callbacks and sender objects. Stage 6: several worlds may live in one process and share
    one call log; a log entry is [tag, record] with tag = wid of the world that made the callback (None: callbacks
    shared by both worlds). A world sees the calls of callbacks of another world with the function id + 100."""
    def __init__(self, cfg, raisers=(), names=None, log=None, wid=0, peer=None):
        self.cfg = cfg
        self.names = list(names or DEFAULT_NAMES)
        self.raisers = frozenset(raisers)
        self.log = [] if log is None else log
        self.wid = wid
        self.tag = wid if peer is None else None
        self.mark = None                 # co-run: length of the shared log at the end of this world's previous operation
        self.funcs = {} if peer is None else peer['funcs']      # peer: callback / sender objects shared with the other world
        self.objs = {} if peer is None else peer['objs']
        from phylib.utils import event as ev
        if cfg == 0:
            em = ev.EventEmitter()
            self.connect, self.unconnect, self.reset = em.connect, em.unconnect, em.reset
            self.silent, self.set_silent, self.emit = em.silent, em.set_silent, em.emit
        else:
            import phylib.utils as pu
            self.connect, self.unconnect, self.reset = pu.connect, pu.unconnect, pu.reset
            self.silent, self.set_silent, self.emit = pu.silent, pu.set_silent, pu.emit
            pu.reset()
            pu.set_silent(False)
        self.stack = []

    def obj(self, i, canonical=False):
        if self.cfg == 0 or canonical:
            if i not in self.objs:
                self.objs[i] = (_Obj if self.cfg == 0 else _VObj)(i)
            return self.objs[i]
        return _VObj(i)

    def ev(self, i):
        return self.names[i]

    def func(self, fid, name, owner):
        key = (fid, name, owner)
        if key in self.funcs:
            return self.funcs[key]
        log = self.log
        tag = self.tag
        rec0 = [fid, name, owner]
        boom = fid in self.raisers
        if owner is None:
            def body(sender, *args, **kwargs):
                rec = rec0 + [_dec_sender(sender), [_dec_int(a) for a in args], _dec_kw(kwargs)]
                log.append([tag, rec])
                if boom:
                    raise _Boom(fid)
                return ('res', rec, tag)
            f = body
        else:
            import types

            def body(self_, sender, *args, **kwargs):
                rec = rec0 + [_dec_sender(sender), [_dec_int(a) for a in args], _dec_kw(kwargs)]
                log.append([tag, rec])
                if boom:
                    raise _Boom(fid)
                return ('res', rec, tag)
            f = types.MethodType(body, self.obj(owner, canonical=True))
        body.__name__ = ('on_' + self.ev(name)) if name is not None else (self.names[2] or 'cb%d' % fid)
        body.__qualname__ = body.__name__
        self.funcs[key] = f
        return f

    def _view(self, tag, rec):
        """A call record as this world sees it: a callback made by another world is not one of its functions."""
        return rec if tag is None or tag == self.wid else [rec[0] + 100] + list(rec[1:])

    def _window(self, n0):
        """Calls attributed to the emit that began at log length n0: everything logged during it, preceded (co-run) by
        the calls that callbacks of THIS world received since its previous operation (nothing of this emitter ran then:
        only another emitter can have made them)."""
        pre = []
        if self.mark is not None and self.tag is not None:
            pre = [e for e in self.log[self.mark:n0] if e[0] == self.wid]
        return [self._view(t, r) for t, r in pre + self.log[n0:]]

    def do(self, o):
        k = o[0]
        if k == 'c':
            _, fid, name, owner, style, sf, last = o
            f = self.func(fid, name, owner)
            kw = {}
            if style is not None:
                kw['event'] = self.ev(style)
            if sf is not None:
                kw['sender'] = self.obj(sf)
            if self.cfg == 0:
                if last:
                    kw['last'] = True
                try:
                    self.connect(f, **kw)
                except ValueError:
                    return ['err']
            else:
                kw['last'] = bool(last)
                try:
                    if style is None and sf is None and not last:
                        kw = {}
                        r = self.connect(f)                  # bare decorator form
                    else:
                        r = self.connect(**kw)(f)            # decorator with arguments
                except ValueError:
                    return ['err']
                if r is not f:
                    return ['exc', 'decorator-did-not-return-function']
            return ['n']
        if k == 'u':
            items = [self.func(*it[1:]) if it[0] == 'f' else self.obj(it[1]) for it in o[1]]
            self.unconnect(*items)
            return ['n']
        if k == 'r':
            self.reset()
            return ['n']
        if k == 'ss':
            self.set_silent(bool(o[1]))
            return ['n']
        if k == 'en':
            cm = self.silent()
            cm.__enter__()
            self.stack.append(cm)
            return ['n']
        if k == 'ex':
            cm = self.stack.pop()
            cm.__exit__(None, None, None)
            return ['n']
        if k == 'exx':
            # what a `with` statement does when its body raises: __exit__(type, value, traceback);
            # a false result means the exception goes on propagating
            cm = self.stack.pop()
            exc = _BlockError('raised inside the block')
            try:
                swallowed = cm.__exit__(_BlockError, exc, None)
            except _BlockError as e2:
                return ['n'] if e2 is exc else ['exc', 'other-exception']
            return ['exc', 'exception-swallowed'] if swallowed else ['n']
        if k == 'e':
            _, evn, snd, args, kw, single = o
            kwargs = dict(('k%d' % a, b) for a, b in kw)
            if single is not None or self.cfg == 1:
                kwargs['single'] = single
            n0 = len(self.log)
            try:
                r = self.emit(self.ev(evn), self.obj(snd), *args, **kwargs)
            except _Boom:
                return ['raise', self._window(n0)]
            calls = self._window(n0)
            if r is None:
                ret = ['none']
            elif isinstance(r, list) and all(isinstance(x, tuple) and len(x) == 3 and x[0] == 'res' for x in r):
                ret = ['list', [self._view(x[2], x[1]) for x in r]]
            elif isinstance(r, tuple) and len(r) == 3 and r[0] == 'res':
                ret = ['single', self._view(r[2], r[1])]
            else:
                ret = ['weird']
            return ['emit', calls, ret]
        raise ValueError(k)

    def close(self):
        while self.stack:
            try:
                self.stack.pop().__exit__(None, None, None)
            except BaseException:
                pass
        if self.cfg == 1:
            self.reset()
            self.set_silent(False)


def _run_hist(ops, cfg, raisers=(), names=None):
    w = _World(cfg, raisers, names)
    out = []
    try:
        for o in ops:
            try:
                out.append(w.do(o))
            except Exception as e:      # unexpected: observable of that operation
                out.append(['exc', type(e).__name__])
    finally:
        w.close()
    return out


def _run_co(ops, cfg, raisers, names, co):
    """Stage 6: the history `ops` on one emitter (configuration cfg) WHILE a second emitter is alive in the same
    process and performs co['ops'] (None: the same history), interleaved by co['sched'] (0: the judged emitter does
    its next operation, 1: the other one does; what is left over runs afterwards, judged emitter first).
    co['born']: 0 = the other emitter is constructed just before its first operation (i.e. half-way), 1 = at the start
    after the judged one, 2 = at the start before it. co['who'] = 1: the other emitter is the module-level global one
    (only when the judged one is a fresh EventEmitter). co['share']: both connect the SAME callback / sender objects.
    Returns (observations of the judged emitter, observations of the other one)."""
    bops = ops if co.get('ops') is None else co['ops']
    bcfg = 1 if (cfg == 0 and co.get('who') == 1) else 0
    share = bool(co.get('share')) and bcfg == cfg
    born = co.get('born', 0)
    log = []
    peer = {'funcs': {}, 'objs': {}} if share else None
    ws = [None, None]

    def make(i):
        if ws[i] is None:
            ws[i] = _World(cfg if i == 0 else bcfg, raisers, names, log=log, wid=i, peer=peer)
            ws[i].mark = len(log)
        return ws[i]
    outs = ([], [])
    todo = (list(ops), list(bops))
    pos = [0, 0]
    try:
        if born == 2:
            make(1)
        make(0)
        if born == 1:
            make(1)
        sched = [1 if x else 0 for x in co.get('sched', [])] + [0] * len(ops) + [1] * len(bops)
        for i in sched:
            w = make(i)              # a scheduled turn constructs the emitter even when it has nothing (left) to do
            if pos[i] >= len(todo[i]):
                continue
            o = todo[i][pos[i]]
            pos[i] += 1
            try:
                outs[i].append(w.do(o))
            except Exception as e:
                outs[i].append(['exc', type(e).__name__])
            w.mark = len(log)
    finally:
        for w in (ws[1], ws[0]):
            if w is not None:
                w.close()
    return outs


_TOK = None


def _tokens(text):
    """Lines printed by the message callbacks -> ['P', k0|None, ends_line] / ['C', k0|None]; None if unparsable."""
    global _TOK
    import re
    if _TOK is None:
        _TOK = re.compile(r'P(\?|-?\d+)(\r|\n)|C(\?|-?\d+)\x1b\[K\n')
    out, pos = [], 0
    while pos < len(text):
        m = _TOK.match(text, pos)
        if not m:
            return None
        if m.group(1) is not None:
            out.append(['P', None if m.group(1) == '?' else int(m.group(1)), m.group(2) == '\n'])
        else:
            out.append(['C', None if m.group(3) == '?' else int(m.group(3))])
        pos = m.end()
    return out


def _run_prog(ops, co=()):
    """co (stage 6) = [[position, action], ...]: before the operation at `position` an UNRELATED EventEmitter does
    'new' (one more is constructed and gets callbacks for complete / progress, unfiltered and filtered on pr),
    'reset', 'ss' (set_silent(True)), 'emit' (it emits complete and progress with sender pr: only its own callbacks
    may be called). A call of one of its callbacks outside its own emits, or of pr's callbacks inside them, is logged
    and makes the observation of that operation differ from the model."""
    import contextlib
    import io
    import phylib.utils as pu
    from phylib.utils.event import ProgressReporter
    pu.reset()
    pu.set_silent(False)
    try:
        pr = ProgressReporter()
        other = ProgressReporter()     # a second reporter: its events must not be attributed to pr
        log = []

        @pu.connect(sender=pr)
        def on_progress(sender, value, value_max, **kwargs):
            log.append(['p', _dec_int(value), _dec_int(value_max), _dec_kw(kwargs)] if sender is pr else ['x'])

        @pu.connect(sender=pr)
        def on_complete(sender, **kwargs):
            log.append(['c', _dec_kw(kwargs)] if sender is pr else ['x'])
        # the message callbacks (registered after the recording ones): what they print is observed
        pr.set_progress_message('P{k0}')
        pr.set_complete_message('C{k0}')
        other.set_complete_message('OTHER')
        buf0 = io.StringIO()
        with contextlib.redirect_stdout(buf0):
            other.value_max = 1
            other.value = 1
        out = []
        ems, inb = [], [0]
        from phylib.utils.event import EventEmitter

        def bystander(action):
            if action == 'new' or not ems:
                em = EventEmitter()
                em.connect(lambda sender, **kwargs: inb[0] or log.append(['x']), event='complete')
                em.connect(lambda sender, *a, **kwargs: inb[0] or log.append(['x']), event='progress', sender=pr)
                em.connect(lambda sender, **kwargs: inb[0] or log.append(['x']), event='complete', sender=pr, last=True)
                ems.append(em)
            if action == 'reset':
                ems[-1].reset()
            elif action == 'ss':
                ems[-1].set_silent(True)
            elif action == 'emit':
                inb[0] += 1
                try:
                    ems[-1].emit('progress', pr, 1, 2)
                    ems[-1].emit('complete', pr)
                finally:
                    inb[0] -= 1
        for idx, o in enumerate(ops):
            n0 = len(log)
            k = o[0]
            kw = dict(('k%d' % a, b) for a, b in (o[1] if k in ('inc', 'sc') and len(o) > 1 else []))
            buf = io.StringIO()
            with contextlib.redirect_stdout(buf):
                for cpos, action in co:
                    if cpos == idx:
                        bystander(action)      # inside the redirection: what pr's message callbacks print is observed
                if k == 'inc':
                    pr.increment(**kw)
                elif k == 'v':
                    pr.value = o[1]
                elif k == 'm':
                    pr.value_max = o[1]
                elif k == 'sc':
                    pr.set_complete(**kw)
                elif k == 'rs':
                    if o[1] is None:
                        pr.reset()
                    else:
                        pr.reset(o[1])
                else:
                    raise ValueError(k)
            try:
                pg = pr.progress
                pg = list(pg.as_integer_ratio()) if isinstance(pg, float) and pg == pg and abs(pg) != float('inf') \
                    else ['weird']
            except ZeroDivisionError:
                pg = None
            out.append([log[n0:], _dec_int(pr.value), _dec_int(pr.value_max), bool(pr.is_complete()), pg,
                        _tokens(buf.getvalue())])
        return out
    finally:
        pu.reset()
        pu.set_silent(False)


def all_runs(case):
    """[(label, observations)]: every implementation-side run of an emitter history that must equal the model."""
    i = case['inp']
    raisers = i.get('raise', ())
    out = []
    for cfg in (0, 1):
        out.append(('alone cfg=%d' % cfg, _run_hist(i['ops'], cfg, raisers, i.get('names'))))
    co = i.get('co')
    if co:
        for cfg in (0, 1):
            a, b = _run_co(i['ops'], cfg, raisers, i.get('names'), co)
            out.append(('beside another emitter cfg=%d' % cfg, a))
            if co.get('ops') is None:
                out.append(('the other emitter (same history) cfg=%d' % cfg, b))
    return out


def run_case(case):
    k, i = case['kind'], case['inp']
    if k in ('hist', 'histx'):
        runs = []
        for _, r in all_runs(case):
            if r not in runs:
                runs.append(r)
        return (k, runs)
    if k == 'prog':
        r = _run_prog(i['ops'])
        if i.get('co'):
            r2 = _run_prog(i['ops'], i['co'])
            if r2 != r:
                # one observation list per history: report the run beside the other emitter (the model is the same)
                return ('prog', r2)
        return ('prog', r)
    raise ValueError(k)


# ---- encoding for Coq ---------------------------------------------------------------------------

def _func(fid, name, owner):
    return '(mkfunc %s %s %s)' % (q.z(fid), q.opt(name), q.opt(owner))


def _pl(args, kw):
    return '(mkpl %s %s)' % (q.zl(args), q.lst(kw, lambda p: q.pair(q.z(p[0]), q.z(p[1]))))


def _optb(x):
    return 'None' if x is None else '(Some %s)' % q.b(x)


def _op(o):
    k = o[0]
    if k == 'c':
        _, fid, name, owner, style, sf, last = o
        return q.app('Connect', _func(fid, name, owner), 'ByName' if style is None else '(Explicit %s)' % q.z(style),
                     q.opt(sf), q.b(last))
    if k == 'u':
        return q.app('Unconnect', q.lst(o[1], lambda it: '(TFunc %s)' % _func(*it[1:]) if it[0] == 'f'
                                        else '(TObj %s)' % q.z(it[1])))
    if k == 'r':
        return 'Reset'
    if k == 'ss':
        return '(SetSilent %s)' % q.b(o[1])
    if k == 'en':
        return 'SilentEnter'
    if k == 'ex':
        return 'SilentExit'
    if k == 'exx':
        return 'SilentExitExc'
    if k == 'e':
        _, ev, snd, args, kw, single = o
        return q.app('Emit', q.z(ev), q.z(snd), _pl(args, sorted(kw)), _optb(single))
    raise ValueError(k)


def _call(rec):
    fid, name, owner, sid, args, kw = rec
    return '(mkcall %s %s %s)' % (_func(fid, name, owner), q.z(sid), _pl(args, kw))


_DUMMY = '(mkcall (mkfunc (-1) None None) (-1) (mkpl [] []))'


def _oobs(x):
    k = x[0]
    if k == 'n':
        return '(Ob ONone)'
    if k == 'err':
        return '(Ob OError)'
    if k == 'exc':
        return 'ObExc'
    if k == 'emit':
        calls, ret = x[1], x[2]
        if ret[0] == 'none':
            r = 'RNone'
        elif ret[0] == 'list':
            r = '(RList %s)' % q.lst(ret[1], _call)
        elif ret[0] == 'single':
            r = '(RSingle %s)' % _call(ret[1])
        else:
            r = '(RSingle %s)' % _DUMMY
        return '(Ob (OEmit %s %s))' % (q.lst(calls, _call), r)
    raise ValueError(k)


def _xobs(x):
    k = x[0]
    if k == 'n':
        return '(Xb XNone)'
    if k == 'err':
        return '(Xb XError)'
    if k == 'exc':
        return 'XbExc'
    if k == 'raise':
        return '(Xb (XRaise %s))' % q.lst(x[1], _call)
    if k == 'emit':
        inner = _oobs(x)                      # '(Ob (OEmit calls r))'
        return '(Xb (XEmit' + inner[len('(Ob (OEmit'):]
    raise ValueError(k)


def _kwd(kw):
    return q.lst(sorted(kw), lambda p: q.pair(q.z(p[0]), q.z(p[1])))


def _pop(o):
    k = o[0]
    kw = o[1] if k in ('inc', 'sc') and len(o) > 1 else []
    if k == 'inc':
        base = 'PInc'
    elif k == 'v':
        base = '(PSetValue %s)' % q.z(o[1])
    elif k == 'm':
        base = '(PSetMax %s)' % q.z(o[1])
    elif k == 'sc':
        base = 'PSetComplete'
    elif k == 'rs':
        base = '(PReset %s)' % q.opt(o[1])
    else:
        raise ValueError(k)
    return '(mkpk %s %s)' % (base, _kwd(kw))


def _pev(e):
    if e[0] == 'p':
        return '(EvProgress %s %s, %s)' % (q.z(e[1]), q.z(e[2]), _kwd(e[3]))
    if e[0] == 'c':
        return '(EvComplete, %s)' % _kwd(e[1])
    return '(EvProgress (-99) (-99), [])'


def _ptok(t):
    if t[0] == 'P':
        return '(TokProgress %s %s)' % (q.opt(t[1]), q.b(t[2]))
    return '(TokComplete %s)' % q.opt(t[1])


def _pobsx(x):
    evs, v, m, isc, pg, toks = x
    if pg is None:
        pgs = 'None'
    elif pg == ['weird']:
        pgs = '(Some (0, 0))'
    else:
        pgs = '(Some (%s, %s))' % (q.z(pg[0]), q.z(pg[1]))
    tk = q.lst(toks, _ptok) if toks is not None else '[TokComplete (Some (-99)); TokComplete (Some (-99))]'
    return '(mkpobsx %s %s %s %s %s %s)' % (q.lst(evs, _pev), q.z(v), q.z(m), q.b(isc), pgs, tk)


def encode(case, obs):
    k, i = case['kind'], case['inp']
    crash = obs[0] == 'crash'
    if k == 'hist':
        cin = q.app('InHist', q.lst(i['ops'], _op))
        cobs = 'ObsCrash' if crash else q.app('ObsHist', q.lst(obs[1], lambda run: q.lst(run, _oobs)))
    elif k == 'histx':
        cin = q.app('InHistX', q.lst(i['ops'], _op), q.zl(i['raise']))
        cobs = 'ObsCrash' if crash else q.app('ObsHistX', q.lst(obs[1], lambda run: q.lst(run, _xobs)))
    elif k == 'prog':
        cin = q.app('InProg', q.lst(i['ops'], _pop))
        cobs = 'ObsCrash' if crash else q.app('ObsProg', q.lst(obs[1], _pobsx))
    else:
        raise ValueError(k)
    return cin, cobs


def nontrivial(case, obs):
    if obs[0] == 'crash':
        return False
    if case['kind'] == 'hist':
        return any(x[0] == 'emit' and (x[1] or x[2][0] == 'none') for x in obs[1][0])
    if case['kind'] == 'histx':
        return any(x[0] == 'raise' for x in obs[1][0])
    return any(e[0] == 'c' for x in obs[1] for e in x[0])


def _bucket(n):
    return str(n) if n <= 4 else '5-7' if n <= 7 else '8+'


def dist(case, obs):
    k, ops = case['kind'], case['inp']['ops']
    out = ['kind=' + k, '%s.len=%s' % (k, _bucket(len(ops)))]
    if obs[0] == 'crash':
        out.append('crash=' + obs[1])
        return out
    co = case['inp'].get('co')
    if co and k == 'prog':
        out.append('prog.beside_unrelated_emitter')
        for a in sorted(set(a for _, a in co)):
            out.append('prog.other_emitter_does=' + a)
    elif co:
        out.append('co=' + ('same_history' if co.get('ops') is None else 'other_history.len=%s' % _bucket(len(co['ops']))))
        out.append('co.born=%s' % ['half-way', 'at start, second', 'at start, first'][co.get('born', 0)])
        out.append('co.other_is_global_emitter=%s' % bool(co.get('who')))
        out.append('co.shared_callbacks=%s' % bool(co.get('share')))
        sw = sum(1 for a, b in zip(co.get('sched', []), co.get('sched', [])[1:]) if a != b)
        out.append('co.schedule_switches=%s' % _bucket(sw))
    if k in ('hist', 'histx'):
        s0, s1, bad = _names_of(case['inp'])
        out.append('names=' + ('default' if [s0, s1] == DEFAULT_NAMES[:2] else 'drawn'))
        byname = [o[2] for o in ops if o[0] == 'c' and o[4] is None and o[2] is not None]
        if any((s0, s1)[n][:1] in ('o', 'n', '_') for n in byname):
            out.append('names.by_name_connect_of_event_beginning_with_o_n_underscore')
        if any('on_' in (s0, s1)[n] for n in byname):
            out.append('names.by_name_connect_of_event_containing_on_')
        if bad is not None and any(o[0] == 'c' and o[4] is None and o[2] is None for o in ops):
            out.append('names.by_name_connect_of_drawn_non_on_name')
    if k == 'histx':
        run = obs[1][0]
        out.append('histx.raising_emits=%s' % _bucket(sum(1 for x in run if x[0] == 'raise')))
        out.append('histx.max_calls_before_raise=%s' % _bucket(max([len(x[1]) - 1 for x in run if x[0] == 'raise'] or [0])))
        if any(x[0] == 'emit' and x[1] for x in run):
            out.append('histx.has_nonraising_emit_with_calls')
        return out
    if k == 'hist':
        d = md = 0
        for o in ops:
            if o[0] == 'en':
                d += 1
                md = max(md, d)
            elif o[0] in ('ex', 'exx'):
                d -= 1
        out.append('hist.max_silent_depth=%d' % md)
        if any(o[0] == 'exx' for o in ops):
            out.append('hist.has_exit_by_exception')
        if any(o[0] == 'ss' for o in ops) and md:
            out.append('hist.has_set_silent_and_block')
        out.append('hist.emits=%s' % _bucket(sum(1 for o in ops if o[0] == 'e')))
        out.append('hist.configs_distinct=%d' % len(obs[1]))
        run = obs[1][0]
        out.append('hist.max_calls_in_one_emit=%s' % _bucket(max([len(x[1]) for x in run if x[0] == 'emit'] or [0])))
        if any(x[0] == 'emit' and x[2][0] == 'none' for x in run):
            out.append('hist.has_silenced_emit')
        if any(x[0] == 'emit' and x[2][0] == 'single' for x in run):
            out.append('hist.has_single_result')
        if any(x[0] == 'err' for x in run):
            out.append('hist.has_connect_valueerror')
        if any(o[0] == 'u' for o in ops):
            out.append('hist.has_unconnect')
        if any(o[0] == 'c' and o[6] for o in ops):
            out.append('hist.has_last')
    else:
        out.append('prog.completions=%s' % _bucket(sum(1 for x in obs[1] if any(e[0] == 'c' for e in x[0]))))
        if any(o[0] in ('inc', 'sc') and len(o) > 1 and o[1] for o in ops):
            out.append('prog.has_kwargs')
        if any(x[4] is None for x in obs[1]):
            out.append('prog.has_progress_zerodivision')
        out.append('prog.printed_lines=%s' % _bucket(sum(len(x[5] or []) for x in obs[1])))
        if any(o[0] == 'rs' for o in ops):
            out.append('prog.has_reset')
    return out


def size(case):
    co = case['inp'].get('co')
    cosz = 0
    if co:
        cosz = 500 + (len(co) * 100 if isinstance(co, list) else
                      len(co.get('ops') or []) * 100 + (300 if co.get('ops') is None else 0) + len(str(co)))
    return (len(case['inp']['ops']) * 1000 + len(str(case['inp']['ops'])) + len(str(case['inp'].get('names') or ''))
            + cosz)


def _shrink_co(case):
    """Simpler second emitters for the same history: none; fewer / simpler operations; plain schedule; plain flags."""
    import copy
    co = case['inp'].get('co')
    if not co:
        return

    def withco(new):
        c = copy.deepcopy(case)
        if new:
            c['inp']['co'] = new
        else:
            c['inp'].pop('co', None)
        return c
    yield withco(None)
    if isinstance(co, list):                     # reporter history
        for j in range(len(co)):
            if len(co) > 1:
                yield withco(co[:j] + co[j + 1:])
            if co[j][1] != 'new':
                yield withco(co[:j] + [[co[j][0], 'new']] + co[j + 1:])
        return
    n = len(case['inp']['ops'])
    if co.get('ops') is None:
        yield withco(dict(co, ops=[]))
        yield withco(dict(co, ops=[['r']]))
        yield withco(dict(co, ops=[list(o) for o in case['inp']['ops']]))
    else:
        bo = co['ops']
        for j in range(len(bo)):
            yield withco(dict(co, ops=normalise(bo[:j] + bo[j + 1:])))
    for key, plain in (('share', False), ('who', 0), ('born', 1), ('born', 0)):
        if co.get(key) != plain:
            yield withco(dict(co, **{key: plain}))
    sched = co.get('sched', [])
    for plain in ([0] * n, [1] * 50 + [0] * n):    # the other emitter entirely after / entirely before
        if sched != plain and sched != plain[:len(sched)]:
            yield withco(dict(co, sched=plain))
    for j in range(len(sched)):
        if sched[j] == 1:
            yield withco(dict(co, sched=sched[:j] + sched[j + 1:]))


def shrink(case):
    k, ops = case['kind'], case['inp']['ops']
    co = case['inp'].get('co')
    for c in _shrink_co(case):
        yield c
    if k == 'histx':
        rs = case['inp']['raise']
        nm = case['inp'].get('names')
        mk = lambda new: _histx(new, rs, nm, co)
        for j in range(len(rs)):
            if len(rs) > 1:
                yield _histx(ops, rs[:j] + rs[j + 1:], nm, co)
    elif k == 'hist':
        nm = case['inp'].get('names')
        mk = lambda new: _hist(new, nm, co)
    else:
        nm = None
        # positions of the other emitter's actions stay inside the shorter history
        mk = lambda new: _prog(new, [[min(a, max(len(new) - 1, 0)), b] for a, b in co] if co else None)
    if nm is not None:
        # simplify the spelling: all default, then one component at a time
        mkn = ((lambda n: _histx(ops, case['inp']['raise'], n, co)) if k == 'histx' else (lambda n: _hist(ops, n, co)))
        yield mkn(None)
        for j in range(3):
            if nm[j] != DEFAULT_NAMES[j] and (j == 2 or nm[1 - j] != DEFAULT_NAMES[j]):
                yield mkn(nm[:j] + [DEFAULT_NAMES[j]] + nm[j + 1:])
    seen = set()

    def emit_(new):
        c = mk(new)
        key = str(c['inp']['ops'])
        if key not in seen and c['inp']['ops'] != list(ops):
            seen.add(key)
            return c
    # drop one operation (and a matching pair of enter/leave)
    for d in range(len(ops)):
        c = emit_(ops[:d] + ops[d + 1:])
        if c:
            yield c
    for a in range(len(ops)):
        if ops[a][0] == 'en':
            for b_ in range(a + 1, len(ops)):
                if ops[b_][0] in ('ex', 'exx'):
                    c = emit_(ops[:a] + ops[a + 1:b_] + ops[b_ + 1:])
                    if c:
                        yield c
                    break
    # simplify one operation
    for d, o in enumerate(ops):
        alts = []
        if o[0] == 'e':
            if o[3]:
                alts.append(o[:3] + [[]] + o[4:])
            if o[4]:
                alts.append(o[:4] + [[]] + o[5:])
            if o[5] is False:
                alts.append(o[:5] + [None])
        elif o[0] == 'exx':
            alts.append(['ex'])
        elif o[0] == 'u' and len(o[1]) > 1:
            for j in range(len(o[1])):
                alts.append(['u', o[1][:j] + o[1][j + 1:]])
        elif o[0] == 'c':
            if o[5] is not None:
                alts.append(o[:5] + [None] + o[6:])
            if o[3] is not None:
                alts.append(o[:3] + [None] + o[4:])
        elif o[0] in ('inc', 'sc') and len(o) > 1:
            alts.append([o[0]])
        elif o[0] in ('v', 'm') and o[1] not in (0, 1):
            alts.append([o[0], 1])
        elif o[0] == 'rs' and o[1] not in (None, 1):
            alts.append(['rs', None])
            alts.append(['rs', 1])
        for alt in alts:
            c = emit_(ops[:d] + [alt] + ops[d + 1:])
            if c:
                yield c


def _py_func(f):
    fid, name, owner = f
    return 'F[%r]' % ((fid, name, owner),)


def repro(case):
    k, ops = case['kind'], case['inp']['ops']
    pre = ("import sys; sys.path[:0] = ['/verif/harness', '/repo']\n"
           "from vt import npshim; npshim.setup_process()\n")
    if k == 'prog' and case['inp'].get('co'):
        return pre + ("from vt.props import c19\n"
                      "case = %r\n"
                      "# case['inp']['co'] = [[position, what an unrelated EventEmitter does before that operation], ...]\n"
                      "# per operation: [events received from the reporter (['x'] = a call that crossed emitters), value,\n"
                      "#                 maximum, is_complete, progress, printed]\n"
                      "for label, co in (('alone', ()), ('beside an unrelated emitter', case['inp']['co'])):\n"
                      "    for op, ob in zip(case['inp']['ops'], c19._run_prog(case['inp']['ops'], co)):\n"
                      "        print(label, op, '->', ob)\n" % (case,))
    if k == 'prog':
        lines = ["from phylib.utils.event import ProgressReporter, connect, reset", "reset(); pr = ProgressReporter()",
                 "connect(lambda sender, v, m, **k: print('  progress', v, m, k), event='progress', sender=pr)",
                 "connect(lambda sender, **k: print('  COMPLETE', k), event='complete', sender=pr)",
                 "pr.set_progress_message('P{k0}'); pr.set_complete_message('C{k0}')"]
        for o in ops:
            kws = ', '.join('k%d=%d' % (a, b) for a, b in (o[1] if o[0] in ('inc', 'sc') and len(o) > 1 else []))
            stmt = {'inc': 'pr.increment(%s)' % kws, 'sc': 'pr.set_complete(%s)' % kws}.get(o[0])
            if o[0] == 'v':
                stmt = 'pr.value = %d' % o[1]
            elif o[0] == 'm':
                stmt = 'pr.value_max = %d' % o[1]
            elif o[0] == 'rs':
                stmt = 'pr.reset(%s)' % ('' if o[1] is None else o[1])
            lines.append("print(%r); %s; print('   is_complete', pr.is_complete(), 'value', pr.value, 'max', pr.value_max)"
                         % (stmt, stmt))
        return pre + '\n'.join(lines) + '\n'
    return pre + ("from vt.props import c19\n"
                  "case = %r\n"
                  "# per operation: ['n'] | ['err'] (ValueError on connect by name) | ['emit', calls received, returned value];\n"
                  "# a call record is [func id, event in its name, owner, sender, args, kwargs]\n"
                  "# case['inp']['names'] = [spelling of event 0, of event 1, __name__ of the callbacks not named on_<event>]\n"
                  "# case['inp']['co'] = a second emitter alive in the same process (see c19._run_co): its operations (None =\n"
                  "#   the same history), the interleaving (0 = judged emitter's next operation, 1 = the other's), when it is\n"
                  "#   constructed; a call of a callback of the other emitter shows with function id + 100\n"
                  "for label, run in c19.all_runs(case):\n"
                  "    for op, ob in zip(case['inp']['ops'], run):\n"
                  "        print(label, '|', op, '->', ob)\n" % (case,))
