"""C05 helpers: abstract get_template datasets (integer templates / inverse whitening matrices / probe
geometries / sparse column tables) -> abstract files for vt.datasets.materialise, and the Coq literal of
the dataset.  Trusted base of the correspondence (DESIGN.md section 6.4).

Semantic form (small JSON):
  {'nc', 'ns', 'nt', 'templates': [nt][ns][n_loc] ints (NumPy layout), 'cols': None | [nt][n_loc] ints,
   'wmi': None | [nc][nc] ints, 'wfiles': 'none'|'wmi'|'wm'|'both', 'positions': [nc][2] ints,
   'shanks': None | [nc] ints, 'nclosest': int, 'thr': [p, q], 'tmpl_dtype': 'float32'|'float64',
   'cols_dtype': 'int32'|'int64', 'st': [n_spikes] template ids, 'sc': None | [n_spikes] cluster ids,
   'scale': None | int (template_scaling keyword of TemplateModel; None = attribute absent),
   'amps': absent | True (write amplitudes.npy),
   'extras': absent | list of BYSTANDER files written into the directory besides the files above (stage 6: the
             environment axis).  Each is {'name': relative path (may contain one sub-directory), and one of
             'npy': {'dtype', 'shape', 'data'} | 'text': str | 'hex': str}.  None of them is a file TemplateModel reads
             for anything this property observes: the abstract dataset handed to the Coq model ignores them,
   'dirform': absent | 'path' | 'str' | 'symlink' (how dir_path is handed to TemplateModel)}"""
from fractions import Fraction


def _spec(dtype, shape, data):
    return {'dtype': dtype, 'shape': list(shape), 'data': list(data)}


def exact_inverse(M):
    """Exact inverse of an integer matrix (Fractions); None if singular."""
    n = len(M)
    A = [[Fraction(v) for v in row] + [Fraction(int(i == j)) for j in range(n)] for i, row in enumerate(M)]
    for c in range(n):
        piv = next((r for r in range(c, n) if A[r][c] != 0), None)
        if piv is None:
            return None
        A[c], A[piv] = A[piv], A[c]
        p = A[c][c]
        A[c] = [v / p for v in A[c]]
        for r in range(n):
            if r != c and A[r][c] != 0:
                f = A[r][c]
                A[r] = [a - f * b for a, b in zip(A[r], A[c])]
    return [row[n:] for row in A]


def gen_wmi(rng, nc, kind):
    """Integer inverse whitening matrices.  'perm' / 'diag' have an inverse that LAPACK computes exactly
    (signed permutations / diagonals with power-of-two entries): usable when only whitening_mat.npy is written."""
    M = [[0] * nc for _ in range(nc)]
    if kind == 'diag':
        for i in range(nc):
            M[i][i] = rng.choice([1, 1, 2, 4, -1, -2])
    elif kind == 'perm':
        p = list(range(nc))
        rng.shuffle(p)
        for i in range(nc):
            M[i][p[i]] = rng.choice([1, 1, 2, -1, 4])
    elif kind == 'tri':
        for i in range(nc):
            M[i][i] = 1
            for j in range(i):
                if rng.random() < 0.5:
                    M[i][j] = rng.randint(-2, 2)
    elif kind == 'full':
        for i in range(nc):
            for j in range(nc):
                M[i][j] = rng.randint(-3, 3) if rng.random() < 0.6 else 0
            M[i][i] = rng.choice([1, 2, 3])
    else:
        raise ValueError(kind)
    return M


def files_of(sem):
    """Abstract dataset (vt.datasets format) of a semantic C05 dataset."""
    nc, ns, nt = sem['nc'], sem['ns'], sem['nt']
    st = sem['st']
    files = {
        'spike_times.npy': _spec('uint64', [len(st)], list(range(0, 3 * len(st), 3))),
        'spike_templates.npy': _spec('uint32', [len(st)], st),
        'channel_map.npy': _spec('int32', [nc], list(range(nc))),
        'channel_positions.npy': _spec('float64', [nc, 2], [float(v) for p in sem['positions'] for v in p]),
    }
    if sem.get('sc') is not None:
        files['spike_clusters.npy'] = _spec('uint32', [len(st)], sem['sc'])
    if sem.get('amps'):                                         # needed by get_amplitudes_true (history axis)
        files['amplitudes.npy'] = _spec('float64', [len(st)], [float(1 + (3 * i) % 7) for i in range(len(st))])
    if sem.get('shanks') is not None:
        files['channel_shanks.npy'] = _spec('int32', [nc], sem['shanks'])
    nloc = len(sem['templates'][0][0])
    files['templates.npy'] = _spec(sem.get('tmpl_dtype', 'float32'), [nt, ns, nloc],
                                   [float(v) for t in sem['templates'] for row in t for v in row])
    if sem.get('cols') is not None:
        files['template_ind.npy'] = _spec(sem.get('cols_dtype', 'int32'), [nt, nloc], [v for r in sem['cols'] for v in r])
    wmi, wf = sem.get('wmi'), sem.get('wfiles', 'none')
    if wmi is not None and wf in ('wmi', 'both'):
        files['whitening_mat_inv.npy'] = _spec('float64', [nc, nc], [float(v) for r in wmi for v in r])
    if wmi is not None and wf in ('wm', 'both'):
        inv = exact_inverse(wmi)
        assert inv is not None
        files['whitening_mat.npy'] = _spec('float64', [nc, nc], [float(v) for r in inv for v in r])
    return {'files': files, 'raw': None, 'text': {},
            'params': {'sample_rate': 100.0, 'n_channels_dat': nc, 'dtype': 'int16', 'offset': 0}}


def write_extras(sem, dirpath):
    """Write the bystander files of sem['extras'] (after vt.datasets.materialise wrote the dataset proper).  A name
    that materialise already wrote is refused: a bystander never replaces a file of the dataset."""
    import os
    import numpy as np
    from . import datasets as D
    for x in sem.get('extras') or []:
        path = os.path.join(dirpath, x['name'])
        assert not os.path.exists(path), x['name']
        os.makedirs(os.path.dirname(path), exist_ok=True)
        if 'npy' in x:
            with open(path, 'wb') as f:                        # a file object: np.save must not append '.npy'
                np.save(f, D.spec_to_np(x['npy']))
        elif 'text' in x:
            with open(path, 'w', newline='') as f:
                f.write(x['text'])
        else:
            with open(path, 'wb') as f:
                f.write(bytes.fromhex(x['hex']))


# names a KiloSort / phy directory (or its owner) really contains next to the files TemplateModel reads, and near-miss
# spellings of the files it does read.  {kind: names}; the contents are drawn by gen_extras.
EXTRA_NAMES = {
    'ind': ['templates_ind.npy', 'templates_ind.npy', 'templates_ind.npy', 'template_inds.npy', 'template_ind.npy.bak',
            'template_ind_old.npy', 'templates.waveformChannels.npy', 'Template_ind.npy', 'backup/template_ind.npy'],
    'tmpl': ['templates_unw.npy', 'templates.npy.bak', 'templates_old.npy', 'template.npy', 'Templates.npy',
             'old/templates.npy'],
    'wm': ['whitening_mat_old.npy', 'whitening_matrix.npy', 'whitening_mat_inv.npy.bak', 'whitening_mat_dat.npy',
           'Whitening_mat.npy', 'backup/whitening_mat.npy', 'backup/whitening_mat_inv.npy'],
    'shank': ['channel_shank.npy', 'channel_shanks_old.npy', 'channels.shank.npy', 'channel_shanks.npy.bak',
              'backup/channel_shanks.npy'],
    'pos': ['channel_positions_old.npy', 'channel_position.npy', 'channel_pos.npy', 'channels.localCoordinate.npy',
            'backup/channel_positions.npy'],
    'cmap': ['channel_map_old.npy', 'channel_map_full.npy', 'channel_maps.npy', 'backup/channel_map.npy'],
    'other': ['similar_templates.npy', 'cluster_group.tsv', 'cluster_KSLabel.tsv', 'cluster_Amplitude.tsv', 'phy.log',
              'rez.mat', 'temp_wh.dat', 'amplitudes_old.npy', 'README.txt', '.phy/memcache.pkl'],
}


def gen_extra(rng, sem, kind, name=None, form=None):
    """One bystander file of the given kind for the dataset sem.  The contents have the shape the look-alike would
    need to be taken for the real file, and DIFFERENT values (so that reading it instead of / besides the real file
    changes the records)."""
    nc, ns, nt = sem['nc'], sem['ns'], sem['nt']
    nloc = len(sem['templates'][0][0])
    name = name or rng.choice(EXTRA_NAMES[kind])
    if kind == 'ind':
        form = form or rng.choice(['ks2', 'ks2', 'perm', 'minus', 'narrow'])
        if form == 'ks2':                                       # what KiloSort2 writes: every row 0..n-1, as doubles
            return {'name': name, 'npy': _spec('float64', [nt, nloc], [float(j) for _ in range(nt) for j in range(nloc)])}
        if form == 'narrow' and nloc > 2:
            return {'name': name, 'npy': _spec('int32', [nt, nloc - 1], [j for _ in range(nt) for j in range(nloc - 1)])}
        rows = []
        for _ in range(nt):
            r = rng.sample(range(nc), nloc)
            if form == 'minus':
                r[rng.randrange(nloc)] = -1
            rows += r
        return {'name': name, 'npy': _spec(rng.choice(['int32', 'int64', 'uint32'] if form == 'perm' else ['int32', 'int64']),
                                           [nt, nloc], rows)}
    if kind == 'tmpl':
        data = [float(-v + 1 + j) for t in sem['templates'] for row in t for j, v in enumerate(reversed(row))]
        return {'name': name, 'npy': _spec('float32', [nt, ns, nloc], data)}
    if kind == 'wm':
        k = rng.choice([2, -1, 4])
        anti = rng.random() < 0.5
        return {'name': name, 'npy': _spec('float64', [nc, nc], [float(k * int((nc - 1 - i if anti else i) == j))
                                                              for i in range(nc) for j in range(nc)])}
    if kind == 'shank':
        return {'name': name, 'npy': _spec('int32', [nc], [(i + 1) % 2 for i in range(nc)])}
    if kind == 'pos':
        return {'name': name, 'npy': _spec('float64', [nc, 2], [float(v) for p in reversed(sem['positions']) for v in (p[1], p[0])])}
    if kind == 'cmap':
        return {'name': name, 'npy': _spec('int32', [nc], list(range(nc - 1, -1, -1)))}
    if kind == 'other':
        if name == 'similar_templates.npy':
            return {'name': name, 'npy': _spec('float32', [nt, nt], [float(int(i == j)) for i in range(nt) for j in range(nt)])}
        if name == 'amplitudes_old.npy':
            return {'name': name, 'npy': _spec('float64', [len(sem['st'])], [2.0] * len(sem['st']))}
        if name.endswith('.tsv'):
            col = name[len('cluster_'):-4]
            val = (lambda i: '%d.5' % i) if col == 'Amplitude' else (lambda i: ['good', 'mua', 'noise'][i % 3])
            return {'name': name, 'text': 'cluster_id\t%s\n' % col + ''.join('%d\t%s\n' % (i, val(i)) for i in range(nt))}
        if name.endswith(('.log', '.txt')):
            return {'name': name, 'text': 'template_ind.npy templates.npy channel_shanks.npy\n'}
        return {'name': name, 'hex': '934e554d505900ff10deadbeef'}     # not a loadable array
    raise ValueError(kind)


def gen_extras(rng, sem, mode):
    """The environment axis: 'none' | 'ks2' (templates_ind.npy as KiloSort2 writes it, plus what else such a
    directory holds) | 'any' (1-4 bystanders of any kind, pairwise distinct names)."""
    if mode == 'none':
        return None
    out = []
    if mode == 'ks2':
        out.append(gen_extra(rng, sem, 'ind', 'templates_ind.npy', 'ks2'))
        for name in ('similar_templates.npy', 'cluster_KSLabel.tsv', 'cluster_group.tsv'):
            if rng.random() < 0.5:
                out.append(gen_extra(rng, sem, 'other', name))
        if rng.random() < 0.3:
            out.append(gen_extra(rng, sem, 'tmpl', 'templates_unw.npy'))
    else:
        kinds = sorted(EXTRA_NAMES)
        for _ in range(rng.randint(1, 4)):
            out.append(gen_extra(rng, sem, rng.choice(kinds + ['ind', 'ind', 'shank', 'wm'])))
    seen, res = set(), []
    for x in out:
        if x['name'] not in seen:
            seen.add(x['name'])
            res.append(x)
    return res


def effective_wmi(sem):
    nc = sem['nc']
    if sem.get('wmi') is None or sem.get('wfiles', 'none') == 'none':
        return [[int(i == j) for j in range(nc)] for i in range(nc)]
    return sem['wmi']


# ---- Coq literals --------------------------------------------------------------------------------------

def z(n):
    n = int(n)
    return '(%d)' % n if n < 0 else '%d' % n


def zl(l):
    return '[' + '; '.join(z(v) for v in l) + ']'


def zll(m):
    return '[' + '; '.join(zl(r) for r in m) + ']'


def nat(n):
    n = int(n)
    assert 0 <= n < 5000
    return '%d%%nat' % n


def natl(l):
    return '[' + '; '.join(nat(v) for v in l) + ']'


def columns(t):
    """NumPy layout [ns][ncols] -> list of columns."""
    return [list(c) for c in zip(*t)] if t and t[0] else []


def coq_thr(pq):
    return '(mkthr %s %s)' % (z(pq[0]), z(pq[1]))


def coq_dataset(sem):
    tpl = '[' + '; '.join(zll(columns(t)) for t in sem['templates']) + ']'
    cols = 'None' if sem.get('cols') is None else '(Some %s)' % zll(sem['cols'])
    pos = '[' + '; '.join('mkpos %s %s' % (z(p[0]), z(p[1])) for p in sem['positions']) + ']'
    shanks = sem['shanks'] if sem.get('shanks') is not None else [0] * sem['nc']
    return '(mkds %s %s %s %s %s %s %s %s)' % (tpl, cols, zll(effective_wmi(sem)), z(sem.get('scale') or 1), pos, zl(shanks),
                                            z(sem['nclosest']), coq_thr(sem['thr']))
