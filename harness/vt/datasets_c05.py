"""C05 helpers: abstract get_template datasets (integer templates / inverse whitening matrices / probe
geometries / sparse column tables) -> abstract files for vt.datasets.materialise, and the Coq literal of
the dataset.  Trusted base of the correspondence (DESIGN.md section 6.4).

Semantic form (small JSON):
  {'nc', 'ns', 'nt', 'templates': [nt][ns][n_loc] ints (NumPy layout), 'cols': None | [nt][n_loc] ints,
   'wmi': None | [nc][nc] ints, 'wfiles': 'none'|'wmi'|'wm'|'both', 'positions': [nc][2] ints,
   'shanks': None | [nc] ints, 'nclosest': int, 'thr': [p, q], 'tmpl_dtype': 'float32'|'float64',
   'cols_dtype': 'int32'|'int64', 'st': [n_spikes] template ids, 'sc': None | [n_spikes] cluster ids,
   'scale': None | int (template_scaling keyword of TemplateModel; None = attribute absent),
   'amps': absent | True (write amplitudes.npy)}"""
from fractions import Fraction


def _spec(dtype, shape, data):
    return {'dtype': dtype, 'shape': list(shape), 'data': list(data)}


def exact_inverse(M):
    """Exact inverse of an integer matrix (Fractions); None if singular."""
    n = len(M)
    A = [[Fraction(v) for v in row] + [Fraction(int(i == j)) for j in range(n)] for i, row in enumerate(M)]
    for c in range(n):
        piv = next((r for r in range(c, n) if A[r][c] != 0), None)
        if piv is None:
            return None
        A[c], A[piv] = A[piv], A[c]
        p = A[c][c]
        A[c] = [v / p for v in A[c]]
        for r in range(n):
            if r != c and A[r][c] != 0:
                f = A[r][c]
                A[r] = [a - f * b for a, b in zip(A[r], A[c])]
    return [row[n:] for row in A]


def gen_wmi(rng, nc, kind):
    """Integer inverse whitening matrices.  'perm' / 'diag' have an inverse that LAPACK computes exactly
    (signed permutations / diagonals with power-of-two entries): usable when only whitening_mat.npy is written."""
    M = [[0] * nc for _ in range(nc)]
    if kind == 'diag':
        for i in range(nc):
            M[i][i] = rng.choice([1, 1, 2, 4, -1, -2])
    elif kind == 'perm':
        p = list(range(nc))
        rng.shuffle(p)
        for i in range(nc):
            M[i][p[i]] = rng.choice([1, 1, 2, -1, 4])
    elif kind == 'tri':
        for i in range(nc):
            M[i][i] = 1
            for j in range(i):
                if rng.random() < 0.5:
                    M[i][j] = rng.randint(-2, 2)
    elif kind == 'full':
        for i in range(nc):
            for j in range(nc):
                M[i][j] = rng.randint(-3, 3) if rng.random() < 0.6 else 0
            M[i][i] = rng.choice([1, 2, 3])
    else:
        raise ValueError(kind)
    return M


def files_of(sem):
    """Abstract dataset (vt.datasets format) of a semantic C05 dataset."""
    nc, ns, nt = sem['nc'], sem['ns'], sem['nt']
    st = sem['st']
    files = {
        'spike_times.npy': _spec('uint64', [len(st)], list(range(0, 3 * len(st), 3))),
        'spike_templates.npy': _spec('uint32', [len(st)], st),
        'channel_map.npy': _spec('int32', [nc], list(range(nc))),
        'channel_positions.npy': _spec('float64', [nc, 2], [float(v) for p in sem['positions'] for v in p]),
    }
    if sem.get('sc') is not None:
        files['spike_clusters.npy'] = _spec('uint32', [len(st)], sem['sc'])
    if sem.get('amps'):                                         # needed by get_amplitudes_true (history axis)
        files['amplitudes.npy'] = _spec('float64', [len(st)], [float(1 + (3 * i) % 7) for i in range(len(st))])
    if sem.get('shanks') is not None:
        files['channel_shanks.npy'] = _spec('int32', [nc], sem['shanks'])
    nloc = len(sem['templates'][0][0])
    files['templates.npy'] = _spec(sem.get('tmpl_dtype', 'float32'), [nt, ns, nloc],
                                   [float(v) for t in sem['templates'] for row in t for v in row])
    if sem.get('cols') is not None:
        files['template_ind.npy'] = _spec(sem.get('cols_dtype', 'int32'), [nt, nloc], [v for r in sem['cols'] for v in r])
    wmi, wf = sem.get('wmi'), sem.get('wfiles', 'none')
    if wmi is not None and wf in ('wmi', 'both'):
        files['whitening_mat_inv.npy'] = _spec('float64', [nc, nc], [float(v) for r in wmi for v in r])
    if wmi is not None and wf in ('wm', 'both'):
        inv = exact_inverse(wmi)
        assert inv is not None
        files['whitening_mat.npy'] = _spec('float64', [nc, nc], [float(v) for r in inv for v in r])
    return {'files': files, 'raw': None, 'text': {},
            'params': {'sample_rate': 100.0, 'n_channels_dat': nc, 'dtype': 'int16', 'offset': 0}}


def effective_wmi(sem):
    nc = sem['nc']
    if sem.get('wmi') is None or sem.get('wfiles', 'none') == 'none':
        return [[int(i == j) for j in range(nc)] for i in range(nc)]
    return sem['wmi']


# ---- Coq literals --------------------------------------------------------------------------------------

def z(n):
    n = int(n)
    return '(%d)' % n if n < 0 else '%d' % n


def zl(l):
    return '[' + '; '.join(z(v) for v in l) + ']'


def zll(m):
    return '[' + '; '.join(zl(r) for r in m) + ']'


def nat(n):
    n = int(n)
    assert 0 <= n < 5000
    return '%d%%nat' % n


def natl(l):
    return '[' + '; '.join(nat(v) for v in l) + ']'


def columns(t):
    """NumPy layout [ns][ncols] -> list of columns."""
    return [list(c) for c in zip(*t)] if t and t[0] else []


def coq_thr(pq):
    return '(mkthr %s %s)' % (z(pq[0]), z(pq[1]))


def coq_dataset(sem):
    tpl = '[' + '; '.join(zll(columns(t)) for t in sem['templates']) + ']'
    cols = 'None' if sem.get('cols') is None else '(Some %s)' % zll(sem['cols'])
    pos = '[' + '; '.join('mkpos %s %s' % (z(p[0]), z(p[1])) for p in sem['positions']) + ']'
    shanks = sem['shanks'] if sem.get('shanks') is not None else [0] * sem['nc']
    return '(mkds %s %s %s %s %s %s %s %s)' % (tpl, cols, zll(effective_wmi(sem)), z(sem.get('scale') or 1), pos, zl(shanks),
                                            z(sem['nclosest']), coq_thr(sem['thr']))
