"""Abstract KiloSort/phy/ALF datasets -> files on disk, and exact tokenisation of arrays.

An abstract dataset is a small JSON value:
  {'files': {name: {'dtype': 'int32', 'shape': [..], 'data': [flat C-order values; 'nan'/'inf'/'-inf' allowed]}},
   'raw':   None | {'sizes': [rows per file], 'n_channels_dat': k, 'dtype': 'int16', 'offset': o, 'ext': '.dat'},
   'params': {'sample_rate': r, 'n_channels_dat': k, 'dtype': 'int16', 'offset': o},
   'text':  {name: str}   # tsv/csv/other text files
  }
Raw data values encode (row, col) uniquely: value(r, c) = (r * n_channels_dat + c) % mod(dtype) (see raw_value).
Everything here is trusted base of the correspondence (DESIGN.md §6.4)."""
import math
import os

NP_DTYPES = ['bool', 'uint8', 'uint16', 'uint32', 'uint64', 'int8', 'int16', 'int32', 'int64', 'float32', 'float64']
COQ_DT = {'bool': 'DBool', 'uint8': 'DU8', 'uint16': 'DU16', 'uint32': 'DU32', 'uint64': 'DU64', 'int8': 'DI8',
          'int16': 'DI16', 'int32': 'DI32', 'int64': 'DI64', 'float32': 'DF32', 'float64': 'DF64'}


# ---- exact tokens -----------------------------------------------------------------------------------

def tok(x):
    """Exact token of a Python/NumPy scalar: ('n', m, e) with value m * 2**e canonical, or 'nan', '+inf', '-inf'."""
    import numpy as np
    if isinstance(x, (bool, np.bool_)):
        x = int(x)
    if isinstance(x, (int, np.integer)):
        m, e = int(x), 0
    else:
        x = float(x)
        if math.isnan(x):
            return 'nan'
        if math.isinf(x):
            return '+inf' if x > 0 else '-inf'
        num, den = x.as_integer_ratio()
        m, e = num, -(den.bit_length() - 1)
    if m == 0:
        return ('n', 0, 0)
    while m % 2 == 0:
        m //= 2
        e += 1
    return ('n', m, e)


def tok_array(a):
    """(dtype name, shape, flat C-order tokens) of anything NumPy can view as an array."""
    import numpy as np
    a = np.asarray(a)
    if a.dtype.kind not in 'biuf':
        raise TypeError('non-numeric array: %r' % a.dtype)
    return (a.dtype.name, [int(s) for s in a.shape], [tok(v) for v in a.ravel(order='C').tolist()]
            if a.dtype.kind != 'f' else [tok(float(v)) for v in a.astype(np.float64).ravel(order='C')])


def coq_tok(t):
    if t == 'nan':
        return 'TNaN'
    if t == '+inf':
        return 'TPInf'
    if t == '-inf':
        return 'TNInf'
    _, m, e = t
    return '(TNum %s %s)' % (('(%d)' % m) if m < 0 else str(m), ('(%d)' % e) if e < 0 else str(e))


def coq_arr(ta):
    """ta = (dtype name, shape, tokens) -> Coq term of type arr."""
    dt, shape, toks = ta
    return '(mkarr %s [%s] [%s])' % (COQ_DT[dt], '; '.join(str(int(s)) for s in shape),
                                     '; '.join(coq_tok(t) for t in toks))


def coq_opt_arr(ta):
    return 'None' if ta is None else '(Some %s)' % coq_arr(ta)


def spec_to_tokarr(spec):
    """abstract file spec -> (dtype, shape, tokens) of what np.load would return."""
    import numpy as np
    return tok_array(spec_to_np(spec))


def spec_to_np(spec):
    import numpy as np
    vals = [float(v) if isinstance(v, str) else v for v in spec['data']]
    return np.array(vals, dtype=spec['dtype']).reshape(spec['shape'])


# ---- materialisation -----------------------------------------------------------------------------------

def raw_value(r, c, ncd, dtype):
    import numpy as np
    v = r * ncd + c + 1
    if dtype in ('float32', 'float64'):
        return float(v % 4096) - 2048.0      # exact in float32
    info = np.iinfo(dtype)
    span = int(info.max) - int(info.min) + 1
    return int(info.min) + (v * 7) % span if span <= 65536 else v * 7 - 1000


def raw_array(nrows, ncd, dtype, row0=0):
    import numpy as np
    out = np.zeros((nrows, ncd), dtype=dtype)
    for r in range(nrows):
        for c in range(ncd):
            out[r, c] = raw_value(row0 + r, c, ncd, dtype)
    return out


def materialise(ds, dirpath):
    """Write the dataset into dirpath; returns kwargs for TemplateModel(**kwargs)."""
    import numpy as np
    from pathlib import Path
    os.makedirs(dirpath, exist_ok=True)
    for name, spec in ds.get('files', {}).items():
        np.save(os.path.join(dirpath, name), spec_to_np(spec))
    for name, txt in ds.get('text', {}).items():
        with open(os.path.join(dirpath, name), 'w', newline='') as f:
            f.write(txt)
    for name, hexbytes in ds.get('bin', {}).items():
        with open(os.path.join(dirpath, name), 'wb') as f:
            f.write(bytes.fromhex(hexbytes))
    p = dict(ds.get('params', {}))
    kwargs = {'dir_path': Path(dirpath), 'sample_rate': p.get('sample_rate', 100.0),
              'n_channels_dat': p.get('n_channels_dat'), 'dtype': np.dtype(p.get('dtype', 'int16')),
              'offset': p.get('offset', 0)}
    raw = ds.get('raw')
    dat_paths = []
    if raw:
        row0 = 0
        for j, n in enumerate(raw['sizes']):
            path = os.path.join(dirpath, 'raw%d%s' % (j, raw.get('ext', '.dat')))
            arr = raw_array(n, raw['n_channels_dat'], raw['dtype'], row0)
            with open(path, 'wb') as f:
                f.write(b'\x07' * raw.get('offset', 0))
                f.write(arr.tobytes())
            row0 += n
            dat_paths.append(Path(path))
        kwargs['dat_path'] = dat_paths
    # params.py (used by load_model)
    with open(os.path.join(dirpath, 'params.py'), 'w') as f:
        f.write('dat_path = %r\n' % [os.path.basename(str(x)) for x in dat_paths])
        f.write('n_channels_dat = %r\n' % kwargs['n_channels_dat'])
        f.write('dtype = %r\n' % str(kwargs['dtype']))
        f.write('offset = %r\n' % kwargs['offset'])
        f.write('sample_rate = %r\n' % float(kwargs['sample_rate']))
        f.write('hp_filtered = False\n')
    return kwargs


def listing(dirpath):
    """Sorted directory listing with SHA-256 of each regular file."""
    import hashlib
    out = {}
    for name in sorted(os.listdir(dirpath)):
        p = os.path.join(dirpath, name)
        if os.path.isfile(p):
            with open(p, 'rb') as f:
                out[name] = hashlib.sha256(f.read()).hexdigest()
        else:
            out[name] = 'DIR'
    return out


# ---- semantic generator ---------------------------------------------------------------------------------

def _spec(dtype, shape, data):
    return {'dtype': dtype, 'shape': list(shape), 'data': list(data)}


def gen_semantic(rng, **o):
    """A random small well-formed dataset in semantic form (plain lists).  Options (all optional):
    n_spikes, n_templates, n_channels, n_samples_wf, curated (bool), extra_dat_channels, whitening
    ('none'|'perm2'|'tri'), sparse (bool), features (bool), template_features (bool), probes, shanks,
    raw (bool), rate, int_templates amplitude range."""
    nc = o.get('n_channels', rng.randint(2, 6))
    nt = o.get('n_templates', rng.randint(1, 4))
    nsw = o.get('n_samples_wf', rng.randint(2, 5))
    nspk = o.get('n_spikes', rng.randint(1, 12))
    extra = o.get('extra_dat_channels', rng.choice([0, 0, 1, 3]))
    ncd = nc + extra
    cm = rng.sample(range(ncd), nc)
    if o.get('sorted_channel_map'):
        cm.sort()
    # distinct positions on a small grid
    cells = [(x, y) for x in range(0, 3) for y in range(0, 8)]
    pos = [[float(x * 16), float(y * 20)] for x, y in rng.sample(cells, nc)]
    rate = o.get('rate', rng.choice([128.0, 1024.0, 100.0, 30000.0]))
    # spike samples: non-decreasing, with ties
    samples, t = [], rng.randint(0, 3)
    for _ in range(nspk):
        samples.append(t)
        t += rng.choice([0, 0, 1, 1, 2, 5, 17])
    st = [rng.randrange(nt) for _ in range(nspk)]
    if o.get('all_templates_used', False):
        for k in range(min(nt, nspk)):
            st[k] = k
        rng.shuffle(st)
    sem = {
        'n_channels': nc, 'n_channels_dat': ncd, 'n_templates': nt, 'n_samples_wf': nsw, 'n_spikes': nspk,
        'channel_map': cm, 'positions': pos, 'rate': rate, 'spike_samples': samples, 'spike_templates': st,
        'spike_clusters': None, 'amplitudes': None, 'shanks': None, 'probes': None, 'wm': None, 'wmi': None,
        'similar': None, 'features': None, 'template_features': None, 'raw': None,
    }
    if o.get('curated', rng.random() < 0.4):
        sc = list(st)
        for _ in range(rng.randint(1, 4)):
            op = rng.choice(['merge', 'split', 'move'])
            if op == 'merge' and nt >= 2:
                a, b = rng.sample(range(max(sc) + 1), 2) if max(sc) >= 1 else (0, 0)
                new = max(sc) + 1
                sc = [new if c in (a, b) else c for c in sc]
            elif op == 'split':
                a = rng.choice(sc)
                new = max(sc) + 1
                sc = [new if (c == a and rng.random() < 0.5) else c for c in sc]
            else:
                i = rng.randrange(nspk)
                sc[i] = rng.randint(0, max(sc) + 1)
        sem['spike_clusters'] = sc
    if o.get('amplitudes', rng.random() < 0.8):
        sem['amplitudes'] = [float(rng.choice([1, 2, 3, 4, 8, 0.5, 1.5])) for _ in range(nspk)]
    if o.get('shanks', rng.random() < 0.4):
        sem['shanks'] = [rng.randrange(2) for _ in range(nc)]
    if o.get('probes', rng.random() < 0.3):
        sem['probes'] = [rng.randrange(2) for _ in range(nc)]
    # templates: small integers, exact in float32
    amp = o.get('template_amp', 20)
    tmpl = [[[float(rng.randint(-amp, amp)) if rng.random() < 0.8 else 0.0 for _ in range(nc)]
             for _ in range(nsw)] for _ in range(nt)]
    sem['templates'] = tmpl
    w = o.get('whitening', rng.choice(['none', 'perm2', 'tri', 'diag']))
    if w != 'none':
        sem['wm'] = whitening(rng, nc, w)
    if o.get('similar', rng.random() < 0.3):
        sem['similar'] = [[float(rng.randint(0, 8)) / 8 for _ in range(nt)] for _ in range(nt)]
    if o.get('raw', rng.random() < 0.5):
        total = max(samples) + rng.randint(1, 6)
        k = rng.choice([1, 1, 2, 3])
        cuts = sorted(rng.sample(range(1, total), min(k - 1, max(0, total - 1)))) if total > 1 else []
        sizes = [b - a for a, b in zip([0] + cuts, cuts + [total])]
        sem['raw'] = {'sizes': sizes, 'n_channels_dat': ncd, 'dtype': o.get('raw_dtype', rng.choice(['int16', 'int16', 'float32', 'int32'])),
                      'offset': o.get('offset', rng.choice([0, 0, 1, 7, 64])), 'ext': rng.choice(['.dat', '.bin'])}
    if o.get('features', rng.random() < 0.4):
        ncl = rng.randint(2, min(3, nc))      # singleton dims are squeezed away by the loader: avoid them
        npcs = rng.choice([2, 3])
        ind = [rng.sample(range(nc), ncl) for _ in range(nt)]
        subset = rng.random() < 0.3
        rows = sorted(rng.sample(range(nspk), rng.randint(2, nspk))) if subset else None
        nrows = len(rows) if rows is not None else nspk
        data = [[[float(rng.randint(-8, 8)) for _ in range(ncl)] for _ in range(npcs)] for _ in range(nrows)]
        sem['features'] = {'data': data, 'ind': ind, 'rows': rows, 'npcs': npcs, 'ncl': ncl}
    if o.get('template_features', rng.random() < 0.3):
        ntl = rng.randint(2, nt)
        ind = [rng.sample(range(nt), ntl) for _ in range(nt)]
        subset = rng.random() < 0.3
        rows = sorted(rng.sample(range(nspk), rng.randint(2, nspk))) if subset else None
        nrows = len(rows) if rows is not None else nspk
        data = [[float(rng.randint(-8, 8)) for _ in range(ntl)] for _ in range(nrows)]
        sem['template_features'] = {'data': data, 'ind': ind, 'rows': rows, 'ntl': ntl}
    return sem


def whitening(rng, nc, kind):
    """Matrices whose inverse is exact in binary64 and computed exactly by LAPACK's LU with partial
    pivoting: signed permutation times powers of two, diagonal powers of two, unit lower-triangular
    with small integer entries."""
    M = [[0.0] * nc for _ in range(nc)]
    if kind == 'diag':
        for i in range(nc):
            M[i][i] = float(rng.choice([0.5, 1, 2, 4, -2]))
    elif kind == 'perm2':
        p = list(range(nc))
        rng.shuffle(p)
        for i in range(nc):
            M[i][p[i]] = float(rng.choice([0.5, 1, 2, -1, 4]))
    elif kind == 'tri':
        for i in range(nc):
            M[i][i] = 1.0
            for j in range(i):
                if rng.random() < 0.5:
                    M[i][j] = float(rng.randint(-2, 2))
    else:
        raise ValueError(kind)
    return M


def render(sem, rng=None, **o):
    """semantic dataset -> abstract files.  Options: names ('ks'|'alf'), label (ALF only), vec2d (bool),
    id_dtype, time_dtype, cm_dtype, tmpl_dtype, write_wmi (bool), write_clusters (bool: write a spike-cluster
    file even when not curated)."""
    import random
    rng = rng or random.Random(0)
    names = o.get('names', 'ks')
    lab = ('.' + o['label']) if (names == 'alf' and o.get('label')) else ''
    vec2d = o.get('vec2d', False)
    idt = o.get('id_dtype', 'uint32')
    tdt = o.get('time_dtype', 'uint64')
    cmdt = o.get('cm_dtype', 'int32')
    fdt = o.get('tmpl_dtype', 'float32')
    nspk, nc, nt = sem['n_spikes'], sem['n_channels'], sem['n_templates']

    def vec(dtype, data):
        return _spec(dtype, [len(data), 1] if vec2d else [len(data)], data)
    files = {}
    ks = names == 'ks'
    if ks:
        files['spike_times.npy'] = vec(tdt, sem['spike_samples'])
    else:
        files['spikes.times%s.npy' % lab] = vec('float64', [s / sem['rate'] for s in sem['spike_samples']])
        if o.get('alf_samples', True):
            files['spikes.samples%s.npy' % lab] = vec(tdt, sem['spike_samples'])
    files['spike_templates.npy' if ks else 'spikes.templates%s.npy' % lab] = vec(idt, sem['spike_templates'])
    if sem['spike_clusters'] is not None or o.get('write_clusters', False):
        sc = sem['spike_clusters'] if sem['spike_clusters'] is not None else sem['spike_templates']
        files['spike_clusters.npy' if ks else 'spikes.clusters%s.npy' % lab] = vec(o.get('clu_dtype', idt), sc)
    if sem['amplitudes'] is not None:
        files['amplitudes.npy' if ks else 'spikes.amps%s.npy' % lab] = vec('float64', sem['amplitudes'])
    files['channel_map.npy' if ks else 'channels.rawInd%s.npy' % lab] = vec(cmdt, sem['channel_map'])
    files['channel_positions.npy' if ks else 'channels.localCoordinates%s.npy' % lab] = _spec(
        'float64', [nc, 2], [v for row in sem['positions'] for v in row])
    if sem['shanks'] is not None:
        files['channel_shanks.npy' if ks else 'channels.shanks%s.npy' % lab] = vec('int32', sem['shanks'])
    if sem['probes'] is not None:
        files['channel_probe.npy' if ks else 'channels.probes%s.npy' % lab] = vec('int32', sem['probes'])
    flat_t = [v for t in sem['templates'] for row in t for v in row]
    files['templates.npy' if ks else 'templates.waveforms%s.npy' % lab] = _spec(
        fdt, [nt, sem['n_samples_wf'], nc], flat_t)
    if sem['wm'] is not None:
        files['whitening_mat.npy'] = _spec('float64', [nc, nc], [v for row in sem['wm'] for v in row])
    if sem.get('wmi') is not None:
        files['whitening_mat_inv.npy'] = _spec('float64', [nc, nc], [v for row in sem['wmi'] for v in row])
    if sem['similar'] is not None:
        files['similar_templates.npy'] = _spec('float32', [nt, nt], [v for row in sem['similar'] for v in row])
    f = sem['features']
    if f is not None:
        nrows = len(f['data'])
        files['pc_features.npy'] = _spec('float32', [nrows, f['npcs'], f['ncl']],
                                         [v for s in f['data'] for pc in s for v in pc])
        files['pc_feature_ind.npy'] = _spec(o.get('ind_dtype', 'uint32'), [nt, f['ncl']], [v for r in f['ind'] for v in r])
        if f['rows'] is not None:
            files['pc_feature_spike_ids.npy'] = vec('int64', f['rows'])
    f = sem['template_features']
    if f is not None:
        nrows = len(f['data'])
        files['template_features.npy'] = _spec('float32', [nrows, f['ntl']], [v for r in f['data'] for v in r])
        files['template_feature_ind.npy'] = _spec(o.get('ind_dtype', 'uint32'), [nt, f['ntl']], [v for r in f['ind'] for v in r])
        if f['rows'] is not None:
            files['template_feature_spike_ids.npy'] = vec('int64', f['rows'])
    raw = sem['raw']
    ds = {'files': files, 'raw': raw,
          'params': {'sample_rate': sem['rate'], 'n_channels_dat': sem['n_channels_dat'],
                     'dtype': raw['dtype'] if raw else 'int16', 'offset': raw['offset'] if raw else 0},
          'text': {}, 'names': names, 'label': o.get('label', '') if names == 'alf' else ''}
    return ds
