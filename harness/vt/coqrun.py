"""Evaluates the Coq comparators on generated case shards (vm_compute inside coqc) and checks
the proof obligations of one property.  Nothing is extracted: the term that judges the
implementation's output is the term the theorems are about."""
import fcntl
import os
import re
import subprocess
import time
from concurrent.futures import ThreadPoolExecutor

VERIF = os.path.dirname(os.path.dirname(os.path.dirname(os.path.abspath(__file__))))
COQ = os.path.join(VERIF, 'coq')

# axioms declared by Coq's standard library that a theorem may depend on (named in DESIGN.md §6);
# the development aims at none.
STDLIB_AXIOMS = {
    'functional_extensionality_dep', 'classic', 'proof_irrelevance', 'JMeq_eq', 'eq_rect_eq',
    'propositional_extensionality', 'constructive_definite_description',
    'constructive_indefinite_description', 'ClassicalDedekindReals.sig_forall_dec',
    'ClassicalDedekindReals.sig_not_dec', 'FunctionalExtensionality.functional_extensionality_dep',
}

HYGIENE = re.compile(
    r'\b(Admitted|admit|Axiom|Axioms|Parameter|Parameters|Conjecture|Conjectures)\b|Unset\s+Guard|'
    r'bypass_check|type-in-type|impredicative-set|Admit\s+Obligations|Unset\s+Positivity|'
    r'Unset\s+Universe')


def _strip_comments(src):
    out, depth, i = [], 0, 0
    while i < len(src):
        if src.startswith('(*', i):
            depth += 1
            i += 2
        elif src.startswith('*)', i) and depth:
            depth -= 1
            i += 2
        else:
            if not depth:
                out.append(src[i])
            elif src[i] == '\n':
                out.append('\n')
            i += 1
    return ''.join(out)


def _closure(pid):
    """.v files the property's Props.v and Corr.v depend on (transitively, inside this development)."""
    th = os.path.join(COQ, 'theories')
    todo = [os.path.join(th, pid, 'Props.v'), os.path.join(th, pid, 'Corr.v')]
    seen = []
    while todo:
        f = todo.pop()
        if f in seen or not os.path.exists(f):
            continue
        seen.append(f)
        src = _strip_comments(open(f).read())
        for m in re.finditer(r'From\s+PV\s+Require\s+(?:Import|Export)\s+(.*?)\.\s', src + ' ', re.S):
            for mod in m.group(1).split():
                todo.append(os.path.join(th, *mod.split('.')) + '.v')
        for m in re.finditer(r'(?<!PV )Require\s+(?:Import|Export)\s+(.*?)\.\s', src + ' ', re.S):
            for mod in m.group(1).split():
                if mod.startswith('PV.'):
                    todo.append(os.path.join(th, *mod.split('.')[1:]) + '.v')
    return sorted(seen)


def hygiene(pid):
    """Tripwire over every file this property depends on; the authority is Print Assumptions / coqchk."""
    problems = []
    for path in _closure(pid):
        src = _strip_comments(open(path).read())
        depth = 0
        for ln, line in enumerate(src.splitlines(), 1):
            if re.match(r'\s*(Section|Module)\b', line):
                depth += 1
            elif re.match(r'\s*End\b', line):
                depth = max(0, depth - 1)
            m = HYGIENE.search(line)
            if m:
                problems.append('%s:%d: %s' % (path, ln, m.group(0)))
            if depth == 0 and re.match(r'\s*(Variable|Variables|Hypothesis|Hypotheses|Context)\b', line):
                problems.append('%s:%d: %s outside a Section' % (path, ln, line.strip()[:40]))
    proj = os.path.join(COQ, '_CoqProject')
    if os.path.exists(proj) and re.search(r'type-in-type|impredicative-set|-vos|-vok', open(proj).read()):
        problems.append('_CoqProject: forbidden flag')
    return problems


def build(pid=None, timeout=3000):
    """make what the property needs (serialised across concurrently running checks)."""
    lock = open(os.path.join(COQ, '.build.lock'), 'w')
    fcntl.flock(lock, fcntl.LOCK_EX)
    try:
        r = subprocess.run(['/venv/bin/python', os.path.join(VERIF, 'tools', 'gen_coqproject.py')],
                           stdout=subprocess.PIPE, text=True)
        if 'changed' in r.stdout or not os.path.exists(os.path.join(COQ, 'Makefile')):
            subprocess.run(['coq_makefile', '-f', '_CoqProject', '-o', 'Makefile'], cwd=COQ,
                           check=True, stdout=subprocess.DEVNULL, stderr=subprocess.DEVNULL)
        targets = ['theories/%s/Props.vo' % pid, 'theories/%s/Corr.vo' % pid] if pid else []
        # a runaway proof search must not hold the build lock (and the machine) for long: 24 GB address
        # space per coqc, 25 minutes for the whole make
        r = subprocess.run(['sh', '-c', 'ulimit -v 24000000; exec timeout %d make -j16 %s' % (
                                min(timeout, 1500), ' '.join(targets))], cwd=COQ,
                           stdout=subprocess.PIPE, stderr=subprocess.STDOUT, text=True)
        return r.returncode == 0, r.stdout[-4000:]
    finally:
        fcntl.flock(lock, fcntl.LOCK_UN)
        lock.close()


def check_props(pid, workname=None, timeout=900):
    """Re-check Cxx/Props.v with the kernel in this run and read the Print Assumptions answers."""
    path = os.path.join(COQ, 'theories', pid, 'Props.v')
    src = _strip_comments(open(path).read())
    theorems = re.findall(r'^\s*Theorem\s+(\w+)', src, re.M)
    printed = re.findall(r'^\s*Print\s+Assumptions\s+(\w+)\s*\.', src, re.M)
    r = subprocess.run(['timeout', str(timeout), 'coqc', '-noglob', '-Q', 'theories', 'PV',
                        '-o', os.path.join(VERIF, 'work', workname or pid, 'Props.vo'),
                        os.path.join('theories', pid, 'Props.v')],
                       cwd=COQ, stdout=subprocess.PIPE, stderr=subprocess.STDOUT, text=True)
    out = r.stdout
    results = []
    # answers appear in source order
    blocks = re.split(r'(?m)^(?=Closed under the global context|Axioms:)', out)
    answers = [b for b in blocks if b.startswith('Closed under') or b.startswith('Axioms:')]
    for i, name in enumerate(printed):
        if r.returncode != 0 or i >= len(answers):
            results.append({'name': name, 'assumptions': 'NOT CHECKED', 'ok': False})
            continue
        a = answers[i]
        if a.startswith('Closed under'):
            results.append({'name': name, 'assumptions': 'Closed under the global context', 'ok': True})
        else:
            names = re.findall(r'(?m)^([\w.\']+)\s*:', a[len('Axioms:'):])
            bad = [n for n in names if n.split('.')[-1] not in STDLIB_AXIOMS and n not in STDLIB_AXIOMS]
            results.append({'name': name, 'assumptions': 'Axioms: ' + ', '.join(names), 'ok': not bad})
    missing = [t for t in theorems if t not in printed]
    return {
        'compiled': r.returncode == 0,
        'obligations': len(theorems),
        'discharged': sum(1 for t in theorems
                          if any(x['name'] == t and x['ok'] for x in results)),
        'theorems': results,
        'unprinted': missing,
        'log': out[-3000:] if r.returncode != 0 else '',
    }


def coqchk(pid, timeout=1500):
    """Independent re-check (coqchk -o) of the compiled Props.vo of the property and of everything it
    depends on; returns the CONTEXT SUMMARY (axioms, type-in-type, unsafe fixpoints, assumed positivity)."""
    t0 = time.time()
    r = subprocess.run(['timeout', str(timeout), 'coqchk', '-silent', '-o', '-Q', 'theories', 'PV',
                        'PV.%s.Props' % pid], cwd=COQ, stdout=subprocess.PIPE, stderr=subprocess.STDOUT,
                       text=True)
    out = r.stdout
    m = re.search(r'CONTEXT SUMMARY\s*=+\s*(.*)', out, re.S)
    summary = {}
    if m:
        for key, val in re.findall(r'\*\s*([^:\n]+):\s*(.*?)(?=\n\s*\*|\Z)', m.group(1), re.S):
            summary[key.strip()] = ' '.join(val.split())
    clean = (r.returncode == 0 and bool(m)
             and all(summary.get(k, '') == '<none>' for k in summary if k.startswith('Constants') or k.startswith('Inductives')))
    axioms = summary.get('Axioms', '?')
    names = [] if axioms == '<none>' else re.findall(r'[\w.\']+', axioms)
    bad = [n for n in names if n.split('.')[-1] not in STDLIB_AXIOMS]
    return {'ok': clean and not bad, 'returncode': r.returncode, 'axioms': axioms, 'summary': summary,
            'wall_s': round(time.time() - t0, 1), 'log': '' if r.returncode == 0 else out[-2000:]}


PAIR = re.compile(r'\(\s*(-?\d+)(?:%Z)?\s*,\s*(-?\d+)(?:%Z)?\s*\)')


def _run_shard(path):
    t0 = time.time()
    r = subprocess.run(['timeout', '900', 'coqc', '-noglob', '-Q', os.path.join(COQ, 'theories'), 'PV',
                        path], stdout=subprocess.PIPE, stderr=subprocess.STDOUT, text=True,
                       cwd=os.path.dirname(path))
    if r.returncode != 0:
        return None, r.stdout[-3000:], time.time() - t0
    out = r.stdout
    m = re.search(r'=\s*(.*?):\s*list', out, re.S)
    if not m:
        return None, 'unparsable coqc answer: ' + out[-2000:], time.time() - t0
    pairs = [(int(a), int(b)) for a, b in PAIR.findall(m.group(1))]
    return pairs, '', time.time() - t0


def evaluate(pid, header, encoded, workdir, tag='cases', max_cases=400, max_bytes=200000):
    """encoded: list of (cid, cin_text, cobs_text).  Returns ({cid: [codes]}, n_shards) or raises."""
    shards, cur, size = [], [], 0
    for cid, cin, cobs in encoded:
        txt = '  {| cid := %d; cin := %s;\n     cobs := %s |}' % (cid, cin, cobs)
        if cur and (len(cur) >= max_cases or size + len(txt) > max_bytes):
            shards.append(cur)
            cur, size = [], 0
        cur.append(txt)
        size += len(txt)
    if cur:
        shards.append(cur)
    paths = []
    for k, sh in enumerate(shards):
        path = os.path.join(workdir, '%s_%d.v' % (tag, k))
        with open(path, 'w') as f:
            f.write('From Coq Require Import ZArith List String.\nFrom PV Require Import %s.Corr.\n' % pid)
            f.write(header or '')
            f.write('Import ListNotations. Open Scope Z_scope.\n')
            f.write('Definition cases : list case := [\n')
            f.write(';\n'.join(sh))
            f.write('\n].\nEval vm_compute in (run cases).\n')
        paths.append(path)
    fails = {}
    with ThreadPoolExecutor(max_workers=int(os.environ.get('VT_WORKERS') or 0) or min(16, os.cpu_count() or 4)) as ex:
        for path, (pairs, err, dt) in zip(paths, ex.map(_run_shard, paths)):
            if pairs is None:
                raise RuntimeError('coqc failed on %s:\n%s' % (path, err))
            for cid, code in pairs:
                fails.setdefault(cid, []).append(code)
    for p in paths:
        for ext in ('.vo', '.vok', '.vos', '.glob'):
            q = p[:-2] + ext
            if os.path.exists(q):
                os.remove(q)
    return fails, len(paths)
