"""C13 helpers: abstract KS/phy source directories for the ALF export (built on vt.datasets), snapshots of a
directory as exact token arrays + content identities, parsing of clusters.uuids.csv.  Trusted base of the
correspondence, like datasets.py.

Abstract C13 input (small JSON):
  {'ds': <abstract dataset of vt.datasets: files / text / bin / raw / params>, 'label': str, 'factor': 1 | 2.5,
   'target': 'fresh' | 'same' | 'same_dot' | 'same_dotdot' | 'same_symlink' | 'same_rel',
   'params_py': bool, 'opts': {...recorded generator options...}}
"""
import hashlib
import os

from . import datasets as D
from . import datasets_c08 as D8


def merged_like_probes(rng, nc, n_probes):
    """A probe table and a channel map as Merger.write_channel_data writes them: each probe's raw indices shifted by
    the maximum of the previous probe's (already shifted) channel map, so that make_channel_objects' re-basing gives
    back the per-probe raw indices (non-negative, no wrap-around)."""
    sizes = [1] * n_probes
    for _ in range(nc - n_probes):
        sizes[rng.randrange(n_probes)] += 1
    ids = sorted(rng.sample(range(0, 4), n_probes))            # probe ids need not be 0..k-1
    probes, cmap, off = [], [], 0
    for p, k in zip(ids, sizes):
        local = rng.sample(range(0, k + rng.choice([0, 0, 1, 2])), k) if k > 1 else [rng.choice([0, 1])]
        cm = [v + off for v in local]
        probes += [p] * k
        cmap += cm
        off = max(cm)
    order = list(range(nc))
    rng.shuffle(order)                                          # channels of one probe need not be contiguous
    return [probes[i] for i in order], [cmap[i] for i in order]


def n_clusters_of(st, sc, nt):
    return (max(sc) + 1) if (sc is not None and list(sc) != list(st)) else nt


def gen(rng, **force):
    """One abstract C13 input.  Every option can be forced."""
    o = {
        'n_spikes': rng.choice([4, 6, 9, 14, 20]), 'n_templates': rng.randint(2, 4),
        'n_channels': rng.choice([3, 4, 5, 6, 8]), 'n_samples_wf': rng.randint(2, 5),
        'curated': rng.choice(['no', 'no', 'ops', 'ops', 'nogap', 'same_file']),
        'probes': rng.choice(['none', 'none', 'const0', 'const1', 'two', 'three']),
        'shanks': rng.random() < 0.3, 'raw': rng.random() < 0.4, 'features': rng.choice(['no', 'all', 'all', 'subset']),
        'template_features': rng.random() < 0.2, 'whitening': rng.choice(['none', 'perm2', 'tri', 'diag']),
        'vec2d': rng.random() < 0.4, 'id_dtype': rng.choice(['uint16', 'uint32', 'int32', 'int64']),
        'clu_dtype': rng.choice(['uint32', 'int32', 'int64']), 'time_dtype': rng.choice(['uint64', 'int64', 'int32']),
        'cm_dtype': rng.choice(['uint32', 'int32', 'int64']), 'kslabel': rng.random() < 0.5,
        'group_tsv': rng.random() < 0.3, 'labels': rng.random() < 0.3, 'cluster_probes': rng.random() < 0.3,
        'cluster_shanks': rng.random() < 0.2, 'drift': rng.random() < 0.25, 'temp_wh': rng.random() < 0.35,
        'old_subset': rng.random() < 0.15, 'last_template_empty': rng.random() < 0.25, 'big_ids': rng.random() < 0.12,
        'other_template_empty': rng.choice(['no', 'no', 'no', 'no', 'first', 'middle']), 'spike_attr': rng.random() < 0.1,
        'label': rng.choice(['', 'probe00', 'probe00', 'imec1']), 'factor': rng.choice([1, 2.5]),
        'target': 'fresh', 'params_py': rng.random() < 0.85, 'rate': rng.choice([128.0, 1024.0, 100.0, 30000.0, 25000.0]),
        'similar': rng.random() < 0.2, 'extra_dat_channels': rng.choice([0, 0, 1, 3]),
        # stage 3: ids at the uint16 boundary ('edge': 65534 and 65535, inside the statement; 'over': 65535 and 65536,
        # outside it), sparse template storage (outside it), convert(force=True)
        'big_top': 'no', 'sparse': False, 'force': False,
        # stage 5: bystander files with names close to the ones the export deletes / copies / reads; names of the raw-data files
        'bystanders': 'no', 'dat_name': 'default',
        # stage 6: source files that are links into a store outside the directory; an earlier export into the same target
        'links': 'no', 'history': 'no',
    }
    o.update(force)
    if o['big_top'] != 'no':
        # every clusters.* table gets 65536 (65537) rows: keep everything else tiny, no raw data (the subset waveforms
        # are drawn per cluster)
        o.update(curated='ops', n_samples_wf=2, n_channels=min(o['n_channels'], 3), n_templates=2, n_spikes=min(o['n_spikes'], 9),
                 raw=False, cluster_probes=False, cluster_shanks=False, big_ids=False, probes=o['probes'] if o['probes'] in ('none', 'const0', 'const1') else 'none')
    if o['sparse']:
        o.update(raw=False, big_ids=False, n_channels=max(o['n_channels'], 4), probes='none')
    nc, nt, ns = o['n_channels'], o['n_templates'], o['n_spikes']
    sem = D.gen_semantic(rng, n_spikes=ns, n_templates=nt, n_channels=nc, n_samples_wf=o['n_samples_wf'],
                         curated=False, amplitudes=True, shanks=o['shanks'], probes=False, raw=o['raw'],
                         features=o['features'] != 'no', template_features=o['template_features'],
                         whitening=o['whitening'], rate=o['rate'], similar=o['similar'],
                         extra_dat_channels=o['extra_dat_channels'], all_templates_used=True)
    st = sem['spike_templates']
    if o['last_template_empty']:
        # the highest template has no spike (DESIGN.md section 9, C08/C13 row): n_clusters must still be n_templates
        st = [t if t != nt - 1 else rng.randrange(nt - 1) for t in st]
        sem['spike_templates'] = st
    if o['other_template_empty'] != 'no' and nt >= 3:
        # a template other than the last without spikes ("Unreferenced clusters found in templates", model.py:603):
        # the tables still have one row per template / per id
        k = 0 if o['other_template_empty'] == 'first' else rng.randrange(1, nt - 1)
        keep = [t for t in range(nt) if t != k and not (o['last_template_empty'] and t == nt - 1)]
        if keep:
            st = [t if t != k else rng.choice(keep) for t in st]
            sem['spike_templates'] = st
    # curation
    sc = None
    if o['curated'] == 'ops':
        sc, _ = D8.history(rng, st, rng.randint(1, 4))
    elif o['curated'] == 'nogap':
        # every id up to the highest keeps a spike (nan_idx empty: the IndexError of the unrepaired tree)
        sc = list(st)
        new = max(sc) + 1
        idx = [i for i, c in enumerate(sc) if sc.count(c) > 1]
        if idx:
            sc[rng.choice(idx)] = new
        else:
            sc = None
    elif o['curated'] == 'same_file':
        sc = list(st)                       # a spike_clusters.npy equal to the templates: nothing curated
    if o['big_ids'] and sc is not None and list(sc) != list(st):
        # ids above 255 (the uint16 compression must not change them); every clusters.* file then has 301 rows,
        # so only on datasets with few waveform samples and channels
        top = max(sc)
        if o['n_samples_wf'] * nc <= 12:
            sc = [300 if c == top else c for c in sc]
    if o['big_top'] != 'no':
        top = 65535 if o['big_top'] == 'edge' else 65536
        if sc is None or list(sc) == list(st):
            sc = list(st)
        ids = sorted(set(sc))
        ren = {ids[-1]: top}
        if len(ids) >= 2:
            ren[ids[-2]] = top - 1
        sc = [ren.get(c, c) for c in sc]
    sem['spike_clusters'] = sc
    # features
    f = sem['features']
    if f is not None:
        full = (f['data'] * ns)[:ns]
        if o['features'] == 'subset':
            rows = sorted(rng.sample(range(ns), rng.randint(2, ns - 1)))
            f['rows'] = rows
            f['data'] = full[:len(rows)]
        else:
            f['rows'] = None
            f['data'] = full
    # probe table
    if o['probes'] in ('const0', 'const1'):
        sem['probes'] = [0 if o['probes'] == 'const0' else 1] * nc
    elif o['probes'] in ('two', 'three'):
        k = min(nc, 2 if o['probes'] == 'two' else 3)
        probes, cmap = merged_like_probes(rng, nc, k)
        sem['probes'] = probes
        sem['channel_map'] = cmap
        sem['n_channels_dat'] = max(cmap) + 1 + o['extra_dat_channels']
        if sem['raw']:
            sem['raw']['n_channels_dat'] = sem['n_channels_dat']
    ds = D.render(sem, rng, names='ks', vec2d=o['vec2d'], id_dtype=o['id_dtype'], clu_dtype=o['clu_dtype'],
                  time_dtype=o['time_dtype'], cm_dtype=o['cm_dtype'], write_clusters=(o['curated'] == 'same_file'))
    files = ds['files']
    nclu = n_clusters_of(st, sc, nt)
    if o['sparse']:
        # sparse template storage: templates.npy holds k < n_channels columns, template_ind.npy names them
        k = rng.randint(2, nc - 1)
        t = files['templates.npy']
        nsw = t['shape'][1]
        rows = [t['data'][i * nc:(i + 1) * nc][:k] for i in range(nt * nsw)]
        files['templates.npy'] = {'dtype': t['dtype'], 'shape': [nt, nsw, k], 'data': [v for r in rows for v in r]}
        files['template_ind.npy'] = {'dtype': 'int32', 'shape': [nt, k],
                                     'data': [c for _ in range(nt) for c in sorted(rng.sample(range(nc), k))]}

    def vec(dtype, data):
        return {'dtype': dtype, 'shape': [len(data), 1] if o['vec2d'] else [len(data)], 'data': list(data)}
    if o['spike_attr']:
        # an extra per-spike attribute file (spike_<name>.npy, model.py:519-534): loaded, never exported, left alone
        files['spike_quality.npy'] = vec('float32', [float(rng.randrange(4)) for _ in range(ns)])
    if o['labels']:
        files['channel_labels.npy'] = vec('int32', [rng.randrange(3) for _ in range(nc)])
    def cvec(data):
        # a single cluster: a (1,1) array is not an (n,1) vector (numpy.squeeze makes it 0-dimensional): store (1,)
        return vec('int32', data) if len(data) > 1 else {'dtype': 'int32', 'shape': [1], 'data': list(data)}
    if o['cluster_probes'] and nclu <= 64:
        files['cluster_probes.npy'] = cvec([rng.randrange(2) for _ in range(nclu)])
    if o['cluster_shanks'] and nclu <= 64:
        files['cluster_shanks.npy'] = cvec([rng.randrange(2) for _ in range(nclu)])
    if o['drift']:
        nd = rng.randint(2, 4)
        files['drift.times.npy'] = {'dtype': 'float64', 'shape': [nd], 'data': [float(i) for i in range(nd)]}
        files['drift.um.npy'] = {'dtype': 'float64', 'shape': [nd, 1], 'data': [float(rng.randint(-3, 3)) for _ in range(nd)]}
        files['drift_depths.um.npy'] = {'dtype': 'float64', 'shape': [1, 1], 'data': [10.0]}
    if o['old_subset'] and not ds['raw']:
        # spike-waveform subset files left by an earlier session; without raw data they are only copied
        k = min(ns, 3)
        files['_phy_spikes_subset.spikes.npy'] = {'dtype': 'int64', 'shape': [k], 'data': list(range(k))}
        files['_phy_spikes_subset.channels.npy'] = {'dtype': 'int32', 'shape': [k, 2], 'data': [0, 1] * k}
        files['_phy_spikes_subset.waveforms.npy'] = {'dtype': 'float64', 'shape': [k, o['n_samples_wf'], 2],
                                                     'data': [float(i % 7) for i in range(k * o['n_samples_wf'] * 2)]}
    text = ds.setdefault('text', {})
    if o['kslabel']:
        text['cluster_KSLabel.tsv'] = 'cluster_id\tKSLabel\n' + ''.join(
            '%d\t%s\n' % (c, rng.choice(['good', 'mua'])) for c in range(min(nclu, 5)))
    if o['group_tsv']:
        text['cluster_group.tsv'] = 'cluster_id\tgroup\n0\tgood\n'
    if o['temp_wh']:
        ds['bin'] = {'temp_wh.dat': '0102' * rng.randint(1, 8)}
    inp = {'ds': ds, 'label': o['label'], 'factor': o['factor'], 'target': o['target'], 'force': bool(o['force']),
           'params_py': o['params_py'], 'opts': {k: o[k] for k in sorted(o)}}
    # stage 5: files of the source directory the export has no business with, and the name of the raw-data file(s)
    if o['bystanders'] != 'no':
        add_bystanders(inp, rng, o['bystanders'])
    if o['dat_name'] != 'default':
        set_dat_names(inp, rng, o['dat_name'])
    if o['links'] != 'no':
        set_links(inp, rng, o['links'], o.get('link_kind'))
    if o['history'] != 'no':
        set_history(inp, rng, o['history'], o.get('corrupt'))
    return inp


# ---- stage 6: the environment of the source files (links) and the history of the output directory -----------
# (a) "every pre-existing source file" does not say HOW a file is present in the directory: any regular file of the source
#     may be a symbolic link (absolute / relative target / a chain of two links) or a hard link to a file kept in a store
#     outside the directory (curation kept elsewhere, data on a shared disk).  Snapshots follow links, as every reader does.
# (b) "converting any dataset" does not say that the target has never been exported into: a HISTORY = an earlier
#     convert() of the same source directory into the same target (with the same or with an EARLIER clustering: another
#     number of clusters), optionally followed by damage to the exported files (stale / truncated / removed), then the
#     judged convert(force=True).  What is judged is the final state, against the model of an export into a fresh directory.
# histories with a non-empty label: drawn by default since the repair of rename_with_label (fix commit 4e7ea05 on /repo main:
# files of an earlier export with the same label are replaced, not labelled twice); VT_C13_LABEL_HISTORY=0 switches them off
LABEL_HISTORY = os.environ.get('VT_C13_LABEL_HISTORY', '1') == '1'
LINK_KINDS = ['abs', 'abs', 'rel', 'chain', 'hard']
CORRUPT = ['uuids_short', 'uuids_long', 'uuids_junk', 'npy_rows', 'delete_some', 'empty_files']


def _source_names(inp):
    ds = inp['ds']
    raw = ds.get('raw')
    names = sorted(set(ds['files']) | set(ds.get('text', {})) | set(ds.get('bin', {})))
    if inp['params_py']:
        names.append('params.py')
    if raw:
        names += list(inp.get('dat_names') or ['raw%d%s' % (j, raw.get('ext', '.dat')) for j in range(len(raw['sizes']))])
    return names


def set_links(inp, rng, which='any', kind=None):
    """Choose source files that are present as links.  which: 'clusters' (the two id vectors the export copies and then
    rewrites in place), 'copied' (files the export copies), 'any' (a random subset of all regular files), 'all'."""
    names = _source_names(inp)
    copied = [n for n in names if n in ('params.py', 'cluster_KSLabel.tsv', 'spike_clusters.npy', 'spike_templates.npy', 'channel_positions.npy',
                                        'channel_probe.npy', 'channel_labels.npy', 'cluster_probes.npy', 'cluster_shanks.npy', 'whitening_mat.npy',
                                        'drift_depths.um.npy', 'drift.times.npy', 'drift.um.npy') or n.startswith('_phy_spikes_subset.')]
    if which == 'clusters':
        pick = [n for n in ('spike_clusters.npy', 'spike_templates.npy') if n in names]
        if len(pick) == 2 and rng.random() < 0.4:
            pick = [rng.choice(pick)]
    elif which == 'copied':
        pick = rng.sample(copied, rng.randint(1, len(copied))) if copied else []
    elif which == 'all':
        pick = list(names)
    else:
        pick = rng.sample(names, rng.randint(1, min(len(names), 6)))
    links = dict(inp.get('links') or {})
    for n in pick:
        links[n] = kind or rng.choice(LINK_KINDS)
    inp['links'] = links
    inp['opts']['links'] = which
    inp['opts']['link_names'] = sorted(links)
    return links


def apply_links(inp, d, src):
    """After the source directory was written: move the chosen files into <d>/store and leave links in their place."""
    links = inp.get('links') or {}
    if not links:
        return
    store = os.path.join(d, 'store')
    os.makedirs(store, exist_ok=True)
    for name, kind in sorted(links.items()):
        p = os.path.join(src, name)
        if not os.path.isfile(p) or os.path.islink(p):
            continue
        t = os.path.join(store, name)
        os.rename(p, t)
        if kind == 'hard':
            os.link(t, p)
        elif kind == 'rel':
            os.symlink(os.path.join('..', 'store', name), p)
        elif kind == 'chain':
            os.symlink(t, t + '.lnk')
            os.symlink(os.path.join('..', 'store', name + '.lnk'), p)
        else:
            os.symlink(t, p)


def set_history(inp, rng, kind='recurate', corrupt=None):
    """An earlier export into the same target.  kind 'same': the same dataset was exported before; 'recurate': it was exported
    with an earlier clustering (other number of clusters / no spike_clusters.npy yet), then re-curated.  Only for fresh
    targets, the empty label (see notes: rename_with_label re-labels the files of the earlier export) and kind convert."""
    o = inp['opts']
    if not inp['target'].startswith('fresh') or (inp['label'] and not LABEL_HISTORY) or o.get('big_top', 'no') != 'no' or o.get('sparse'):
        return None
    if 'temp_wh.dat' in (inp.get('dat_names') or []):
        # the earlier export deletes temp_wh.dat (allowed by the statement); when that file is the raw data itself the judged
        # export has no raw data and writes fewer files than the earlier one, so 'equal to an export into a fresh directory'
        # is not what the statement promises for the leftovers (found by the thorough tier: a leftover, emptied subset file)
        return None
    files = inp['ds']['files']
    st = [int(x) for x in files['spike_templates.npy']['data']]
    cur = files.get('spike_clusters.npy')
    h = {'kind': kind, 'pre_clusters': 'keep'}
    if kind == 'recurate':
        curd = [int(x) for x in cur['data']] if cur is not None else None
        opts = []
        if curd is not None and curd != st:
            opts.append(None)                                   # exported before anything was curated
        for _ in range(3):
            sc, _ = D8.history(rng, st, rng.randint(1, 3))
            if sc != curd and sc != st:
                opts.append(sc)
        # the new id max+1 that a merge creates, undone (or not yet done) in the other state
        base = list(curd if curd is not None else st)
        top = max(base)
        merged = [top + 1 if c in (base[0], base[-1]) else c for c in base]
        if merged != curd:
            opts.append(merged)
        pre = rng.choice(opts) if opts else None
        if pre is None:
            h['pre_clusters'] = None
        else:
            shape = cur['shape'] if cur is not None else ([len(st), 1] if o.get('vec2d') else [len(st)])
            h['pre_clusters'] = {'dtype': cur['dtype'] if cur is not None else o.get('clu_dtype', 'int32'), 'shape': list(shape), 'data': pre}
    if corrupt is None:
        corrupt = rng.sample(CORRUPT, rng.choice([0, 0, 1, 1, 2]))
    h['corrupt'] = list(corrupt)
    h['seed'] = rng.randrange(10 ** 6)
    inp['history'] = h
    inp['force'] = True
    o['force'] = True
    o['history'] = kind
    o['corrupt'] = '+'.join(sorted(corrupt)) or 'none'
    return h


def run_history(inp, src, kw, target, out):
    """The earlier part of the history, performed with phylib itself: export of the (earlier state of the) source directory
    into `target`, damage to the exported files, then the source directory is brought to its present state (the clustering
    re-saved; files the first export added to the source - the spike-waveform subset - removed, so that the judged
    conversion starts from a directory of the modelled regime; temp_wh.dat stays deleted).  Returns '' or a failure text."""
    import random
    import numpy as np
    from phylib.io.model import TemplateModel
    from phylib.io.alf import EphysAlfCreator
    h = inp.get('history')
    if not h:
        return ''
    rng = random.Random(h['seed'])
    scp = os.path.join(src, 'spike_clusters.npy')
    before = set(os.listdir(src))
    final = None
    if os.path.exists(scp):
        with open(scp, 'rb') as f:
            final = f.read()
    pre = h['pre_clusters']
    if pre != 'keep':
        if os.path.exists(scp):
            os.remove(scp)
        if pre is not None:
            np.save(scp, D.spec_to_np(pre))
    m0 = m1 = None
    try:
        m0 = TemplateModel(**kw)
        m1 = EphysAlfCreator(m0).convert(target, force=False, label=inp['label'], ampfactor=inp['factor'])
    except Exception as e:  # noqa
        return 'earlier export raised %s: %s' % (type(e).__name__, str(e)[:120])
    finally:
        for x in (m1, m0):
            try:
                if x is not None:
                    x.close()
            except Exception:  # noqa
                pass
    # the source directory as it is today
    if pre != 'keep' or final is None:
        if os.path.exists(scp):
            os.remove(scp)
        if final is not None:
            with open(scp, 'wb') as f:
                f.write(final)
    for name in sorted(set(os.listdir(src)) - before):
        os.remove(os.path.join(src, name))
    # damage to the earlier export
    # only files the export itself writes (object files, copies): the read-back of the first export leaves loader caches in the
    # output directory as well (whitening_mat_inv.npy ...), which no export rewrites - damaging those is not part of this axis
    names = sorted(n for n in os.listdir(out) if n.startswith(('spikes.', 'clusters.', 'templates.', 'channels.', '_phy_spikes_subset.',
                                                               '_kilosort_whitening.', 'drift', 'params.py', 'cluster_KSLabel.')))
    npys = [n for n in names if n.endswith('.npy')]
    for c in h['corrupt']:
        uu = os.path.join(out, 'clusters.uuids.csv')
        if c == 'uuids_short' and os.path.exists(uu):
            with open(uu, 'w') as f:
                f.write('uuids\nstale-0')
        elif c == 'uuids_long' and os.path.exists(uu):
            with open(uu, 'a') as f:
                f.write(''.join('\nstale-%d' % i for i in range(rng.randint(1, 40))))
        elif c == 'uuids_junk' and os.path.exists(uu):
            with open(uu, 'w') as f:
                f.write(rng.choice(['', 'uuids', 'x,y\n1,2\n', 'uuids\na\na\na']))
        elif c == 'npy_rows':
            for n in rng.sample(npys, min(len(npys), rng.randint(1, 6))):
                np.save(os.path.join(out, n), np.zeros(rng.choice([(0,), (1,), (3, 2), (70000,)]), dtype=rng.choice(['float64', 'int32', 'uint16'])))
        elif c == 'delete_some':
            for n in rng.sample(names, min(len(names), rng.randint(1, 6))):
                if os.path.exists(os.path.join(out, n)):
                    os.remove(os.path.join(out, n))
        elif c == 'empty_files':
            for n in rng.sample(names, min(len(names), rng.randint(1, 4))):
                if os.path.exists(os.path.join(out, n)):
                    open(os.path.join(out, n), 'w').close()
    return ''


# ---- stage 5: bystander files / raw-data file names --------------------------------------------------------
# The frame clause quantifies over EVERY pre-existing file of the source directory.  The export treats a few names
# specially (FILE_DELETES: temp_wh.dat is unlinked; _FILE_RENAMES: params.py, cluster_KSLabel.tsv are copied; the raw
# data is read); a bystander is any other regular file, and the ones worth drawing are those whose names are CLOSE to
# a special name: with something between stem and extension, a prefix, a trailing suffix, another extension, another
# letter case, one character changed / dropped / added, glob metacharacters, or merely the same extension.
SPECIAL = ['temp_wh.dat', 'params.py', 'cluster_KSLabel.tsv']
INFIX = ['_session1', '2', '_backup', '.old', 'ite_noise_calib', '_g0_t0.imec0', ' (copy)', '-', '_', '.', 'X', '.dat']
PREFIX = ['my_', 'x', '.', '_', 'old.', '~', 'a-']
SUFFIX = ['.bak', '~', '.md5', '.orig', '.1', '.dat', '_', '.tmp']
OTHER_EXT = ['.bin', '.mat', '', '.npy.txt', '.DAT', '.da', '.data', '.dat2', '.json']
GLOBCH = ['[1]', '?', '*', '[!a]', '[', ']']
PLAIN = ['other.dat', 'proc.dat', 'recording.ap.bin', 'notes.txt', 'rez.mat', 'ops.json', 'README', 'Thumbs.db', '.DS_Store',
         'phy.log', 'cluster_info.tsv', 'cluster_ContamPct.tsv', 'cluster_Amplitude.tsv', 'cluster_notes.csv', 'spikes.notes.txt',
         'clusters.metrics.csv', 'templates.txt', 'channels.json', 'temp.dat', 'wh.dat', 'temp_wh', 'dat', '.dat', 'temp_wh.dat.dat']
RAW_STEMS = ['temp_wh_session1', 'temp_wh2', 'temp_wh_', 'temp_whitened', 'temp_wh.imec0.ap', 'my_temp_wh', 'temp_wh.dat', 'proc', 'recording.ap',
             'my data', 'TEMP_WH', 'temp_wh[1]', 'params.py', 'cluster_KSLabel', 'spikes.raw', 'data']


def near_name(rng, name, how=None):
    """One file name close to `name` (never `name` itself, never with a path separator)."""
    stem, dot, ext = name.rpartition('.')
    if not dot:
        stem, ext = name, ''
    ext = dot + ext
    how = how or rng.choice(['infix', 'infix', 'infix', 'prefix', 'suffix', 'ext', 'case', 'edit', 'glob'])
    if how == 'infix':
        out = stem + rng.choice(INFIX) + ext
    elif how == 'prefix':
        out = rng.choice(PREFIX) + name
    elif how == 'suffix':
        out = name + rng.choice(SUFFIX)
    elif how == 'ext':
        out = stem + rng.choice(OTHER_EXT)
    elif how == 'case':
        out = rng.choice([name.upper(), name.capitalize(), stem.upper() + ext, stem + ext.upper(), name.swapcase()])
    elif how == 'edit':
        i = rng.randrange(len(name))
        out = rng.choice([name[:i] + name[i + 1:], name[:i] + rng.choice('xw_1') + name[i:], name[:i] + rng.choice('xw_1') + name[i + 1:]])
    else:
        out = stem + rng.choice(GLOBCH) + ext
    out = out.replace('/', '-').replace('\x00', '')
    return out if out not in ('', '.', '..', name) else 'x' + name


def _content(rng, name, ds):
    """Where a bystander goes: tsv/csv files are read by the loader as cluster metadata (well-formed text), the rest are bytes."""
    if name.lower().endswith(('.tsv', '.csv')):
        sep = '\t' if name.lower().endswith('.tsv') else ','
        ds.setdefault('text', {})[name] = 'cluster_id%sby%d\n' % (sep, rng.randrange(1000)) + ''.join(
            '%d%s%d\n' % (c, sep, rng.randrange(9)) for c in range(rng.randint(0, 2)))
    else:
        ds.setdefault('bin', {})[name] = rng.choice(['', '00', '0102', 'ff' * 7, '0a0d' * rng.randint(1, 40), '%032x' % rng.getrandbits(128)])


def _taken(inp):
    ds = inp['ds']
    raw = ds.get('raw')
    names = set(ds['files']) | set(ds.get('text', {})) | set(ds.get('bin', {})) | {'params.py', 'sub', 'self'}
    if raw:
        names |= {'raw%d%s' % (j, raw.get('ext', '.dat')) for j in range(len(raw['sizes']))} | set(inp.get('dat_names') or [])
    return names


def add_bystanders(inp, rng, kind='mixed'):
    """Add regular files the export must leave alone.  kind: 'near_delete' (names close to temp_wh.dat), 'near_copy'
    (close to params.py / cluster_KSLabel.tsv), 'near_raw' (close to the raw-data file names), 'plain', 'mixed'."""
    ds = inp['ds']
    taken = _taken(inp)
    low = {n.lower() for n in taken}
    raw_names = sorted(n for n in taken if n.startswith('raw') and not n.endswith('.npy')) or ['raw0.dat']
    added = []
    for _ in range(rng.randint(1, 4) if kind != 'near_delete' else rng.randint(2, 5)):
        k = kind if kind != 'mixed' else rng.choice(['near_delete', 'near_delete', 'near_copy', 'near_raw', 'plain'])
        if k == 'near_delete':
            name = near_name(rng, 'temp_wh.dat')
        elif k == 'near_copy':
            name = near_name(rng, rng.choice(SPECIAL[1:]))
        elif k == 'near_raw':
            name = near_name(rng, rng.choice(raw_names))
        else:
            name = rng.choice(PLAIN)
        # never one of the special names, never an array file (the loader's regime), never a name already there
        # (also not up to letter case: the directory may live on a case-insensitive file system)
        if name in SPECIAL or name.endswith('.npy') or name.lower() in low or len(name) > 200:
            continue
        low.add(name.lower())
        _content(rng, name, ds)
        added.append(name)
    inp['opts']['bystanders'] = kind
    inp['opts']['bystander_names'] = sorted(set(inp['opts'].get('bystander_names', [])) | set(added))
    return added


def set_dat_names(inp, rng, kind='near'):
    """Names for the raw-data file(s) (vt.datasets writes raw<j>.dat; the C13 runner renames them and rewrites dat_path in
    params.py).  kind: 'near' (a stem close to a special name; with two files, a common stem and a counter), 'temp_wh'
    (the first file IS temp_wh.dat, Kilosort's own whitened copy: the one source file the export may delete), or a stem."""
    raw = inp['ds'].get('raw')
    inp['opts']['dat_name'] = kind
    if not raw:
        return None
    ext = raw.get('ext', '.dat')
    n = len(raw['sizes'])
    taken = {x.lower() for x in _taken(inp)}
    if kind == 'temp_wh':
        if 'temp_wh.dat' in taken or ext != '.dat':
            kind = inp['opts']['dat_name'] = 'near'
        else:
            names = ['temp_wh.dat'] + ['temp_wh%d.dat' % j for j in range(1, n)]
    if kind != 'temp_wh':
        stem = rng.choice(RAW_STEMS) if kind == 'near' else kind
        names = [stem + ext] if n == 1 else [stem + rng.choice(['_%d', '.%d', '%d']) % j + ext for j in range(n)]
    if len({x.lower() for x in names}) < n or any(x.lower() in taken or (x == 'temp_wh.dat' and kind != 'temp_wh') for x in names):
        inp['opts']['dat_name'] = 'default'
        return None
    inp['dat_names'] = names
    inp['opts']['dat_names'] = names
    return names


def rename_raw(inp, src, kw):
    """After vt.datasets.materialise: give the raw-data files the names of inp['dat_names'] (dat_path of the keyword
    arguments and of params.py follow)."""
    names = inp.get('dat_names')
    if not names or not kw.get('dat_path'):
        return kw
    from pathlib import Path
    new = []
    for old, name in zip(kw['dat_path'], names):
        os.rename(str(old), os.path.join(src, name))
        new.append(Path(os.path.join(src, name)))
    kw['dat_path'] = new
    pp = os.path.join(src, 'params.py')
    with open(pp) as f:
        lines = f.read().split('\n')
    lines = ['dat_path = %r' % list(names) if l.startswith('dat_path') else l for l in lines]
    with open(pp, 'w') as f:
        f.write('\n'.join(lines))
    return kw


def gen_compress(rng, **force):
    """A bare directory for compress_spikes_dtypes: at most one spikes.templates.* and one spikes.clusters.* array (the
    function takes the FIRST glob match, in directory order), ids around the uint16 boundary, plus files the two
    globs must not touch."""
    o = {'label': rng.choice(['', 'probe00', 'templates', 'clusters', 'a.b']), 'ids': rng.choice(['small', 'edge', 'edge', 'over', 'neg']),
         'missing': rng.choice(['none'] * 6 + ['templates', 'clusters']), 'vec2d': rng.random() < 0.3, 'decoys': rng.random() < 0.7}
    o.update(force)
    lab = ('.' + o['label']) if o['label'] else ''
    n = rng.randint(2, 6)

    def ids(dtype):
        pool = {'small': [0, 1, 2, 255, 256, 300], 'edge': [0, 1, 32767, 32768, 65534, 65535],
                'over': [0, 65535, 65536, 65537, 70000, 131071, 131072], 'neg': [0, 3, -1, -2, -65536]}[o['ids']]
        if dtype == 'uint16' and o['ids'] in ('over', 'neg'):
            dtype = 'int32'
        if dtype.startswith('u'):
            pool = [v for v in pool if v >= 0]
        v = [rng.choice(pool) for _ in range(n)]
        if o['ids'] == 'edge':
            v[0], v[-1] = 65535, 65534
        elif o['ids'] == 'over':
            v[0], v[-1] = 65536, 65535
        return {'dtype': dtype, 'shape': [n, 1] if o['vec2d'] else [n], 'data': v}
    files = {}
    if o['missing'] != 'templates':
        files['spikes.templates%s.npy' % lab] = ids(rng.choice(['uint32', 'int32', 'int64', 'uint16', 'uint64']))
    if o['missing'] != 'clusters':
        files['spikes.clusters%s.npy' % lab] = ids(rng.choice(['uint32', 'int32', 'int64', 'uint64']))
    if o['decoys']:
        # names the globs 'spikes.templates.*npy' / 'spikes.clusters.*npy' do not match
        files['spikes.templatesX%s.npy' % lab] = ids('int32')
        files['clusters.templates%s.npy' % lab] = ids('int64')
        files['spikes.amps%s.npy' % lab] = {'dtype': 'int32', 'shape': [n], 'data': [70000 + i for i in range(n)]}
        files['templates.clusters.npy'] = ids('int32')
    return {'files': files, 'opts': {k: o[k] for k in sorted(o)}}


# ---- snapshots ---------------------------------------------------------------------------------------------

def sha(path):
    with open(path, 'rb') as f:
        return hashlib.sha256(f.read()).hexdigest()


def snapshot(dirpath, load=True):
    """({name: token array} for the .npy files, {name: sha256} for the other regular files, {name: sha256} for all).
    load=False: hashes only (the arrays are not parsed: an interrupted conversion may leave anything behind)."""
    import numpy as np
    npy, other, hashes = {}, {}, {}
    for name in sorted(os.listdir(dirpath)):
        p = os.path.join(dirpath, name)
        if not os.path.isfile(p):
            other[name] = 'DIR'
            hashes[name] = 'DIR'
            continue
        h = sha(p)
        hashes[name] = h
        if name.endswith('.npy'):
            npy[name] = D.tok_array(np.load(p)) if load else None
        else:
            other[name] = h
    return npy, other, hashes


def coq_arr(ta):
    """D.coq_arr, with the tables of tens of thousands of rows (cluster ids near 65535) printed run-length encoded:
    (mkarr dt shape (rle [(n1, row1); (n2, row2); ...])), consecutive equal rows grouped (Corr.rle)."""
    dt, shape, toks = ta
    if len(toks) < 4096 or not shape or shape[0] == 0:
        return D.coq_arr(ta)
    rowlen = len(toks) // shape[0]
    assert rowlen * shape[0] == len(toks)
    blocks = []
    for r in range(shape[0]):
        row = toks[r * rowlen:(r + 1) * rowlen]
        if blocks and blocks[-1][1] == row:
            blocks[-1][0] += 1
        else:
            blocks.append([1, row])
    return '(mkarr %s [%s] (rle [%s]))' % (
        D.COQ_DT[dt], '; '.join(str(int(x)) for x in shape),
        '; '.join('(%d, [%s])' % (k, '; '.join(D.coq_tok(t) for t in row)) for k, row in blocks))


def parse_uuids(path):
    """clusters.uuids.csv -> list of small integers (index of the first occurrence of each identifier), or None
    when the file does not have the header line."""
    with open(path) as f:
        lines = f.read().split('\n')
    if not lines or lines[0] != 'uuids':
        return None
    first = {}
    out = []
    for x in lines[1:]:
        out.append(first.setdefault(x, len(first)))
    return out
