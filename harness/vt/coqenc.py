"""Printers of Coq literals (trusted base: a bug here can hide a disagreement)."""


def z(n):
    n = int(n)
    return '(%d)' % n if n < 0 else '%d' % n


def nat(n):
    n = int(n)
    assert 0 <= n < 5000
    return '%d%%nat' % n


def b(x):
    return 'true' if x else 'false'


def lst(items, f=None):
    if f is not None:
        items = [f(x) for x in items]
    return '[' + '; '.join(items) + ']'


def zl(items):
    return lst(items, z)


def zll(items):
    return lst(items, zl)


def opt(x, f=z):
    return 'None' if x is None else '(Some %s)' % f(x)


def s(x):
    # Coq string literal: only the double quote needs doubling; restrict to printable ASCII
    out = []
    for ch in x:
        o = ord(ch)
        if ch == '"':
            out.append('""')
        elif 32 <= o < 127:
            out.append(ch)
        else:
            raise ValueError('non-printable character in Coq string literal: %r' % ch)
    return '"' + ''.join(out) + '"%string'


def app(ctor, *args):
    if not args:
        return ctor
    return '(' + ctor + ' ' + ' '.join(args) + ')'


def pair(a, b_):
    return '(%s, %s)' % (a, b_)
