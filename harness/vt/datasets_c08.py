"""C08 helpers: curation histories, small dense integer template sets, geometries, integer inverse whitening
matrices, and the rendering of one abstract C08 input into the abstract dataset of vt.datasets (trusted base of
the correspondence, like datasets.py).

Abstract C08 input (small JSON):
  {'st': [...], 'sc': [...], 'tmpl': nt x ns x nc ints, 'pos': [[x, y], ...] ints, 'shanks': None | [...],
   'wmi': None | nc x nc ints, 'ops': [names of the curation operations applied], 'opts': {...file-level options...}}
"""
from fractions import Fraction

from . import datasets as D

N_CLOSEST = 12      # TemplateModel.n_closest_channels (only used to keep generated geometries inside the regime)


# ---- curation histories ---------------------------------------------------------------------------------

def apply_op(rng, sc, op):
    """One manual-curation step on the cluster vector (phy semantics: merge and split create new ids)."""
    sc = list(sc)
    n = len(sc)
    mx = max(sc)
    present = sorted(set(sc))
    if op == 'merge':                       # two clusters -> a new id; both old ids become empty
        if len(present) >= 2:
            a, b = rng.sample(present, 2)
            sc = [mx + 1 if c in (a, b) else c for c in sc]
    elif op == 'merge3':
        if len(present) >= 3:
            ab = rng.sample(present, 3)
            sc = [mx + 1 if c in ab else c for c in sc]
    elif op == 'merge_into':                # spikes of b absorbed by the existing id a
        if len(present) >= 2:
            a, b = rng.sample(present, 2)
            sc = [a if c == b else c for c in sc]
    elif op == 'split':                     # a random part of cluster a -> a new id
        a = rng.choice(present)
        idx = [i for i, c in enumerate(sc) if c == a]
        k = rng.randint(1, len(idx))
        for i in rng.sample(idx, k):
            sc[i] = mx + 1
    elif op == 'split_one':                 # a one-spike cluster
        sc[rng.randrange(n)] = mx + 1
    elif op == 'split2':                    # a split into two new ids (the old id becomes empty)
        a = rng.choice(present)
        for i, c in enumerate(sc):
            if c == a:
                sc[i] = mx + 1 + rng.randrange(2)
    elif op == 'move':                      # reassignment of one spike, possibly leaving a gap of empty ids
        sc[rng.randrange(n)] = rng.randint(0, mx + 2)
    elif op == 'move_existing':
        sc[rng.randrange(n)] = rng.choice(present)
    elif op == 'swap':                      # two clusters exchange their ids (sc != st, same sets)
        if len(present) >= 2:
            a, b = rng.sample(present, 2)
            sc = [b if c == a else a if c == b else c for c in sc]
    else:
        raise ValueError(op)
    return sc


OPS = ['merge', 'merge', 'merge3', 'merge_into', 'split', 'split', 'split_one', 'split2', 'move', 'move',
       'move_existing', 'swap']


def history(rng, st, n_ops):
    sc, names = list(st), []
    for _ in range(n_ops):
        op = rng.choice(OPS)
        sc = apply_op(rng, sc, op)
        names.append(op)
    return sc, names


# ---- geometry --------------------------------------------------------------------------------------------

def boundary_tie(pos):
    """True when for some channel the N_CLOSEST-th and (N_CLOSEST+1)-th nearest channels are at the same
    distance (then NumPy's unstable argsort decides which one is 'closest': outside the determined regime)."""
    n = len(pos)
    if n <= N_CLOSEST:
        return False
    for x0, y0 in pos:
        d = sorted((x - x0) ** 2 + (y - y0) ** 2 for x, y in pos)
        if d[N_CLOSEST - 1] == d[N_CLOSEST]:
            return True
    return False


def geometry(rng, nc, kind=None, ties=False):
    """ties=False: no distance tie between the 12th and 13th nearest channel of any channel (the determined regime);
    ties=True (stage 5): any geometry with pairwise distinct positions -- regular linear probes ('line'), unshuffled and
    shuffled two-column grids, staggered two-column probes ('stag2'), coarse random lattices (many equal distances)."""
    if ties:
        kind = kind or rng.choice(['line', 'line', 'grid', 'gridu', 'stag2', 'lattice'])
        if kind == 'line':                  # one column, regular pitch: every interior channel has tied neighbours
            pos = [[0, 20 * i] for i in range(nc)]
            if rng.random() < 0.3:
                rng.shuffle(pos)
        elif kind == 'gridu':               # two columns, channel order = probe order
            pos = [[16 * (i % 2), 20 * (i // 2)] for i in range(nc)]
        elif kind == 'grid':                # two columns, shuffled channel order
            pos = [[16 * (i % 2), 20 * (i // 2)] for i in range(nc)]
            rng.shuffle(pos)
        elif kind == 'stag2':               # Neuropixels-like staggered columns
            pos = [[16 * (i % 2) + 8 * ((i // 2) % 2), 20 * (i // 2)] for i in range(nc)]
        elif kind == 'lattice':             # random cells of a coarse lattice (many equal distances)
            cells = rng.sample([(x, y) for x in range(0, 4) for y in range(0, 8)], nc)
            pos = [[10 * x, 10 * y] for x, y in cells]
        else:
            raise ValueError(kind)
        assert len(set(map(tuple, pos))) == nc
        return pos
    kind = kind or rng.choice(['grid', 'grid', 'line2', 'random', 'stagger'])
    for _ in range(200):
        if kind == 'line2':                 # distances from any channel are pairwise distinct
            pos = [[0, 3 * (2 ** i)] for i in range(nc)]
            if nc > 14:
                pos = [[0, 3 * (2 ** i)] if i < 14 else [7 * (i - 13), 1] for i in range(nc)]
        elif kind == 'grid':                # two columns, regular spacing (many distance ties)
            pos = [[16 * (i % 2), 20 * (i // 2)] for i in range(nc)]
            rng.shuffle(pos)
        elif kind == 'stagger':
            pos = [[(i % 2) * 11 + (i % 3), 15 * i + (i * i) % 7] for i in range(nc)]
        else:
            cells = rng.sample([(x, y) for x in range(0, 40) for y in range(0, 60)], nc)
            pos = [[x, y] for x, y in cells]
        if len(set(map(tuple, pos))) == nc and not boundary_tie(pos):
            return pos
        kind = 'random'
    raise RuntimeError('no geometry found')


# ---- whitening -------------------------------------------------------------------------------------------

def int_wmi(rng, nc, kind):
    """An integer inverse whitening matrix whose inverse (the whitening matrix) is exact in binary64."""
    M = [[0] * nc for _ in range(nc)]
    if kind == 'perm':
        p = list(range(nc))
        rng.shuffle(p)
        for i in range(nc):
            M[i][p[i]] = rng.choice([1, 1, -1, 2, -2, 4])
    elif kind == 'tri':
        for i in range(nc):
            M[i][i] = 1
            for j in range(i):
                if rng.random() < 0.35:
                    M[i][j] = rng.randint(-2, 2)
    elif kind == 'diag':
        for i in range(nc):
            M[i][i] = rng.choice([1, 2, 4, -1, -2])
    else:
        raise ValueError(kind)
    return M


def exact_inverse(M):
    n = len(M)
    A = [[Fraction(v) for v in row] + [Fraction(int(i == j)) for j in range(n)] for i, row in enumerate(M)]
    for c in range(n):
        p = next(r for r in range(c, n) if A[r][c] != 0)
        A[c], A[p] = A[p], A[c]
        piv = A[c][c]
        A[c] = [v / piv for v in A[c]]
        for r in range(n):
            if r != c and A[r][c] != 0:
                f = A[r][c]
                A[r] = [a - f * b for a, b in zip(A[r], A[c])]
    return [[float(v) for v in row[n:]] for row in A]


# ---- one abstract input ----------------------------------------------------------------------------------

def templates(rng, nt, ns, nc, amp=20, style=None):
    style = style or rng.choice(['dense', 'dense', 'local', 'flatties'])
    out = []
    for t in range(nt):
        if style == 'local':                # energy on a few neighbouring channels, zero elsewhere
            c0 = rng.randrange(nc)
            w = rng.randint(1, 3)
            tm = [[rng.randint(-amp, amp) if abs(k - c0) <= w else 0 for k in range(nc)] for _ in range(ns)]
        elif style == 'flatties':           # many equal amplitudes (argmax / argsort ties)
            tm = [[rng.choice([-2, 0, 2]) for _ in range(nc)] for _ in range(ns)]
        else:
            tm = [[rng.randint(-amp, amp) if rng.random() < 0.85 else 0 for _ in range(nc)] for _ in range(ns)]
        out.append(tm)
    return out


def gen_input(rng, **o):
    # stage 6: 'big' = the magnitude axis of the ids -- many templates (template ids up to ~130; the comparator costs n_templates^2 per queried cluster) and cluster ids in the
    # thousands (a long phy session: every merge / split takes a fresh, ever-growing id), with every id dtype the loader
    # accepts, so that template_id * n_clusters and similar products leave the range of a 16-bit id dtype
    big = o.get('big', False)
    nt = o.get('nt', rng.choice([17, 24, 40, 64, 100, 130]) if big else rng.randint(2, 5))
    ties = o.get('ties', False)
    nc = o.get('nc', rng.choice([3, 4]) if big else
               rng.choice([13, 14, 15, 16, 16, 17, 20, 24, 32] if ties else [3, 4, 5, 6, 8, 8, 13, 14, 16]))
    ns = o.get('ns', 2 if big else rng.randint(2, 4))
    nspk = o.get('nspk', rng.randint(2, 14))
    if o.get('st'):
        st = list(o['st'])
    else:
        st = [rng.randrange(nt) for _ in range(nspk)]
        if o.get('all_used', rng.random() < 0.5):
            for k in range(min(nt, len(st))):
                st[k] = k
            rng.shuffle(st)
        if o.get('last_unused', False) and nt >= 2:
            st = [min(t, nt - 2) for t in st]
        u = o.get('unused')
        if u and u != 'none' and nt >= 2:
            # templates without any spike at the start / in the middle / at the end / at both ends of the id range
            drop = {'start': {0}, 'end': {nt - 1}, 'ends': {0, nt - 1} if nt >= 3 else {nt - 1},
                    'middle': {rng.randrange(1, nt - 1)} if nt >= 3 else {0}}[u]
            live = [t for t in range(nt) if t not in drop]
            st = [t if t not in drop else rng.choice(live) for t in st]
            for k, t in enumerate(live[:len(st)]):      # every other template keeps a spike when there is room
                if t not in st:
                    st[k] = t
    n_ops = o.get('n_ops', rng.choice([0, 1, 1, 2, 2, 3, 4, 5, 6]))
    if 'sc' in o:
        sc, names = list(o['sc']), ['given']
    else:
        sc, names = history(rng, st, n_ops)
        if big:
            # the fresh ids of the session (>= n_templates) lie far above the template ids; ids stay < 4096 (Corr regime)
            off = o.get('id_off', rng.choice([0, 0, 250, 1000, 2500, 3000, 4000]))
            off = max(0, min(off, 4090 - max(sc)))
            if off:
                sc = [c + off if c >= nt else c for c in sc]
                names = names + ['offset']
    shk = o.get('shanks', rng.choice(['none', 'none', 'two', 'three']))
    if shk == 'none':
        shanks = None
    else:
        k = 2 if shk == 'two' else 3
        shanks = [rng.randrange(k) for _ in range(nc)]
    wk = o.get('whitening', rng.choice(['none', 'none', 'perm', 'tri', 'diag']))
    wmi = None if wk == 'none' else int_wmi(rng, nc, wk)
    inp = {
        'st': st, 'sc': sc, 'tmpl': templates(rng, nt, ns, nc, style=o.get('style')),
        'pos': geometry(rng, nc, o.get('geometry'), ties=ties), 'shanks': shanks, 'wmi': wmi, 'ops': names,
        'opts': {
            'id_dtype': o.get('id_dtype', rng.choice(['uint32', 'uint32', 'int32', 'int64', 'uint16'])),
            'clu_dtype': o.get('clu_dtype', rng.choice(['uint32', 'int32', 'int64'])),
            'tmpl_dtype': o.get('tmpl_dtype', rng.choice(['float32', 'float32', 'float64'])),
            # the LAPACK inverse of a unit-triangular whitening matrix is not exact: always ship the inverse then
            'wmi_file': True if wk == 'tri' else o.get('wmi_file', rng.random() < 0.6),
            'names': o.get('names', rng.choice(['ks', 'ks', 'alf'])),
            'vec2d': o.get('vec2d', rng.random() < 0.25),
            'write_clusters': o.get('write_clusters', rng.random() < 0.5),
        },
    }
    # stage 5: bystander files a real sorter / phy leaves in the directory and that TemplateModel must not let change the
    # storage or the curation bookkeeping (KiloSort2's templates_ind.npy WITH an s = arange rows beside a dense templates.npy;
    # per-cluster label tables).  Key present only when non-empty (older replays have no such key).
    extra = o.get('extra')
    if extra is None:
        extra = []
        if rng.random() < o.get('p_extra', 0.0):
            extra.append(['templates_ind.npy', rng.choice(['float64', 'float64', 'int32', 'uint32', 'int64'])])
            if rng.random() < 0.4:
                extra.append(['cluster_KSLabel.tsv', 'text'])
            if rng.random() < 0.3:
                extra.append(['cluster_group.tsv', 'text'])
    if extra:
        inp['opts']['extra'] = [list(e) for e in extra]
    # stage 6: the curation GOES ON on the loaded object -- further stages of operations applied to model.spike_clusters
    # (in place / element-wise in place / by rebinding the attribute) between two rounds of queries.  Key present only when
    # non-empty.
    hist = o.get('hist')
    if hist is None:
        hist = []
        if rng.random() < o.get('p_hist', 0.0):
            cur = list(sc)
            for _ in range(rng.choice([1, 1, 2, 3])):
                nxt, _names = history(rng, cur, rng.choice([1, 1, 2, 3]))
                nxt = [min(c, 4095) for c in nxt]
                hist.append({'sc': nxt, 'mode': rng.choice(['inplace', 'elementwise', 'rebind'])})
                cur = nxt
    if hist:
        inp['hist'] = [dict(h, sc=list(h['sc'])) for h in hist]
    return inp


def to_dataset(inp):
    """abstract C08 input -> abstract dataset of vt.datasets (files to be written by D.materialise)."""
    st, sc = inp['st'], inp['sc']
    nt, ns, nc = len(inp['tmpl']), len(inp['tmpl'][0]), len(inp['tmpl'][0][0])
    n = len(st)
    o = inp['opts']
    sem = {
        'n_channels': nc, 'n_channels_dat': nc, 'n_templates': nt, 'n_samples_wf': ns, 'n_spikes': n,
        'channel_map': list(range(nc)), 'positions': [[float(x), float(y)] for x, y in inp['pos']], 'rate': 1000.0,
        'spike_samples': [10 * i for i in range(n)], 'spike_templates': list(st),
        'spike_clusters': (list(sc) if (sc != st or o.get('write_clusters')) else None),
        'amplitudes': [1.0] * n, 'shanks': inp['shanks'], 'probes': None, 'wm': None, 'wmi': None,
        'similar': None, 'features': None, 'template_features': None, 'raw': None,
        'templates': [[[float(v) for v in row] for row in t] for t in inp['tmpl']],
    }
    if inp['wmi'] is not None:
        sem['wm'] = exact_inverse(inp['wmi'])
        if o.get('wmi_file'):
            sem['wmi'] = [[float(v) for v in row] for row in inp['wmi']]
    ds = D.render(sem, None, names=o.get('names', 'ks'), vec2d=o.get('vec2d', False), id_dtype=o.get('id_dtype', 'uint32'),
                  clu_dtype=o.get('clu_dtype', 'int32'), tmpl_dtype=o.get('tmpl_dtype', 'float32'))
    for name, kind in o.get('extra') or []:
        if name == 'templates_ind.npy':         # KiloSort2: every row = arange(n_channels); the templates are dense
            ds['files'][name] = D._spec(kind, [nt, nc], [c for _ in range(nt) for c in range(nc)])
        elif name == 'cluster_KSLabel.tsv':
            ds.setdefault('text', {})[name] = 'cluster_id\tKSLabel\n' + ''.join(
                '%d\t%s\n' % (c, 'good' if c % 2 else 'mua') for c in range(nt))
        elif name == 'cluster_group.tsv':
            ds.setdefault('text', {})[name] = 'cluster_id\tgroup\n' + ''.join(
                '%d\t%s\n' % (c, 'good' if c % 3 else 'noise') for c in sorted(set(sc)))
        else:
            raise ValueError(name)
    return ds
