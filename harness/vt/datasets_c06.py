"""C06 dataset helpers: minimal TemplateModel directories around a feature store, a template-feature
store or a stored spike-waveform subset; Walsh-pattern waveforms whose per-channel covariance is
exactly diagonal.  Trusted base of the C06 correspondence (DESIGN.md section 6.4)."""
import os

from . import datasets as D


def base_sem(n_spikes, n_templates, n_channels, spike_templates, nsw=3, spike_clusters=None):
    """Smallest well-formed semantic dataset (no raw data, no whitening, no curation).  Template
    waveforms are fixed small integers; nothing in C06 reads them."""
    tmpl = [[[float(((t + 1) * (j + 2) + c) % 7 - 3) for c in range(n_channels)] for j in range(nsw)]
            for t in range(n_templates)]
    for t in range(n_templates):          # no all-zero template (amplitude assertions elsewhere)
        tmpl[t][0][t % n_channels] = 5.0
    return {
        'n_channels': n_channels, 'n_channels_dat': n_channels, 'n_templates': n_templates, 'n_samples_wf': nsw,
        'n_spikes': n_spikes, 'channel_map': list(range(n_channels)),
        'positions': [[float(16 * (c % 2)), float(20 * c)] for c in range(n_channels)], 'rate': 1024.0,
        'spike_samples': [3 * i + 1 for i in range(n_spikes)], 'spike_templates': list(spike_templates),
        'spike_clusters': list(spike_clusters) if spike_clusters is not None else None, 'amplitudes': None, 'shanks': None, 'probes': None, 'wm': None, 'wmi': None,
        'similar': None, 'features': None, 'template_features': None, 'raw': None, 'templates': tmpl,
    }


def features_dataset(inp):
    """abstract 'features' / 'tfeatures' input -> abstract dataset (files)."""
    sem = base_sem(len(inp['spike_templates']), inp['n_templates'], inp['n_channels'], inp['spike_templates'],
                   spike_clusters=inp.get('spike_clusters'))
    ds = D.render(sem, None, id_dtype=inp.get('id_dtype', 'uint32'))
    files = ds['files']
    fdt = inp.get('fdtype', 'float32')
    if inp['what'] == 'features':
        data = inp['data']                      # [row][pc][loc]
        nrows, npcs, ncl = len(data), inp['npcs'], inp['ncl']
        files['pc_features.npy'] = {'dtype': fdt, 'shape': [nrows, npcs, ncl],
                                    'data': [float(v) for r in data for pc in r for v in pc]}
        if inp['ind'] is not None:
            files['pc_feature_ind.npy'] = {'dtype': inp.get('ind_dtype', 'uint32'), 'shape': [inp['n_templates'], ncl],
                                           'data': [v for r in inp['ind'] for v in r]}
        if inp['rows'] is not None:
            files['pc_feature_spike_ids.npy'] = {'dtype': inp.get('rows_dtype', 'int64'), 'shape': [nrows],
                                                 'data': list(inp['rows'])}
    else:
        data = inp['data']                      # [row][loc]
        nrows, ntl = len(data), inp['ncl']
        files['template_features.npy'] = {'dtype': fdt, 'shape': [nrows, ntl],
                                          'data': [float(v) for r in data for v in r]}
        if inp['ind'] is not None:
            files['template_feature_ind.npy'] = {'dtype': inp.get('ind_dtype', 'uint32'),
                                                 'shape': [inp['n_templates'], ntl],
                                                 'data': [v for r in inp['ind'] for v in r]}
        if inp['rows'] is not None:
            files['template_feature_spike_ids.npy'] = {'dtype': inp.get('rows_dtype', 'int64'), 'shape': [nrows],
                                                       'data': list(inp['rows'])}
    return ds


def both_dataset(inp):
    """abstract 'hist' input -> abstract dataset holding a pc-feature store and/or a template-feature store."""
    sem = base_sem(len(inp['spike_templates']), inp['n_templates'], inp['n_channels'], inp['spike_templates'],
                   spike_clusters=inp.get('spike_clusters'))
    ds = D.render(sem, None, id_dtype=inp.get('id_dtype', 'uint32'))
    files = ds['files']
    fdt = inp.get('fdtype', 'float32')
    f, t = inp.get('f'), inp.get('t')
    if f is not None:
        data = f['data']
        nrows, npcs, ncl = len(data), f['npcs'], f['ncl']
        files['pc_features.npy'] = {'dtype': fdt, 'shape': [nrows, npcs, ncl],
                                    'data': [float(v) for r in data for pc in r for v in pc]}
        if f['ind'] is not None:
            files['pc_feature_ind.npy'] = {'dtype': inp.get('ind_dtype', 'uint32'), 'shape': [inp['n_templates'], ncl],
                                           'data': [v for r in f['ind'] for v in r]}
        if f['rows'] is not None:
            files['pc_feature_spike_ids.npy'] = {'dtype': inp.get('rows_dtype', 'int64'), 'shape': [nrows],
                                                 'data': list(f['rows'])}
    if t is not None:
        data = t['data']
        nrows, ntl = len(data), t['ncl']
        files['template_features.npy'] = {'dtype': fdt, 'shape': [nrows, ntl], 'data': [float(v) for r in data for v in r]}
        if t['ind'] is not None:
            files['template_feature_ind.npy'] = {'dtype': inp.get('ind_dtype', 'uint32'), 'shape': [inp['n_templates'], ntl],
                                                 'data': [v for r in t['ind'] for v in r]}
        if t['rows'] is not None:
            files['template_feature_spike_ids.npy'] = {'dtype': inp.get('rows_dtype', 'int64'), 'shape': [nrows],
                                                       'data': list(t['rows'])}
    return ds


def expand(segs):
    """list given by rule: [['seg', start, step, count] | ['lit', [values]]] -> list of ints."""
    out = []
    for s in segs:
        if s[0] == 'seg':
            out.extend(s[1] + s[2] * i for i in range(s[3]))
        else:
            out.extend(s[1])
    return out


def big_dataset(inp):
    """abstract 'big' input (everything by rule) -> abstract dataset.  Stored value of (row r, component p,
    local column l) = (c1 r + c2 p + c3 l) mod M + 1 (an integer below 2^24: exact in float32);
    spike_templates[s] = (a s + b) mod n_templates."""
    import numpy as np
    n, nt = inp['n_spikes'], inp['n_templates']
    a, b = inp['trule']
    st = ((a * np.arange(n, dtype=np.int64) + b) % nt).tolist()
    sem = base_sem(n, nt, inp['n_channels'], st)
    ds = D.render(sem, None, id_dtype=inp.get('id_dtype', 'uint32'))
    files = ds['files']
    rows = expand(inp['rows']) if inp['rows'] is not None else None
    nrows = len(rows) if rows is not None else n
    c1, c2, c3, M = inp['drule']
    ncl = inp['ncl']
    r = np.arange(nrows, dtype=np.int64)
    if inp['what'] == 'features':
        npcs = inp['npcs']
        v = (c1 * r[:, None, None] + c2 * np.arange(npcs)[None, :, None] + c3 * np.arange(ncl)[None, None, :]) % M + 1
        files['pc_features.npy'] = {'dtype': inp.get('fdtype', 'float32'), 'shape': [nrows, npcs, ncl],
                                    'data': v.ravel().astype(float).tolist()}
        pre = 'pc_feature'
    else:
        v = (c1 * r[:, None] + c3 * np.arange(ncl)[None, :]) % M + 1
        files['template_features.npy'] = {'dtype': inp.get('fdtype', 'float32'), 'shape': [nrows, ncl],
                                          'data': v.ravel().astype(float).tolist()}
        pre = 'template_feature'
    if inp['ind'] is not None:
        files[pre + '_ind.npy'] = {'dtype': inp.get('ind_dtype', 'uint32'), 'shape': [nt, ncl],
                                   'data': [x for row in inp['ind'] for x in row]}
    if rows is not None:
        files[pre + '_spike_ids.npy'] = {'dtype': inp.get('rows_dtype', 'int64'), 'shape': [nrows], 'data': rows}
    return ds


def pca_dataset(inp):
    """abstract 'pca' input -> abstract dataset with a stored spike-waveform subset and no feature file."""
    sem = base_sem(inp['n_spikes'], inp['n_templates'], inp['n_channels'], inp['spike_templates'], nsw=inp['nsamp'],
                   spike_clusters=inp.get('spike_clusters'))
    ds = D.render(sem, None)
    files = ds['files']
    w = inp['w']                                # [stored index][sample][stored column]
    nst, nsamp, nc = len(w), inp['nsamp'], inp['n_channels']
    chrows = inp.get('chrows')                  # stage 4: per-spike channel rows (-1 = padding); None = all channels
    if chrows is not None:
        nc = len(chrows[0])
    files['_phy_spikes_subset.waveforms.npy'] = {'dtype': inp.get('wdtype', 'float32'), 'shape': [nst, nsamp, nc],
                                                 'data': [float(v) for m in w for r in m for v in r]}
    files['_phy_spikes_subset.channels.npy'] = {'dtype': inp.get('chdtype', 'int32'), 'shape': [nst, nc],
                                                'data': ([c for _ in range(nst) for c in range(nc)] if chrows is None
                                                         else [c for r in chrows for c in r])}
    files['_phy_spikes_subset.spikes.npy'] = {'dtype': 'int64', 'shape': [nst], 'data': list(inp['stored'])}
    return ds


def open_model(ds, dirpath):
    from phylib.io.model import TemplateModel
    kw = D.materialise(ds, dirpath)
    return TemplateModel(**kw)


# ---- Walsh-pattern waveforms ------------------------------------------------------------------------------

def hadamard(n):
    h = [[1]]
    while len(h) < n:
        h = [r + r for r in h] + [r + [-v for v in r] for r in h]
    return h


def walsh_waveforms(rng, n, nsamp, nc, offsets=True):
    """(n, nsamp, nc) integer waveforms: on every channel each sample index carries amplitude * (a distinct
    non-constant Walsh function of the spike index) + offset, or is constant; the per-channel covariance over
    spikes is exactly diagonal, the three largest variances are distinct and positive."""
    assert n in (4, 8, 16) and nsamp >= 3
    h = hadamard(n)
    w = [[[0] * nc for _ in range(nsamp)] for _ in range(n)]
    for k in range(nc):
        nact = rng.randint(3, min(nsamp, n - 1))
        active = rng.sample(range(nsamp), nact)
        pats = rng.sample(range(1, n), nact)
        mags = rng.sample(range(1, 10), nact)          # distinct magnitudes -> distinct variances
        for j, p, a in zip(active, pats, mags):
            sgn = rng.choice([1, -1])
            for l in range(n):
                w[l][j][k] = sgn * a * h[p][l]
        if offsets:
            for j in range(nsamp):
                b = rng.choice([0, 0, 1, -2, 3])
                for l in range(n):
                    w[l][j][k] += b
    return w


def helmert_waveforms(rng, k, nsamp, nc):
    """(k, nsamp, nc) integer waveforms for ANY number k of spikes: on every channel min(3, k-1) or more sample
    indices carry amplitude * (a distinct Helmert contrast (1, .., 1, -m, 0, .., 0) of the shuffled spike index)
    + offset, the others are constant; the per-channel covariance over the spikes is exactly diagonal, every
    column mean is an integer, and the min(3, k-1) largest variances are positive and strictly separated from
    each other and from the rest."""
    c = min(3, k - 1)
    assert nsamp >= 3
    w = [[[0] * nc for _ in range(nsamp)] for _ in range(k)]
    for ch in range(nc):
        perm = rng.sample(range(k), k)
        while True:
            nact = rng.randint(c, min(nsamp, k - 1)) if k > 1 else 0
            active = rng.sample(range(nsamp), nact)
            pats = rng.sample(range(1, k), nact) if nact else []
            mags = [rng.randint(1, 6) for _ in range(nact)]
            var = sorted((a * a * m * (m + 1) for a, m in zip(mags, pats)), reverse=True)
            top = (var + [0])[:c + 1]
            if all(top[i] > top[i + 1] for i in range(c)):
                break
        for j, m, a in zip(active, pats, mags):
            sgn = rng.choice([1, -1])
            for l in range(k):
                p = 1 if l < m else (-m if l == m else 0)
                w[perm[l]][j][ch] = sgn * a * p
        for j in range(nsamp):
            b = rng.choice([0, 0, 1, -2, 3])
            for l in range(k):
                w[l][j][ch] += b
    return w


# ---- stage 4: sparse waveform stores (per-spike channel rows, channels missing for some spikes) ------------

def effective_waveforms(inp):
    """What get_spike_waveforms must return for the requested stored spikes (increasing id order) on the requested
    channels: the stored column of the channel, zeros when the spike's row does not name the channel."""
    stored, chrows, w = inp['stored'], inp['chrows'], inp['w']
    exist = sorted(set(inp['ids']) & set(stored))
    out = []
    for sp in exist:
        q = stored.index(sp)
        row = chrows[q]
        out.append([[(w[q][j][row.index(ch)] if ch in row else 0) for ch in inp['chans']] for j in range(inp['nsamp'])])
    return out


def determined_components(W, c):
    """Python mirror of LinkC03.pca_leading_max: per requested channel the number (<= c) of leading variances that are
    positive and strictly above everything that follows; None when some channel's covariance is not diagonal.  Only
    used to cross-check the generator (the Coq side recomputes it and answers code 3 on a mismatch)."""
    k = len(W)
    if k == 0:
        return None
    nsamp, nc = len(W[0]), len(W[0][0])
    counts = []
    for ch in range(nc):
        col = [[W[l][j][ch] for l in range(k)] for j in range(nsamp)]

        def scov(a, b):
            return k * sum(x * y for x, y in zip(a, b)) - sum(a) * sum(b)
        for j in range(nsamp):
            for j2 in range(nsamp):
                if j != j2 and scov(col[j], col[j2]) != 0:
                    return None
        d = [scov(col[j], col[j]) for j in range(nsamp)]
        n = 0
        for _ in range(c):
            i = max(range(nsamp), key=lambda t: (d[t], -t))
            v = d[i]
            d2 = list(d)
            d2[i] = -1
            i2 = max(range(nsamp), key=lambda t: (d2[t], -t))
            if d2[i2] < v and 0 < v:
                n += 1
                d = d2
            else:
                break
        counts.append(n)
    return counts


def sparse_exact_waveforms(rng, k, nsamp, nc, stores):
    """(k, nsamp, nc) integer waveforms, zero wherever stores[l][ch] is False, whose per-channel covariance over the k
    spikes is exactly diagonal: on channel ch the first kk of the (shuffled) spikes that store it carry Helmert
    contrasts (or, for kk == 1, a single non-zero sample), the others zeros; per-sample offsets only where every
    spike stores the channel."""
    c = min(3, k - 1)
    E = [[[0] * nc for _ in range(nsamp)] for _ in range(k)]
    for ch in range(nc):
        P = [l for l in range(k) if stores[l][ch]]
        rng.shuffle(P)
        if not P or k == 1:
            if P and k == 1:
                for j in range(nsamp):
                    E[0][j][ch] = rng.randint(-9, 9)
            continue
        kk = len(P) if rng.random() < 0.75 else rng.randint(1, len(P))
        if kk == 1:
            j0, a = rng.randrange(nsamp), rng.choice([-7, -3, 2, 5, 9])
            E[P[0]][j0][ch] = a
            continue
        cdet = min(c, kk - 1)
        while True:
            nact = rng.randint(cdet, min(nsamp, kk - 1))
            active = rng.sample(range(nsamp), nact)
            pats = rng.sample(range(1, kk), nact)
            mags = [rng.randint(1, 6) for _ in range(nact)]
            var = sorted((a * a * m * (m + 1) for a, m in zip(mags, pats)), reverse=True)
            top = (var + [0])[:cdet + 1]
            if all(top[i] > top[i + 1] for i in range(cdet)):
                break
        for j, m, a in zip(active, pats, mags):
            sgn = rng.choice([1, -1])
            for l in range(kk):
                E[P[l]][j][ch] = sgn * a * (1 if l < m else (-m if l == m else 0))
        if len(P) == k and rng.random() < 0.5:
            for j in range(nsamp):
                b = rng.choice([0, 0, 1, -2, 3])
                for l in range(k):
                    E[l][j][ch] += b
    return E
