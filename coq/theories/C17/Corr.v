(* C17/Corr.v -- comparator evaluated by vm_compute on generated case files.
   codes: 1  = observed output differs from the model on a determined observable (chunks_kept
               always; the returned array when no cluster is sub-sampled)
          21 = C17_kept: observed chunks_kept are not the grid intervals at a regular stride from
               the first, all of them, at most n_chunks_kept
          22 = C17_select: returned array not strictly increasing
          23 = C17_select: a returned id is not a spike of a requested cluster
          24 = C17_select / C17_parity: a returned id is not in a kept chunk (chunk restriction on)
          25 = C17_select: a returned id is not in the requested subset
          26 = C17_select: for some requested cluster the returned spikes are neither all eligible
               ones (count None / <= 0 / >= their number) nor exactly the requested count
          27 = C17_kept_densest: the observed chunks_kept are not the densest regular selection that
               fits in n_chunks_kept (the stride is not the least one keeping <= n_chunks_kept chunks)
          3  = input outside the stated regime (harness bug)
   InSeq (round 2): 2-4 calls made one after the other on ONE SpikeSelector object; call number j is
   judged by the clauses 22-26 of a single call with ITS arguments, and (code 1, when no cluster is
   sub-sampled) against entry j of Calls.selector_calls, which C17_calls_independent identifies with
   the call made alone on a fresh selector. *)
From Coq Require Import ZArith List Lia Bool.
From PV Require Export Base.PySlice Base.NpSearch C17.Model C17.Spec C17.Calls.
Import ListNotations.
Open Scope Z_scope.

Inductive input :=
| InKept (grid : list Z) (k : Z)
| InSelect (times clusters grid : list Z) (k : Z) (n : option Z) (req : list Z)
           (sub_chunks : bool) (sub : option (list Z))
(* TemplateModel.save_spikes_subset_waveforms on a loaded dataset: spike_samples, spike_templates,
   traces.chunk_bounds as loaded, max_n_spikes_per_template *)
| InRoute (samples templates grid : list Z) (nst : Z)
(* a sequence of calls on one selector object *)
| InSeq (times clusters grid : list Z) (k : Z) (calls : list call).

Inductive observed :=
| ObsKept (kept : list Z)
| ObsSelect (kept : list Z) (results : list (list Z))   (* one result per NumPy seed *)
| ObsRoute (results : list (list Z))                     (* saved spike ids, one per NumPy seed *)
| ObsSeq (kept : list Z) (results : list (list (list Z)))  (* per call: one result per NumPy seed *)
| ObsCrash.

Record case := { cid : Z; cin : input; cobs : observed }.

Definition flag (code : Z) (ok : bool) : list Z := if ok then [] else [code].

Definition opt_eqb (m : option (list Z)) (o : list Z) : bool :=
  match m with Some x => zlist_eqb x o | None => false end.

Fixpoint nodupZ (l : list Z) : list Z :=
  match l with [] => [] | x :: r => if memZ x r then nodupZ r else x :: nodupZ r end.

Definition grid_ok (grid : list Z) (k : Z) : bool :=
  (1 <=? k) && (1 <=? zlen grid) && sortedZb grid.

(* the codes of one call of a sequence (the clauses of InSelect, with the call's own arguments) *)
Definition call_codes (times clusters kept : list Z) (c : call) (model : option (list Z))
    (rs : list (list Z)) : list Z :=
  let ivs := match unflat kept with Some l => l | None => [] end in
  let n := c_n c in let req := c_req c in let sc := c_sc c in let sub := c_sub c in
  let determined :=
    forallb (fun cl => negb (subsamples n (zlen (elig times clusters ivs sc sub cl)))) req in
  let all (f : list Z -> bool) := forallb f rs in
  flag 1 (negb determined || all (opt_eqb model)) ++
  flag 22 (all (cl22_sorted)) ++
  flag 23 (all (cl23_cluster clusters req)) ++
  flag 24 (all (cl24_chunk times ivs sc)) ++
  flag 25 (all (cl25_subset sub)) ++
  flag 26 (all (cl26_count times clusters ivs sc sub n req)).

Fixpoint seq_codes (times clusters kept : list Z) (calls : list call)
    (models : list (option (list Z))) (rss : list (list (list Z))) : list Z :=
  match calls, models, rss with
  | [], [], [] => []
  | c :: cr, m :: mr, rs :: rr =>
      (match rs with [] => [1; 26] | _ => call_codes times clusters kept c m rs end) ++
      seq_codes times clusters kept cr mr rr
  | _, _, _ => [1; 26]
  end.

Definition check (c : case) : list Z :=
  match cin c, cobs c with
  | InKept grid k, o =>
      if negb (grid_ok grid k) then [3] else
      match o with
      | ObsKept kept => flag 1 (opt_eqb (chunks_kept grid k) kept) ++ flag 21 (kept_spec_b grid k kept) ++
                        flag 27 (kept_dense_b grid k kept)
      | _ => [1; 21]
      end
  | InSelect times clusters grid k n req sc sub, o =>
      if negb (grid_ok grid k && (zlen times =? zlen clusters)) then [3] else
      match o with
      | ObsSelect kept rs =>
          let ivs := match unflat kept with Some l => l | None => [] end in
          let determined :=
            forallb (fun c => negb (subsamples n (zlen (elig times clusters ivs sc sub c)))) req in
          let model := selector_call choose0 times clusters grid k n req sc sub in
          let all (f : list Z -> bool) := forallb f rs in
          flag 1 (opt_eqb (chunks_kept grid k) kept &&
                  (negb determined || all (opt_eqb model))) ++
          flag 21 (kept_spec_b grid k kept) ++
          flag 22 (all (cl22_sorted)) ++
          flag 23 (all (cl23_cluster clusters req)) ++
          flag 24 (all (cl24_chunk times ivs sc)) ++
          flag 25 (all (cl25_subset sub)) ++
          flag 26 (all (cl26_count times clusters ivs sc sub n req)) ++
          flag 27 (kept_dense_b grid k kept)
      | _ => [1; 26]
      end
  | InRoute samples templates grid nst, o =>
      if negb (grid_ok grid 1 && (zlen samples =? zlen templates) && (1 <=? nst)) then [3] else
      match o with
      | ObsRoute rs =>
          let ivs := match chunks_kept grid n_chunks_kept_route with
                     | Some kept => match unflat kept with Some l => l | None => [] end
                     | None => [] end in
          let n := Some nst in
          let req := unique templates in
          let determined :=
            forallb (fun c => negb (subsamples n (zlen (elig samples templates ivs true None c)))) req in
          let model := route choose0 samples templates grid nst in
          let all (f : list Z -> bool) := forallb f rs in
          flag 1 (negb determined || all (opt_eqb model)) ++
          flag 22 (all (cl22_sorted)) ++
          flag 23 (all (cl23_cluster templates req)) ++
          flag 24 (all (cl24_chunk samples ivs true)) ++
          flag 26 (all (cl26_count samples templates ivs true None n req))
      | _ => [1; 26]
      end
  | InSeq times clusters grid k calls, o =>
      if negb (grid_ok grid k && (zlen times =? zlen clusters) && (2 <=? zlen calls)) then [3] else
      match o with
      | ObsSeq kept rss =>
          let models := match selector_calls (fun _ => choose0) times clusters grid k calls with
                        | Some l => l | None => [] end in
          nodupZ (flag 1 (opt_eqb (chunks_kept grid k) kept) ++
                  flag 21 (kept_spec_b grid k kept) ++
                  flag 27 (kept_dense_b grid k kept) ++
                  seq_codes times clusters kept calls models rss)
      | _ => [1; 26]
      end
  end.

Definition run (cases : list case) : list (Z * Z) :=
  flat_map (fun c => map (fun code => (cid c, code)) (check c)) cases.
