(* C17/Corr.v -- comparator evaluated by vm_compute on generated case files.
   codes: 1  = observed output differs from the model on a determined observable (chunks_kept
               always; the returned array when no cluster is sub-sampled)
          21 = C17_kept: observed chunks_kept are not the grid intervals at a regular stride from
               the first, all of them, at most n_chunks_kept
          22 = C17_select: returned array not strictly increasing
          23 = C17_select: a returned id is not a spike of a requested cluster
          24 = C17_select / C17_parity: a returned id is not in a kept chunk (chunk restriction on)
          25 = C17_select: a returned id is not in the requested subset
          26 = C17_select: for some requested cluster the returned spikes are neither all eligible
               ones (count None / <= 0 / >= their number) nor exactly the requested count
          27 = C17_kept_densest: the observed chunks_kept are not the densest regular selection that
               fits in n_chunks_kept (the stride is not the least one keeping <= n_chunks_kept chunks)
          3  = input outside the stated regime (harness bug) *)
From Coq Require Import ZArith List Lia Bool.
From PV Require Export Base.PySlice Base.NpSearch C17.Model C17.Spec.
Import ListNotations.
Open Scope Z_scope.

Inductive input :=
| InKept (grid : list Z) (k : Z)
| InSelect (times clusters grid : list Z) (k : Z) (n : option Z) (req : list Z)
           (sub_chunks : bool) (sub : option (list Z))
(* TemplateModel.save_spikes_subset_waveforms on a loaded dataset: spike_samples, spike_templates,
   traces.chunk_bounds as loaded, max_n_spikes_per_template *)
| InRoute (samples templates grid : list Z) (nst : Z).

Inductive observed :=
| ObsKept (kept : list Z)
| ObsSelect (kept : list Z) (results : list (list Z))   (* one result per NumPy seed *)
| ObsRoute (results : list (list Z))                     (* saved spike ids, one per NumPy seed *)
| ObsCrash.

Record case := { cid : Z; cin : input; cobs : observed }.

Definition flag (code : Z) (ok : bool) : list Z := if ok then [] else [code].

Definition opt_eqb (m : option (list Z)) (o : list Z) : bool :=
  match m with Some x => zlist_eqb x o | None => false end.

Definition grid_ok (grid : list Z) (k : Z) : bool :=
  (1 <=? k) && (1 <=? zlen grid) && sortedZb grid.

Definition check (c : case) : list Z :=
  match cin c, cobs c with
  | InKept grid k, o =>
      if negb (grid_ok grid k) then [3] else
      match o with
      | ObsKept kept => flag 1 (opt_eqb (chunks_kept grid k) kept) ++ flag 21 (kept_spec_b grid k kept) ++
                        flag 27 (kept_dense_b grid k kept)
      | _ => [1; 21]
      end
  | InSelect times clusters grid k n req sc sub, o =>
      if negb (grid_ok grid k && (zlen times =? zlen clusters)) then [3] else
      match o with
      | ObsSelect kept rs =>
          let ivs := match unflat kept with Some l => l | None => [] end in
          let determined :=
            forallb (fun c => negb (subsamples n (zlen (elig times clusters ivs sc sub c)))) req in
          let model := selector_call choose0 times clusters grid k n req sc sub in
          let all (f : list Z -> bool) := forallb f rs in
          flag 1 (opt_eqb (chunks_kept grid k) kept &&
                  (negb determined || all (opt_eqb model))) ++
          flag 21 (kept_spec_b grid k kept) ++
          flag 22 (all (cl22_sorted)) ++
          flag 23 (all (cl23_cluster clusters req)) ++
          flag 24 (all (cl24_chunk times ivs sc)) ++
          flag 25 (all (cl25_subset sub)) ++
          flag 26 (all (cl26_count times clusters ivs sc sub n req)) ++
          flag 27 (kept_dense_b grid k kept)
      | _ => [1; 26]
      end
  | InRoute samples templates grid nst, o =>
      if negb (grid_ok grid 1 && (zlen samples =? zlen templates) && (1 <=? nst)) then [3] else
      match o with
      | ObsRoute rs =>
          let ivs := match chunks_kept grid n_chunks_kept_route with
                     | Some kept => match unflat kept with Some l => l | None => [] end
                     | None => [] end in
          let n := Some nst in
          let req := unique templates in
          let determined :=
            forallb (fun c => negb (subsamples n (zlen (elig samples templates ivs true None c)))) req in
          let model := route choose0 samples templates grid nst in
          let all (f : list Z -> bool) := forallb f rs in
          flag 1 (negb determined || all (opt_eqb model)) ++
          flag 22 (all (cl22_sorted)) ++
          flag 23 (all (cl23_cluster templates req)) ++
          flag 24 (all (cl24_chunk samples ivs true)) ++
          flag 26 (all (cl26_count samples templates ivs true None n req))
      | _ => [1; 26]
      end
  end.

Definition run (cases : list case) : list (Z * Z) :=
  flat_map (fun c => map (fun code => (cid c, code)) (check c)) cases.
