(* C17/Proofs.v -- lemmas and main proofs for C17. *)
From Coq Require Import ZArith List Lia Bool Sorted Permutation.
From PV Require Import Base.PySlice Base.NpSearch C17.Model C17.Spec.
Import ListNotations.
Open Scope Z_scope.

(* ---------- parity of searchsorted = membership in a kept chunk ---------- *)
Lemma ordered_lower lo ivs v : ordered lo ivs -> In v ivs -> lo <= iv_a v.
Proof.
  revert lo; induction ivs as [|w r IH]; intros lo H Hin; [contradiction|].
  cbn [ordered] in H. destruct H as (H1 & H2 & H3). destruct Hin as [->|Hin]; [lia|].
  specialize (IH _ H3 Hin). lia.
Qed.

Theorem parity_spec ivs lo t : ordered lo ivs ->
  (in_chunks (flat ivs) t = true <-> in_some ivs t).
Proof.
  unfold in_chunks. revert lo; induction ivs as [|[a b] r IH]; intros lo H.
  - cbn. split; [discriminate|]. intros (v & [] & _).
  - cbn [ordered iv_a iv_b] in H. destruct H as (H1 & H2 & H3). cbn [flat ssr iv_a iv_b].
    destruct (a <=? t) eqn:Ea.
    + destruct (b <=? t) eqn:Eb.
      * replace (1 + (1 + ssr (flat r) t)) with (Z.succ (Z.succ (ssr (flat r) t))) by lia.
        rewrite Z.odd_succ_succ. rewrite (IH b H3). split.
        -- intros (v & Hin & Ht). exists v. split; [now right|exact Ht].
        -- intros (v & [<-|Hin] & Ht); [cbn [iv_a iv_b] in Ht; lia|].
           exists v. split; assumption.
      * replace (1 + 0) with 1 by lia. split; [intros _|reflexivity].
        exists (mkiv a b). split; [now left|cbn [iv_a iv_b]; lia].
    + split; [discriminate|]. intros (v & [<-|Hin] & Ht); [cbn [iv_a iv_b] in Ht; lia|].
      pose proof (ordered_lower b r v H3 Hin). lia.
Qed.

(* ---------- ceil division, stride, number of kept chunks ---------- *)
Lemma cdiv_spec a b : 1 <= b -> b * (cdiv a b - 1) < a <= b * cdiv a b.
Proof.
  intros Hb. unfold cdiv.
  pose proof (Z.mul_div_le (- a) b ltac:(lia)).
  pose proof (Z.mul_succ_div_gt (- a) b ltac:(lia)). lia.
Qed.

Lemma cdiv_nonneg a b : 1 <= b -> 0 <= a -> 0 <= cdiv a b.
Proof. intros Hb Ha. pose proof (cdiv_spec a b Hb). nia. Qed.

Lemma cdiv_pos a b : 1 <= b -> 1 <= a -> 1 <= cdiv a b.
Proof. intros Hb Ha. pose proof (cdiv_spec a b Hb). nia. Qed.

Lemma stride_pos nch k : 1 <= stride nch k.
Proof. unfold stride. lia. Qed.

Theorem kept_le nch k : 0 <= nch -> 1 <= k -> cdiv nch (stride nch k) <= k.
Proof.
  intros Hn Hk. pose proof (stride_pos nch k) as Hs.
  pose proof (cdiv_spec nch k Hk) as H1.
  pose proof (cdiv_spec nch (stride nch k) Hs) as H2.
  assert (cdiv nch k <= stride nch k) by (unfold stride; lia).
  set (s := stride nch k) in *. set (m := cdiv nch s) in *. set (c := cdiv nch k) in *.
  assert (nch <= k * s) by nia.
  nia.
Qed.

(* ---------- chunks_kept ---------- *)
Lemma skipn_two {A} (n : nat) (l : list A) : (n + 1 < length l)%nat ->
  exists a b rest, skipn n l = a :: b :: rest /\ nth_error l n = Some a /\ nth_error l (S n) = Some b.
Proof.
  revert l; induction n as [|n IH]; intros l H.
  - destruct l as [|a [|b rest]]; cbn [length] in H; try lia. exists a, b, rest. repeat split.
  - destruct l as [|x l]; cbn [length] in H; [lia|]. destruct (IH l ltac:(lia)) as (a & b & rest & H1 & H2 & H3).
    exists a, b, rest. cbn [skipn nth_error]. auto.
Qed.

Lemma slice_two (grid : list Z) i : 0 <= i -> i + 1 < zlen grid ->
  exists a b, slice grid i (i + 2) = [a; b] /\
              nth_error grid (Z.to_nat i) = Some a /\ nth_error grid (Z.to_nat (i + 1)) = Some b.
Proof.
  intros Hi Hl. unfold zlen in Hl.
  destruct (skipn_two (Z.to_nat i) grid ltac:(lia)) as (a & b & rest & H1 & H2 & H3).
  exists a, b. unfold slice. rewrite H1.
  replace (Z.to_nat (i + 2) - Z.to_nat i)%nat with 2%nat by lia.
  replace (Z.to_nat (i + 1)) with (S (Z.to_nat i)) by lia. repeat split; assumption.
Qed.

Lemma kept_build grid s cnt : forall j0, 0 <= j0 -> 1 <= s ->
  (forall j, j0 <= j < j0 + Z.of_nat cnt -> j * s + 1 < zlen grid) ->
  exists ivs, flat_map (fun i => slice grid i (i + 2)) (map (fun j => j * s) (zrange j0 cnt)) = flat ivs /\
              KeptAt grid s j0 ivs /\ length ivs = cnt.
Proof.
  induction cnt as [|cnt IH]; intros j0 Hj Hs Hv.
  - exists []. repeat split.
  - destruct (IH (j0 + 1) ltac:(lia) Hs) as (ivs & H1 & H2 & H3); [intros j Hjj; apply Hv; lia|].
    destruct (slice_two grid (j0 * s) ltac:(nia) (Hv j0 ltac:(lia))) as (a & b & E & Ha & Hb).
    exists (mkiv a b :: ivs). cbn [zrange map flat_map flat KeptAt iv_a iv_b length].
    rewrite E, H1. repeat split; auto.
Qed.

Theorem chunks_kept_spec grid k : 1 <= k -> 1 <= zlen grid ->
  exists ivs, chunks_kept grid k = Some (flat ivs) /\
              Kept_Stride grid k (stride (zlen grid - 1) k) ivs.
Proof.
  intros Hk Hg. unfold chunks_kept. replace (k =? 0) with false by lia.
  set (nch := zlen grid - 1). set (s := stride nch k).
  pose proof (stride_pos nch k) as Hs. fold s in Hs.
  pose proof (cdiv_spec nch s Hs) as Hc.
  pose proof (cdiv_nonneg nch s Hs ltac:(lia)) as Hm.
  unfold krange.
  destruct (kept_build grid s (Z.to_nat (cdiv nch s)) 0 ltac:(lia) Hs) as (ivs & H1 & H2 & H3).
  { intros j Hj. assert (j * s <= (cdiv nch s - 1) * s) by nia. lia. }
  exists ivs. split; [now rewrite H1|].
  unfold Kept_Stride. fold nch. fold s. unfold zlen at 1 2. rewrite H3.
  repeat split; try assumption; try lia.
  rewrite Z2Nat.id by lia. apply kept_le; lia.
Qed.

(* ---------- sorted grid -> kept chunks ordered ---------- *)
Lemma sorted_head_all h r y : sortedZ (h :: r) -> In y r -> h <= y.
Proof.
  revert h; induction r as [|z r IH]; intros h Hs Hin; [contradiction|].
  inversion Hs; subst. destruct Hin as [->|Hin]; [lia|]. specialize (IH z H3 Hin). lia.
Qed.

Lemma sorted_nth_le l : sortedZ l -> forall i i' x y,
  nth_error l i = Some x -> nth_error l i' = Some y -> (i <= i')%nat -> x <= y.
Proof.
  induction l as [|h r IH]; intros Hs i i' x y Hx Hy Hle; [destruct i; discriminate|].
  destruct i as [|i], i' as [|i']; cbn [nth_error] in *; try lia.
  - injection Hx as ->. injection Hy as ->. lia.
  - injection Hx as ->. apply (sorted_head_all _ r); [assumption|]. now apply nth_error_In in Hy.
  - apply (IH (sorted_tail _ _ Hs) i i'); auto. lia.
Qed.

Lemma keptat_ordered grid s : sortedZ grid -> 1 <= s -> forall ivs j lo i0,
  0 <= j -> KeptAt grid s j ivs -> nth_error grid i0 = Some lo -> Z.of_nat i0 <= j * s ->
  ordered lo ivs.
Proof.
  intros Hg Hs. induction ivs as [|v r IH]; intros j lo i0 Hj Hk Hlo Hi; [exact I|].
  cbn [KeptAt] in Hk. destruct Hk as (Ha & Hb & Hr). cbn [ordered]. split; [|split].
  - apply (sorted_nth_le grid Hg i0 (Z.to_nat (j * s))); auto. lia.
  - apply (sorted_nth_le grid Hg (Z.to_nat (j * s)) (Z.to_nat (j * s + 1))); auto. lia.
  - apply (IH (j + 1) (iv_b v) (Z.to_nat (j * s + 1))); auto; try lia; try nia.
Qed.

Lemma kept_ordered grid k s ivs : sortedZ grid -> Kept_Stride grid k s ivs -> exists lo, ordered lo ivs.
Proof.
  intros Hg (Hs & Hk & _). destruct ivs as [|v r]; [exists 0; exact I|].
  exists (iv_a v). destruct Hk as (Ha & Hb & Hr).
  apply (keptat_ordered grid s Hg Hs (v :: r) 0 (iv_a v) (Z.to_nat (0 * s))); try lia; auto.
  cbn [KeptAt]. auto.
Qed.
