(* C17/Proofs.v -- lemmas and main proofs for C17. *)
From Coq Require Import ZArith List Lia Bool Sorted Permutation.
From PV Require Import Base.PySlice Base.NpSearch C17.Model C17.Spec.
Import ListNotations.
Open Scope Z_scope.

(* ---------- parity of searchsorted = membership in a kept chunk ---------- *)
Lemma ordered_lower lo ivs v : ordered lo ivs -> In v ivs -> lo <= iv_a v.
Proof.
  revert lo; induction ivs as [|w r IH]; intros lo H Hin; [contradiction|].
  cbn [ordered] in H. destruct H as (H1 & H2 & H3). destruct Hin as [->|Hin]; [lia|].
  specialize (IH _ H3 Hin). lia.
Qed.

Theorem parity_spec ivs lo t : ordered lo ivs ->
  (in_chunks (flat ivs) t = true <-> in_some ivs t).
Proof.
  unfold in_chunks. revert lo; induction ivs as [|[a b] r IH]; intros lo H.
  - cbn. split; [discriminate|]. intros (v & [] & _).
  - cbn [ordered iv_a iv_b] in H. destruct H as (H1 & H2 & H3). cbn [flat ssr iv_a iv_b].
    destruct (a <=? t) eqn:Ea.
    + destruct (b <=? t) eqn:Eb.
      * replace (1 + (1 + ssr (flat r) t)) with (Z.succ (Z.succ (ssr (flat r) t))) by lia.
        rewrite Z.odd_succ_succ. rewrite (IH b H3). split.
        -- intros (v & Hin & Ht). exists v. split; [now right|exact Ht].
        -- intros (v & [<-|Hin] & Ht); [cbn [iv_a iv_b] in Ht; lia|].
           exists v. split; assumption.
      * replace (1 + 0) with 1 by lia. split; [intros _|reflexivity].
        exists (mkiv a b). split; [now left|cbn [iv_a iv_b]; lia].
    + split; [discriminate|]. intros (v & [<-|Hin] & Ht); [cbn [iv_a iv_b] in Ht; lia|].
      pose proof (ordered_lower b r v H3 Hin). lia.
Qed.
