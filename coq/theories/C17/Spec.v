(* C17/Spec.v -- the property, stated independently of the algorithm, with the boolean checkers
   used by the correspondence (Corr.v) on the implementation's observed outputs. *)
From Coq Require Import ZArith List Lia Bool Sorted.
From PV Require Import Base.PySlice Base.NpSearch C17.Model.
Import ListNotations.
Open Scope Z_scope.

(* ---------- kept chunks ---------- *)
(* chunks_kept is the flattened array [a0; b0; a1; b1; ...] *)
Fixpoint flat (ivs : list iv) : list Z :=
  match ivs with [] => [] | v :: r => iv_a v :: iv_b v :: flat r end.

Fixpoint unflat (l : list Z) : option (list iv) :=
  match l with
  | [] => Some []
  | a :: b :: r => option_map (cons (mkiv a b)) (unflat r)
  | _ => None
  end.

(* from kept chunk number j on, the kept chunks are the grid intervals number j*s, (j+1)*s, ...
   (both bounds are read in the grid: nth_error, no default value) *)
Fixpoint KeptAt (grid : list Z) (s j : Z) (ivs : list iv) : Prop :=
  match ivs with
  | [] => True
  | v :: r => nth_error grid (Z.to_nat (j * s)) = Some (iv_a v) /\
              nth_error grid (Z.to_nat (j * s + 1)) = Some (iv_b v) /\
              KeptAt grid s (j + 1) r
  end.

Fixpoint kept_at_b (grid : list Z) (s j : Z) (ivs : list iv) : bool :=
  match ivs with
  | [] => true
  | v :: r => match nth_error grid (Z.to_nat (j * s)), nth_error grid (Z.to_nat (j * s + 1)) with
              | Some a, Some b => (iv_a v =? a) && (iv_b v =? b)
              | _, _ => false
              end && kept_at_b grid s (j + 1) r
  end.

(* "whole intervals of the supplied grid taken at a regular stride s starting with the first":
   every s-th chunk, all of them (ceil(n_chunks / s) chunks), and not more than k *)
Definition Kept_Stride (grid : list Z) (k s : Z) (ivs : list iv) : Prop :=
  1 <= s /\ KeptAt grid s 0 ivs /\ zlen ivs = cdiv (zlen grid - 1) s /\ zlen ivs <= k.

Definition Kept_Spec (grid : list Z) (k : Z) (ivs : list iv) : Prop :=
  exists s, Kept_Stride grid k s ivs.

Definition kept_stride_b (grid : list Z) (k s : Z) (ivs : list iv) : bool :=
  (1 <=? s) && kept_at_b grid s 0 ivs && (zlen ivs =? cdiv (zlen grid - 1) s) && (zlen ivs <=? k).

(* checker on the observed flattened array *)
Definition kept_spec_b (grid : list Z) (k : Z) (kept : list Z) : bool :=
  match unflat kept with
  | None => false
  | Some ivs => existsb (fun s => kept_stride_b grid k s ivs)
                        (zrange 1 (Z.to_nat (Z.max 1 (zlen grid - 1))))
  end.

(* stage 3 -- which regular stride: the reading fixed by the anchored mechanism ("stride = ceil(n_chunks /
   n_chunks_kept)"), stated without the formula: the DENSEST regular selection from the first chunk that
   keeps no more than k chunks, i.e. no smaller stride would fit in k *)
Definition Kept_Dense (grid : list Z) (k : Z) (ivs : list iv) : Prop :=
  exists s, Kept_Stride grid k s ivs /\ forall s', 1 <= s' < s -> k < cdiv (zlen grid - 1) s'.

Definition kept_dense_b (grid : list Z) (k : Z) (kept : list Z) : bool :=
  match unflat kept with
  | None => false
  | Some ivs => existsb (fun s => kept_stride_b grid k s ivs &&
                                  forallb (fun s' => k <? cdiv (zlen grid - 1) s')
                                          (zrange 1 (Z.to_nat (s - 1))))
                        (zrange 1 (Z.to_nat (Z.max 1 (zlen grid - 1))))
  end.

(* consecutive kept chunks: a <= b, and the next one starts at or after b (equality allowed:
   with stride 1 every inner bound appears twice) *)
Fixpoint ordered (lo : Z) (ivs : list iv) : Prop :=
  match ivs with [] => True | v :: r => lo <= iv_a v /\ iv_a v <= iv_b v /\ ordered (iv_b v) r end.

(* t lies in one of the kept chunks, bounds read as [a, b) *)
Definition in_some (ivs : list iv) (t : Z) : Prop := exists v, In v ivs /\ iv_a v <= t < iv_b v.
Definition in_iv_b (t : Z) (v : iv) : bool := (iv_a v <=? t) && (t <? iv_b v).

(* ---------- selection ---------- *)
Section SelSpec.
Variables (times clusters : list Z) (ivs : list iv) (sub_chunks : bool) (sub : option (list Z)).

(* spike i exists, belongs to cluster c, lies in a kept chunk when the chunk restriction is
   requested, and is in the subset when one is given *)
Definition Eligible (c i : Z) : Prop :=
  0 <= i /\ nth_error clusters (Z.to_nat i) = Some c /\
  (sub_chunks = true -> exists t, nth_error times (Z.to_nat i) = Some t /\ in_some ivs t) /\
  (forall s, sub = Some s -> In i s).

Definition has_cluster (c i : Z) : bool :=
  (0 <=? i) && match nth_error clusters (Z.to_nat i) with Some x => x =? c | None => false end.
Definition chunk_ok (i : Z) : bool :=
  negb sub_chunks || ((0 <=? i) && match nth_error times (Z.to_nat i) with
                                    | Some t => existsb (in_iv_b t) ivs
                                    | None => false
                                    end).
Definition subset_ok (i : Z) : bool := match sub with None => true | Some s => memZ i s end.
Definition eligible_b (c i : Z) : bool := has_cluster c i && chunk_ok i && subset_ok i.

(* the eligible spikes of cluster c, in increasing order *)
Definition elig (c : Z) : list Z := filter (eligible_b c) (zrange 0 (length clusters)).

(* all of them when no positive count is given or they number at most the count, else exactly
   that many *)
Definition Count_Spec (n : option Z) (E R : list Z) : Prop :=
  match n with
  | Some m => if (0 <? m) && (m <? zlen E) then zlen R = m else R = E
  | None => R = E
  end.

Fixpoint zlist_eqb (a b : list Z) : bool :=
  match a, b with
  | [], [] => true
  | x :: a', y :: b' => (x =? y) && zlist_eqb a' b'
  | _, _ => false
  end.

Definition count_b (n : option Z) (E R : list Z) : bool :=
  match n with
  | Some m => if (0 <? m) && (m <? zlen E) then zlen R =? m else zlist_eqb R E
  | None => zlist_eqb R E
  end.

(* the statement about one call: r is the returned array *)
Definition Select_Spec (n : option Z) (req r : list Z) : Prop :=
  StronglySorted Z.lt r /\
  (forall i, In i r -> exists c, In c req /\ Eligible c i) /\
  (forall c, In c req -> Count_Spec n (elig c) (filter (has_cluster c) r)).

(* strictly increasing *)
Fixpoint sinc_b (l : list Z) : bool :=
  match l with
  | [] => true
  | x :: r => match r with [] => true | y :: _ => (x <? y) && sinc_b r end
  end.

(* clause checkers (numbers = Corr.v codes) *)
Definition cl22_sorted (r : list Z) : bool := sinc_b r.
Definition cl23_cluster (req r : list Z) : bool :=
  forallb (fun i => existsb (fun c => has_cluster c i) req) r.
Definition cl24_chunk (r : list Z) : bool := forallb chunk_ok r.
Definition cl25_subset (r : list Z) : bool := forallb subset_ok r.
Definition cl26_count (n : option Z) (req r : list Z) : bool :=
  forallb (fun c => count_b n (elig c) (filter (has_cluster c) r)) req.

Definition select_spec_b (n : option Z) (req r : list Z) : bool :=
  cl22_sorted r && cl23_cluster req r && cl24_chunk r && cl25_subset r && cl26_count n req r.
End SelSpec.
