(* C17/Proofs6.v -- stage 3: WHICH regular stride.  The stride of SpikeSelector.__init__,
   max 1 (ceil (n_chunks / k)), is the least stride whose selection fits in k chunks; the kept chunks
   are the unique list satisfying Kept_Dense; checker kept_dense_b sound and complete. *)
From Coq Require Import ZArith List Lia Bool Sorted.
From PV Require Import Base.PySlice Base.NpSearch C17.Model C17.Spec C17.Proofs C17.Proofs2 C17.Proofs3
                       C17.Proofs4.
Import ListNotations.
Open Scope Z_scope.

Lemma stride_least nch k s' : 1 <= k -> 1 <= s' < stride nch k -> k < cdiv nch s'.
Proof.
  intros Hk [H1 H2]. unfold stride in H2. assert (H3 : s' < cdiv nch k) by lia.
  pose proof (cdiv_spec nch k Hk). pose proof (cdiv_spec nch s' H1). nia.
Qed.

Theorem chunks_kept_dense grid k : 1 <= k -> 1 <= zlen grid ->
  exists ivs, chunks_kept grid k = Some (flat ivs) /\ Kept_Dense grid k ivs.
Proof.
  intros Hk Hl. destruct (chunks_kept_spec grid k Hk Hl) as (ivs & E & HK).
  exists ivs. split; [exact E|]. exists (stride (zlen grid - 1) k). split; [exact HK|].
  intros s' Hs'. now apply stride_least.
Qed.

Lemma dense_stride_le grid k s1 s2 ivs1 ivs2 :
  Kept_Stride grid k s1 ivs1 -> Kept_Stride grid k s2 ivs2 ->
  (forall s', 1 <= s' < s2 -> k < cdiv (zlen grid - 1) s') -> s2 <= s1.
Proof.
  intros (H1 & _ & Hl1 & Hk1) _ Hd. destruct (Z_le_gt_dec s2 s1) as [|Hgt]; [assumption|exfalso].
  specialize (Hd s1 ltac:(lia)). lia.
Qed.

Lemma keptat_unique grid s : forall ivs ivs' j,
  KeptAt grid s j ivs -> KeptAt grid s j ivs' -> length ivs = length ivs' -> ivs = ivs'.
Proof.
  induction ivs as [|[a b] r IH]; intros [|[a' b'] r'] j H H' Hl; cbn [length] in Hl; try discriminate;
    [reflexivity|].
  cbn [KeptAt iv_a iv_b] in H, H'. destruct H as (Ha & Hb & Hr). destruct H' as (Ha' & Hb' & Hr').
  rewrite Ha in Ha'. rewrite Hb in Hb'. injection Ha' as <-. injection Hb' as <-.
  f_equal. apply (IH r' (j + 1)); auto.
Qed.

Theorem kept_dense_unique grid k ivs ivs' : Kept_Dense grid k ivs -> Kept_Dense grid k ivs' -> ivs = ivs'.
Proof.
  intros (s & HK & Hd) (s' & HK' & Hd').
  assert (s = s') as <-.
  { pose proof (dense_stride_le grid k s s' ivs ivs' HK HK' Hd').
    pose proof (dense_stride_le grid k s' s ivs' ivs HK' HK Hd). lia. }
  destruct HK as (_ & Hk & Hl & _). destruct HK' as (_ & Hk' & Hl' & _).
  apply (keptat_unique grid s ivs ivs' 0 Hk Hk'). unfold zlen in *. lia.
Qed.

(* chunks_kept is determined by the reading: it is the flattening of the unique Kept_Dense list *)
Theorem kept_exact grid k kept : 1 <= k -> 1 <= zlen grid ->
  (chunks_kept grid k = Some kept <-> exists ivs, kept = flat ivs /\ Kept_Dense grid k ivs).
Proof.
  intros Hk Hl. destruct (chunks_kept_dense grid k Hk Hl) as (ivs0 & E0 & H0). split.
  - intros E. rewrite E0 in E. injection E as <-. now exists ivs0.
  - intros (ivs & -> & H). now rewrite (kept_dense_unique grid k ivs ivs0 H H0).
Qed.

(* ---------- the checker ---------- *)
Lemma kept_stride_b_sound grid k s ivs : kept_stride_b grid k s ivs = true -> Kept_Stride grid k s ivs.
Proof.
  unfold kept_stride_b. rewrite !andb_true_iff. intros [[[H1 H2] H3] H4].
  repeat split; [lia|now apply kept_at_b_sound|lia|lia].
Qed.

Theorem kept_dense_b_sound grid k kept : kept_dense_b grid k kept = true ->
  exists ivs, kept = flat ivs /\ Kept_Dense grid k ivs.
Proof.
  unfold kept_dense_b. destruct (unflat kept) as [ivs|] eqn:E; [|discriminate].
  intros H. apply existsb_exists in H as (s & _ & H). apply andb_true_iff in H as [H1 H2].
  exists ivs. split; [now apply unflat_flat|]. exists s. split; [now apply kept_stride_b_sound|].
  intros s' Hs'. rewrite forallb_forall in H2. specialize (H2 s'). 
  assert (Hin : In s' (zrange 1 (Z.to_nat (s - 1)))) by (apply zrange_in; lia).
  specialize (H2 Hin). lia.
Qed.

Theorem kept_dense_b_complete grid k ivs : 1 <= zlen grid ->
  Kept_Dense grid k ivs -> kept_dense_b grid k (flat ivs) = true.
Proof.
  intros Hg (s & HK & Hd). unfold kept_dense_b. rewrite unflat_flat_id.
  set (nch := zlen grid - 1) in *.
  assert (Hs : 1 <= s <= Z.max 1 nch).
  { pose proof HK as (Hs1 & _ & Hl & Hlk). fold nch in Hl. split; [assumption|].
    destruct (Z_le_gt_dec s (Z.max 1 nch)) as [|Hgt]; [assumption|exfalso].
    specialize (Hd (Z.max 1 nch) ltac:(lia)).
    destruct (Z.eq_dec nch 0) as [E0|Hn0].
    - replace (Z.max 1 nch) with 1 in Hd by lia. rewrite E0 in Hd.
      change (cdiv 0 1) with 0 in Hd. unfold zlen in Hlk. lia.
    - assert (Hn1 : 1 <= nch) by (unfold nch; lia).
      replace (Z.max 1 nch) with nch in Hd by lia.
      pose proof (cdiv_spec nch nch Hn1). assert (cdiv nch nch = 1) by nia.
      pose proof (cdiv_pos nch s ltac:(lia) Hn1). lia. }
  apply existsb_exists. exists s. split; [apply zrange_in; lia|].
  apply andb_true_iff. split; [now apply kept_stride_b_complete|].
  apply forallb_forall. intros s' Hin. apply zrange_ge in Hin. specialize (Hd s' ltac:(lia)). lia.
Qed.
