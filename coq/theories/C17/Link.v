(* C17/Link.v -- link to property C07 (spike-cluster index utilities).  C17's model reads
   `_spikes_per_cluster(spike_clusters).get(c, empty)` as [spikes_of c 0 clusters] and
   `sorted(spt.keys())` as [unique spike_templates]; here both are derived from C07's line-by-line
   model of _spikes_per_cluster and C07's theorem about it (PV.C07.Proofs.spc_positions =
   C07_groups_positions), so the "trusted" reading of that dictionary is a theorem. *)
From Coq Require Import ZArith List Lia Bool Sorted.
From PV Require Import Base.PySlice Base.NpSearch C17.Model C17.Spec C17.Proofs C17.Proofs2.
From PV Require C07.Model C07.Spec C07.Proofs.
Import ListNotations.
Open Scope Z_scope.

(* spt.get(c, np.array([], dtype=np.int64)) on C07's insertion-ordered dictionary *)
Definition spt_get (d : list C07.Model.group) (c : Z) : list Z :=
  match find (fun g => C07.Model.g_key g =? c) d with
  | Some g => C07.Model.g_ids g
  | None => []
  end.

Theorem spc_link (sc : list Z) :
  exists d, C07.Model.spikes_per_cluster sc None = Some d /\
            map C07.Model.g_key d = unique sc /\
            forall c, spt_get d c = spikes_of c 0 sc.
Proof.
  destruct (C07.Proofs.spc_positions sc) as (d & Ed & (Hk1 & Hk2 & _) & Hpos).
  exists d. split; [exact Ed|]. split.
  - apply ss_ext; [exact Hk1|apply unique_ss|]. intros c. rewrite Hk2, unique_In. tauto.
  - intros c. unfold spt_get. destruct (find (fun g => C07.Model.g_key g =? c) d) as [g|] eqn:Ef.
    + apply find_some in Ef as [Hin Hkey]. assert (C07.Model.g_key g = c) by lia. subst c.
      rewrite Forall_forall in Hpos. destruct (Hpos g Hin) as [Hss Hmem].
      apply ss_ext; [exact Hss|apply spikes_of_ss|]. intros i. rewrite Hmem, spikes_of_In. split.
      * intros (p & -> & Hp). split; [lia|]. replace (Z.to_nat (Z.of_nat p - 0)) with p by lia. exact Hp.
      * intros [H0 Hp]. exists (Z.to_nat (i - 0)). split; [lia|exact Hp].
    + destruct (spikes_of c 0 sc) as [|i l] eqn:Es; [reflexivity|exfalso].
      assert (Hi : In i (spikes_of c 0 sc)) by (rewrite Es; now left).
      apply spikes_of_In in Hi as [_ Hi]. apply nth_error_In in Hi.
      apply Hk2, in_map_iff in Hi as (g & Hkey & Hin).
      pose proof (find_none _ _ Ef g Hin) as Hn. cbn beta in Hn. lia.
Qed.
