(* C17/Proofs2.v -- the selection: candidates = eligible spikes, loop invariant, final statement. *)
From Coq Require Import ZArith List Lia Bool Sorted Permutation.
From PV Require Import Base.PySlice Base.NpSearch C17.Model C17.Spec C17.Proofs.
Import ListNotations.
Open Scope Z_scope.

(* ---------- strictly increasing lists ---------- *)
Lemma ss_filter p l : StronglySorted Z.lt l -> StronglySorted Z.lt (filter p l).
Proof.
  induction 1 as [|x l Hs IH Hf]; cbn [filter]; [constructor|].
  destruct (p x); [|assumption]. constructor; [assumption|].
  rewrite Forall_forall in *. intros y Hy. apply filter_In in Hy. apply Hf, Hy.
Qed.

Lemma ss_NoDup l : StronglySorted Z.lt l -> NoDup l.
Proof.
  induction 1 as [|x l Hs IH Hf]; constructor; [|assumption].
  intros Hin. rewrite Forall_forall in Hf. specialize (Hf x Hin). lia.
Qed.

Lemma ss_ext l1 : forall l2, StronglySorted Z.lt l1 -> StronglySorted Z.lt l2 ->
  (forall x, In x l1 <-> In x l2) -> l1 = l2.
Proof.
  induction l1 as [|x l1 IH]; intros l2 H1 H2 Hm.
  - destruct l2 as [|y l2]; [reflexivity|]. exfalso. apply (proj2 (Hm y)). now left.
  - destruct l2 as [|y l2]; [exfalso; apply (proj1 (Hm x)); now left|].
    apply StronglySorted_inv in H1 as [H1 F1]. apply StronglySorted_inv in H2 as [H2 F2].
    rewrite Forall_forall in F1, F2.
    assert (x = y) as ->.
    { destruct (proj1 (Hm x) (or_introl eq_refl)) as [->|Hx]; [reflexivity|].
      destruct (proj2 (Hm y) (or_introl eq_refl)) as [->|Hy]; [reflexivity|].
      specialize (F1 y Hy). specialize (F2 x Hx). lia. }
    f_equal. apply IH; try assumption. intros z. split; intros Hz.
    + destruct (proj1 (Hm z) (or_intror Hz)) as [->|]; [|assumption]. specialize (F1 _ Hz). lia.
    + destruct (proj2 (Hm z) (or_intror Hz)) as [->|]; [|assumption]. specialize (F2 _ Hz). lia.
Qed.

Lemma zrange_ss a k : StronglySorted Z.lt (zrange a k).
Proof.
  revert a; induction k as [|k IH]; intros a; cbn [zrange]; constructor; [apply IH|].
  rewrite Forall_forall. intros y Hy. apply zrange_ge in Hy. lia.
Qed.

(* ---------- np.unique ---------- *)
Lemma uinsert_In x l y : In y (uinsert x l) <-> y = x \/ In y l.
Proof.
  induction l as [|z r IH]; cbn [uinsert In]; [intuition|].
  destruct (x <? z) eqn:E1; [cbn [In]; intuition|].
  destruct (x =? z) eqn:E2; cbn [In].
  - assert (x = z) by lia. subst. intuition.
  - rewrite IH. intuition.
Qed.

Lemma uinsert_ss x l : StronglySorted Z.lt l -> StronglySorted Z.lt (uinsert x l).
Proof.
  induction 1 as [|z r Hs IH Hf]; cbn [uinsert]; [repeat constructor|].
  rewrite Forall_forall in Hf.
  destruct (x <? z) eqn:E1.
  - constructor; [constructor; [assumption|now rewrite Forall_forall]|].
    rewrite Forall_forall. intros y [<-|Hy]; [lia|]. specialize (Hf y Hy). lia.
  - destruct (x =? z) eqn:E2; [constructor; [assumption|now rewrite Forall_forall]|].
    constructor; [assumption|]. rewrite Forall_forall. intros y Hy.
    apply uinsert_In in Hy as [->|Hy]; [lia|auto].
Qed.

Lemma unique_In l y : In y (unique l) <-> In y l.
Proof.
  unfold unique. induction l as [|x r IH]; cbn [fold_right In]; [tauto|].
  rewrite uinsert_In, IH. intuition.
Qed.

Lemma unique_ss l : StronglySorted Z.lt (unique l).
Proof.
  unfold unique. induction l as [|x r IH]; cbn [fold_right]; [constructor|]. now apply uinsert_ss.
Qed.

Lemma unique_id l : StronglySorted Z.lt l -> unique l = l.
Proof. intros H. apply ss_ext; [apply unique_ss|assumption|apply unique_In]. Qed.

Lemma memZ_In x l : memZ x l = true <-> In x l.
Proof.
  induction l as [|y r IH]; cbn [memZ In]; [split; [discriminate|tauto]|].
  rewrite orb_true_iff, IH. split; (intros [H|H]; [left; lia|now right]).
Qed.

(* ---------- pieces of __call__ ---------- *)
Lemma spikes_of_In c cl : forall i0 i,
  In i (spikes_of c i0 cl) <-> i0 <= i /\ nth_error cl (Z.to_nat (i - i0)) = Some c.
Proof.
  induction cl as [|x r IH]; intros i0 i; cbn [spikes_of].
  - split; [contradiction|]. intros [_ H]. destruct (Z.to_nat (i - i0)); discriminate.
  - assert (Hr : In i (spikes_of c (i0 + 1) r) <->
                 i0 < i /\ nth_error (x :: r) (Z.to_nat (i - i0)) = Some c).
    { rewrite IH. split; intros [H1 H2]; (split; [lia|]).
      - replace (Z.to_nat (i - i0)) with (S (Z.to_nat (i - (i0 + 1)))) by lia. exact H2.
      - replace (Z.to_nat (i - i0)) with (S (Z.to_nat (i - (i0 + 1)))) in H2 by lia. exact H2. }
    destruct (x =? c) eqn:E; cbn [In]; rewrite ?Hr.
    + assert (x = c) by lia. subst x. split.
      * intros [<-|[H1 H2]]; [|split; [lia|assumption]].
        split; [lia|]. replace (Z.to_nat (i0 - i0)) with 0%nat by lia. reflexivity.
      * intros [H1 H2]. destruct (Z.eq_dec i0 i) as [|Hne]; [now left|right]. split; [lia|assumption].
    + split; [intros [H1 H2]; split; [lia|assumption]|].
      intros [H1 H2]. destruct (Z.eq_dec i0 i) as [<-|Hne]; [|split; [lia|assumption]].
      replace (Z.to_nat (i0 - i0)) with 0%nat in H2 by lia. cbn [nth_error] in H2.
      injection H2 as H2. lia.
Qed.

Lemma spikes_of_ss c cl : forall i0, StronglySorted Z.lt (spikes_of c i0 cl).
Proof.
  induction cl as [|x r IH]; intros i0; cbn [spikes_of]; [constructor|].
  destruct (x =? c); [|apply IH]. constructor; [apply IH|].
  rewrite Forall_forall. intros y Hy. apply spikes_of_In in Hy. lia.
Qed.

Lemma take_some arr ids : (forall i, In i ids -> 0 <= i < zlen arr) -> exists ts, take arr ids = Some ts.
Proof.
  induction ids as [|i r IH]; intros H; [exists []; reflexivity|].
  destruct IH as (ts & E); [intros j Hj; apply H; now right|].
  specialize (H i (or_introl eq_refl)). unfold zlen in H.
  destruct (nth_error arr (Z.to_nat i)) as [t|] eqn:Et.
  - exists (t :: ts). cbn [take]. now rewrite Et, E.
  - apply nth_error_None in Et. lia.
Qed.

Lemma mask_filter (f : Z -> bool) arr ids : forall ts, take arr ids = Some ts ->
  mask_sel ids (map f ts) =
  filter (fun i => match nth_error arr (Z.to_nat i) with Some t => f t | None => false end) ids.
Proof.
  induction ids as [|i r IH]; intros ts H; cbn [take] in H.
  - injection H as <-. reflexivity.
  - destruct (nth_error arr (Z.to_nat i)) as [t|] eqn:Et; [|discriminate].
    destruct (take arr r) as [ts'|] eqn:Er; [|discriminate]. injection H as <-.
    cbn [map mask_sel filter]. rewrite Et. rewrite (IH ts' eq_refl). reflexivity.
Qed.

Lemma existsb_in_some ivs t : existsb (in_iv_b t) ivs = true <-> in_some ivs t.
Proof.
  rewrite existsb_exists. unfold in_some, in_iv_b.
  split; intros (v & Hv & H); exists v; (split; [assumption|]); lia.
Qed.

Lemma in_chunks_existsb ivs lo t : ordered lo ivs -> in_chunks (flat ivs) t = existsb (in_iv_b t) ivs.
Proof.
  intros Ho. pose proof (parity_spec ivs lo t Ho) as H1. pose proof (existsb_in_some ivs t) as H2.
  destruct (in_chunks (flat ivs) t), (existsb (in_iv_b t) ivs); try reflexivity; intuition congruence.
Qed.

(* ---------- the specification's vocabulary ---------- *)
Section Vocabulary.
Variables (times clusters : list Z) (ivs : list iv) (sc : bool) (sub : option (list Z)).
Notation has_cluster := (has_cluster clusters).
Notation eligible_b := (eligible_b times clusters ivs sc sub).
Notation Eligible := (Eligible times clusters ivs sc sub).
Notation elig := (elig times clusters ivs sc sub).

Lemma has_cluster_iff c i :
  has_cluster c i = true <-> 0 <= i /\ nth_error clusters (Z.to_nat i) = Some c.
Proof.
  unfold Spec.has_cluster. rewrite andb_true_iff.
  destruct (nth_error clusters (Z.to_nat i)) as [x|].
  - split; [intros [H1 H2]; split; [lia|f_equal; lia]|intros [H1 H2]; injection H2 as ->; split; lia].
  - split; [intros [_ H]; discriminate|intros [_ H]; discriminate].
Qed.

Lemma has_cluster_fun c c' i : has_cluster c i = true -> has_cluster c' i = true -> c = c'.
Proof. rewrite !has_cluster_iff. intros [_ H1] [_ H2]. congruence. Qed.

Lemma eligible_b_iff c i : eligible_b c i = true <-> Eligible c i.
Proof.
  unfold Spec.eligible_b, Spec.Eligible. rewrite !andb_true_iff, has_cluster_iff.
  unfold chunk_ok, subset_ok. split.
  - intros [[[H0 H1] H2] H3]. repeat split; try assumption.
    + intros ->. cbn [negb orb] in H2. apply andb_true_iff in H2 as [_ H2].
      destruct (nth_error times (Z.to_nat i)) as [t|]; [|discriminate].
      exists t. split; [reflexivity|now apply existsb_in_some].
    + intros s ->. now apply memZ_In.
  - intros (H0 & H1 & H2 & H3). repeat split; try assumption.
    + destruct sc; [|reflexivity]. cbn [negb orb]. destruct (H2 eq_refl) as (t & -> & Ht).
      apply andb_true_iff. split; [lia|now apply existsb_in_some].
    + destruct sub as [s|]; [|reflexivity]. apply memZ_In. now apply H3.
Qed.

Lemma elig_In c i : In i (elig c) <-> eligible_b c i = true.
Proof.
  unfold Spec.elig. rewrite filter_In. split; [tauto|]. intros H. split; [|assumption].
  unfold Spec.eligible_b in H. rewrite !andb_true_iff in H. destruct H as [[H _] _].
  apply has_cluster_iff in H as [H0 H1]. apply zrange_in.
  assert (Z.to_nat i < length clusters)%nat by (apply nth_error_Some; congruence). lia.
Qed.

Lemma elig_ss c : StronglySorted Z.lt (elig c).
Proof. apply ss_filter, zrange_ss. Qed.

Lemma elig_has_cluster c i : In i (elig c) -> has_cluster c i = true.
Proof.
  intros H. apply elig_In in H. unfold Spec.eligible_b in H. rewrite !andb_true_iff in H. tauto.
Qed.

(* unknown clusters have no eligible spike *)
Lemma elig_unknown c : ~ In c clusters -> elig c = [].
Proof.
  intros Hn. destruct (elig c) as [|i r] eqn:E; [reflexivity|exfalso].
  assert (Hi : In i (elig c)) by (rewrite E; now left).
  apply elig_has_cluster, has_cluster_iff in Hi as [_ Hi]. apply nth_error_In in Hi. contradiction.
Qed.
End Vocabulary.

(* ---------- candidates = the eligible spikes ---------- *)
Lemma candidates_spec times clusters ivs lo sc sub c :
  length times = length clusters -> ordered lo ivs ->
  candidates times clusters (flat ivs) sc sub c = Some (elig times clusters ivs sc sub c).
Proof.
  intros Hlen Hord. unfold candidates.
  set (ids := spikes_of c 0 clusters).
  assert (Hids : forall i, In i ids <-> has_cluster clusters c i = true).
  { intros i. unfold ids. rewrite spikes_of_In, has_cluster_iff. now replace (i - 0) with i by lia. }
  assert (Hss : StronglySorted Z.lt ids) by apply spikes_of_ss.
  destruct (take_some times ids) as (ts & Et).
  { intros i Hi. apply Hids, has_cluster_iff in Hi as [H0 H1].
    assert (Z.to_nat i < length clusters)%nat by (apply nth_error_Some; congruence).
    unfold zlen. lia. }
  rewrite Et. f_equal.
  set (g := fun i => match nth_error times (Z.to_nat i) with
                     | Some t => in_chunks (flat ivs) t | None => false end).
  set (ids1 := if sc then mask_sel ids (map (in_chunks (flat ivs)) ts) else ids).
  assert (H1 : ids1 = if sc then filter g ids else ids).
  { unfold ids1. destruct sc; [|reflexivity]. apply mask_filter. exact Et. }
  assert (Hss1 : StronglySorted Z.lt ids1) by (rewrite H1; destruct sc; [apply ss_filter|]; assumption).
  assert (Hin1 : forall i, In i ids1 <->
                  has_cluster clusters c i = true /\ chunk_ok times ivs sc i = true).
  { intros i. rewrite H1. unfold chunk_ok. destruct sc; cbn [negb orb].
    - rewrite filter_In, Hids. unfold g.
      split; intros [Ha Hb]; (split; [assumption|]).
      + apply has_cluster_iff in Ha as [H0 _]. apply andb_true_iff. split; [lia|].
        destruct (nth_error times (Z.to_nat i)) as [t|]; [|discriminate].
        now rewrite <- (in_chunks_existsb ivs lo t Hord).
      + apply andb_true_iff in Hb as [_ Hb].
        destruct (nth_error times (Z.to_nat i)) as [t|]; [|discriminate].
        now rewrite (in_chunks_existsb ivs lo t Hord).
    - rewrite Hids. tauto. }
  apply ss_ext.
  - destruct sub as [s|]; [apply unique_ss|assumption].
  - apply elig_ss.
  - intros i. rewrite elig_In. unfold eligible_b, subset_ok. rewrite !andb_true_iff.
    destruct sub as [s|].
    + unfold intersect1d. rewrite unique_In, filter_In, Hin1. tauto.
    + rewrite Hin1. intuition.
Qed.

(* ---------- the dictionary ---------- *)
Lemma dict_set_keys d c v c' : In c' (map e_key (dict_set d c v)) <-> c' = c \/ In c' (map e_key d).
Proof.
  induction d as [|e r IH]; cbn [dict_set map In e_key]; [intuition|].
  destruct (e_key e =? c) eqn:E; cbn [map In e_key].
  - assert (e_key e = c) by lia. intuition congruence.
  - rewrite IH. intuition.
Qed.

Lemma dict_set_nodup d c v : NoDup (map e_key d) -> NoDup (map e_key (dict_set d c v)).
Proof.
  induction d as [|e r IH]; cbn [dict_set map e_key]; intros H; [repeat constructor; intros []|].
  apply NoDup_cons_iff in H as [Hn Hr].
  destruct (e_key e =? c) eqn:E; cbn [map e_key].
  - assert (e_key e = c) by lia. subst c. constructor; assumption.
  - constructor; [|now apply IH]. rewrite dict_set_keys. intros [Hc|Hc]; [lia|contradiction].
Qed.

Lemma dict_set_In d c v e : In e (dict_set d c v) -> e = mke c v \/ In e d.
Proof.
  induction d as [|e0 r IH]; cbn [dict_set In]; [intuition|].
  destruct (e_key e0 =? c); cbn [In]; intuition.
Qed.

Lemma nodup_key_unique d : NoDup (map e_key d) -> forall e e', In e d -> In e' d ->
  e_key e = e_key e' -> e = e'.
Proof.
  induction d as [|e0 r IH]; intros H e e' He He' Hk; [contradiction|].
  cbn [map] in H. apply NoDup_cons_iff in H as [Hn Hr].
  destruct He as [<-|He], He' as [<-|He']; try reflexivity.
  - exfalso. apply Hn. rewrite Hk. now apply in_map.
  - exfalso. apply Hn. rewrite <- Hk. now apply in_map.
  - now apply IH.
Qed.

(* ---------- the loop and the final statement ---------- *)
Section Sel.
Variable choose : nat -> list Z -> Z -> list Z.
(* what NumPy guarantees about np.random.choice(ids, m, replace=False) for 0 < m < len(ids) *)
Hypothesis choose_ok : forall k ids m, NoDup ids -> 0 < m < zlen ids ->
  NoDup (choose k ids m) /\ zlen (choose k ids m) = m /\ incl (choose k ids m) ids.

Variables (times clusters : list Z) (ivs : list iv) (lo : Z) (n : option Z) (sc : bool)
          (sub : option (list Z)).
Hypothesis Hlen : length times = length clusters.
Hypothesis Hord : ordered lo ivs.

Notation E := (elig times clusters ivs sc sub).
Notation step := (step choose times clusters (flat ivs) n sc sub).
Notation sel_loop := (sel_loop choose times clusters (flat ivs) n sc sub).

Definition StepOK (c : Z) (v : list Z) : Prop :=
  NoDup v /\ incl v (E c) /\ Count_Spec n (E c) v.

Lemma step_spec k c : exists v, step k c = Some v /\ StepOK c v.
Proof.
  unfold Model.step. rewrite (candidates_spec times clusters ivs lo sc sub c Hlen Hord).
  pose proof (ss_NoDup _ (elig_ss times clusters ivs sc sub c)) as Hnd.
  unfold subsamples, StepOK, Count_Spec. destruct n as [m|].
  - destruct ((0 <? m) && (m <? zlen (E c))) eqn:Ec.
    + eexists. split; [reflexivity|].
      destruct (choose_ok k (E c) m Hnd ltac:(lia)) as (H1 & H2 & H3). auto.
    + eexists. split; [reflexivity|]. repeat split; [assumption|apply incl_refl].
  - eexists. split; [reflexivity|]. repeat split; [assumption|apply incl_refl].
Qed.

Definition DictOK (d : list entry) : Prop :=
  NoDup (map e_key d) /\ forall e, In e d -> StepOK (e_key e) (e_val e).

Lemma loop_spec req : forall k d, DictOK d ->
  exists d', sel_loop k req d = Some d' /\ DictOK d' /\
             forall c, In c (map e_key d') <-> In c (map e_key d) \/ In c req.
Proof.
  induction req as [|c r IH]; intros k d Hd; cbn [Model.sel_loop].
  - exists d. split; [reflexivity|]. split; [assumption|]. intros c. cbn [In]. tauto.
  - destruct (step_spec k c) as (v & -> & Hv).
    destruct (IH (S k) (dict_set d c v)) as (d' & H1 & H2 & H3).
    { destruct Hd as [Hn He]. split; [now apply dict_set_nodup|].
      intros e Hin. apply dict_set_In in Hin as [->|Hin]; [exact Hv|now apply He]. }
    exists d'. split; [assumption|]. split; [assumption|].
    intros c'. rewrite H3, dict_set_keys. cbn [In]. intuition.
Qed.

Theorem select_spec req :
  exists r, select choose times clusters (flat ivs) n sc sub req = Some r /\
            Select_Spec times clusters ivs sc sub n req r.
Proof.
  unfold select. destruct req as [|c0 req0].
  - exists []. split; [reflexivity|]. split; [constructor|]. split; [intros i []|intros c []].
  - set (req := c0 :: req0).
    destruct (loop_spec req 0%nat []) as (d & -> & [Hn He] & Hk).
    { split; [constructor|intros e []]. }
    exists (flatten d). split; [reflexivity|].
    assert (Hmem : forall i, In i (flatten d) <-> exists e, In e d /\ In i (e_val e)).
    { intros i. unfold flatten. rewrite unique_In, in_concat. split.
      - intros (l & Hl & Hi). apply in_map_iff in Hl as (e & <- & Hin). eauto.
      - intros (e & Hin & Hi). exists (e_val e). split; [now apply in_map|assumption]. }
    split; [apply unique_ss|]. split.
    + intros i Hi. apply Hmem in Hi as (e & Hin & Hi). exists (e_key e). split.
      * apply (in_map e_key) in Hin. apply Hk in Hin as [[]|Hin]. exact Hin.
      * destruct (He e Hin) as (_ & Hincl & _). apply eligible_b_iff, elig_In, Hincl, Hi.
    + intros c Hc.
      assert (Hin : In c (map e_key d)) by (apply Hk; now right).
      apply in_map_iff in Hin as (e & Hke & Hin). subst c.
      destruct (He e Hin) as (Hnd & Hincl & Hcount).
      set (R := filter (has_cluster clusters (e_key e)) (flatten d)).
      assert (HR : forall i, In i R <-> In i (e_val e)).
      { intros i. unfold R. rewrite filter_In, Hmem. split.
        - intros [(e' & Hin' & Hi) Hc']. destruct (He e' Hin') as (_ & Hincl' & _).
          pose proof (elig_has_cluster _ _ _ _ _ _ _ (Hincl' i Hi)) as Hc''.
          pose proof (has_cluster_fun _ _ _ _ Hc' Hc'') as Hkk.
          now rewrite (nodup_key_unique d Hn e e' Hin Hin' Hkk).
        - intros Hi. split; [eauto|]. apply (elig_has_cluster times clusters ivs sc sub). now apply Hincl. }
      assert (HRs : StronglySorted Z.lt R) by (apply ss_filter, unique_ss).
      assert (Hperm : Permutation R (e_val e)).
      { apply NoDup_Permutation; [now apply ss_NoDup|assumption|exact HR]. }
      assert (Hl : zlen R = zlen (e_val e)) by (unfold zlen; now rewrite (Permutation_length Hperm)).
      unfold Count_Spec in *. destruct n as [m|].
      * destruct ((0 <? m) && (m <? zlen (E (e_key e)))); [lia|].
        rewrite <- Hcount. apply ss_ext; [assumption|rewrite Hcount; apply elig_ss|exact HR].
      * rewrite <- Hcount. apply ss_ext; [assumption|rewrite Hcount; apply elig_ss|exact HR].
Qed.
End Sel.
