(* C17/Proofs4.v -- stage 3: the request list matters only through its set of members (order and
   repetitions are irrelevant), the specification is tight (every array satisfying Select_Spec is
   returned under some admissible np.random.choice), completeness of the boolean checkers, the
   error exits of the model (IndexError, the route's `assert nst > 0`). *)
From Coq Require Import ZArith List Lia Bool Sorted Permutation.
From PV Require Import Base.PySlice Base.NpSearch C17.Model C17.Spec C17.Proofs C17.Proofs2 C17.Proofs3.
Import ListNotations.
Open Scope Z_scope.

(* an oracle whose draw depends on the candidate list and the count only, not on the position of
   the cluster in the request list *)
Definition Index_Free (choose : nat -> list Z -> Z -> list Z) : Prop :=
  forall j j' ids m, choose j ids m = choose j' ids m.

Lemma flatten_In d i : In i (flatten d) <-> exists e, In e d /\ In i (e_val e).
Proof.
  unfold flatten. rewrite unique_In, in_concat. split.
  - intros (l & Hl & Hi). apply in_map_iff in Hl as (e & <- & Hin). eauto.
  - intros (e & Hin & Hi). exists (e_val e). split; [now apply in_map|assumption].
Qed.

(* ---------- the loop under an index-free oracle ---------- *)
Section Free.
Variable choose : nat -> list Z -> Z -> list Z.
Hypothesis free : Index_Free choose.
Variables (times clusters kept : list Z) (n : option Z) (sc : bool) (sub : option (list Z)).

Notation step := (step choose times clusters kept n sc sub).
Notation sel_loop := (sel_loop choose times clusters kept n sc sub).
Notation select := (select choose times clusters kept n sc sub).

Lemma step_free k c : step k c = step 0%nat c.
Proof.
  unfold Model.step. destruct (candidates times clusters kept sc sub c) as [ids|]; [|reflexivity].
  destruct (subsamples n (zlen ids)); [|reflexivity]. f_equal. apply free.
Qed.

Definition DictF (d : list entry) : Prop :=
  forall e, In e d -> step 0%nat (e_key e) = Some (e_val e).

Lemma loop_free req : forall k d, DictF d ->
  match sel_loop k req d with
  | Some d' => DictF d' /\ (forall c, In c (map e_key d') <-> In c (map e_key d) \/ In c req)
  | None => exists c, In c req /\ step 0%nat c = None
  end.
Proof.
  induction req as [|c r IH]; intros k d Hd; cbn [Model.sel_loop].
  - split; [assumption|]. intros c. cbn [In]. tauto.
  - rewrite step_free. destruct (step 0%nat c) as [v|] eqn:Ev.
    + assert (Hd' : DictF (dict_set d c v)).
      { intros e Hin. apply dict_set_In in Hin as [->|Hin]; [exact Ev|now apply Hd]. }
      specialize (IH (S k) (dict_set d c v) Hd').
      destruct (sel_loop (S k) r (dict_set d c v)) as [d'|].
      * destruct IH as [H1 H2]. split; [assumption|].
        intros c'. rewrite H2, dict_set_keys. cbn [In]. intuition.
      * destruct IH as (c' & Hc' & E). exists c'. split; [now right|assumption].
    + exists c. split; [now left|assumption].
Qed.

(* the whole loop from the empty dictionary: it fails iff one requested cluster fails, and the
   flattened result is the union of the per-cluster values *)
Lemma loop_free_char req :
  match sel_loop 0%nat req [] with
  | Some d => (forall c, In c req -> step 0%nat c <> None) /\
              forall i, In i (flatten d) <->
                        exists c v, In c req /\ step 0%nat c = Some v /\ In i v
  | None => exists c, In c req /\ step 0%nat c = None
  end.
Proof.
  assert (H0 : DictF []) by (intros e []).
  pose proof (loop_free req 0%nat [] H0) as H.
  destruct (sel_loop 0%nat req []) as [d|]; [|exact H].
  destruct H as [HF HK].
  assert (Hkey : forall c, In c req -> exists e, In e d /\ e_key e = c).
  { intros c Hc. assert (Hin : In c (map e_key d)) by (apply HK; now right).
    apply in_map_iff in Hin as (e & Hk & Hin). eauto. }
  split.
  - intros c Hc. destruct (Hkey c Hc) as (e & Hin & <-). rewrite (HF e Hin). discriminate.
  - intros i. rewrite flatten_In. split.
    + intros (e & Hin & Hi). exists (e_key e), (e_val e). split; [|split; [now apply HF|assumption]].
      apply (in_map e_key) in Hin. apply HK in Hin as [[]|Hin]. exact Hin.
    + intros (c & v & Hc & Ev & Hi). destruct (Hkey c Hc) as (e & Hin & <-).
      exists e. split; [assumption|]. rewrite (HF e Hin) in Ev. injection Ev as <-. exact Hi.
Qed.

(* __call__ under an index-free oracle depends on the request list only through its set of members:
   neither the order of the requested clusters nor repetitions change the returned array, nor
   whether the call raises *)
Theorem select_members req req' : (forall c, In c req <-> In c req') -> select req = select req'.
Proof.
  intros Hm. unfold Model.select.
  destruct req as [|c0 q], req' as [|c0' q']; [reflexivity| | |].
  - exfalso. apply (proj2 (Hm c0')). now left.
  - exfalso. apply (proj1 (Hm c0)). now left.
  - pose proof (loop_free_char (c0 :: q)) as H1. pose proof (loop_free_char (c0' :: q')) as H2.
    destruct (sel_loop 0%nat (c0 :: q) []) as [d1|], (sel_loop 0%nat (c0' :: q') []) as [d2|].
    + f_equal. apply ss_ext; [apply unique_ss|apply unique_ss|].
      intros i. rewrite (proj2 H1 i), (proj2 H2 i).
      split; intros (c & v & Hc & Hv); exists c, v; (split; [now apply Hm|exact Hv]).
    + exfalso. destruct H2 as (c & Hc & E). apply (proj1 H1 c); [now apply Hm|exact E].
    + exfalso. destruct H1 as (c & Hc & E). apply (proj1 H2 c); [now apply Hm|exact E].
    + reflexivity.
Qed.
End Free.

(* ---------- the specification is tight ---------- *)
(* the oracle that returns the members of r among the candidates whenever that is an admissible
   draw (and the first m candidates otherwise) *)
Definition chooseR (r : list Z) (_ : nat) (ids : list Z) (m : Z) : list Z :=
  let R := filter (fun i => memZ i ids) r in
  if zlen R =? m then R else firstn (Z.to_nat m) ids.

Lemma chooseR_free r : Index_Free (chooseR r).
Proof. intros j j' ids m. reflexivity. Qed.

Lemma chooseR_ok r : StronglySorted Z.lt r -> Choose_OK (chooseR r).
Proof.
  intros Hr k ids m Hnd Hm. unfold chooseR.
  destruct (zlen (filter (fun i => memZ i ids) r) =? m) eqn:E.
  - repeat split.
    + apply ss_NoDup, ss_filter, Hr.
    + lia.
    + intros i Hi. apply filter_In in Hi as [_ Hi]. now apply memZ_In.
  - exact (choose0_ok k ids m Hnd Hm).
Qed.

Lemma Select_Spec_members times clusters ivs sc sub n req req' r :
  (forall c, In c req <-> In c req') ->
  Select_Spec times clusters ivs sc sub n req r -> Select_Spec times clusters ivs sc sub n req' r.
Proof.
  intros Hm (H1 & H2 & H3). split; [assumption|]. split.
  - intros i Hi. destruct (H2 i Hi) as (c & Hc & He). exists c. split; [now apply Hm|assumption].
  - intros c Hc. apply H3. now apply Hm.
Qed.

Section Tight.
Variables (times clusters : list Z) (ivs : list iv) (lo : Z) (n : option Z) (sc : bool)
          (sub : option (list Z)).
Hypothesis Hlen : length times = length clusters.
Hypothesis Hord : ordered lo ivs.
Variables (req r : list Z).
Hypothesis Hspec : Select_Spec times clusters ivs sc sub n req r.

Notation E := (elig times clusters ivs sc sub).

Lemma eligible_has_cluster c i : Eligible times clusters ivs sc sub c i -> has_cluster clusters c i = true.
Proof.
  intros He. apply eligible_b_iff in He. unfold eligible_b in He. rewrite !andb_true_iff in He. tauto.
Qed.

Lemma filter_elig_cluster c :
  filter (fun i => memZ i (E c)) r = filter (has_cluster clusters c) r.
Proof.
  pose proof Hspec as (_ & Hel & _). apply filter_ext_in. intros i Hi.
  destruct (has_cluster clusters c i) eqn:Eh.
  - apply memZ_In. destruct (Hel i Hi) as (c' & _ & He).
    pose proof (eligible_has_cluster c' i He) as Eh'.
    rewrite (has_cluster_fun clusters c c' i Eh Eh'). now apply elig_In, eligible_b_iff.
  - destruct (memZ i (E c)) eqn:Em; [|reflexivity].
    apply memZ_In, elig_has_cluster in Em. congruence.
Qed.

Lemma step_R c : In c req ->
  step (chooseR r) times clusters (flat ivs) n sc sub 0%nat c = Some (filter (has_cluster clusters c) r).
Proof.
  intros Hc. unfold step. rewrite (candidates_spec times clusters ivs lo sc sub c Hlen Hord).
  pose proof Hspec as (_ & _ & Hcnt). specialize (Hcnt c Hc).
  pose proof (filter_elig_cluster c) as Hf.
  unfold Count_Spec in Hcnt. unfold subsamples. destruct n as [m|].
  - destruct ((0 <? m) && (m <? zlen (E c))) eqn:Ec.
    + f_equal. unfold chooseR. rewrite Hf, Hcnt, Z.eqb_refl. reflexivity.
    + f_equal. symmetry. exact Hcnt.
  - f_equal. symmetry. exact Hcnt.
Qed.

End Tight.

Theorem select_tight times clusters ivs lo n sc sub req r :
  length times = length clusters -> ordered lo ivs ->
  Select_Spec times clusters ivs sc sub n req r ->
  select (chooseR r) times clusters (flat ivs) n sc sub req = Some r.
Proof.
  intros Hlen Hord Hspec. unfold select. destruct req as [|c0 q].
  - pose proof Hspec as (_ & Hel & _). destruct r as [|i r']; [reflexivity|exfalso].
    destruct (Hel i (or_introl eq_refl)) as (c & [] & _).
  - set (req := c0 :: q) in *.
    pose proof (step_R times clusters ivs lo n sc sub Hlen Hord req r Hspec) as HR.
    pose proof (loop_free_char (chooseR r) (chooseR_free r) times clusters (flat ivs) n sc sub req) as H.
    destruct (sel_loop (chooseR r) times clusters (flat ivs) n sc sub 0%nat req []) as [d|].
    + destruct H as [_ Hmem]. f_equal. pose proof Hspec as (Hss & Hel & _).
      apply ss_ext; [apply unique_ss|exact Hss|]. intros i. rewrite Hmem. split.
      * intros (c & v & Hc & Ev & Hi). rewrite (HR c Hc) in Ev. injection Ev as <-.
        now apply filter_In in Hi as [Hi _].
      * intros Hi. destruct (Hel i Hi) as (c & Hc & He).
        exists c, (filter (has_cluster clusters c) r). split; [assumption|]. split; [now apply HR|].
        apply filter_In. split; [assumption|].
        exact (eligible_has_cluster times clusters ivs sc sub c i He).
    + exfalso. destruct H as (c & Hc & Ec). rewrite (HR c Hc) in Ec. discriminate.
Qed.

(* exactly the arrays allowed by the statement are returned: r satisfies Select_Spec iff some
   admissible np.random.choice makes the call return r *)
Lemma select_exact_ivs times clusters ivs lo n sc sub req r :
  length times = length clusters -> ordered lo ivs ->
  (Select_Spec times clusters ivs sc sub n req r <->
   exists choose, Choose_OK choose /\ select choose times clusters (flat ivs) n sc sub req = Some r).
Proof.
  intros Hlen Hord. split.
  - intros Hs. exists (chooseR r). split; [apply chooseR_ok; apply Hs|].
    exact (select_tight times clusters ivs lo n sc sub req r Hlen Hord Hs).
  - intros (choose & Hch & Er).
    destruct (select_spec choose Hch times clusters ivs lo n sc sub Hlen Hord req) as (r' & Er' & Hr').
    rewrite Er in Er'. injection Er' as <-. exact Hr'.
Qed.

Theorem selector_exact times clusters grid k n req sc sub :
  length times = length clusters -> sortedZ grid -> 1 <= zlen grid -> 1 <= k ->
  exists ivs, chunks_kept grid k = Some (flat ivs) /\
    forall r, Select_Spec times clusters ivs sc sub n req r <->
              exists choose, Choose_OK choose /\
                             selector_call choose times clusters grid k n req sc sub = Some r.
Proof.
  intros Hlen Hg Hl Hk.
  destruct (chunks_kept_spec grid k Hk Hl) as (ivs & E & HK).
  destruct (kept_ordered grid k _ ivs Hg HK) as (lo & Ho).
  exists ivs. split; [exact E|]. intros r. unfold selector_call. rewrite E.
  exact (select_exact_ivs times clusters ivs lo n sc sub req r Hlen Ho).
Qed.

(* order and repetitions in the request list are irrelevant: for index-free oracles the returned
   array is the same; for arbitrary admissible oracles the set of possible returned arrays is *)
Theorem selector_members times clusters grid k n req req' sc sub :
  (forall c, In c req <-> In c req') ->
  (forall choose, Index_Free choose ->
     selector_call choose times clusters grid k n req sc sub =
     selector_call choose times clusters grid k n req' sc sub) /\
  (length times = length clusters -> sortedZ grid -> 1 <= zlen grid -> 1 <= k ->
   forall r, (exists choose, Choose_OK choose /\
                             selector_call choose times clusters grid k n req sc sub = Some r) <->
             (exists choose, Choose_OK choose /\
                             selector_call choose times clusters grid k n req' sc sub = Some r)).
Proof.
  intros Hm. split.
  - intros choose Hf. unfold selector_call. destruct (chunks_kept grid k) as [kept|]; [|reflexivity].
    now apply select_members.
  - intros Hlen Hg Hl Hk r.
    destruct (chunks_kept_spec grid k Hk Hl) as (ivs & E & HK).
    destruct (kept_ordered grid k _ ivs Hg HK) as (lo & Ho).
    unfold selector_call. rewrite E.
    rewrite <- (select_exact_ivs times clusters ivs lo n sc sub req r Hlen Ho).
    rewrite <- (select_exact_ivs times clusters ivs lo n sc sub req' r Hlen Ho).
    split; apply Select_Spec_members; [exact Hm|]. intros c. symmetry. apply Hm.
Qed.

(* the route requests sorted(spt.keys()) = np.unique(spike_templates); any other enumeration of the
   templates that have spikes (any order, repetitions) gives the same saved ids / the same set of
   possible saved ids *)
Theorem route_order samples templates grid nst req' :
  (forall c, In c req' <-> In c templates) -> 1 <= nst ->
  (forall choose, Index_Free choose ->
     selector_call choose samples templates grid n_chunks_kept_route (Some nst) req' true None =
     route choose samples templates grid nst) /\
  (length samples = length templates -> sortedZ grid -> 1 <= zlen grid ->
   forall r, (exists choose, Choose_OK choose /\ route choose samples templates grid nst = Some r) <->
             (exists choose, Choose_OK choose /\
                selector_call choose samples templates grid n_chunks_kept_route (Some nst) req' true None
                = Some r)).
Proof.
  intros Hm Hn.
  assert (Hm' : forall c, In c (unique templates) <-> In c req').
  { intros c. rewrite unique_In. symmetry. apply Hm. }
  destruct (selector_members samples templates grid n_chunks_kept_route (Some nst)
              (unique templates) req' true None Hm') as [H1 H2].
  unfold route. replace (nst <=? 0) with false by lia. split.
  - intros choose Hf. symmetry. now apply H1.
  - intros Hlen Hg Hl. apply H2; try assumption. unfold n_chunks_kept_route. lia.
Qed.

(* ---------- completeness of the boolean checkers ---------- *)
Lemma sinc_b_complete l : StronglySorted Z.lt l -> sinc_b l = true.
Proof.
  induction 1 as [|x r Hs IH Hf]; [reflexivity|]. cbn [sinc_b].
  destruct r as [|y r']; [reflexivity|].
  apply Forall_inv in Hf. apply andb_true_iff. split; [lia|exact IH].
Qed.

Lemma zlist_eqb_refl a : zlist_eqb a a = true.
Proof. induction a as [|x a IH]; cbn [zlist_eqb]; [reflexivity|]. now rewrite Z.eqb_refl, IH. Qed.

Theorem select_spec_b_complete times clusters ivs sc sub n req r :
  Select_Spec times clusters ivs sc sub n req r ->
  select_spec_b times clusters ivs sc sub n req r = true.
Proof.
  intros (H1 & H2 & H3). unfold select_spec_b. rewrite !andb_true_iff.
  assert (Hb : forall i, In i r -> exists c, In c req /\ eligible_b times clusters ivs sc sub c i = true).
  { intros i Hi. destruct (H2 i Hi) as (c & Hc & He). exists c. split; [assumption|].
    now apply eligible_b_iff. }
  repeat split.
  - now apply sinc_b_complete.
  - apply forallb_forall. intros i Hi. destruct (Hb i Hi) as (c & Hc & He).
    apply existsb_exists. exists c. split; [assumption|].
    unfold eligible_b in He. rewrite !andb_true_iff in He. tauto.
  - apply forallb_forall. intros i Hi. destruct (Hb i Hi) as (c & Hc & He).
    unfold eligible_b in He. rewrite !andb_true_iff in He. tauto.
  - apply forallb_forall. intros i Hi. destruct (Hb i Hi) as (c & Hc & He).
    unfold eligible_b in He. rewrite !andb_true_iff in He. tauto.
  - apply forallb_forall. intros c Hc. specialize (H3 c Hc).
    unfold count_b, Count_Spec in *. destruct n as [m|].
    + destruct ((0 <? m) && (m <? zlen (elig times clusters ivs sc sub c))); [lia|].
      rewrite H3. apply zlist_eqb_refl.
    + rewrite H3. apply zlist_eqb_refl.
Qed.

Lemma unflat_flat_id ivs : unflat (flat ivs) = Some ivs.
Proof.
  induction ivs as [|[a b] r IH]; [reflexivity|]. cbn [flat unflat iv_a iv_b]. now rewrite IH.
Qed.

Lemma kept_at_b_complete grid s ivs : forall j, KeptAt grid s j ivs -> kept_at_b grid s j ivs = true.
Proof.
  induction ivs as [|v r IH]; intros j H; [reflexivity|]. cbn [KeptAt] in H. destruct H as (Ha & Hb & Hr).
  cbn [kept_at_b]. rewrite Ha, Hb, !Z.eqb_refl, (IH _ Hr). reflexivity.
Qed.

Lemma kept_stride_b_complete grid k s ivs :
  Kept_Stride grid k s ivs -> kept_stride_b grid k s ivs = true.
Proof.
  intros (Hs & Hk & Hl & Hle). unfold kept_stride_b. rewrite !andb_true_iff.
  repeat split; try lia. now apply kept_at_b_complete.
Qed.

(* a stride beyond the number of chunks keeps the same chunks as stride = number of chunks *)
Lemma kept_stride_clip grid k s ivs : 1 <= zlen grid ->
  Kept_Stride grid k s ivs -> Kept_Stride grid k (Z.min s (Z.max 1 (zlen grid - 1))) ivs.
Proof.
  intros Hg HK. set (nch := zlen grid - 1) in *.
  destruct (Z_le_gt_dec s (Z.max 1 nch)) as [Hle|Hgt].
  - replace (Z.min s (Z.max 1 nch)) with s by lia. exact HK.
  - replace (Z.min s (Z.max 1 nch)) with (Z.max 1 nch) by lia.
    destruct HK as (Hs & Hk & Hl & Hlk). fold nch in Hl.
    pose proof (cdiv_spec nch s Hs) as Hc.
    destruct (Z.eq_dec nch 0) as [E0|Hn0].
    + assert (Hz : cdiv nch s = 0) by nia.
      assert (ivs = []) as -> by (destruct ivs; [reflexivity|unfold zlen in Hl; cbn [length] in Hl; lia]).
      unfold Kept_Stride. fold nch. replace (Z.max 1 nch) with 1 by lia. rewrite E0.
      repeat split; try exact I; try lia; try (unfold cdiv, zlen; cbn; lia).
    + assert (Hn1 : 1 <= nch) by (unfold nch; lia).
      assert (Hz : cdiv nch s = 1) by nia.
      replace (Z.max 1 nch) with nch by lia.
      pose proof (cdiv_spec nch nch Hn1) as Hc'.
      assert (Hz' : cdiv nch nch = 1) by nia.
      destruct ivs as [|v [|w r]]; unfold zlen in Hl; cbn [length] in Hl; try lia.
      unfold Kept_Stride. fold nch. rewrite Hz'. cbn [KeptAt] in Hk. destruct Hk as (Ha & Hb & _).
      change (0 * s) with 0 in Ha, Hb.
      repeat split; try lia; try exact I; try (change (0 * nch) with 0; assumption).
Qed.

Theorem kept_spec_b_complete grid k ivs : 1 <= zlen grid ->
  Kept_Spec grid k ivs -> kept_spec_b grid k (flat ivs) = true.
Proof.
  intros Hg (s & HK). unfold kept_spec_b. rewrite unflat_flat_id.
  apply existsb_exists. exists (Z.min s (Z.max 1 (zlen grid - 1))). split.
  - apply zrange_in. destruct HK as (Hs & _). lia.
  - apply kept_stride_b_complete, kept_stride_clip; assumption.
Qed.

(* ---------- error exits of the model ---------- *)
Lemma take_none arr ids i : In i ids -> nth_error arr (Z.to_nat i) = None -> take arr ids = None.
Proof.
  induction ids as [|j r IH]; intros Hin Hn; [contradiction|]. cbn [take].
  destruct Hin as [->|Hin].
  - now rewrite Hn.
  - rewrite (IH Hin Hn). destruct (nth_error arr (Z.to_nat j)); reflexivity.
Qed.

Lemma sel_loop_none choose times clusters kept n sc sub c :
  candidates times clusters kept sc sub c = None ->
  forall req, In c req -> forall k d, sel_loop choose times clusters kept n sc sub k req d = None.
Proof.
  intros Hc. induction req as [|c0 r IH]; intros Hin k d; [contradiction|]. cbn [sel_loop].
  destruct (step choose times clusters kept n sc sub k c0) as [v|] eqn:Ev; [|reflexivity].
  destruct Hin as [->|Hin]; [|now apply IH].
  unfold step in Ev. rewrite Hc in Ev. discriminate.
Qed.

(* IndexError of self.spike_times[spike_ids]: a requested cluster that has a spike beyond the end
   of spike_times makes the call raise (so "equal lengths" cannot be dropped to "any lengths") *)
Theorem select_index_error choose times clusters kept n sc sub req c i :
  0 <= i -> nth_error clusters (Z.to_nat i) = Some c -> (length times <= Z.to_nat i)%nat -> In c req ->
  select choose times clusters kept n sc sub req = None.
Proof.
  intros Hi Hc Hlen Hin. unfold select. destruct req as [|c0 q] eqn:Ereq; [contradiction|].
  rewrite <- Ereq in *. rewrite (sel_loop_none choose times clusters kept n sc sub c); try assumption.
  - reflexivity.
  - unfold candidates. rewrite (take_none times (spikes_of c 0 clusters) i); [reflexivity| |].
    + apply spikes_of_In. split; [lia|]. now replace (i - 0) with i by lia.
    + now apply nth_error_None.
Qed.

(* `assert nst > 0` of save_spikes_subset_waveforms *)
Theorem route_guard choose samples templates grid nst :
  nst <= 0 -> route choose samples templates grid nst = None.
Proof. intros H. unfold route. now replace (nst <=? 0) with true by lia. Qed.
