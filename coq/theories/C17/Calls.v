(* C17/Calls.v -- round 2: a HISTORY of calls on ONE SpikeSelector object.
   phylib/io/array.py: SpikeSelector.__init__ stores get_spikes_per_cluster, spike_times and
   chunks_kept; SpikeSelector.__call__ reads these three attributes and assigns none (its dictionary
   `selection` is a local).  So the object after a call is the object before it, and the model of a
   sequence of calls threads the SAME selector through: the result of call number j is the result of
   that call on a freshly built selector, whatever was asked before (C17_calls_independent), and
   therefore satisfies the statement by C17_select applied to that call alone (C17_calls_select).
   This is what the correspondence observes on the code with the case kind `seq` (seeded change
   C17-m5: a per-cluster cache on the object keyed by the cluster id only, filled under the
   subset_chunks flag of the FIRST call that asks for the cluster). *)
From Coq Require Import ZArith List Lia Bool Sorted.
From PV Require Import Base.PySlice Base.NpSearch C17.Model C17.Spec C17.Proofs C17.Proofs2 C17.Proofs3
                       C17.Proofs4.
Import ListNotations.
Open Scope Z_scope.

(* the arguments of one __call__(n_spk_clu, cluster_ids, subset_chunks, subset_spikes) *)
Record call := mkcall { c_n : option Z; c_req : list Z; c_sc : bool; c_sub : option (list Z) }.

(* the attributes of the object (get_spikes_per_cluster = positions in spike_clusters, as in Model.v) *)
Record selector := mksel { s_times : list Z; s_clusters : list Z; s_kept : list Z }.

(* SpikeSelector(...): None = ZeroDivisionError in __init__ *)
Definition new_selector (times clusters grid : list Z) (k : Z) : option selector :=
  match chunks_kept grid k with
  | None => None
  | Some kept => Some (mksel times clusters kept)
  end.

(* one call: the returned array (None = an exception) and the object afterwards.  __call__ assigns no
   attribute of self: the object is returned as it was. *)
Definition call_step (choose : nat -> list Z -> Z -> list Z) (s : selector) (c : call)
    : selector * option (list Z) :=
  (s, select choose (s_times s) (s_clusters s) (s_kept s) (c_n c) (c_sc c) (c_sub c) (c_req c)).

(* calls number j, j+1, ... made one after the other on the object; np.random.choice is in another
   state at every call: one oracle per call *)
Fixpoint run_calls (choose : nat -> nat -> list Z -> Z -> list Z) (j : nat) (s : selector)
    (calls : list call) : list (option (list Z)) :=
  match calls with
  | [] => []
  | c :: r => let (s', o) := call_step (choose j) s c in o :: run_calls choose (S j) s' r
  end.

(* the whole history on a selector built from a chunk grid *)
Definition selector_calls (choose : nat -> nat -> list Z -> Z -> list Z)
    (times clusters grid : list Z) (k : Z) (calls : list call) : option (list (option (list Z))) :=
  match new_selector times clusters grid k with
  | None => None
  | Some s => Some (run_calls choose 0 s calls)
  end.

Lemma run_calls_nth choose s calls : forall j0 j,
  nth_error (run_calls choose j0 s calls) j =
  option_map (fun c => snd (call_step (choose (j0 + j)%nat) s c)) (nth_error calls j).
Proof.
  induction calls as [|c r IH]; intros j0 j; cbn [run_calls call_step].
  - destruct j; reflexivity.
  - destruct j as [|j]; cbn [nth_error option_map snd].
    + now rewrite Nat.add_0_r.
    + rewrite IH. now rewrite Nat.add_succ_comm.
Qed.

(* the result of call number j is that of the same call made first on a fresh selector: it depends
   on the selector's constructor arguments, on the call's own arguments and on the random draws of
   that call -- not on the calls made before it *)
Lemma calls_independent choose times clusters grid k calls rs j c :
  selector_calls choose times clusters grid k calls = Some rs ->
  nth_error calls j = Some c ->
  nth_error rs j = Some (selector_call (choose j) times clusters grid k (c_n c) (c_req c) (c_sc c) (c_sub c)).
Proof.
  unfold selector_calls, new_selector, selector_call. intros H Hc.
  destruct (chunks_kept grid k) as [kept|]; [|discriminate].
  injection H as <-. rewrite run_calls_nth, Hc. reflexivity.
Qed.

Lemma calls_length choose s calls : forall j0, length (run_calls choose j0 s calls) = length calls.
Proof. induction calls as [|c r IH]; intros j0; cbn [run_calls call_step length]; [reflexivity|]. now rewrite IH. Qed.

(* a history does not change the answer to a later call: two histories that end with the same call *)
Lemma calls_history_irrelevant choose times clusters grid k pre pre' c rs rs' :
  selector_calls (fun _ => choose) times clusters grid k (pre ++ [c]) = Some rs ->
  selector_calls (fun _ => choose) times clusters grid k (pre' ++ [c]) = Some rs' ->
  last rs None = last rs' None.
Proof.
  unfold selector_calls, new_selector. destruct (chunks_kept grid k) as [kept|]; [|discriminate].
  intros H H'. injection H as <-. injection H' as <-.
  assert (L : forall p j0, last (run_calls (fun _ => choose) j0 (mksel times clusters kept) (p ++ [c])) None =
                           snd (call_step choose (mksel times clusters kept) c)).
  { induction p as [|x p IH]; intros j0; [reflexivity|].
    cbn [app run_calls call_step]. specialize (IH (S j0)).
    destruct (run_calls (fun _ => choose) (S j0) (mksel times clusters kept) (p ++ [c])) eqn:E.
    - exfalso. apply (f_equal (@length _)) in E. rewrite calls_length, app_length in E. cbn in E. lia.
    - cbn [last]. exact IH. }
  now rewrite !L.
Qed.

(* every call of a history satisfies the whole statement (C17_select for that call) *)
Lemma calls_select (choose : nat -> nat -> list Z -> Z -> list Z)
    (times clusters grid : list Z) (k : Z) (calls : list call) :
  (forall q j ids m, NoDup ids -> 0 < m < zlen ids ->
     NoDup (choose q j ids m) /\ zlen (choose q j ids m) = m /\ incl (choose q j ids m) ids) ->
  length times = length clusters -> sortedZ grid -> 1 <= zlen grid -> 1 <= k ->
  exists ivs rs,
    chunks_kept grid k = Some (flat ivs) /\
    Kept_Stride grid k (stride (zlen grid - 1) k) ivs /\
    selector_calls choose times clusters grid k calls = Some rs /\
    length rs = length calls /\
    forall j c, nth_error calls j = Some c ->
      exists r, nth_error rs j = Some (Some r) /\
        StronglySorted Z.lt r /\
        (forall i, In i r -> exists cl, In cl (c_req c) /\ Eligible times clusters ivs (c_sc c) (c_sub c) cl i) /\
        (forall cl, In cl (c_req c) ->
           Count_Spec (c_n c) (elig times clusters ivs (c_sc c) (c_sub c) cl) (filter (has_cluster clusters cl) r)).
Proof.
  intros Hch Hlen Hs Hg Hk.
  destruct (selector_spec (choose 0%nat) times clusters grid k None [] false None (Hch 0%nat) Hlen Hs Hg Hk)
    as (ivs & _ & Hkept & Hstride & _).
  exists ivs. unfold selector_calls, new_selector. rewrite Hkept.
  eexists. split; [reflexivity|]. split; [exact Hstride|]. split; [reflexivity|].
  split; [apply calls_length|].
  intros j c Hc.
  destruct (selector_spec (choose j) times clusters grid k (c_n c) (c_req c) (c_sc c) (c_sub c) (Hch j) Hlen Hs Hg Hk)
    as (ivs' & r & Hkept' & _ & Hcall & Hsorted & Hel & Hcnt).
  rewrite Hkept in Hkept'. injection Hkept' as Hflat.
  assert (ivs' = ivs) as ->.
  { clear -Hflat. revert ivs' Hflat. induction ivs as [|[a b] l IH]; intros [|[a' b'] l'] H; cbn in H;
      try discriminate; [reflexivity|]. injection H as -> -> H. f_equal. now apply IH. }
  exists r. rewrite run_calls_nth, Hc. cbn [option_map call_step snd s_times s_clusters s_kept Nat.add].
  unfold selector_call in Hcall. rewrite Hkept in Hcall. rewrite Hcall.
  repeat split; assumption.
Qed.
