(* C17/Proofs3.v -- the whole call; soundness of the boolean checkers; the oracle hypothesis is
   satisfiable. *)
From Coq Require Import ZArith List Lia Bool Sorted Permutation.
From PV Require Import Base.PySlice Base.NpSearch C17.Model C17.Spec C17.Proofs C17.Proofs2.
Import ListNotations.
Open Scope Z_scope.

Definition Choose_OK (choose : nat -> list Z -> Z -> list Z) : Prop :=
  forall k ids m, NoDup ids -> 0 < m < zlen ids ->
    NoDup (choose k ids m) /\ zlen (choose k ids m) = m /\ incl (choose k ids m) ids.

Lemma firstn_incl {A} n (l : list A) : incl (firstn n l) l.
Proof.
  revert l; induction n as [|n IH]; intros l; destruct l as [|x l]; cbn [firstn]; intros y Hy;
    try contradiction.
  destruct Hy as [<-|H]; [now left|right; now apply IH].
Qed.

Lemma firstn_NoDup {A} n (l : list A) : NoDup l -> NoDup (firstn n l).
Proof.
  revert l; induction n as [|n IH]; intros [|x l] H; cbn [firstn]; try constructor.
  - apply NoDup_cons_iff in H as [Hn _]. intros Hin. apply Hn. now apply (firstn_incl n l).
  - apply IH. now apply NoDup_cons_iff in H as [_ H].
Qed.

Lemma choose0_ok : Choose_OK choose0.
Proof.
  intros k ids m Hnd Hm. unfold choose0, zlen in *. repeat split.
  - now apply firstn_NoDup.
  - rewrite firstn_length. lia.
  - apply firstn_incl.
Qed.

Theorem selector_spec choose times clusters grid k n req sc sub :
  Choose_OK choose -> length times = length clusters -> sortedZ grid -> 1 <= zlen grid -> 1 <= k ->
  exists ivs r,
    chunks_kept grid k = Some (flat ivs) /\
    Kept_Stride grid k (stride (zlen grid - 1) k) ivs /\
    selector_call choose times clusters grid k n req sc sub = Some r /\
    Select_Spec times clusters ivs sc sub n req r.
Proof.
  intros Hch Hlen Hg Hl Hk.
  destruct (chunks_kept_spec grid k Hk Hl) as (ivs & E & HK).
  destruct (kept_ordered grid k _ ivs Hg HK) as (lo & Ho).
  destruct (select_spec choose Hch times clusters ivs lo n sc sub Hlen Ho req) as (r & Er & Hr).
  exists ivs, r. unfold selector_call. rewrite E. auto.
Qed.

(* unknown clusters contribute nothing *)
Lemma select_unknown times clusters ivs sc sub n req r :
  Select_Spec times clusters ivs sc sub n req r ->
  (forall i, In i r -> exists c, In c req /\ In c clusters) /\
  ((forall c, In c req -> ~ In c clusters) -> r = []).
Proof.
  intros (_ & H2 & _). split.
  - intros i Hi. destruct (H2 i Hi) as (c & Hc & _ & Hn & _). exists c. split; [assumption|].
    now apply nth_error_In in Hn.
  - intros Hu. destruct r as [|i r]; [reflexivity|exfalso].
    destruct (H2 i (or_introl eq_refl)) as (c & Hc & _ & Hn & _).
    apply (Hu c Hc). now apply nth_error_In in Hn.
Qed.

(* ---------- soundness of the boolean checkers ---------- *)
Lemma unflat_flat ivs : forall l, unflat l = Some ivs -> l = flat ivs.
Proof.
  induction ivs as [|v r IH]; intros l H.
  - destruct l as [|a [|b l]]; cbn [unflat] in H; [reflexivity|discriminate|].
    destruct (unflat l); discriminate.
  - destruct l as [|a [|b l]]; cbn [unflat] in H; try discriminate.
    destruct (unflat l) as [ivs'|] eqn:E; cbn [option_map] in H; [|discriminate].
    injection H as <- <-. cbn [flat iv_a iv_b]. now rewrite (IH l E).
Qed.

Lemma kept_at_b_sound grid s ivs : forall j, kept_at_b grid s j ivs = true -> KeptAt grid s j ivs.
Proof.
  induction ivs as [|v r IH]; intros j H; [exact I|]. cbn [kept_at_b] in H. cbn [KeptAt].
  apply andb_true_iff in H as [H1 H2].
  destruct (nth_error grid (Z.to_nat (j * s))) as [a|]; [|discriminate].
  destruct (nth_error grid (Z.to_nat (j * s + 1))) as [b|]; [|discriminate].
  apply andb_true_iff in H1 as [Ha Hb]. repeat split; [f_equal; lia|f_equal; lia|now apply IH].
Qed.

Theorem kept_spec_b_sound grid k kept : kept_spec_b grid k kept = true ->
  exists ivs, kept = flat ivs /\ Kept_Spec grid k ivs.
Proof.
  unfold kept_spec_b. destruct (unflat kept) as [ivs|] eqn:E; [|discriminate].
  intros H. apply existsb_exists in H as (s & _ & H). exists ivs. split; [now apply unflat_flat|].
  exists s. unfold kept_stride_b in H. rewrite !andb_true_iff in H. destruct H as [[[H1 H2] H3] H4].
  repeat split; [lia|now apply kept_at_b_sound|lia|lia].
Qed.

Lemma zlist_eqb_eq a : forall b, zlist_eqb a b = true -> a = b.
Proof.
  induction a as [|x a IH]; intros [|y b]; cbn [zlist_eqb]; try discriminate; [reflexivity|].
  rewrite andb_true_iff. intros [H1 H2]. f_equal; [lia|now apply IH].
Qed.

Lemma sinc_b_sound l : sinc_b l = true -> StronglySorted Z.lt l.
Proof.
  induction l as [|x r IH]; intros H; [constructor|]. cbn [sinc_b] in H.
  destruct r as [|y r']; [repeat constructor|].
  apply andb_true_iff in H as [Hxy Hr]. specialize (IH Hr).
  constructor; [assumption|]. apply StronglySorted_inv in IH as [_ F].
  constructor; [lia|]. eapply Forall_impl; [|exact F]. intros z Hz. cbn beta in Hz. lia.
Qed.

Theorem select_spec_b_sound times clusters ivs sc sub n req r :
  select_spec_b times clusters ivs sc sub n req r = true ->
  Select_Spec times clusters ivs sc sub n req r.
Proof.
  unfold select_spec_b. rewrite !andb_true_iff. intros [[[[H22 H23] H24] H25] H26].
  split; [now apply sinc_b_sound|]. split.
  - intros i Hi. unfold cl23_cluster, cl24_chunk, cl25_subset in *.
    rewrite forallb_forall in H23, H24, H25.
    specialize (H23 i Hi). apply existsb_exists in H23 as (c & Hc & Hh).
    exists c. split; [assumption|]. apply eligible_b_iff. unfold eligible_b.
    now rewrite Hh, (H24 i Hi), (H25 i Hi).
  - intros c Hc. unfold cl26_count in H26. rewrite forallb_forall in H26. specialize (H26 c Hc).
    unfold count_b, Count_Spec in *. destruct n as [m|].
    + destruct ((0 <? m) && (m <? zlen (elig times clusters ivs sc sub c))); [lia|now apply zlist_eqb_eq].
    + now apply zlist_eqb_eq.
Qed.

(* ---------- the route through TemplateModel.save_spikes_subset_waveforms ---------- *)
Theorem route_spec choose samples templates grid nst :
  Choose_OK choose -> length samples = length templates -> sortedZ grid -> 1 <= zlen grid -> 1 <= nst ->
  exists ivs r,
    chunks_kept grid 20 = Some (flat ivs) /\
    Kept_Stride grid 20 (stride (zlen grid - 1) 20) ivs /\
    route choose samples templates grid nst = Some r /\
    StronglySorted Z.lt r /\
    (forall i, In i r -> exists c, Eligible samples templates ivs true None c i) /\
    (forall c, Count_Spec (Some nst) (elig samples templates ivs true None c)
                          (filter (has_cluster templates c) r)).
Proof.
  intros Hch Hlen Hg Hl Hn.
  destruct (selector_spec choose samples templates grid 20 (Some nst) (unique templates) true None
              Hch Hlen Hg Hl ltac:(lia)) as (ivs & r & H1 & H2 & H3 & H4 & H5 & H6).
  exists ivs, r. unfold route, n_chunks_kept_route. replace (nst <=? 0) with false by lia.
  split; [exact H1|]. split; [exact H2|]. split; [exact H3|]. split; [exact H4|]. split.
  - intros i Hi. destruct (H5 i Hi) as (c & _ & Hc). now exists c.
  - intros c. destruct (in_dec Z.eq_dec c templates) as [Hin|Hnin].
    + apply H6. now apply unique_In.
    + (* a template without spikes: nothing eligible, nothing returned *)
      rewrite (elig_unknown samples templates ivs true None c Hnin).
      assert (Hf : filter (has_cluster templates c) r = []).
      { destruct (filter (has_cluster templates c) r) as [|i l] eqn:E; [reflexivity|exfalso].
        assert (Hi : In i (filter (has_cluster templates c) r)) by (rewrite E; now left).
        apply filter_In in Hi as [_ Hi]. apply has_cluster_iff in Hi as [_ Hi].
        apply nth_error_In in Hi. contradiction. }
      rewrite Hf. unfold Count_Spec. cbn [zlen length Z.of_nat].
      replace ((0 <? nst) && (nst <? 0)) with false by lia. reflexivity.
Qed.
