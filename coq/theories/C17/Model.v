(* C17/Model.v -- executable model of phylib's spike selection.  No proofs here.
   phylib/io/array.py: _times_in_chunks, SpikeSelector.__init__, SpikeSelector.__call__,
                       _flatten_per_cluster
   with get_spikes_per_cluster = the dictionary of _spikes_per_cluster(spike_clusters) with an
   empty default, as built by TemplateModel.save_spikes_subset_waveforms (phylib/io/model.py)
   and by upstream's tests. *)
From Coq Require Import ZArith List Lia Bool.
From PV Require Import Base.PySlice Base.NpSearch.
Import ListNotations.
Open Scope Z_scope.

(* one kept chunk [iv_a, iv_b) *)
Record iv := mkiv { iv_a : Z; iv_b : Z }.

(* ---------- SpikeSelector.__init__ ---------- *)
(* math.ceil(a / b) for b <> 0 (Z.div is floor division, as Python's //) *)
Definition cdiv (a b : Z) : Z := - ((- a) / b).

(* max(1, int(ceil(n_chunks / n_chunks_kept))) *)
Definition stride (nch k : Z) : Z := Z.max 1 (cdiv nch k).

(* range(0, nch, s) for s >= 1 *)
Definition krange (nch s : Z) : list Z :=
  map (fun j => j * s) (zrange 0 (Z.to_nat (cdiv nch s))).

(* self.chunks_kept: for i in range(0, n_chunks, stride): extend(chunk_bounds[i:i + 2]);
   None = ZeroDivisionError (n_chunks_kept = 0) *)
Definition chunks_kept (grid : list Z) (k : Z) : option (list Z) :=
  if k =? 0 then None
  else let nch := zlen grid - 1 in
       Some (flat_map (fun i => slice grid i (i + 2)) (krange nch (stride nch k))).

(* ---------- _times_in_chunks ---------- *)
(* np.searchsorted(chunks_kept, t, side='right') % 2 == 1 *)
Definition in_chunks (kept : list Z) (t : Z) : bool := Z.odd (ssr kept t).

(* ---------- NumPy pieces used by __call__ ---------- *)
(* _spikes_per_cluster(spike_clusters).get(c, []) : positions of c, increasing *)
Fixpoint spikes_of (c : Z) (i : Z) (clusters : list Z) : list Z :=
  match clusters with
  | [] => []
  | x :: r => if x =? c then i :: spikes_of c (i + 1) r else spikes_of c (i + 1) r
  end.

(* arr[ids] (fancy indexing with non-negative ids); None = IndexError *)
Fixpoint take (arr : list Z) (ids : list Z) : option (list Z) :=
  match ids with
  | [] => Some []
  | i :: r => match nth_error arr (Z.to_nat i), take arr r with
              | Some t, Some ts => Some (t :: ts)
              | _, _ => None
              end
  end.

(* arr[mask] (boolean indexing, same lengths) *)
Fixpoint mask_sel (ids : list Z) (mask : list bool) : list Z :=
  match ids, mask with
  | i :: r, m :: mr => if m then i :: mask_sel r mr else mask_sel r mr
  | _, _ => []
  end.

Fixpoint memZ (x : Z) (l : list Z) : bool :=
  match l with [] => false | y :: r => (x =? y) || memZ x r end.

(* np.unique: sorted, without repetitions (insertion into a strictly increasing list) *)
Fixpoint uinsert (x : Z) (l : list Z) : list Z :=
  match l with
  | [] => [x]
  | y :: r => if x <? y then x :: l else if x =? y then l else y :: uinsert x r
  end.
Definition unique (l : list Z) : list Z := fold_right uinsert [] l.

(* np.intersect1d(a, b): the sorted, unique values that are in both *)
Definition intersect1d (a b : list Z) : list Z := unique (filter (fun x => memZ x b) a).

(* ---------- SpikeSelector.__call__ ---------- *)
(* the dictionary `selection`: insertion-ordered, assignment to an existing key keeps its place *)
Record entry := mke { e_key : Z; e_val : list Z }.

Fixpoint dict_set (d : list entry) (c : Z) (v : list Z) : list entry :=
  match d with
  | [] => [mke c v]
  | e :: r => if e_key e =? c then mke c v :: r else e :: dict_set r c v
  end.

Section Select.
(* np.random.choice(ids, n, replace=False) at loop iteration k: an oracle.  The theorems hold for
   every oracle that returns n distinct members of ids. *)
Variable choose : nat -> list Z -> Z -> list Z.

Variables (times clusters kept : list Z) (n : option Z) (sub_chunks : bool) (sub : option (list Z)).

(* the spikes of one cluster after the chunk and subset restrictions (before sub-sampling) *)
Definition candidates (c : Z) : option (list Z) :=
  let ids := spikes_of c 0 clusters in
  match take times ids with                       (* t = self.spike_times[spike_ids] *)
  | None => None
  | Some ts =>
      let ids1 := if sub_chunks then mask_sel ids (map (in_chunks kept) ts) else ids in
      Some (match sub with None => ids1 | Some s => intersect1d ids1 s end)
  end.

(* n_spk_clu is not None and n_spk_clu > 0 and len(spike_ids) > n_spk_clu *)
Definition subsamples (len : Z) : bool :=
  match n with Some m => (0 <? m) && (m <? len) | None => false end.

(* body of the loop for one cluster *)
Definition step (k : nat) (c : Z) : option (list Z) :=
  match candidates c with
  | None => None
  | Some ids => Some (if subsamples (zlen ids) then choose k ids (match n with Some m => m | None => 0 end)
                      else ids)
  end.

Fixpoint sel_loop (k : nat) (req : list Z) (d : list entry) : option (list entry) :=
  match req with
  | [] => Some d
  | c :: r => match step k c with
              | None => None
              | Some v => sel_loop (S k) r (dict_set d c v)
              end
  end.

(* _flatten_per_cluster: np.unique(np.concatenate(list(values))) *)
Definition flatten (d : list entry) : list Z := unique (concat (map e_val d)).

Definition select (req : list Z) : option (list Z) :=
  match req with
  | [] => Some []                                 (* if not len(cluster_ids): return [] *)
  | _ => match sel_loop 0 req [] with
         | None => None
         | Some d => Some (flatten d)
         end
  end.
End Select.

(* a deterministic stand-in for np.random.choice (the first m members): shows that the oracle
   hypothesis of the theorems is satisfiable, and is used by Corr.v where it is never called *)
Definition choose0 (_ : nat) (ids : list Z) (m : Z) : list Z := firstn (Z.to_nat m) ids.

(* the whole call on a selector built from a chunk grid *)
Definition selector_call (choose : nat -> list Z -> Z -> list Z)
    (times clusters grid : list Z) (k : Z) (n : option Z) (req : list Z)
    (sub_chunks : bool) (sub : option (list Z)) : option (list Z) :=
  match chunks_kept grid k with
  | None => None
  | Some kept => select choose times clusters kept n sub_chunks sub req
  end.

(* TemplateModel.save_spikes_subset_waveforms (phylib/io/model.py): the spike ids written to
   _phy_spikes_subset.spikes.npy.  spt = _spikes_per_cluster(spike_templates); template_ids =
   sorted(spt.keys()); SpikeSelector(..., spike_times=spike_samples, chunk_bounds=traces.chunk_bounds,
   n_chunks_kept=20)(max_n_spikes_per_template, template_ids, subset_chunks=True).
   None = `assert nst > 0` fails. *)
Definition n_chunks_kept_route : Z := 20.
Definition route (choose : nat -> list Z -> Z -> list Z)
    (samples templates grid : list Z) (nst : Z) : option (list Z) :=
  if nst <=? 0 then None
  else selector_call choose samples templates grid n_chunks_kept_route (Some nst)
                     (unique templates) true None.
