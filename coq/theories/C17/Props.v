(* C17/Props.v -- the property theorems, and nothing else.  Each is closed by [exact] of a lemma of
   Proofs*.v and followed by Print Assumptions.

   Vocabulary (Spec.v):  flat ivs = [a0; b0; a1; b1; ...] (the array selector.chunks_kept);
   KeptAt grid s 0 ivs = "kept chunk number j is [grid[j*s], grid[j*s+1])" (read with nth_error);
   in_some ivs t = "some kept chunk has a <= t < b";
   Eligible c i = "spike i exists and has cluster c, lies in a kept chunk if the chunk restriction
   is on, and is in the subset if one is given";  elig c = the increasing list of those spikes;
   Count_Spec n E R = "R = E when n is None, n <= 0 or |E| <= n, and |R| = n otherwise". *)
From Coq Require Import ZArith List Lia Bool Sorted.
From PV Require Import Base.PySlice Base.NpSearch C17.Model C17.Spec C17.Proofs C17.Proofs2 C17.Proofs3
                       C17.Proofs4 C17.Proofs5 C17.Proofs6 C17.Link C17.Calls.
From PV Require C07.Model.
Import ListNotations.
Open Scope Z_scope.

(* SpikeSelector.__init__: for every grid with at least one bound and every n_chunks_kept >= 1 the
   kept chunks are the grid intervals number 0, s, 2s, ... with s = max 1 ceil(n_chunks / k), all
   ceil(n_chunks / s) of them, and that number never exceeds k. *)
Theorem C17_kept : forall (grid : list Z) (k : Z), 1 <= k -> 1 <= zlen grid ->
  exists ivs, chunks_kept grid k = Some (flat ivs) /\
    let s := stride (zlen grid - 1) k in
    1 <= s /\ KeptAt grid s 0 ivs /\ zlen ivs = cdiv (zlen grid - 1) s /\ zlen ivs <= k.
Proof. exact chunks_kept_spec. Qed.
Print Assumptions C17_kept.

(* the guard on n_chunks_kept is needed: 0 raises (ZeroDivisionError) *)
Theorem C17_kept_zero_raises : forall grid : list Z, chunks_kept grid 0 = None.
Proof. intros grid. reflexivity. Qed.
Print Assumptions C17_kept_zero_raises.

(* _times_in_chunks: for kept chunks a0 <= b0 <= a1 <= b1 ... (equal neighbours allowed: with
   stride 1 every inner bound appears twice), the parity of searchsorted(.., 'right') says exactly
   "t lies in some kept chunk [a, b)" *)
Theorem C17_parity : forall (ivs : list iv) (lo t : Z), ordered lo ivs ->
  (in_chunks (flat ivs) t = true <-> in_some ivs t).
Proof. exact parity_spec. Qed.
Print Assumptions C17_parity.

(* on a non-decreasing grid the kept chunks of C17_kept are in that order, so the parity test of
   the selector is membership in a kept chunk *)
Theorem C17_in_chunks : forall (grid : list Z) (k : Z), sortedZ grid -> 1 <= k -> 1 <= zlen grid ->
  exists ivs, chunks_kept grid k = Some (flat ivs) /\
              forall t, in_chunks (flat ivs) t = true <-> in_some ivs t.
Proof.
  intros grid k Hg Hk Hl. destruct (chunks_kept_spec grid k Hk Hl) as (ivs & E & HK).
  destruct (kept_ordered grid k _ ivs Hg HK) as (lo & Ho).
  exists ivs. split; [exact E|]. intros t. exact (parity_spec ivs lo t Ho).
Qed.
Print Assumptions C17_in_chunks.

(* SpikeSelector.__call__, whole statement.  For EVERY oracle [choose] standing for
   np.random.choice(ids, m, replace=False) that returns m distinct members of ids, every spike
   time / cluster vector of equal lengths (times need not be sorted), every non-decreasing grid
   with at least one bound, every n_chunks_kept >= 1, every count (None, <= 0, small, large), every
   request list (empty, unknown ids, repetitions), chunk restriction on/off, optional subset
   (any integers, repetitions allowed): the call returns an array r that
   - is strictly increasing,
   - contains only spikes eligible for some requested cluster (cluster, kept chunk, subset),
   - and for each requested cluster c, the members of r with cluster c are all of elig c when the
     count is None / <= 0 / >= |elig c|, and exactly `count` many otherwise. *)
Theorem C17_select : forall (choose : nat -> list Z -> Z -> list Z)
    (times clusters grid : list Z) (k : Z) (n : option Z) (req : list Z) (sc : bool)
    (sub : option (list Z)),
  (forall j ids m, NoDup ids -> 0 < m < zlen ids ->
     NoDup (choose j ids m) /\ zlen (choose j ids m) = m /\ incl (choose j ids m) ids) ->
  length times = length clusters -> sortedZ grid -> 1 <= zlen grid -> 1 <= k ->
  exists ivs r,
    chunks_kept grid k = Some (flat ivs) /\
    Kept_Stride grid k (stride (zlen grid - 1) k) ivs /\
    selector_call choose times clusters grid k n req sc sub = Some r /\
    StronglySorted Z.lt r /\
    (forall i, In i r -> exists c, In c req /\ Eligible times clusters ivs sc sub c i) /\
    (forall c, In c req ->
       Count_Spec n (elig times clusters ivs sc sub c) (filter (has_cluster clusters c) r)).
Proof. exact selector_spec. Qed.
Print Assumptions C17_select.

(* the same through TemplateModel.save_spikes_subset_waveforms (n_chunks_kept = 20, chunk
   restriction on, every template that has spikes requested, no subset): the saved spike ids are
   strictly increasing, lie in kept chunks, and hold, for EVERY template id c, all its spikes in
   kept chunks when they number at most max_n_spikes_per_template and exactly that many otherwise *)
Theorem C17_route : forall (choose : nat -> list Z -> Z -> list Z)
    (samples templates grid : list Z) (nst : Z),
  (forall j ids m, NoDup ids -> 0 < m < zlen ids ->
     NoDup (choose j ids m) /\ zlen (choose j ids m) = m /\ incl (choose j ids m) ids) ->
  length samples = length templates -> sortedZ grid -> 1 <= zlen grid -> 1 <= nst ->
  exists ivs r,
    chunks_kept grid 20 = Some (flat ivs) /\
    Kept_Stride grid 20 (stride (zlen grid - 1) 20) ivs /\
    route choose samples templates grid nst = Some r /\
    StronglySorted Z.lt r /\
    (forall i, In i r -> exists c, Eligible samples templates ivs true None c i) /\
    (forall c, Count_Spec (Some nst) (elig samples templates ivs true None c)
                          (filter (has_cluster templates c) r)).
Proof. exact route_spec. Qed.
Print Assumptions C17_route.

(* the list [elig c] used above is exactly the set of eligible spikes, in increasing order *)
Theorem C17_eligible_meaning : forall (times clusters : list Z) (ivs : list iv) (sc : bool)
    (sub : option (list Z)) (c : Z),
  StronglySorted Z.lt (elig times clusters ivs sc sub c) /\
  forall i, In i (elig times clusters ivs sc sub c) <-> Eligible times clusters ivs sc sub c i.
Proof.
  intros. split; [apply elig_ss|]. intros i. rewrite elig_In. apply eligible_b_iff.
Qed.
Print Assumptions C17_eligible_meaning.

(* unknown clusters contribute nothing: they have no eligible spike, every returned spike belongs
   to a requested cluster that occurs in the cluster vector, and a request without any known
   cluster (in particular the empty request) returns the empty array *)
Theorem C17_unknown : forall (times clusters : list Z) (ivs : list iv) (sc : bool)
    (sub : option (list Z)) (n : option Z) (req r : list Z),
  (forall c, ~ In c clusters -> elig times clusters ivs sc sub c = []) /\
  (Select_Spec times clusters ivs sc sub n req r ->
     (forall i, In i r -> exists c, In c req /\ In c clusters) /\
     ((forall c, In c req -> ~ In c clusters) -> r = [])).
Proof.
  intros. split; [intros c; apply elig_unknown|apply select_unknown].
Qed.
Print Assumptions C17_unknown.

(* the boolean checkers run on the implementation's outputs imply the statements *)
Theorem C17_checker_sound : forall (times clusters grid : list Z) (k : Z) (ivs : list iv) (sc : bool)
    (sub : option (list Z)) (n : option Z) (req r kept : list Z),
  (kept_spec_b grid k kept = true -> exists ivs', kept = flat ivs' /\ Kept_Spec grid k ivs') /\
  (select_spec_b times clusters ivs sc sub n req r = true ->
   Select_Spec times clusters ivs sc sub n req r).
Proof.
  intros. split; [apply kept_spec_b_sound|apply select_spec_b_sound].
Qed.
Print Assumptions C17_checker_sound.

(* the oracle hypothesis of C17_select is satisfiable (so the theorem is not vacuous): taking the
   first m members is one admissible np.random.choice *)
Theorem C17_oracle_satisfiable : forall j ids m, NoDup ids -> 0 < m < zlen ids ->
  NoDup (choose0 j ids m) /\ zlen (choose0 j ids m) = m /\ incl (choose0 j ids m) ids.
Proof. exact choose0_ok. Qed.
Print Assumptions C17_oracle_satisfiable.

(* ---- non-vacuity: concrete, non-trivial instances ---- *)
(* 5 chunks, 3 requested: stride 2, chunks 0, 2, 4 *)
Example C17_ex_kept : chunks_kept [0; 10; 20; 30; 40; 50] 3 = Some [0; 10; 20; 30; 40; 50] /\
                      chunks_kept [0; 10; 20; 30; 40; 50] 2 = Some [0; 10; 30; 40] /\
                      chunks_kept [0; 10; 20] 7 = Some [0; 10; 10; 20].
Proof. vm_compute. auto. Qed.
(* spikes exactly on bounds: 0 and 30 are in, 10 and 40 are out *)
Example C17_ex_parity :
  map (in_chunks [0; 10; 30; 40]) [-1; 0; 9; 10; 29; 30; 39; 40; 41] =
  [false; true; true; false; false; true; true; false; false].
Proof. vm_compute. reflexivity. Qed.
(* premises of C17_select hold and the call sub-samples cluster 1 (4 eligible, 2 requested),
   takes all of cluster 2 (1 eligible: spike 5 at time 10 is on an upper bound, spike 7 is not in
   the subset) and nothing for the unknown cluster 9 *)
Example C17_ex_select :
  let times := [0; 1; 5; 9; 10; 10; 30; 35; 39; 40] in
  let clusters := [1; 1; 2; 1; 1; 2; 1; 2; 1; 1] in
  length times = length clusters /\ sortedZ [0; 10; 20; 30; 40; 50] /\
  elig times clusters [mkiv 0 10; mkiv 30 40] true (Some [0; 1; 2; 3; 4; 5; 6; 9]) 1 = [0; 1; 3; 6] /\
  selector_call choose0 times clusters [0; 10; 20; 30; 40; 50] 2 (Some 2) [2; 9; 1] true
                (Some [0; 1; 2; 3; 4; 5; 6; 9]) = Some [0; 1; 2].
Proof. vm_compute. repeat split; repeat constructor; lia. Qed.

(* ===== stage 3: tightness, order independence, checker completeness, error exits, link to C07 ===== *)

(* The specification is TIGHT.  Under the premises of C17_select, an array r satisfies the three
   clauses of the statement (Select_Spec: strictly increasing, only eligible spikes of requested
   clusters, per requested cluster all eligible ones or exactly the count) IF AND ONLY IF some
   admissible np.random.choice makes SpikeSelector.__call__ return r.  So C17_select loses nothing:
   the statement describes exactly the set of arrays the code can return, and the comparator's
   relational judgement (clauses 22-26) accepts exactly the outputs the model can produce. *)
Theorem C17_select_exact : forall (times clusters grid : list Z) (k : Z) (n : option Z) (req : list Z)
    (sc : bool) (sub : option (list Z)),
  length times = length clusters -> sortedZ grid -> 1 <= zlen grid -> 1 <= k ->
  exists ivs, chunks_kept grid k = Some (flat ivs) /\
    forall r, Select_Spec times clusters ivs sc sub n req r <->
              exists choose,
                (forall j ids m, NoDup ids -> 0 < m < zlen ids ->
                   NoDup (choose j ids m) /\ zlen (choose j ids m) = m /\ incl (choose j ids m) ids) /\
                selector_call choose times clusters grid k n req sc sub = Some r.
Proof. exact selector_exact. Qed.
Print Assumptions C17_select_exact.

(* The request list matters only through its SET of members: order and repetitions of the requested
   clusters are irrelevant.  (a) For every oracle whose draw depends only on the candidate list and
   the count (not on the position of the cluster in the request list) the two calls return the same
   array or both raise -- no premise on lengths, grid or oracle admissibility is needed.  (b) For
   arbitrary admissible oracles (NumPy's generator is stateful, so a reordering hands different draws
   to the clusters) the SET of arrays that can be returned is the same. *)
Theorem C17_request_order : forall (times clusters grid : list Z) (k : Z) (n : option Z)
    (req req' : list Z) (sc : bool) (sub : option (list Z)),
  (forall c, In c req <-> In c req') ->
  (forall choose, (forall j j' ids m, choose j ids m = choose j' ids m) ->
     selector_call choose times clusters grid k n req sc sub =
     selector_call choose times clusters grid k n req' sc sub) /\
  (length times = length clusters -> sortedZ grid -> 1 <= zlen grid -> 1 <= k ->
   forall r, (exists choose, Choose_OK choose /\
                             selector_call choose times clusters grid k n req sc sub = Some r) <->
             (exists choose, Choose_OK choose /\
                             selector_call choose times clusters grid k n req' sc sub = Some r)).
Proof. exact selector_members. Qed.
Print Assumptions C17_request_order.

(* save_spikes_subset_waveforms requests sorted(spt.keys()); requesting the templates that have
   spikes in any other order (or with repetitions) gives the same saved spike ids for index-free
   oracles, and the same set of possible saved spike ids for admissible ones.  (Hence replacing
   `sorted(spt.keys())` by `list(spt.keys())` cannot break the property.) *)
Theorem C17_route_order : forall (samples templates grid : list Z) (nst : Z) (req' : list Z),
  (forall c, In c req' <-> In c templates) -> 1 <= nst ->
  (forall choose, (forall j j' ids m, choose j ids m = choose j' ids m) ->
     selector_call choose samples templates grid 20 (Some nst) req' true None =
     route choose samples templates grid nst) /\
  (length samples = length templates -> sortedZ grid -> 1 <= zlen grid ->
   forall r, (exists choose, Choose_OK choose /\ route choose samples templates grid nst = Some r) <->
             (exists choose, Choose_OK choose /\
                selector_call choose samples templates grid 20 (Some nst) req' true None = Some r)).
Proof. exact route_order. Qed.
Print Assumptions C17_route_order.

(* the boolean checkers are complete: with C17_checker_sound, kept_spec_b / select_spec_b decide
   Kept_Spec / Select_Spec exactly (the grid has at least one bound) *)
Theorem C17_checker_complete : forall (times clusters grid : list Z) (k : Z) (ivs ivs' : list iv)
    (sc : bool) (sub : option (list Z)) (n : option Z) (req r : list Z),
  (1 <= zlen grid -> Kept_Spec grid k ivs' -> kept_spec_b grid k (flat ivs') = true) /\
  (Select_Spec times clusters ivs sc sub n req r ->
   select_spec_b times clusters ivs sc sub n req r = true).
Proof.
  intros. split; [apply kept_spec_b_complete|apply select_spec_b_complete].
Qed.
Print Assumptions C17_checker_complete.

(* error exits.  (a) IndexError of self.spike_times[spike_ids]: if a requested cluster has a spike
   whose position is beyond the end of spike_times the call raises, for every oracle (the premise
   "equal lengths" of C17_select cannot be weakened to "any lengths").  (b) `assert nst > 0`. *)
Theorem C17_error_exits : forall (choose : nat -> list Z -> Z -> list Z)
    (times clusters kept grid : list Z) (n : option Z) (sc : bool) (sub : option (list Z))
    (req : list Z) (c i nst : Z),
  (0 <= i -> nth_error clusters (Z.to_nat i) = Some c -> (length times <= Z.to_nat i)%nat -> In c req ->
   select choose times clusters kept n sc sub req = None) /\
  (nst <= 0 -> route choose times clusters grid nst = None).
Proof.
  intros. split; [apply select_index_error|apply route_guard].
Qed.
Print Assumptions C17_error_exits.

(* link to C07: on C07's line-by-line model of _spikes_per_cluster (stable argsort, diff, nonzero,
   dictionary comprehension) the dictionary spt has its keys in increasing order, equal to
   np.unique(spike_templates) -- so sorted(spt.keys()) = list(spt.keys()) = the request list of
   [route] -- and spt.get(c, empty) is [spikes_of c 0], the reading used by C17's model, for EVERY c
   (present or not). *)
Theorem C17_spikes_per_cluster_link : forall sc : list Z,
  exists d, C07.Model.spikes_per_cluster sc None = Some d /\
            map C07.Model.g_key d = unique sc /\
            forall c, spt_get d c = spikes_of c 0 sc.
Proof. exact spc_link. Qed.
Print Assumptions C17_spikes_per_cluster_link.

(* calls in which no requested cluster is sub-sampled (count None / <= 0 / >= the number of eligible
   spikes, for every requested cluster) are DETERMINED: every oracle -- admissible or not -- gives
   the same array r0, and r0 is the only array satisfying the statement.  This is exactly the case
   in which the comparator demands equality with the model (code 1); in all other calls it judges
   by the clauses only. *)
Theorem C17_determined : forall (times clusters grid : list Z) (k : Z) (n : option Z) (req : list Z)
    (sc : bool) (sub : option (list Z)),
  length times = length clusters -> sortedZ grid -> 1 <= zlen grid -> 1 <= k ->
  exists ivs, chunks_kept grid k = Some (flat ivs) /\
    ((forall c, In c req -> subsamples n (zlen (elig times clusters ivs sc sub c)) = false) ->
     exists r0, (forall choose, selector_call choose times clusters grid k n req sc sub = Some r0) /\
                (forall r, Select_Spec times clusters ivs sc sub n req r <-> r = r0)).
Proof. exact selector_determined. Qed.
Print Assumptions C17_determined.

(* WHICH regular stride.  The statement's "regular stride ... never more than the requested number"
   is read with the anchored mechanism (stride = ceil(n_chunks / n_chunks_kept)), stated without the
   formula as Kept_Dense: the densest regular selection from the first chunk that fits, i.e. no
   smaller stride keeps <= k chunks.  For every grid with at least one bound and every k >= 1:
   the kept chunks satisfy Kept_Dense; Kept_Dense has exactly one solution, so chunks_kept is
   DETERMINED by the reading (an array is the model's chunks_kept iff it flattens a Kept_Dense list);
   the checker kept_dense_b (comparator clause 27) decides it. *)
Theorem C17_kept_densest : forall (grid : list Z) (k : Z), 1 <= k -> 1 <= zlen grid ->
  (exists ivs, chunks_kept grid k = Some (flat ivs) /\ Kept_Dense grid k ivs) /\
  (forall ivs ivs', Kept_Dense grid k ivs -> Kept_Dense grid k ivs' -> ivs = ivs') /\
  (forall kept, chunks_kept grid k = Some kept <-> exists ivs, kept = flat ivs /\ Kept_Dense grid k ivs) /\
  (forall kept, kept_dense_b grid k kept = true <-> exists ivs, kept = flat ivs /\ Kept_Dense grid k ivs).
Proof.
  intros grid k Hk Hl. split; [now apply chunks_kept_dense|]. split; [apply kept_dense_unique|].
  split; [intros kept; now apply kept_exact|]. intros kept. split; [apply kept_dense_b_sound|].
  intros (ivs & -> & H). now apply kept_dense_b_complete.
Qed.
Print Assumptions C17_kept_densest.

(* ---- non-vacuity of the stage-3 theorems ---- *)
(* an admissible draw other than choose0's: clusters 1 -> {3, 6}, the array [2; 3; 6] satisfies the
   checker and is returned under the oracle chooseR [2; 3; 6] *)
Example C17_ex_exact :
  let times := [0; 1; 5; 9; 10; 10; 30; 35; 39; 40] in
  let clusters := [1; 1; 2; 1; 1; 2; 1; 2; 1; 1] in
  let sub := Some [0; 1; 2; 3; 4; 5; 6; 9] in
  select_spec_b times clusters [mkiv 0 10; mkiv 30 40] true sub (Some 2) [2; 9; 1] [2; 3; 6] = true /\
  selector_call (chooseR [2; 3; 6]) times clusters [0; 10; 20; 30; 40; 50] 2 (Some 2) [2; 9; 1] true sub
    = Some [2; 3; 6] /\
  selector_call choose0 times clusters [0; 10; 20; 30; 40; 50] 2 (Some 2) [2; 9; 1] true sub
    = Some [0; 1; 2] /\
  select_spec_b times clusters [mkiv 0 10; mkiv 30 40] true sub (Some 2) [2; 9; 1] [2; 3] = false.
Proof. vm_compute. auto. Qed.
(* reordered request with repetitions: same result *)
Example C17_ex_request_order :
  let times := [0; 1; 5; 9; 10; 10; 30; 35; 39; 40] in
  let clusters := [1; 1; 2; 1; 1; 2; 1; 2; 1; 1] in
  (forall c, In c [2; 9; 1] <-> In c [1; 1; 9; 2; 2]) /\
  selector_call choose0 times clusters [0; 10; 20; 30; 40; 50] 2 (Some 2) [1; 1; 9; 2; 2] true None =
  selector_call choose0 times clusters [0; 10; 20; 30; 40; 50] 2 (Some 2) [2; 9; 1] true None /\
  selector_call choose0 times clusters [0; 10; 20; 30; 40; 50] 2 (Some 2) [2; 9; 1] true None
    = Some [0; 1; 2; 7].
Proof. split; [intros c; cbn [In]; intuition|vm_compute; auto]. Qed.
(* the route with templates requested in decreasing order *)
Example C17_ex_route_order :
  route choose0 [0; 1; 5; 9; 10; 10; 30] [4; 1; 4; 1; 1; 4; 1] [0; 10; 20; 30; 40] 1 = Some [0; 1] /\
  selector_call choose0 [0; 1; 5; 9; 10; 10; 30] [4; 1; 4; 1; 1; 4; 1] [0; 10; 20; 30; 40] 20 (Some 1)
                [4; 1] true None = Some [0; 1].
Proof. vm_compute. auto. Qed.
Example C17_ex_error_exits :
  select choose0 [0] [1; 1] [0; 10] None false None [1] = None /\
  select choose0 [0] [1; 2] [0; 10] None false None [1] = Some [0] /\
  route choose0 [0] [1] [0; 10] 0 = None.
Proof. vm_compute. auto. Qed.
Example C17_ex_link :
  C07.Model.spikes_per_cluster [7; 0; 3; 3; 0; 7; 2] None =
    Some [C07.Model.mkg 0 [1; 4]; C07.Model.mkg 2 [6]; C07.Model.mkg 3 [2; 3]; C07.Model.mkg 7 [0; 5]] /\
  unique [7; 0; 3; 3; 0; 7; 2] = [0; 2; 3; 7] /\ spikes_of 3 0 [7; 0; 3; 3; 0; 7; 2] = [2; 3] /\
  spikes_of 5 0 [7; 0; 3; 3; 0; 7; 2] = [].
Proof. vm_compute. auto. Qed.
(* count 4 >= the 4 (cluster 1) and 1 (cluster 2) eligible spikes: nothing is sub-sampled, an oracle
   returning garbage is never consulted *)
Example C17_ex_determined :
  let times := [0; 1; 5; 9; 10; 10; 30; 35; 39; 40] in
  let clusters := [1; 1; 2; 1; 1; 2; 1; 2; 1; 1] in
  let sub := Some [0; 1; 2; 3; 4; 5; 6; 9] in
  forallb (fun c => negb (subsamples (Some 4) (zlen (elig times clusters [mkiv 0 10; mkiv 30 40] true sub c))))
          [2; 9; 1] = true /\
  selector_call (fun _ _ _ => [77]) times clusters [0; 10; 20; 30; 40; 50] 2 (Some 4) [2; 9; 1] true sub
    = Some [0; 1; 2; 3; 6].
Proof. vm_compute. auto. Qed.
(* 2 chunks, 7 requested: keeping only the first chunk (stride 2) is "a regular stride, not more than
   7" but not the densest such selection; the code keeps both *)
Example C17_ex_kept_densest :
  kept_spec_b [0; 10; 20] 7 [0; 10] = true /\ kept_dense_b [0; 10; 20] 7 [0; 10] = false /\
  kept_dense_b [0; 10; 20] 7 [0; 10; 10; 20] = true /\
  kept_dense_b [0; 10; 20; 30; 40; 50] 2 [0; 10; 30; 40] = true /\
  kept_dense_b [0; 10; 20; 30; 40; 50] 2 [0; 10] = false.
Proof. vm_compute. auto. Qed.

(* ===== round 2: histories of calls on ONE SpikeSelector object (Calls.v) ===== *)

(* __call__ assigns no attribute of the selector, so in the model the object after a call is the
   object before it.  Consequence: in ANY sequence of calls on one selector (each with its own count,
   request list, subset_chunks flag, subset and its own random draws [choose j]) the result of call
   number j is the result of that very call on a freshly built selector (selector_call, the function
   C17_select speaks about) -- it does not depend on the calls made before it.  The correspondence
   observes exactly this on the code (case kind `seq`: 2-4 calls on one object, every call judged by
   the clauses of a single call; seeded change C17-m5, a per-cluster cache keyed by the cluster id
   only, breaks it). *)
Theorem C17_calls_independent : forall (choose : nat -> nat -> list Z -> Z -> list Z)
    (times clusters grid : list Z) (k : Z) (calls : list call) (rs : list (option (list Z)))
    (j : nat) (c : call),
  selector_calls choose times clusters grid k calls = Some rs ->
  nth_error calls j = Some c ->
  nth_error rs j = Some (selector_call (choose j) times clusters grid k (c_n c) (c_req c) (c_sc c) (c_sub c)).
Proof. exact calls_independent. Qed.
Print Assumptions C17_calls_independent.

(* two histories that end with the same call (same random draws) end with the same answer *)
Theorem C17_history_irrelevant : forall (choose : nat -> list Z -> Z -> list Z)
    (times clusters grid : list Z) (k : Z) (pre pre' : list call) (c : call)
    (rs rs' : list (option (list Z))),
  selector_calls (fun _ => choose) times clusters grid k (pre ++ [c]) = Some rs ->
  selector_calls (fun _ => choose) times clusters grid k (pre' ++ [c]) = Some rs' ->
  last rs None = last rs' None.
Proof. exact calls_history_irrelevant. Qed.
Print Assumptions C17_history_irrelevant.

(* hence EVERY call of EVERY history satisfies the whole statement of C17_select, with the chunk
   restriction / subset / count of that call alone *)
Theorem C17_calls_select : forall (choose : nat -> nat -> list Z -> Z -> list Z)
    (times clusters grid : list Z) (k : Z) (calls : list call),
  (forall q j ids m, NoDup ids -> 0 < m < zlen ids ->
     NoDup (choose q j ids m) /\ zlen (choose q j ids m) = m /\ incl (choose q j ids m) ids) ->
  length times = length clusters -> sortedZ grid -> 1 <= zlen grid -> 1 <= k ->
  exists ivs rs,
    chunks_kept grid k = Some (flat ivs) /\
    Kept_Stride grid k (stride (zlen grid - 1) k) ivs /\
    selector_calls choose times clusters grid k calls = Some rs /\
    length rs = length calls /\
    forall j c, nth_error calls j = Some c ->
      exists r, nth_error rs j = Some (Some r) /\
        StronglySorted Z.lt r /\
        (forall i, In i r -> exists cl, In cl (c_req c) /\ Eligible times clusters ivs (c_sc c) (c_sub c) cl i) /\
        (forall cl, In cl (c_req c) ->
           Count_Spec (c_n c) (elig times clusters ivs (c_sc c) (c_sub c) cl) (filter (has_cluster clusters cl) r)).
Proof. exact calls_select. Qed.
Print Assumptions C17_calls_select.

(* cluster 1 asked with the chunk restriction, then without it, then with it again, on one selector
   (kept chunks [0,10) and [30,40)): its 5 spikes in kept chunks, then all 7, then the 5 again (with
   the 2 of cluster 2) -- the answers of the three calls made alone.  (Under C17-m5 the second call
   returns the 5 spikes of the first.) *)
Example C17_ex_calls :
  let times := [0; 1; 5; 9; 10; 10; 30; 35; 39; 40] in
  let clusters := [1; 1; 2; 1; 1; 2; 1; 2; 1; 1] in
  let grid := [0; 10; 20; 30; 40; 50] in
  selector_calls (fun _ => choose0) times clusters grid 2
    [mkcall None [1] true None; mkcall None [1] false None; mkcall None [1; 2] true None] =
    Some [Some [0; 1; 3; 6; 8]; Some [0; 1; 3; 4; 6; 8; 9]; Some [0; 1; 2; 3; 6; 7; 8]] /\
  selector_call choose0 times clusters grid 2 None [1] false None = Some [0; 1; 3; 4; 6; 8; 9].
Proof. vm_compute. auto. Qed.
