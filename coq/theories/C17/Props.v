(* C17/Props.v -- the property theorems, and nothing else.  Each is closed by [exact] of a lemma of
   Proofs*.v and followed by Print Assumptions.

   Vocabulary (Spec.v):  flat ivs = [a0; b0; a1; b1; ...] (the array selector.chunks_kept);
   KeptAt grid s 0 ivs = "kept chunk number j is [grid[j*s], grid[j*s+1])" (read with nth_error);
   in_some ivs t = "some kept chunk has a <= t < b";
   Eligible c i = "spike i exists and has cluster c, lies in a kept chunk if the chunk restriction
   is on, and is in the subset if one is given";  elig c = the increasing list of those spikes;
   Count_Spec n E R = "R = E when n is None, n <= 0 or |E| <= n, and |R| = n otherwise". *)
From Coq Require Import ZArith List Lia Bool Sorted.
From PV Require Import Base.PySlice Base.NpSearch C17.Model C17.Spec C17.Proofs C17.Proofs2 C17.Proofs3.
Import ListNotations.
Open Scope Z_scope.

(* SpikeSelector.__init__: for every grid with at least one bound and every n_chunks_kept >= 1 the
   kept chunks are the grid intervals number 0, s, 2s, ... with s = max 1 ceil(n_chunks / k), all
   ceil(n_chunks / s) of them, and that number never exceeds k. *)
Theorem C17_kept : forall (grid : list Z) (k : Z), 1 <= k -> 1 <= zlen grid ->
  exists ivs, chunks_kept grid k = Some (flat ivs) /\
    let s := stride (zlen grid - 1) k in
    1 <= s /\ KeptAt grid s 0 ivs /\ zlen ivs = cdiv (zlen grid - 1) s /\ zlen ivs <= k.
Proof. exact chunks_kept_spec. Qed.
Print Assumptions C17_kept.

(* the guard on n_chunks_kept is needed: 0 raises (ZeroDivisionError) *)
Theorem C17_kept_zero_raises : forall grid : list Z, chunks_kept grid 0 = None.
Proof. intros grid. reflexivity. Qed.
Print Assumptions C17_kept_zero_raises.

(* _times_in_chunks: for kept chunks a0 <= b0 <= a1 <= b1 ... (equal neighbours allowed: with
   stride 1 every inner bound appears twice), the parity of searchsorted(.., 'right') says exactly
   "t lies in some kept chunk [a, b)" *)
Theorem C17_parity : forall (ivs : list iv) (lo t : Z), ordered lo ivs ->
  (in_chunks (flat ivs) t = true <-> in_some ivs t).
Proof. exact parity_spec. Qed.
Print Assumptions C17_parity.

(* on a non-decreasing grid the kept chunks of C17_kept are in that order, so the parity test of
   the selector is membership in a kept chunk *)
Theorem C17_in_chunks : forall (grid : list Z) (k : Z), sortedZ grid -> 1 <= k -> 1 <= zlen grid ->
  exists ivs, chunks_kept grid k = Some (flat ivs) /\
              forall t, in_chunks (flat ivs) t = true <-> in_some ivs t.
Proof.
  intros grid k Hg Hk Hl. destruct (chunks_kept_spec grid k Hk Hl) as (ivs & E & HK).
  destruct (kept_ordered grid k _ ivs Hg HK) as (lo & Ho).
  exists ivs. split; [exact E|]. intros t. exact (parity_spec ivs lo t Ho).
Qed.
Print Assumptions C17_in_chunks.

(* SpikeSelector.__call__, whole statement.  For EVERY oracle [choose] standing for
   np.random.choice(ids, m, replace=False) that returns m distinct members of ids, every spike
   time / cluster vector of equal lengths (times need not be sorted), every non-decreasing grid
   with at least one bound, every n_chunks_kept >= 1, every count (None, <= 0, small, large), every
   request list (empty, unknown ids, repetitions), chunk restriction on/off, optional subset
   (any integers, repetitions allowed): the call returns an array r that
   - is strictly increasing,
   - contains only spikes eligible for some requested cluster (cluster, kept chunk, subset),
   - and for each requested cluster c, the members of r with cluster c are all of elig c when the
     count is None / <= 0 / >= |elig c|, and exactly `count` many otherwise. *)
Theorem C17_select : forall (choose : nat -> list Z -> Z -> list Z)
    (times clusters grid : list Z) (k : Z) (n : option Z) (req : list Z) (sc : bool)
    (sub : option (list Z)),
  (forall j ids m, NoDup ids -> 0 < m < zlen ids ->
     NoDup (choose j ids m) /\ zlen (choose j ids m) = m /\ incl (choose j ids m) ids) ->
  length times = length clusters -> sortedZ grid -> 1 <= zlen grid -> 1 <= k ->
  exists ivs r,
    chunks_kept grid k = Some (flat ivs) /\
    Kept_Stride grid k (stride (zlen grid - 1) k) ivs /\
    selector_call choose times clusters grid k n req sc sub = Some r /\
    StronglySorted Z.lt r /\
    (forall i, In i r -> exists c, In c req /\ Eligible times clusters ivs sc sub c i) /\
    (forall c, In c req ->
       Count_Spec n (elig times clusters ivs sc sub c) (filter (has_cluster clusters c) r)).
Proof. exact selector_spec. Qed.
Print Assumptions C17_select.

(* the same through TemplateModel.save_spikes_subset_waveforms (n_chunks_kept = 20, chunk
   restriction on, every template that has spikes requested, no subset): the saved spike ids are
   strictly increasing, lie in kept chunks, and hold, for EVERY template id c, all its spikes in
   kept chunks when they number at most max_n_spikes_per_template and exactly that many otherwise *)
Theorem C17_route : forall (choose : nat -> list Z -> Z -> list Z)
    (samples templates grid : list Z) (nst : Z),
  (forall j ids m, NoDup ids -> 0 < m < zlen ids ->
     NoDup (choose j ids m) /\ zlen (choose j ids m) = m /\ incl (choose j ids m) ids) ->
  length samples = length templates -> sortedZ grid -> 1 <= zlen grid -> 1 <= nst ->
  exists ivs r,
    chunks_kept grid 20 = Some (flat ivs) /\
    Kept_Stride grid 20 (stride (zlen grid - 1) 20) ivs /\
    route choose samples templates grid nst = Some r /\
    StronglySorted Z.lt r /\
    (forall i, In i r -> exists c, Eligible samples templates ivs true None c i) /\
    (forall c, Count_Spec (Some nst) (elig samples templates ivs true None c)
                          (filter (has_cluster templates c) r)).
Proof. exact route_spec. Qed.
Print Assumptions C17_route.

(* the list [elig c] used above is exactly the set of eligible spikes, in increasing order *)
Theorem C17_eligible_meaning : forall (times clusters : list Z) (ivs : list iv) (sc : bool)
    (sub : option (list Z)) (c : Z),
  StronglySorted Z.lt (elig times clusters ivs sc sub c) /\
  forall i, In i (elig times clusters ivs sc sub c) <-> Eligible times clusters ivs sc sub c i.
Proof.
  intros. split; [apply elig_ss|]. intros i. rewrite elig_In. apply eligible_b_iff.
Qed.
Print Assumptions C17_eligible_meaning.

(* unknown clusters contribute nothing: they have no eligible spike, every returned spike belongs
   to a requested cluster that occurs in the cluster vector, and a request without any known
   cluster (in particular the empty request) returns the empty array *)
Theorem C17_unknown : forall (times clusters : list Z) (ivs : list iv) (sc : bool)
    (sub : option (list Z)) (n : option Z) (req r : list Z),
  (forall c, ~ In c clusters -> elig times clusters ivs sc sub c = []) /\
  (Select_Spec times clusters ivs sc sub n req r ->
     (forall i, In i r -> exists c, In c req /\ In c clusters) /\
     ((forall c, In c req -> ~ In c clusters) -> r = [])).
Proof.
  intros. split; [intros c; apply elig_unknown|apply select_unknown].
Qed.
Print Assumptions C17_unknown.

(* the boolean checkers run on the implementation's outputs imply the statements *)
Theorem C17_checker_sound : forall (times clusters grid : list Z) (k : Z) (ivs : list iv) (sc : bool)
    (sub : option (list Z)) (n : option Z) (req r kept : list Z),
  (kept_spec_b grid k kept = true -> exists ivs', kept = flat ivs' /\ Kept_Spec grid k ivs') /\
  (select_spec_b times clusters ivs sc sub n req r = true ->
   Select_Spec times clusters ivs sc sub n req r).
Proof.
  intros. split; [apply kept_spec_b_sound|apply select_spec_b_sound].
Qed.
Print Assumptions C17_checker_sound.

(* the oracle hypothesis of C17_select is satisfiable (so the theorem is not vacuous): taking the
   first m members is one admissible np.random.choice *)
Theorem C17_oracle_satisfiable : forall j ids m, NoDup ids -> 0 < m < zlen ids ->
  NoDup (choose0 j ids m) /\ zlen (choose0 j ids m) = m /\ incl (choose0 j ids m) ids.
Proof. exact choose0_ok. Qed.
Print Assumptions C17_oracle_satisfiable.

(* ---- non-vacuity: concrete, non-trivial instances ---- *)
(* 5 chunks, 3 requested: stride 2, chunks 0, 2, 4 *)
Example C17_ex_kept : chunks_kept [0; 10; 20; 30; 40; 50] 3 = Some [0; 10; 20; 30; 40; 50] /\
                      chunks_kept [0; 10; 20; 30; 40; 50] 2 = Some [0; 10; 30; 40] /\
                      chunks_kept [0; 10; 20] 7 = Some [0; 10; 10; 20].
Proof. vm_compute. auto. Qed.
(* spikes exactly on bounds: 0 and 30 are in, 10 and 40 are out *)
Example C17_ex_parity :
  map (in_chunks [0; 10; 30; 40]) [-1; 0; 9; 10; 29; 30; 39; 40; 41] =
  [false; true; true; false; false; true; true; false; false].
Proof. vm_compute. reflexivity. Qed.
(* premises of C17_select hold and the call sub-samples cluster 1 (4 eligible, 2 requested),
   takes all of cluster 2 (1 eligible: spike 5 at time 10 is on an upper bound, spike 7 is not in
   the subset) and nothing for the unknown cluster 9 *)
Example C17_ex_select :
  let times := [0; 1; 5; 9; 10; 10; 30; 35; 39; 40] in
  let clusters := [1; 1; 2; 1; 1; 2; 1; 2; 1; 1] in
  length times = length clusters /\ sortedZ [0; 10; 20; 30; 40; 50] /\
  elig times clusters [mkiv 0 10; mkiv 30 40] true (Some [0; 1; 2; 3; 4; 5; 6; 9]) 1 = [0; 1; 3; 6] /\
  selector_call choose0 times clusters [0; 10; 20; 30; 40; 50] 2 (Some 2) [2; 9; 1] true
                (Some [0; 1; 2; 3; 4; 5; 6; 9]) = Some [0; 1; 2].
Proof. vm_compute. repeat split; repeat constructor; lia. Qed.
