(* C17/Props.v -- the property theorems, and nothing else. *)
From Coq Require Import ZArith List Lia Bool Sorted.
From PV Require Import Base.PySlice Base.NpSearch C17.Model C17.Spec C17.Proofs.
Import ListNotations.
Open Scope Z_scope.

(* _times_in_chunks: for kept chunks a0 <= b0 <= a1 <= b1 ... (equal neighbours allowed), the
   parity test says exactly "t lies in some kept chunk [a, b)" *)
Theorem C17_parity : forall (ivs : list iv) (lo t : Z), ordered lo ivs ->
  (in_chunks (flat ivs) t = true <-> in_some ivs t).
Proof. exact parity_spec. Qed.
Print Assumptions C17_parity.
