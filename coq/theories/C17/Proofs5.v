(* C17/Proofs5.v -- stage 3: calls in which no requested cluster is sub-sampled are determined:
   the returned array does not depend on np.random.choice and is the only array satisfying the
   statement (this is the case in which the comparator demands equality with the model). *)
From Coq Require Import ZArith List Lia Bool Sorted Permutation.
From PV Require Import Base.PySlice Base.NpSearch C17.Model C17.Spec C17.Proofs C17.Proofs2 C17.Proofs3
                       C17.Proofs4.
Import ListNotations.
Open Scope Z_scope.

Lemma sel_loop_det choose choose' times clusters kept n sc sub req :
  (forall c, In c req -> forall k, step choose times clusters kept n sc sub k c =
                                   step choose' times clusters kept n sc sub k c) ->
  forall k d, sel_loop choose times clusters kept n sc sub k req d =
              sel_loop choose' times clusters kept n sc sub k req d.
Proof.
  induction req as [|c r IH]; intros H k d; cbn [sel_loop]; [reflexivity|].
  rewrite (H c (or_introl eq_refl) k).
  destruct (step choose' times clusters kept n sc sub k c) as [v|]; [|reflexivity].
  apply IH. intros c' Hc'. apply H. now right.
Qed.

Lemma select_det_ivs choose choose' times clusters ivs lo n sc sub req :
  length times = length clusters -> ordered lo ivs ->
  (forall c, In c req -> subsamples n (zlen (elig times clusters ivs sc sub c)) = false) ->
  select choose times clusters (flat ivs) n sc sub req = select choose' times clusters (flat ivs) n sc sub req.
Proof.
  intros Hlen Hord Hdet. unfold select. destruct req as [|c0 q]; [reflexivity|].
  rewrite (sel_loop_det choose choose' times clusters (flat ivs) n sc sub (c0 :: q)); [reflexivity|].
  intros c Hc k. unfold step. rewrite (candidates_spec times clusters ivs lo sc sub c Hlen Hord).
  now rewrite (Hdet c Hc).
Qed.

Theorem selector_determined times clusters grid k n req sc sub :
  length times = length clusters -> sortedZ grid -> 1 <= zlen grid -> 1 <= k ->
  exists ivs, chunks_kept grid k = Some (flat ivs) /\
    ((forall c, In c req -> subsamples n (zlen (elig times clusters ivs sc sub c)) = false) ->
     exists r0, (forall choose, selector_call choose times clusters grid k n req sc sub = Some r0) /\
                (forall r, Select_Spec times clusters ivs sc sub n req r <-> r = r0)).
Proof.
  intros Hlen Hg Hl Hk.
  destruct (chunks_kept_spec grid k Hk Hl) as (ivs & E & HK).
  destruct (kept_ordered grid k _ ivs Hg HK) as (lo & Ho).
  exists ivs. split; [exact E|]. intros Hdet.
  destruct (select_spec choose0 choose0_ok times clusters ivs lo n sc sub Hlen Ho req) as (r0 & E0 & H0).
  exists r0. unfold selector_call. rewrite E. split.
  - intros choose. rewrite <- E0. now apply (select_det_ivs choose choose0 times clusters ivs lo).
  - intros r. split.
    + intros Hs. apply (select_exact_ivs times clusters ivs lo n sc sub req r Hlen Ho) in Hs
        as (choose & _ & Er).
      rewrite (select_det_ivs choose choose0 times clusters ivs lo n sc sub req Hlen Ho Hdet) in Er.
      rewrite E0 in Er. now injection Er as <-.
    + intros ->. exact H0.
Qed.
