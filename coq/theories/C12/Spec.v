(* C12/Spec.v -- the property, declaratively: "block structure by probe" as a statement about
   individual cells of the merged arrays (never about how they were produced), and boolean checkers
   written from those statements (they do not call the model). *)
From Coq Require Import ZArith List Bool Arith Lia.
From PV Require Import Base.NpSearch C12.Model.
Import ListNotations.
Open Scope Z_scope.

(* offs l k = l_0 + ... + l_(k-1): the index where block k starts *)
Definition offs (l : list nat) (k : nat) : nat := nsum (firstn k l).

(* out is made of consecutive blocks, one per element of src, in order; the i-th element b of block
   k sits at index offs k + i and is related to b by P k *)
Definition Blocks {B C} (P : nat -> B -> C -> Prop) (src : list (list B)) (out : list C) : Prop :=
  length out = nsum (map (@length B) src) /\
  forall k L i b, nth_error src k = Some L -> nth_error L i = Some b ->
    exists c, nth_error out (offs (map (@length B) src) k + i)%nat = Some c /\ P k b c.

Section Poly.
Context {A : Type} (zero : A).

(* row has n cells; it carries src at columns [j0, j0 + |src|) and zero everywhere else *)
Definition BlockRow (n j0 : nat) (src row : list A) : Prop :=
  length row = n /\ (j0 + length src <= n)%nat /\
  (forall c x, nth_error src c = Some x -> nth_error row (j0 + c) = Some x) /\
  (forall c, (c < n)%nat -> (c < j0 \/ j0 + length src <= c)%nat -> nth_error row c = Some zero).

Definition widths (Ts : list (list (list (list A)))) : list nat := map (@tshape2 A) Ts.

(* template t of probe k is merged template toff_k + t; each of its sample rows carries the probe's
   waveform on the probe's channel block [coff_k, coff_k + n_k) and zeros on all other channels *)
Definition TemplateBlocks (Ts : list (list (list (list A)))) (out : list (list (list A))) : Prop :=
  Blocks (fun k tm om => Forall2 (BlockRow (nsum (widths Ts)) (offs (widths Ts) k)) tm om) Ts out.

(* row i of matrix k is row roff_k + i of the merged matrix, on columns [coff_k, coff_k + c_k) *)
Definition BlockDiag (Ms : list (list (list A))) (out : list (list A)) : Prop :=
  Blocks (fun k r o => BlockRow (nsum (map (@mcols A) Ms)) (offs (map (@mcols A) Ms) k) r o) Ms out.

(* every row of every template / matrix of a probe has the probe's width *)
Definition RectT (T : list (list (list A))) : Prop :=
  forall tm r, In tm T -> In r tm -> length r = tshape2 T.
Definition RectM (M : list (list A)) : Prop := forall r, In r M -> length r = mcols M.
End Poly.

(* channels: probe label k on the whole block; the channel map and x are shifted by per-probe constants *)
Definition ChanLabels (cms : list (list Z)) (oprobe : list Z) : Prop :=
  Blocks (fun k (_ : Z) o => o = Z.of_nat k) cms oprobe.
Definition ChanMap (cms : list (list Z)) (omap : list Z) : Prop :=
  exists ds, length ds = length cms /\ Blocks (fun k v o => o = v + nth k ds 0) cms omap.
Definition PosBlocks (poss : list (list xy)) (opos : list xy) : Prop :=
  exists dxs, length dxs = length poss /\ Blocks (fun k p o => o = shift_x (nth k dxs 0) p) poss opos.

(* every channel of an earlier probe lies strictly to the left of every channel of a later probe *)
Definition Apart (lens : list nat) (opos : list xy) : Prop :=
  forall j k a b pa pb, (j < k)%nat -> (k < length lens)%nat ->
    (a < nth j lens 0)%nat -> (b < nth k lens 0)%nat ->
    nth_error opos (offs lens j + a) = Some pa -> nth_error opos (offs lens k + b) = Some pb ->
    px pa < px pb.

(* an index table: block k (rows of probe k) shifted by off k *)
Definition TableShift (off : nat -> Z) (ts : list (list (list Z))) (out : list (list Z)) : Prop :=
  Blocks (fun k row o => o = map (fun v => v + off k) row) ts out.
Definition NoWrap (off : nat -> Z) (ts : list (list (list Z))) : Prop :=
  forall k T row v, nth_error ts k = Some T -> In row T -> In v row -> 0 <= v + off k < 2 ^ 32.

(* ---------------------------------------------------------------------------------------------
   boolean checkers (run on the implementation's output by Corr.v)                              *)
Definition blocks_b {B C} (chk : nat -> B -> C -> bool) (src : list (list B)) (out : list C) : bool :=
  Nat.eqb (length out) (nsum (map (@length B) src)) &&
  forallb (fun k =>
    let L := nth k src [] in
    forallb (fun i => match nth_error L i, nth_error out (offs (map (@length B) src) k + i) with
                      | Some b, Some c => chk k b c
                      | _, _ => false
                      end) (seq 0 (length L))) (seq 0 (length src)).

Fixpoint forall2b {B C} (f : B -> C -> bool) (a : list B) (b : list C) : bool :=
  match a, b with
  | [], [] => true
  | x :: a', y :: b' => f x y && forall2b f a' b'
  | _, _ => false
  end.

Section PolyB.
Context {A : Type} (zero : A) (eqb : A -> A -> bool).

Definition blockrow_b (n j0 : nat) (src row : list A) : bool :=
  Nat.eqb (length row) n && Nat.leb (j0 + length src) n &&
  forallb (fun c => match nth_error row c with
                    | Some y => if Nat.leb j0 c && Nat.ltb c (j0 + length src)
                                then match nth_error src (c - j0) with Some x => eqb y x | None => false end
                                else eqb y zero
                    | None => false
                    end) (seq 0 n).

Definition template_blocks_b (Ts : list (list (list (list A)))) (out : list (list (list A))) : bool :=
  blocks_b (fun k tm om => forall2b (blockrow_b (nsum (widths Ts)) (offs (widths Ts) k)) tm om) Ts out.
Definition block_diag_b (Ms : list (list (list A))) (out : list (list A)) : bool :=
  blocks_b (fun k r o => blockrow_b (nsum (map (@mcols A) Ms)) (offs (map (@mcols A) Ms) k) r o) Ms out.
End PolyB.

Fixpoint zlist_eqb (a b : list Z) : bool :=
  match a, b with
  | [], [] => true
  | x :: a', y :: b' => (x =? y) && zlist_eqb a' b'
  | _, _ => false
  end.

Definition chan_labels_b (cms : list (list Z)) (oprobe : list Z) : bool :=
  blocks_b (fun k (_ : Z) o => o =? Z.of_nat k) cms oprobe.

(* the per-probe constant is read off the first cell of the block *)
Definition first_delta {B} (get : B -> Z) (src : list (list B)) (out : list B) (k : nat) : Z :=
  match nth k src [], nth_error out (offs (map (@length B) src) k) with
  | b :: _, Some c => get c - get b
  | _, _ => 0
  end.
Definition chan_map_b (cms : list (list Z)) (omap : list Z) : bool :=
  blocks_b (fun k v o => o =? v + first_delta (fun z => z) cms omap k) cms omap.
Definition pos_blocks_b (poss : list (list xy)) (opos : list xy) : bool :=
  blocks_b (fun k p o => (px o =? px p + first_delta px poss opos k) && (py o =? py p)) poss opos.

(* running maximum of the x of all earlier blocks < every x of the current block *)
Fixpoint apart_loop (prev : option Z) (lens : list nat) (opos : list xy) : bool :=
  match lens with
  | [] => true
  | n :: rest =>
      let blk := map px (firstn n opos) in
      match prev with
      | Some m => forallb (fun x => m <? x) blk
      | None => true
      end &&
      apart_loop (match list_max blk, prev with
                  | Some m', Some m => Some (Z.max m m')
                  | Some m', None => Some m'
                  | None, p => p
                  end) rest (skipn n opos)
  end.
Definition apart_b (lens : list nat) (opos : list xy) : bool := apart_loop None lens opos.

Definition table_shift_b (off : nat -> Z) (ts : list (list (list Z))) (out : list (list Z)) : bool :=
  blocks_b (fun k row o => zlist_eqb o (map (fun v => v + off k) row)) ts out.
