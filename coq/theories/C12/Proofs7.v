(* C12/Proofs7.v -- the error exits of the merge, exactly: the model is undefined (phylib raises) only when there is no
   probe (assert subdirs), a probe has an empty channel map or no channel position (ValueError of max()/min() of an
   empty array), or the probes' templates do not have the same number of samples (the assertion of write_templates). *)
From Coq Require Import ZArith List Bool Arith Lia.
From PV Require Import Base.NpSearch C12.Model C12.Spec C12.Proofs C12.Proofs2 C12.Proofs3.
Import ListNotations.
Open Scope Z_scope.

Lemma chan_loop_nonempty cms : forall ind offset n o, chan_loop ind offset n cms = Some o ->
  forall a, In a cms -> a <> [].
Proof.
  induction cms as [|a0 rest IH]; intros ind offset n o H a Ha; [contradiction|].
  cbn [chan_loop] in H. destruct a0 as [|v a0].
  - cbn in H. discriminate.
  - destruct (list_max (map (fun v0 => v0 + offset) (v :: a0))) as [mx|]; [|discriminate].
    destruct (chan_loop (ind + 1) mx _ rest) as [o'|] eqn:E; [|discriminate].
    destruct Ha as [<-|Ha]; [discriminate|]. exact (IH _ _ _ _ E a Ha).
Qed.

Lemma pos_loop_nonempty unit ps : forall xoff r, pos_loop unit xoff ps = Some r -> forall a, In a ps -> a <> [].
Proof.
  induction ps as [|a0 rest IH]; intros xoff r H a Ha; [contradiction|].
  cbn [pos_loop] in H. destruct a0 as [|q a0].
  - cbn in H. discriminate.
  - destruct (list_min _) as [mn|]; [|discriminate]. destruct (list_max _) as [mx|]; [|discriminate].
    destruct (pos_loop unit _ rest) as [r'|] eqn:E; [|discriminate].
    destruct Ha as [<-|Ha]; [discriminate|]. exact (IH _ _ E a Ha).
Qed.

Section Exits.
Context {A R : Type} (zero : A).

Lemma write_templates_same_ns (Ts : list (list (list (list A)))) out : write_templates zero Ts = Some out ->
  exists ns, forall T, In T Ts -> tshape1 T = ns.
Proof.
  unfold write_templates. destruct Ts as [|T0 rest]; [discriminate|].
  destruct (forallb _ (T0 :: rest)) eqn:E; [|discriminate]. intros _. exists (tshape1 T0).
  rewrite forallb_forall in E. intros T HT. apply Nat.eqb_eq. now apply E.
Qed.

Theorem merge_side_defined_iff unit (ps : list (probe A R)) :
  (exists m, merge_side zero unit ps = Some m) <->
  (ps <> [] /\ (forall p, In p ps -> p_cm p <> [] /\ p_pos p <> []) /\
   (exists ns, forall p, In p ps -> tshape1 (p_tmpl p) = ns)).
Proof.
  split.
  - intros [m Hm]. destruct (merge_side_inv zero unit ps m Hm) as (par & co & pos & T & H1 & H2 & H3 & H4 & _).
    split; [intros ->; discriminate|]. split.
    + intros p Hp. split.
      * unfold channel_data in H2. destruct (map p_cm ps) eqn:E; [discriminate|]. rewrite <- E in H2.
        destruct (chan_loop 0 0 0 (map p_cm ps)) as [o|] eqn:EL; [|discriminate].
        apply (chan_loop_nonempty _ _ _ _ _ EL). now apply in_map.
      * unfold channel_positions in H3. destruct (map p_pos ps) eqn:E; [discriminate|]. rewrite <- E in H3.
        destruct (pos_loop unit 0 (map p_pos ps)) as [r|] eqn:EL; [|discriminate].
        apply (pos_loop_nonempty _ _ _ _ EL). now apply in_map.
    + destruct (write_templates_same_ns _ _ H4) as [ns Hns]. exists ns. intros p Hp. apply Hns. now apply in_map.
  - intros (H1 & H2 & H3). now apply merge_side_defined.
Qed.

(* which exit: with at least one probe and non-empty channel arrays, the only remaining exit is the assertion *)
Theorem merge_side_assertion unit (ps : list (probe A R)) :
  ps <> [] -> (forall p, In p ps -> p_cm p <> [] /\ p_pos p <> []) ->
  (merge_side zero unit ps = None <-> exists p q, In p ps /\ In q ps /\ tshape1 (p_tmpl p) <> tshape1 (p_tmpl q)).
Proof.
  intros Hne Hch. split.
  - intros HN. destruct ps as [|p0 ps']; [congruence|].
    destruct (forallb (fun p => Nat.eqb (tshape1 (p_tmpl p)) (tshape1 (p_tmpl p0))) (p0 :: ps')) eqn:E.
    + rewrite forallb_forall in E.
      destruct (merge_side_defined zero unit (p0 :: ps') Hne Hch) as [m Hm]; [|congruence].
      exists (tshape1 (p_tmpl p0)). intros p Hp. apply Nat.eqb_eq. now apply E.
    + assert (exists p, In p (p0 :: ps') /\ tshape1 (p_tmpl p) <> tshape1 (p_tmpl p0)) as (p & Hp & Hd).
      { clear -E. induction (p0 :: ps') as [|x l IH]; [discriminate|]. cbn [forallb] in E.
        apply andb_false_iff in E as [E|E].
        - exists x. split; [now left|]. now apply Nat.eqb_neq.
        - destruct (IH E) as (p & Hp & Hd). exists p. split; [now right|exact Hd]. }
      exists p, p0. split; [exact Hp|]. split; [now left|exact Hd].
  - intros (p & q & Hp & Hq & Hd). destruct (merge_side zero unit ps) as [m|] eqn:E; [|reflexivity].
    destruct (proj1 (merge_side_defined_iff unit ps) (ex_intro _ m E)) as (_ & _ & ns & Hns).
    rewrite (Hns p Hp), (Hns q Hq) in Hd. congruence.
Qed.
End Exits.
