(* C12/Model.v -- executable model of the channel / template side of phylib.io.merge.Merger
   (write_channel_data, write_channel_positions, write_templates, write_template_data, write_misc,
   write_params) as repaired on branch fix-c12.  Loops are transcribed with their running variables
   (offset, n_channels, x_offset, the block_diag cursor); where NumPy raises the model returns None.
   No proofs here.

   Conventions: a probe's arrays are nested lists in C order.  Sample / matrix values are of an
   arbitrary type A with a distinguished zero (the theorems are about where values land, not about
   what they are).  Channel coordinates are integers in units of 1/unit (the correspondence uses
   unit = 4, i.e. quarter units; the repaired code's margin 1.0 is [unit]).  Index-table entries, ids
   and channel-map values are Z. *)
From Coq Require Import ZArith List Bool.
From PV Require Import Base.NpSearch.
Import ListNotations.
Open Scope Z_scope.

(* array.max() / array.min(): ValueError on an empty array *)
Definition list_max (l : list Z) : option Z :=
  match l with [] => None | x :: r => Some (fold_left Z.max r x) end.
Definition list_min (l : list Z) : option Z :=
  match l with [] => None | x :: r => Some (fold_left Z.min r x) end.

Definition nsum (l : list nat) : nat := fold_right Nat.add 0%nat l.

(* ------------------------------------------------------------------------------------------------
   write_channel_data
     offset = 0 ; n_channels = 0
     for ind, array in enumerate(channel_maps_l):
         array += offset
         self.channel_offsets.append(n_channels)
         n_channels += int(array.size)
         offset = array.max()
         channel_probes.append(array * 0 + ind)
     channel_maps = _concat(channel_maps_l) ; channel_probes = _concat(channel_probes)            *)
Record chan_blocks := mkcb { cb_maps : list (list Z); cb_probes : list (list Z); cb_offsets : list Z }.

Fixpoint chan_loop (ind offset n : Z) (cms : list (list Z)) : option chan_blocks :=
  match cms with
  | [] => Some (mkcb [] [] [])
  | a :: rest =>
      let a' := map (fun v => v + offset) a in
      match list_max a' with
      | None => None
      | Some mx =>
          match chan_loop (ind + 1) mx (n + zlen a') rest with
          | None => None
          | Some o => Some (mkcb (a' :: cb_maps o) (map (fun v => v * 0 + ind) a' :: cb_probes o)
                                 (n :: cb_offsets o))
          end
      end
  end.

Record chan_out := mkco { co_map : list Z; co_probe : list Z; co_offsets : list Z }.

Definition channel_data (cms : list (list Z)) : option chan_out :=
  match cms with
  | [] => None                                   (* Merger asserts subdirs *)
  | _ => match chan_loop 0 0 0 cms with
         | None => None
         | Some o => Some (mkco (concat (cb_maps o)) (concat (cb_probes o)) (cb_offsets o))
         end
  end.

(* ------------------------------------------------------------------------------------------------
   write_channel_positions (repaired)
     x_offset = 0.
     for array in channel_positions_l:
         array[:, 0] += x_offset
         x_min, x_max = array[:, 0].min(), array[:, 0].max()
         x_offset = 2. * x_max - x_min if x_max > x_min else x_max + 1.
     channel_positions = _concat(channel_positions_l)                                             *)
Record xy := mkxy { px : Z; py : Z }.

Definition shift_x (d : Z) (p : xy) : xy := mkxy (px p + d) (py p).

Fixpoint pos_loop (unit xoff : Z) (ps : list (list xy)) : option (list (list xy)) :=
  match ps with
  | [] => Some []
  | a :: rest =>
      let a' := map (shift_x xoff) a in
      match list_min (map px a'), list_max (map px a') with
      | Some mn, Some mx =>
          let xoff' := if mn <? mx then 2 * mx - mn else mx + unit in
          match pos_loop unit xoff' rest with
          | None => None
          | Some r => Some (a' :: r)
          end
      | _, _ => None
      end
  end.

Definition channel_positions (unit : Z) (ps : list (list xy)) : option (list xy) :=
  match ps with
  | [] => None
  | _ => option_map (@concat xy) (pos_loop unit 0 ps)
  end.

(* ------------------------------------------------------------------------------------------------
   write_template_data (repaired)
     for fn in ('pc_feature_ind.npy', 'template_feature_ind.npy'):
         arrays = self._load(fn)
         offsets = self.channel_offsets                                  if pc_feature_ind
                   [sum(a.shape[0] for a in arrays[:i]) for i in range(len(arrays))]   otherwise
         for array, offset in zip(arrays, offsets): array += offset
         concat = _concat(arrays, axis=0).astype(np.uint32)                                       *)
Definition u32 (z : Z) : Z := z mod 2 ^ 32.
Definition shift_table (off : Z) (t : list (list Z)) : list (list Z) := map (map (fun v => v + off)) t.

Definition zip_shift (ts : list (list (list Z))) (offs : list Z) : list (list (list Z)) :=
  map (fun p => shift_table (snd p) (fst p)) (combine ts offs).

Definition pc_table (chan_offsets : list Z) (pcs : list (list (list Z))) : list (list Z) :=
  map (map u32) (concat (zip_shift pcs chan_offsets)).

(* [sum(a.shape[0] for a in arrays[:i]) for i in range(len(arrays))] *)
Definition row_offsets (ts : list (list (list Z))) : list Z :=
  map (fun i => zsum (map (fun a => zlen a) (firstn i ts))) (seq 0 (length ts)).

Definition tf_table (tfs : list (list (list Z))) : list (list Z) :=
  map (map u32) (concat (zip_shift tfs (row_offsets tfs))).

Section Poly.
Context {A : Type} (zero : A).

(* one_template = zeros(n) ; one_template[j0:j0+len(row)] = row      (per sample row) *)
Definition set_slice (z : list A) (j0 : nat) (row : list A) : list A :=
  firstn j0 z ++ row ++ skipn (j0 + length row) z.
Definition place (n j0 : nat) (row : list A) : list A := set_slice (repeat zero n) j0 row.

(* ----------------------------------------------------------------------------------------------
   write_templates (repaired)
     n_templates = sum(tmp.shape[0]) ; n_samples = templates_l[0].shape[1] ; assert all equal
     n_channels = sum(tmp.shape[2])
     for i in range(len(self.subdirs)):
         j0 = sum(tmp.shape[2] for tmp in templates_l[:i]) ; j1 = j0 + templates_l[i].shape[2]
         for it in range(templates_l[i].shape[0]):
             one_template = zeros((n_samples, n_channels)) ; one_template[:, j0:j1] = templates_l[i][it]
             fid.write(one_template.tobytes())                                                  *)
Definition tshape1 (T : list (list (list A))) : nat := match T with t :: _ => length t | [] => 0%nat end.
Definition tshape2 (T : list (list (list A))) : nat := match T with (r :: _) :: _ => length r | _ => 0%nat end.

Definition write_templates (Ts : list (list (list (list A)))) : option (list (list (list A))) :=
  match Ts with
  | [] => None
  | T0 :: _ =>
      let ns := tshape1 T0 in
      if forallb (fun T => Nat.eqb (tshape1 T) ns) Ts then
        let widths := map tshape2 Ts in
        let nch := nsum widths in
        Some (concat (map (fun i => map (map (place nch (nsum (firstn i widths)))) (nth i Ts []))
                          (seq 0 (length Ts))))
      else None                                  (* AssertionError *)
  end.

(* ----------------------------------------------------------------------------------------------
   write_misc: scipy.linalg.block_diag of the per-probe arrays
     out = zeros((sum rows, sum cols)) ; r = c = 0
     for arr: out[r:r+rr, c:c+cc] = arr ; r += rr ; c += cc
   and FileNotFoundError in any probe -> the merged file is not written                          *)
Definition mcols (M : list (list A)) : nat := match M with r :: _ => length r | [] => 0%nat end.

Fixpoint bd_loop (ncols c0 : nat) (Ms : list (list (list A))) : list (list A) :=
  match Ms with
  | [] => []
  | M :: rest => map (place ncols c0) M ++ bd_loop ncols (c0 + mcols M) rest
  end.
Definition block_diag (Ms : list (list (list A))) : list (list A) := bd_loop (nsum (map mcols Ms)) 0 Ms.

Fixpoint all_some {B} (l : list (option B)) : option (list B) :=
  match l with
  | [] => Some []
  | Some x :: r => match all_some r with Some xs => Some (x :: xs) | None => None end
  | None :: _ => None
  end.
Definition write_misc (Ms : list (option (list (list A)))) : option (list (list A)) :=
  match all_some Ms with Some l => Some (block_diag l) | None => None end.
End Poly.

(* ------------------------------------------------------------------------------------------------
   write_params: params_merged = params_l[0] with dat_path = [] and n_channels_dat = sum           *)
Record params (R : Type) := mkpar { pr_rate : R; pr_ncd : Z; pr_offset : Z }.
Arguments mkpar {R}. Arguments pr_rate {R}. Arguments pr_ncd {R}. Arguments pr_offset {R}.

Definition write_params {R} (ps : list (params R)) : option (params R) :=
  match ps with
  | [] => None
  | p0 :: _ => Some (mkpar (pr_rate p0) (zsum (map pr_ncd ps)) (pr_offset p0))
  end.

(* ------------------------------------------------------------------------------------------------
   one probe directory, and the whole channel/template side of a merge                             *)
Record probe (A R : Type) := mkprobe {
  p_cm : list Z;                       (* channel_map.npy *)
  p_pos : list xy;                     (* channel_positions.npy, in units of 1/unit *)
  p_tmpl : list (list (list A));       (* templates.npy [t][s][c] *)
  p_pc : list (list Z);                (* pc_feature_ind.npy *)
  p_tf : list (list Z);                (* template_feature_ind.npy *)
  p_wm : option (list (list A));       (* whitening_mat.npy *)
  p_wmi : option (list (list A));      (* whitening_mat_inv.npy *)
  p_sim : option (list (list A));      (* similar_templates.npy *)
  p_par : params R
}.
Arguments mkprobe {A R}. Arguments p_cm {A R}. Arguments p_pos {A R}. Arguments p_tmpl {A R}.
Arguments p_pc {A R}. Arguments p_tf {A R}. Arguments p_wm {A R}. Arguments p_wmi {A R}.
Arguments p_sim {A R}. Arguments p_par {A R}.

Record merged (A R : Type) := mkmerged {
  m_map : list Z; m_probe : list Z; m_pos : list xy;
  m_tmpl : list (list (list A));
  m_pc : list (list Z); m_tf : list (list Z);
  m_wm : option (list (list A)); m_wmi : option (list (list A)); m_sim : option (list (list A));
  m_par : params R
}.
Arguments mkmerged {A R}. Arguments m_map {A R}. Arguments m_probe {A R}. Arguments m_pos {A R}.
Arguments m_tmpl {A R}. Arguments m_pc {A R}. Arguments m_tf {A R}. Arguments m_wm {A R}.
Arguments m_wmi {A R}. Arguments m_sim {A R}. Arguments m_par {A R}.

(* the calls in the order Merger.merge makes them *)
Definition merge_side {A R} (zero : A) (unit : Z) (ps : list (probe A R)) : option (merged A R) :=
  match write_params (map p_par ps) with None => None | Some par =>
  match channel_data (map p_cm ps) with None => None | Some co =>
  match channel_positions unit (map p_pos ps) with None => None | Some pos =>
  match write_templates zero (map p_tmpl ps) with None => None | Some T =>
  Some (mkmerged (co_map co) (co_probe co) pos T
                 (pc_table (co_offsets co) (map p_pc ps)) (tf_table (map p_tf ps))
                 (write_misc zero (map p_wm ps)) (write_misc zero (map p_wmi ps))
                 (write_misc zero (map p_sim ps)) par)
  end end end end.
