(* C12/Proofs2.v -- the channel loops (write_channel_data, write_channel_positions), the index
   tables, and the assembled merge. *)
From Coq Require Import ZArith List Bool Arith Lia.
From PV Require Import Base.NpSearch C12.Model C12.Spec C12.Proofs.
Import ListNotations.
Open Scope Z_scope.

(* ---- max / min of a non-empty array ---- *)
Lemma fold_max_ge l x : x <= fold_left Z.max l x /\ (forall y, In y l -> y <= fold_left Z.max l x).
Proof.
  revert x; induction l as [|z l IH]; intros x; cbn [fold_left]; [split; [lia|intros y []]|].
  destruct (IH (Z.max x z)) as [H1 H2]. split; [lia|]. intros y [<-|Hy]; [lia|now apply H2].
Qed.
Lemma fold_min_le l x : fold_left Z.min l x <= x /\ (forall y, In y l -> fold_left Z.min l x <= y).
Proof.
  revert x; induction l as [|z l IH]; intros x; cbn [fold_left]; [split; [lia|intros y []]|].
  destruct (IH (Z.min x z)) as [H1 H2]. split; [lia|]. intros y [<-|Hy]; [lia|now apply H2].
Qed.
Lemma fold_max_in l x : fold_left Z.max l x = x \/ In (fold_left Z.max l x) l.
Proof.
  revert x; induction l as [|z l IH]; intros x; cbn [fold_left]; [now left|].
  destruct (IH (Z.max x z)) as [H|H]; [|right; now right].
  rewrite H. destruct (Z.max_spec x z) as [[_ ->]|[_ ->]]; [right; now left|now left].
Qed.
Lemma list_max_spec l m : list_max l = Some m -> In m l /\ forall y, In y l -> y <= m.
Proof.
  destruct l as [|x l]; [discriminate|]. cbn [list_max]. intros H; injection H as <-.
  destruct (fold_max_ge l x) as [H1 H2]. split.
  - destruct (fold_max_in l x) as [->|H]; [now left|now right].
  - intros y [<-|Hy]; [exact H1|now apply H2].
Qed.
Lemma list_min_spec l m : list_min l = Some m -> forall y, In y l -> m <= y.
Proof.
  destruct l as [|x l]; [discriminate|]. cbn [list_min]. intros H; injection H as <-.
  destruct (fold_min_le l x) as [H1 H2]. intros y [<-|Hy]; [exact H1|now apply H2].
Qed.
Lemma list_max_some l : l <> [] -> exists m, list_max l = Some m.
Proof. destruct l; [congruence|]. intros _. eexists; reflexivity. Qed.
Lemma list_min_some l : l <> [] -> exists m, list_min l = Some m.
Proof. destruct l; [congruence|]. intros _. eexists; reflexivity. Qed.

(* ---- write_channel_data ---- *)
Lemma chan_loop_spec cms : forall ind offset n o, chan_loop ind offset n cms = Some o ->
  Blocks (fun k (_ : Z) c => c = ind + Z.of_nat k) cms (concat (cb_probes o)) /\
  (exists ds, length ds = length cms /\ (cms <> [] -> nth 0 ds 0 = offset) /\
              Blocks (fun k v c => c = v + nth k ds 0) cms (concat (cb_maps o))) /\
  cb_offsets o = map (fun k => n + Z.of_nat (offs (map (@length Z) cms) k)) (seq 0 (length cms)).
Proof.
  induction cms as [|a cms IH]; intros ind offset n o H; cbn [chan_loop] in H.
  - injection H as <-. cbn [cb_probes cb_maps cb_offsets concat length seq map]. split; [apply Blocks_nil|].
    split; [|reflexivity]. exists []. split; [reflexivity|]. split; [congruence|apply Blocks_nil].
  - destruct (list_max (map (fun v => v + offset) a)) as [mx|]; [|discriminate].
    destruct (chan_loop (ind + 1) mx (n + zlen (map (fun v => v + offset) a)) cms) as [o'|] eqn:E; [|discriminate].
    injection H as <-. cbn [cb_probes cb_maps cb_offsets concat].
    destruct (IH _ _ _ _ E) as (Hp & (ds & Hds & Hd0 & Hm) & Ho). split; [|split].
    + apply Blocks_cons.
      * now rewrite !map_length.
      * intros i b Hb. eexists. split; [apply map_nth_error, map_nth_error, Hb|]. cbn [Z.of_nat]. lia.
      * eapply Blocks_impl; [|exact Hp]. intros k L i b c _ _ ->. lia.
    + exists (offset :: ds). split; [cbn [length]; now rewrite Hds|]. split; [reflexivity|].
      apply Blocks_cons.
      * now rewrite map_length.
      * intros i b Hb. eexists. split; [apply map_nth_error, Hb|]. reflexivity.
      * eapply Blocks_impl; [|exact Hm]. intros k L i b c _ _ ->. reflexivity.
    + rewrite Ho. cbn [length seq map]. f_equal; [rewrite offs_0; lia|].
      rewrite <- seq_shift, map_map. apply map_ext. intros k. rewrite offs_S. unfold zlen. rewrite map_length. lia.
Qed.

Lemma chan_loop_some cms : (forall a, In a cms -> a <> []) -> forall ind offset n, exists o, chan_loop ind offset n cms = Some o.
Proof.
  induction cms as [|a cms IH]; intros Hne ind offset n; cbn [chan_loop]; [eexists; reflexivity|].
  destruct (list_max_some (map (fun v => v + offset) a)) as [mx ->].
  { intros E. apply map_eq_nil in E. now apply (Hne a (or_introl eq_refl)). }
  destruct (IH (fun a' H => Hne a' (or_intror H)) (ind + 1) mx (n + zlen (map (fun v => v + offset) a))) as [o' ->].
  eexists; reflexivity.
Qed.

Lemma channel_data_spec cms o : channel_data cms = Some o ->
  ChanLabels cms (co_probe o) /\ ChanMap cms (co_map o) /\
  co_offsets o = map (fun k => Z.of_nat (offs (map (@length Z) cms) k)) (seq 0 (length cms)).
Proof.
  unfold channel_data. destruct cms as [|a cms']; [discriminate|]. remember (a :: cms') as cms.
  destruct (chan_loop 0 0 0 cms) as [b|] eqn:E; [|discriminate]. intros H; injection H as <-.
  cbn [co_probe co_map co_offsets]. destruct (chan_loop_spec _ _ _ _ _ E) as (Hp & (ds & Hds & _ & Hm) & Ho).
  split; [|split].
  - unfold ChanLabels. eapply Blocks_impl; [|exact Hp]. intros k L i b0 c _ _ ->. lia.
  - exists ds. now split.
  - rewrite Ho. apply map_ext. intros k. lia.
Qed.

(* ---- write_channel_positions ---- *)
(* the shifted blocks, before concatenation: block k is block k of the input shifted by dx_k; every x of a
   block is >= the offset it was shifted by; every earlier block lies strictly left of every later block *)
Fixpoint Ordered (r : list (list xy)) : Prop :=
  match r with
  | [] => True
  | b :: rest => (forall p blk q, In p b -> In blk rest -> In q blk -> px p < px q) /\ Ordered rest
  end.

Lemma pos_loop_spec unit ps : forall xoff r, pos_loop unit xoff ps = Some r ->
  exists dxs, length dxs = length ps /\ (ps <> [] -> nth 0 dxs 0 = xoff) /\
    r = map (fun p => map (shift_x (fst p)) (snd p)) (combine dxs ps).
Proof.
  induction ps as [|a ps IH]; intros xoff r H; cbn [pos_loop] in H.
  - injection H as <-. exists []. split; [reflexivity|]. split; [congruence|reflexivity].
  - destruct (list_min _) as [mn|]; [|discriminate]. destruct (list_max _) as [mx|]; [|discriminate].
    destruct (pos_loop unit _ ps) as [r'|] eqn:E; [|discriminate]. injection H as <-.
    destruct (IH _ _ E) as (dxs & Hl & _ & ->). exists (xoff :: dxs).
    split; [cbn [length]; now rewrite Hl|]. split; reflexivity.
Qed.

Lemma pos_loop_ordered unit ps : 0 < unit -> (forall a p, In a ps -> In p a -> 0 <= px p) ->
  forall xoff r, pos_loop unit xoff ps = Some r ->
  (forall blk q, In blk r -> In q blk -> xoff <= px q) /\ Ordered r.
Proof.
  intros Hu. induction ps as [|a ps IH]; intros Hpos xoff r H; cbn [pos_loop] in H.
  - injection H as <-. split; [intros blk q []|exact I].
  - destruct (list_min (map px (map (shift_x xoff) a))) as [mn|] eqn:Emn; [|discriminate].
    destruct (list_max (map px (map (shift_x xoff) a))) as [mx|] eqn:Emx; [|discriminate].
    set (xoff' := if mn <? mx then 2 * mx - mn else mx + unit) in H.
    destruct (pos_loop unit xoff' ps) as [r'|] eqn:E; [|discriminate]. injection H as <-.
    destruct (IH (fun a' p Ha' => Hpos a' p (or_intror Ha')) _ _ E) as [Hge Hord].
    destruct (list_max_spec _ _ Emx) as [Hin Hle]. pose proof (list_min_spec _ _ Emn) as Hmin.
    assert (Hshift : forall q, In q (map (shift_x xoff) a) -> xoff <= px q <= mx).
    { intros q Hq. split.
      - apply in_map_iff in Hq as (p & <- & Hp). cbn [shift_x px]. specialize (Hpos a p (or_introl eq_refl) Hp). lia.
      - apply Hle. now apply in_map. }
    assert (Hmnmx : mn <= mx) by (apply Hmin; exact Hin).
    assert (Hx' : mx < xoff') by (unfold xoff'; destruct (mn <? mx) eqn:B; lia).
    assert (Hxm : xoff <= mx).
    { apply in_map_iff in Hin as (q & <- & Hq). now apply Hshift. }
    split.
    + intros blk q [<-|Hb] Hq; [now apply Hshift|]. specialize (Hge blk q Hb Hq). lia.
    + cbn [Ordered]. split; [|exact Hord]. intros p blk q Hp Hb Hq.
      specialize (Hge blk q Hb Hq). destruct (Hshift p Hp). lia.
Qed.

Lemma Ordered_nth r : Ordered r -> forall j k pa pb, (j < k)%nat ->
  In pa (nth j r []) -> In pb (nth k r []) -> px pa < px pb.
Proof.
  induction r as [|b r IH]; intros Hord j k pa pb Hjk Ha Hb.
  - destruct j; cbn in Ha; contradiction.
  - destruct Hord as [H1 H2]. destruct k as [|k]; [lia|]. cbn [nth] in Hb. destruct j as [|j]; cbn [nth] in Ha.
    + assert (Hk : (k < length r)%nat).
      { destruct (Nat.lt_ge_cases k (length r)) as [|Hge]; [assumption|]. rewrite nth_overflow in Hb by lia. contradiction. }
      apply (H1 pa (nth k r []) pb Ha); [now apply nth_In|exact Hb].
    + apply (IH H2 j k); [lia|exact Ha|exact Hb].
Qed.

Lemma Blocks_of_blocklist {B C} (f : nat -> B -> C) (src : list (list B)) (r : list (list C)) :
  length r = length src -> (forall k, (k < length src)%nat -> nth k r [] = map (f k) (nth k src [])) ->
  Blocks (fun k b c => c = f k b) src (concat r).
Proof.
  intros Hl Hk. assert (r = map (fun i => map (f i) (nth i src [])) (seq 0 (length src))) as ->.
  { apply nth_ext with (d := []) (d' := []); [now rewrite map_length, seq_length|].
    intros n Hn. rewrite Hl in Hn. rewrite Hk by exact Hn.
    rewrite (nth_indep _ [] (map (f 0%nat) (nth 0 src []))) by (rewrite map_length, seq_length; exact Hn).
    rewrite (map_nth (fun i => map (f i) (nth i src []))). now rewrite seq_nth. }
  apply Blocks_concat_seq.
Qed.

Lemma combine_map_nth (dxs : list Z) (ps : list (list xy)) k : length dxs = length ps -> (k < length ps)%nat ->
  nth k (map (fun p => map (shift_x (fst p)) (snd p)) (combine dxs ps)) [] = map (shift_x (nth k dxs 0)) (nth k ps []).
Proof.
  revert dxs k; induction ps as [|a ps IH]; intros [|d dxs] k Hl Hk; cbn [length] in *; try lia.
  destruct k as [|k]; cbn [combine map nth fst snd]; [reflexivity|]. apply IH; lia.
Qed.

Lemma channel_positions_spec unit poss out : channel_positions unit poss = Some out ->
  exists dxs, length dxs = length poss /\ nth 0 dxs 0 = 0 /\
    Blocks (fun k p o => o = shift_x (nth k dxs 0) p) poss out.
Proof.
  unfold channel_positions. destruct poss as [|a poss']; [discriminate|]. remember (a :: poss') as poss.
  destruct (pos_loop unit 0 poss) as [r|] eqn:E; [|discriminate]. cbn [option_map]. intros H; injection H as <-.
  destruct (pos_loop_spec _ _ _ _ E) as (dxs & Hl & H0 & ->). exists dxs. split; [exact Hl|]. split.
  - apply H0. subst poss. discriminate.
  - apply (Blocks_of_blocklist (fun k => shift_x (nth k dxs 0))).
    + rewrite map_length, combine_length, Hl. apply Nat.min_id.
    + intros k Hk. now apply combine_map_nth.
Qed.

Lemma channel_positions_apart unit poss out : 0 < unit ->
  (forall a p, In a poss -> In p a -> 0 <= px p) -> channel_positions unit poss = Some out ->
  Apart (map (@length xy) poss) out.
Proof.
  intros Hu Hpos. unfold channel_positions. destruct poss as [|a0 poss']; [discriminate|]. remember (a0 :: poss') as poss.
  destruct (pos_loop unit 0 poss) as [r|] eqn:E; [|discriminate]. cbn [option_map]. intros H; injection H as <-.
  destruct (pos_loop_ordered unit poss Hu Hpos _ _ E) as [_ Hord].
  destruct (pos_loop_spec _ _ _ _ E) as (dxs & Hl & _ & Hr).
  assert (Hlen : map (@length xy) poss = map (@length xy) r).
  { rewrite Hr. clear -Hl. revert dxs Hl; induction poss as [|a ps IH]; intros [|d dxs] Hl; cbn [length] in *; try lia; [reflexivity|].
    cbn [combine map fst snd]. rewrite map_length. f_equal. apply IH. lia. }
  rewrite Hlen. intros j k a b pa pb Hjk Hk Ha Hb Hpa Hpb. rewrite map_length in Hk.
  assert (Hnl : forall i, nth i (map (@length xy) r) 0%nat = length (nth i r [])).
  { intros i. apply (map_nth (@length xy) r []). }
  rewrite Hnl in Ha, Hb. rewrite nth_error_concat in Hpa, Hpb by assumption.
  apply (Ordered_nth r Hord j k pa pb Hjk); eapply nth_error_In; eassumption.
Qed.

Lemma channel_positions_some unit poss : poss <> [] -> (forall a, In a poss -> a <> []) ->
  exists out, channel_positions unit poss = Some out.
Proof.
  intros Hne Hall. unfold channel_positions. destruct poss as [|a0 poss']; [congruence|]. remember (a0 :: poss') as poss.
  clear Heqposs Hne. assert (forall xoff, exists r, pos_loop unit xoff poss = Some r) as Hx.
  { induction poss as [|a ps IH]; intros xoff; cbn [pos_loop]; [eexists; reflexivity|].
    assert (Hm : map px (map (shift_x xoff) a) <> []).
    { intros E. apply map_eq_nil, map_eq_nil in E. now apply (Hall a (or_introl eq_refl)). }
    destruct (list_min_some _ Hm) as [mn ->]. destruct (list_max_some _ Hm) as [mx ->].
    destruct (IH (fun a' H => Hall a' (or_intror H)) (if mn <? mx then 2 * mx - mn else mx + unit)) as [r ->].
    eexists; reflexivity. }
  destruct (Hx 0) as [r ->]. eexists; reflexivity.
Qed.

(* ---- index tables ---- *)
Lemma zip_shift_blocks ts : forall offsl, length offsl = length ts ->
  Blocks (fun k row o => o = map (fun v => v + nth k offsl 0) row) ts (concat (zip_shift ts offsl)).
Proof.
  unfold zip_shift. induction ts as [|T ts IH]; intros [|d offsl] Hl; cbn [length] in Hl; try lia; [apply Blocks_nil|].
  cbn [combine map concat fst snd]. apply Blocks_cons.
  - unfold shift_table. now rewrite map_length.
  - intros i row Hrow. eexists. split; [unfold shift_table; apply map_nth_error, Hrow|]. reflexivity.
  - eapply Blocks_impl; [|apply (IH offsl); lia]. intros k L i b c _ _ ->. reflexivity.
Qed.

Lemma u32_small v : 0 <= v < 2 ^ 32 -> u32 v = v.
Proof. intros H. unfold u32. now apply Z.mod_small. Qed.

Lemma map_u32_id (off : Z) row : (forall v, In v row -> 0 <= v + off < 2 ^ 32) ->
  map u32 (map (fun v => v + off) row) = map (fun v => v + off) row.
Proof.
  induction row as [|v row IH]; intros H; cbn [map]; [reflexivity|].
  rewrite u32_small by (apply H; now left). f_equal. apply IH. intros v' Hv'. apply H. now right.
Qed.

Lemma shifted_table_spec (off : nat -> Z) ts offsl :
  length offsl = length ts -> (forall k, (k < length ts)%nat -> nth k offsl 0 = off k) -> NoWrap off ts ->
  TableShift off ts (map (map u32) (concat (zip_shift ts offsl))).
Proof.
  intros Hl Hoff Hnw. unfold TableShift.
  eapply Blocks_impl; [|apply Blocks_map_out, (zip_shift_blocks ts offsl Hl)].
  intros k T i row c HT Hrow (c0 & -> & ->). cbn beta.
  assert (Hk : (k < length ts)%nat) by (apply nth_error_Some; congruence).
  rewrite (Hoff k Hk). apply map_u32_id. intros v Hv. apply (Hnw k T row v HT); [eapply nth_error_In; eassumption|exact Hv].
Qed.

Lemma row_offsets_nth ts k : (k < length ts)%nat ->
  nth k (row_offsets ts) 0 = Z.of_nat (offs (map (@length (list Z)) ts) k).
Proof.
  intros Hk. unfold row_offsets.
  rewrite (nth_indep _ 0 ((fun i => zsum (map (fun a : list (list Z) => zlen a) (firstn i ts))) 0%nat))
    by (now rewrite map_length, seq_length).
  rewrite (map_nth (fun i => zsum (map (fun a : list (list Z) => zlen a) (firstn i ts)))), seq_nth by exact Hk.
  cbn [Nat.add]. unfold offs. rewrite firstn_map. clear Hk. generalize (firstn k ts) as l.
  induction l as [|a l IH]; [reflexivity|]. cbn [map zsum nsum fold_right]. unfold zsum, nsum in IH. rewrite IH.
  unfold zlen. lia.
Qed.

Lemma pc_table_spec cms pcs : length pcs = length cms ->
  let coff := fun k => Z.of_nat (offs (map (@length Z) cms) k) in
  NoWrap coff pcs ->
  TableShift coff pcs (pc_table (map coff (seq 0 (length cms))) pcs).
Proof.
  intros Hl coff Hnw. unfold pc_table. apply shifted_table_spec.
  - now rewrite map_length, seq_length.
  - intros k Hk. rewrite (nth_indep _ 0 (coff 0%nat)) by (rewrite map_length, seq_length; lia).
    rewrite (map_nth coff), seq_nth by lia. reflexivity.
  - exact Hnw.
Qed.

Lemma tf_table_spec tfs :
  let toff := fun k => Z.of_nat (offs (map (@length (list Z)) tfs) k) in
  NoWrap toff tfs -> TableShift toff tfs (tf_table tfs).
Proof.
  intros toff Hnw. unfold tf_table. apply shifted_table_spec.
  - unfold row_offsets. now rewrite map_length, seq_length.
  - intros k Hk. now apply row_offsets_nth.
  - exact Hnw.
Qed.
