(* C12/Dtypes.v -- which NumPy dtype each merged file gets, as a function of the dtypes of the probes' files
   (the value model of Model.v is dtype-free: values of an abstract type, integers).  Transcribed from the code:

     _concat(arrs)                    = np.concatenate(arrs).astype(arrs[0].dtype)      -> the FIRST probe's dtype
       channel_map.npy                  arrays are shifted in place (array += int keeps the dtype)
       channel_probe.npy                array * 0 + ind has the dtype of array (Python ints are weak under NEP 50)
       channel_positions.npy            array[:, 0] += x_offset in place
     templates.npy                    np.empty(shape, dtype=templates_l[0].dtype), rows np.zeros(.., dtype=templates_l[0].dtype)
     pc_feature_ind / template_feature_ind   _concat(arrays).astype(np.uint32)          -> uint32 whatever the inputs are
     whitening_mat / _inv / similar_templates   scipy block_diag: out_dtype = result_type of all the arrays -> the join of the inputs'
                                      dtypes; not written when a probe lacks the file

   No proofs about NumPy here: the correspondence (Corr.v) compares [merged_dt] with the dtypes observed in the merged
   directory; the lemmas below say what the function is. *)
From Coq Require Import List Bool.
From PV Require Import C12.Model.
Import ListNotations.

Inductive idt := I8 | I16 | I32 | I64 | U8 | U16 | U32 | U64.        (* integer dtypes: channel maps, index tables *)
Inductive fdt := F32 | F64.                                          (* float dtypes: positions, templates, matrices *)

Definition idt_eqb (a b : idt) : bool :=
  match a, b with
  | I8, I8 | I16, I16 | I32, I32 | I64, I64 | U8, U8 | U16, U16 | U32, U32 | U64, U64 => true
  | _, _ => false
  end.
Definition fdt_eqb (a b : fdt) : bool := match a, b with F32, F32 | F64, F64 => true | _, _ => false end.

(* np.result_type on {float32, float64}: float64 as soon as one operand is float64 *)
Definition fjoin (a b : fdt) : fdt := match a, b with F32, F32 => F32 | _, _ => F64 end.
Definition fle (a b : fdt) : Prop := match a, b with F64, F32 => False | _, _ => True end.

(* the dtypes of one probe directory; a matrix file that is absent has no dtype *)
Record pdt := mkpdt {
  d_cm : idt; d_pos : fdt; d_tmpl : fdt; d_pc : idt; d_tf : idt;
  d_wm : option fdt; d_wmi : option fdt; d_sim : option fdt
}.

(* the dtypes of the merged directory; None = the matrix file is not written *)
Record mdt := mkmdt {
  md_map : idt; md_probe : idt; md_pos : fdt; md_tmpl : fdt; md_pc : idt; md_tf : idt;
  md_wm : option fdt; md_wmi : option fdt; md_sim : option fdt
}.

Definition misc_dt (l : list (option fdt)) : option fdt :=
  match all_some l with
  | Some (d :: r) => Some (fold_left fjoin r d)
  | _ => None
  end.

Definition merged_dt (ds : list pdt) : option mdt :=
  match ds with
  | [] => None                                   (* Merger asserts subdirs *)
  | d0 :: _ => Some (mkmdt (d_cm d0) (d_cm d0) (d_pos d0) (d_tmpl d0) U32 U32
                           (misc_dt (map d_wm ds)) (misc_dt (map d_wmi ds)) (misc_dt (map d_sim ds)))
  end.

Definition ofdt_eqb (a b : option fdt) : bool :=
  match a, b with Some x, Some y => fdt_eqb x y | None, None => true | _, _ => false end.
Definition mdt_eqb (a b : mdt) : bool :=
  idt_eqb (md_map a) (md_map b) && idt_eqb (md_probe a) (md_probe b) && fdt_eqb (md_pos a) (md_pos b) &&
  fdt_eqb (md_tmpl a) (md_tmpl b) && idt_eqb (md_pc a) (md_pc b) && idt_eqb (md_tf a) (md_tf b) &&
  ofdt_eqb (md_wm a) (md_wm b) && ofdt_eqb (md_wmi a) (md_wmi b) && ofdt_eqb (md_sim a) (md_sim b).

(* the dtype record describes the same directories as the value record: a matrix has a dtype iff it is present *)
Definition same_presence {A R} (p : probe A R) (d : pdt) : bool :=
  let both {B C} (x : option B) (y : option C) := match x, y with Some _, Some _ | None, None => true | _, _ => false end in
  both (p_wm p) (d_wm d) && both (p_wmi p) (d_wmi d) && both (p_sim p) (d_sim d).

(* ---- what the function is ---- *)
Lemma fle_refl : forall a, fle a a. Proof. now intros []. Qed.
Lemma fle_trans : forall a b c, fle a b -> fle b c -> fle a c. Proof. now intros [] [] []. Qed.
Lemma fle_join_l : forall a b, fle a (fjoin a b). Proof. now intros [] []. Qed.
Lemma fle_join_r : forall a b, fle b (fjoin a b). Proof. now intros [] []. Qed.
Lemma fjoin_or : forall a b, fjoin a b = a \/ fjoin a b = b. Proof. intros [] []; auto. Qed.

Lemma fold_join_ub : forall r d x, (x = d \/ In x r) -> fle x (fold_left fjoin r d).
Proof.
  induction r as [|y r IH]; intros d x H; cbn.
  - destruct H as [->|[]]. apply fle_refl.
  - destruct H as [->|[->|H]].
    + eapply fle_trans; [apply (fle_join_l d y)|]. apply IH. now left.
    + eapply fle_trans; [apply (fle_join_r d x)|]. apply IH. now left.
    + apply IH. now right.
Qed.

Lemma fold_join_in : forall r d, fold_left fjoin r d = d \/ In (fold_left fjoin r d) r.
Proof.
  induction r as [|y r IH]; intros d; cbn; [now left|].
  destruct (IH (fjoin d y)) as [E|H]; [|now right; right].
  rewrite E. destruct (fjoin_or d y) as [->| ->]; [now left|now right; left].
Qed.

Lemma all_some_spec : forall {B} (l : list (option B)) xs, all_some l = Some xs <-> l = map Some xs.
Proof.
  induction l as [|[x|] l IH]; intros xs; cbn.
  - split; [intros [= <-]; reflexivity|]. destruct xs; [reflexivity|discriminate].
  - destruct (all_some l) as [ys|] eqn:E.
    + split.
      * intros [= <-]. cbn. f_equal. now apply IH.
      * destruct xs as [|x' xs]; [discriminate|]. cbn. intros [= <- H]. apply IH in H. congruence.
    + split; [discriminate|]. destruct xs as [|x' xs]; [discriminate|]. cbn. intros [= <- H].
      apply IH in H. congruence.
  - split; [discriminate|]. destruct xs; discriminate.
Qed.

Lemma all_some_none : forall {B} (l : list (option B)), all_some l = None <-> In None l.
Proof.
  induction l as [|[x|] l IH]; cbn.
  - split; [discriminate|intros []].
  - destruct (all_some l) eqn:E.
    + split; [discriminate|]. intros [H|H]; [discriminate|]. apply IH in H. discriminate.
    + split; [intros _; right; now apply IH|reflexivity].
  - split; [now left|reflexivity].
Qed.

(* a merged matrix gets a dtype d iff every probe has the file (and there is a probe); d is then the least upper
   bound of the probes' dtypes: above each of them, and one of them *)
Lemma misc_dt_spec : forall l d,
  misc_dt l = Some d <->
  (l <> [] /\ ~ In None l /\ (forall x, In (Some x) l -> fle x d) /\ In (Some d) l).
Proof.
  intros l d. unfold misc_dt. destruct (all_some l) as [xs|] eqn:E.
  - apply all_some_spec in E. subst l. destruct xs as [|x r]; cbn [map].
    + split; [discriminate|]. intros (H & _). now elim H.
    + split.
      * intros [= <-]. split; [discriminate|]. split.
        { intros H. change (In None (map Some (x :: r))) in H. apply in_map_iff in H. destruct H as (? & ? & _). discriminate. }
        split.
        { intros y Hy. apply fold_join_ub. destruct Hy as [[= ->]|Hy]; [now left|].
          apply in_map_iff in Hy. destruct Hy as (z & [= ->] & Hz). now right. }
        { destruct (fold_join_in r x) as [->|H]; [now left|]. right. now apply in_map. }
      * intros (_ & _ & Hub & Hin). f_equal.
        assert (H1 : fle (fold_left fjoin r x) d).
        { destruct (fold_join_in r x) as [->|H]; apply Hub; [now left|right; now apply in_map]. }
        assert (H2 : fle d (fold_left fjoin r x)).
        { apply fold_join_ub. destruct Hin as [[= ->]|Hin]; [now left|].
          apply in_map_iff in Hin. destruct Hin as (z & [= ->] & Hz). now right. }
        destruct (fold_left fjoin r x), d; cbn in *; tauto.
  - apply all_some_none in E. split; [discriminate|]. intros (_ & H & _). contradiction.
Qed.

Lemma misc_dt_none : forall l, misc_dt l = None <-> (l = [] \/ In None l).
Proof.
  intros l. unfold misc_dt. destruct (all_some l) as [xs|] eqn:E.
  - apply all_some_spec in E. subst l. destruct xs as [|x r]; cbn [map].
    + split; [now left|reflexivity].
    + split; [discriminate|]. intros [H|H]; [discriminate|].
      change (In None (map Some (x :: r))) in H. apply in_map_iff in H. destruct H as (? & ? & _). discriminate.
  - apply all_some_none in E. split; [now right|reflexivity].
Qed.

(* the merged dtype record, field by field *)
Lemma merged_dt_spec : forall d0 rest,
  exists m, merged_dt (d0 :: rest) = Some m /\
    md_map m = d_cm d0 /\ md_probe m = d_cm d0 /\ md_pos m = d_pos d0 /\ md_tmpl m = d_tmpl d0 /\
    md_pc m = U32 /\ md_tf m = U32 /\
    md_wm m = misc_dt (map d_wm (d0 :: rest)) /\ md_wmi m = misc_dt (map d_wmi (d0 :: rest)) /\
    md_sim m = misc_dt (map d_sim (d0 :: rest)).
Proof. intros. eexists. split; [reflexivity|]. cbn. repeat split. Qed.

(* the dtype side and the value side agree on WHICH matrices are written *)
Lemma misc_written_iff : forall {A R} (zero : A) (ps : list (probe A R)) (ds : list pdt)
    (fp : probe A R -> option (list (list A))) (fd : pdt -> option fdt),
  ps <> [] -> Forall2 (fun p d => match fp p, fd d with Some _, Some _ | None, None => True | _, _ => False end) ps ds ->
  (write_misc zero (map fp ps) = None <-> misc_dt (map fd ds) = None).
Proof.
  intros A R zero ps ds fp fd Hne H.
  assert (HN : In None (map fp ps) <-> In None (map fd ds)).
  { induction H as [|p d ps ds Hpd H IH]; cbn; [tauto|].
    assert (IH' : In None (map fp ps) <-> In None (map fd ds)).
    { destruct ps as [|p' ps']; [inversion H; subst; cbn; tauto|apply IH; discriminate]. }
    destruct (fp p), (fd d); try contradiction; split; intros [E|E]; try discriminate; auto; right; now apply IH'. }
  rewrite misc_dt_none. unfold write_misc. destruct (all_some (map fp ps)) eqn:E.
  - split; [discriminate|]. intros [E0|E0].
    + destruct ds; [|discriminate]. inversion H; subst. now elim Hne.
    + apply HN in E0. apply all_some_none in E0. congruence.
  - split; [|reflexivity]. intros _. right. apply HN. now apply all_some_none.
Qed.
