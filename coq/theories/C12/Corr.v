(* C12/Corr.v -- comparator evaluated by vm_compute on generated case files.
   codes: 1  = an observed array differs from the model PV.C12.Model.merge_side
          21 = C12_channel_blocks: probe labels / channel map shifted by a per-probe constant /
               same y, x shifted by a per-probe constant, all in one contiguous block per probe, in input order
          22 = C12_apart: the x-ranges of different probes are not strictly ordered left to right
          23 = C12_template_blocks: template toff_k + t does not carry T_k[t] on columns [coff_k, coff_k + n_k)
               with zeros elsewhere
          24 = C12_block_diag: whitening_mat / whitening_mat_inv / similar_templates not block-diagonal with
               the per-probe matrices (or written although a probe lacks it / missing although all have it)
          25 = C12_index_tables: pc_feature_ind not shifted by coff_k or template_feature_ind not by toff_k
          26 = C12_params: sample rate / summed n_channels_dat / dat_path = []
          27 = C12_spike_template_rows / C12_spike_template_tables (cross-property link with C11, Link.v): for merged
               spike i, coming from probe k with original template t, row (merged spike_templates[i]) of the merged
               templates.npy is not template t of probe k on probe k's channel block, or that row of the merged
               template_feature_ind.npy is not probe k's row t renumbered by the template offset of probe k
          3  = input outside the stated regime (harness bug)
   Code 1 also covers the dtypes of the merged files (Dtypes.v: merged_dt of the probes' dtypes against the dtypes
   observed in the merged directory); no clause of the statement is about dtypes, so a dtype deviation alone is a
   model mismatch, never one of the codes 21-27. *)
From Coq Require Import ZArith List Bool Arith.
From PV Require Export Base.Tok Base.NpSearch C12.Model C12.Spec C12.Dtypes.
From PV Require Import C12.Link.
From PV Require C11.Model C11.Spec C11.Proofs.
Import ListNotations.
Open Scope Z_scope.

Record txy := mktxy { tx : tok; ty : tok }.

(* dtypes observed in the merged directory; None = file not written (or a dtype outside idt / fdt) *)
Record odt := mkodt {
  od_map : option idt; od_probe : option idt; od_pos : option fdt; od_tmpl : option fdt;
  od_pc : option idt; od_tf : option idt; od_wm : option fdt; od_wmi : option fdt; od_sim : option fdt
}.
Definition oidt_eqb (a b : option idt) : bool :=
  match a, b with Some x, Some y => idt_eqb x y | None, None => true | _, _ => false end.
Definition odt_matches (m : mdt) (o : odt) : bool :=
  oidt_eqb (Some (md_map m)) (od_map o) && oidt_eqb (Some (md_probe m)) (od_probe o) &&
  ofdt_eqb (Some (md_pos m)) (od_pos o) && ofdt_eqb (Some (md_tmpl m)) (od_tmpl o) &&
  oidt_eqb (Some (md_pc m)) (od_pc o) && oidt_eqb (Some (md_tf m)) (od_tf o) &&
  ofdt_eqb (md_wm m) (od_wm o) && ofdt_eqb (md_wmi m) (od_wmi o) && ofdt_eqb (md_sim m) (od_sim o).

Record obsrec := mkobs {
  o_par : option (params tok);          (* None: params.py unreadable, or dat_path is not [] *)
  o_map : option (list Z); o_probe : option (list Z); o_pos : option (list txy);
  o_tmpl : option (list (list (list tok)));
  o_pc : option (list (list Z)); o_tf : option (list (list Z));
  o_wm : option (list (list tok)); o_wmi : option (list (list tok)); o_sim : option (list (list tok));
  o_crashed : list Z;                   (* clause codes of the Merger methods that raised *)
  o_stimes : option (list Z);           (* merged spike_times.npy *)
  o_st : option (list Z);               (* merged spike_templates.npy *)
  o_dt : odt                            (* dtypes of the merged files *)
}.

(* the spike side of a probe directory, as PV.C11.Model reads it: spike times, spike templates (= spike clusters,
   amplitudes 1) and the number of rows of templates.npy *)
Definition sprobe := C11.Model.probe Z Z Z.
Definition mksp (times tmpl : list Z) (ntmpl : Z) : sprobe :=
  C11.Model.mkprobe times (map (fun _ => 1) times) tmpl tmpl ntmpl [].

Inductive input := InMerge (unit : Z) (ps : list (probe tok tok)) (sps : list sprobe) (dts : list pdt).
Inductive observed := ObsMerged (o : obsrec) | ObsCrash.
Record case := { cid : Z; cin : input; cobs : observed }.

Definition flag (code : Z) (ok : bool) : list Z := if ok then [] else [code].

(* value * unit as an integer, if it is one *)
Definition scale_tok (unit : Z) (t : tok) : option Z :=
  match t with
  | TNum m e => if 0 <=? e then Some (m * unit * 2 ^ e)
                else if (m * unit) mod 2 ^ (- e) =? 0 then Some (m * unit / 2 ^ (- e)) else None
  | _ => None
  end.
Fixpoint scale_pos (unit : Z) (l : list txy) : option (list xy) :=
  match l with
  | [] => Some []
  | p :: r => match scale_tok unit (tx p), scale_tok unit (ty p), scale_pos unit r with
              | Some x, Some y, Some r' => Some (mkxy x y :: r')
              | _, _, _ => None
              end
  end.

Definition xy_eqb (a b : xy) : bool := (px a =? px b) && (py a =? py b).
Definition zll_eqb := forall2b zlist_eqb.
Definition tll_eqb2 := forall2b tl_eqb.
Definition tlll_eqb := forall2b tll_eqb2.
Definition opt_eqb {B} (eqb : B -> B -> bool) (a b : option B) : bool :=
  match a, b with Some x, Some y => eqb x y | None, None => true | _, _ => false end.
Definition opt_chk {B} (f : B -> bool) (a : option B) : bool := match a with Some x => f x | None => false end.

Definition rect {B} (w : nat) (M : list (list B)) : bool := forallb (fun r => Nat.eqb (length r) w) M.

(* same_ns = false: the error-exit regime, every probe with its own number of samples (>= 1) *)
Definition probe_ok (same_ns : bool) (ns0 pcw tfw : nat) (rate : tok) (p : probe tok tok) : bool :=
  let ns := if same_ns then ns0 else tshape1 (p_tmpl p) in
  Nat.leb 1 ns &&
  let n := length (p_cm p) in
  let m := length (p_tmpl p) in
  Nat.leb 1 n && Nat.eqb (length (p_pos p)) n && forallb (fun q => 0 <=? px q) (p_pos p) &&
  Nat.leb 1 m && forallb (fun tm => Nat.eqb (length tm) ns && rect n tm) (p_tmpl p) &&
  Nat.eqb (length (p_pc p)) m && rect pcw (p_pc p) &&
  forallb (forallb (fun v => (0 <=? v) && (v <? Z.of_nat n))) (p_pc p) &&
  Nat.eqb (length (p_tf p)) m && rect tfw (p_tf p) &&
  forallb (forallb (fun v => (0 <=? v) && (v <? Z.of_nat m))) (p_tf p) &&
  match p_wm p with Some M => Nat.eqb (length M) n && rect n M | None => true end &&
  match p_wmi p with Some M => Nat.eqb (length M) n && rect n M | None => true end &&
  match p_sim p with Some M => Nat.eqb (length M) m && rect m M | None => true end &&
  tok_eqb (pr_rate (p_par p)) rate && (0 <=? pr_ncd (p_par p)).

Definition regime (same_ns : bool) (unit : Z) (ps : list (probe tok tok)) : bool :=
  (1 <=? unit) &&
  match ps with
  | [] => false
  | p0 :: _ =>
      let ns := tshape1 (p_tmpl p0) in
      Nat.leb 1 ns &&
      forallb (probe_ok same_ns ns (mcols (p_pc p0)) (mcols (p_tf p0)) (pr_rate (p_par p0))) ps
  end.

(* the probe without its waveform samples: templates.npy of shape (n_templates, 0, n_channels).  Nothing but m_tmpl
   depends on the samples, so merge_side of the stripped probes gives every other merged array of an input whose
   probes disagree on n_samples (where write_templates raises before it writes anything) *)
Definition strip_tmpl (p : probe tok tok) : probe tok tok :=
  mkprobe (p_cm p) (p_pos p) (map (fun _ => []) (p_tmpl p)) (p_pc p) (p_tf p) (p_wm p) (p_wmi p) (p_sim p) (p_par p).

(* C11's well-formedness, and SameDirs: the spike side describes the same directories *)
Definition sprobe_ok (pp : probe tok tok * sprobe) : bool :=
  let sp := snd pp in
  let n := length (C11.Model.p_times sp) in
  Nat.leb 1 n && Nat.eqb (length (C11.Model.p_amps sp)) n && Nat.eqb (length (C11.Model.p_tmpl sp)) n &&
  Nat.eqb (length (C11.Model.p_clu sp)) n &&
  (C11.Model.p_ntmpl sp =? Z.of_nat (length (p_tmpl (fst pp)))) &&
  forallb (fun c => (0 <=? c) && (c <? C11.Model.p_ntmpl sp)) (C11.Model.p_tmpl sp) &&
  forallb (fun c => 0 <=? c) (C11.Model.p_clu sp).
Definition spikes_regime (ps : list (probe tok tok)) (sps : list sprobe) : bool :=
  Nat.eqb (length sps) (length ps) && forallb sprobe_ok (combine ps sps).

Definition misc_ok (ins : list (option (list (list tok)))) (o : option (list (list tok))) : bool :=
  match all_some ins, o with
  | Some Ms, Some M => block_diag_b tzero tok_eqb Ms M
  | None, None => true
  | _, _ => false
  end.

Definition par_eqb (a b : params tok) : bool :=
  tok_eqb (pr_rate a) (pr_rate b) && (pr_ncd a =? pr_ncd b) && (pr_offset a =? pr_offset b).

(* error exit (C12_assertion_exit): probes with different numbers of waveform samples.  The model is undefined; the
   whole Merger.merge raises (ObsCrash), and on the method-by-method route write_templates raises (code 23 in
   o_crashed) before it creates templates.npy while every other method writes what it writes otherwise.  No clause of
   the statement covers such inputs: a deviation is a model mismatch (code 1) *)
Definition check_exit (unit : Z) (ps : list (probe tok tok)) (sps : list sprobe) (dts : list pdt) (ob : observed) : list Z :=
  match merge_side tzero unit ps, merge_side tzero unit (map strip_tmpl ps), C11.Model.merge sps, merged_dt dts with
  | None, Some m, Some sm, Some mdts =>
    match ob with
    | ObsCrash => []
    | ObsMerged o =>
      let opos := match o_pos o with Some l => scale_pos unit l | None => None end in
      flag 1 (
        opt_eqb par_eqb (Some (m_par m)) (o_par o) &&
        opt_eqb zlist_eqb (Some (m_map m)) (o_map o) && opt_eqb zlist_eqb (Some (m_probe m)) (o_probe o) &&
        opt_eqb (forall2b xy_eqb) (Some (m_pos m)) opos &&
        match o_tmpl o with None => true | Some _ => false end &&
        opt_eqb zll_eqb (Some (m_pc m)) (o_pc o) && opt_eqb zll_eqb (Some (m_tf m)) (o_tf o) &&
        opt_eqb tll_eqb2 (m_wm m) (o_wm o) && opt_eqb tll_eqb2 (m_wmi m) (o_wmi o) &&
        opt_eqb tll_eqb2 (m_sim m) (o_sim o) &&
        opt_eqb zlist_eqb (Some (C11.Model.m_times sm)) (o_stimes o) &&
        opt_eqb zlist_eqb (Some (C11.Model.m_tmpl sm)) (o_st o) &&
        oidt_eqb (Some (md_map mdts)) (od_map (o_dt o)) && oidt_eqb (Some (md_probe mdts)) (od_probe (o_dt o)) &&
        ofdt_eqb (Some (md_pos mdts)) (od_pos (o_dt o)) && ofdt_eqb None (od_tmpl (o_dt o)) &&
        oidt_eqb (Some (md_pc mdts)) (od_pc (o_dt o)) && oidt_eqb (Some (md_tf mdts)) (od_tf (o_dt o)) &&
        ofdt_eqb (md_wm mdts) (od_wm (o_dt o)) && ofdt_eqb (md_wmi mdts) (od_wmi (o_dt o)) &&
        ofdt_eqb (md_sim mdts) (od_sim (o_dt o)) &&
        match o_crashed o with [23] => true | _ => false end)
    end
  | _, _, _, _ => [3]
  end.

Definition check (c : case) : list Z :=
  match cin c with InMerge unit ps sps dts =>
  if negb (regime false unit ps && spikes_regime ps sps && forall2b same_presence ps dts) then [3] else
  if negb (regime true unit ps) then check_exit unit ps sps dts (cobs c) else
  match merge_side tzero unit ps, C11.Model.merge sps, merged_dt dts with
  | None, _, _ | _, None, _ | _, _, None => [3]
  | Some m, Some sm, Some mdts =>
    match cobs c with
    | ObsCrash => [1; 21; 22; 23; 24; 25; 26; 27]
    | ObsMerged o =>
      let cms := map p_cm ps in
      let lens := map (@length Z) cms in
      let opos := match o_pos o with Some l => scale_pos unit l | None => None end in
      let coff := fun k => Z.of_nat (offs lens k) in
      let toff := fun k => Z.of_nat (offs (map (fun p => length (p_tmpl p)) ps) k) in
      let same :=
        opt_eqb par_eqb (Some (m_par m)) (o_par o) &&
        opt_eqb zlist_eqb (Some (m_map m)) (o_map o) && opt_eqb zlist_eqb (Some (m_probe m)) (o_probe o) &&
        opt_eqb (forall2b xy_eqb) (Some (m_pos m)) opos &&
        opt_eqb tlll_eqb (Some (m_tmpl m)) (o_tmpl o) &&
        opt_eqb zll_eqb (Some (m_pc m)) (o_pc o) && opt_eqb zll_eqb (Some (m_tf m)) (o_tf o) &&
        opt_eqb tll_eqb2 (m_wm m) (o_wm o) && opt_eqb tll_eqb2 (m_wmi m) (o_wmi o) &&
        opt_eqb tll_eqb2 (m_sim m) (o_sim o) &&
        opt_eqb zlist_eqb (Some (C11.Model.m_times sm)) (o_stimes o) &&
        opt_eqb zlist_eqb (Some (C11.Model.m_tmpl sm)) (o_st o) &&
        odt_matches mdts (o_dt o) &&
        match o_crashed o with [] => true | _ => false end in
      let g21 := opt_chk (chan_labels_b cms) (o_probe o) && opt_chk (chan_map_b cms) (o_map o) &&
                 opt_chk (pos_blocks_b (map p_pos ps)) opos in
      let g22 := opt_chk (apart_b lens) opos in
      let g23 := opt_chk (template_blocks_b tzero tok_eqb (map p_tmpl ps)) (o_tmpl o) in
      let g24 := misc_ok (map p_wm ps) (o_wm o) && misc_ok (map p_wmi ps) (o_wmi o) &&
                 misc_ok (map p_sim ps) (o_sim o) in
      let g25 := opt_chk (table_shift_b coff (map p_pc ps)) (o_pc o) &&
                 opt_chk (table_shift_b toff (map p_tf ps)) (o_tf o) in
      let g26 := match o_par o, ps with
                 | Some q, p0 :: _ => tok_eqb (pr_rate q) (pr_rate (p_par p0)) &&
                                      (pr_ncd q =? zsum (map (fun p => pr_ncd (p_par p)) ps))
                 | _, _ => false
                 end in
      (* the input spikes in (time, probe, index) order = the provenance of the merged spikes (C11_sorted_stable);
         judged on the observed merged spike_times / spike_templates / templates / template_feature_ind only *)
      let M := C11.Proofs.sorted_tagged (C11.Spec.tagged_concat sps) in
      let g27 := opt_chk (zlist_eqb (map (@C11.Spec.t_time Z) M)) (o_stimes o) &&
                 match o_st o with
                 | Some st => opt_chk (spike_rows_b tzero tok_eqb (map p_tmpl ps) M st) (o_tmpl o) &&
                              opt_chk (spike_table_b toff (map p_tf ps) M st) (o_tf o)
                 | None => false
                 end in
      flag 1 same ++ flag 21 g21 ++ flag 22 g22 ++ flag 23 g23 ++ flag 24 g24 ++ flag 25 g25 ++ flag 26 g26 ++
      flag 27 g27 ++
      filter (fun code => negb (existsb (Z.eqb code)
                (flag 21 g21 ++ flag 22 g22 ++ flag 23 g23 ++ flag 24 g24 ++ flag 25 g25 ++ flag 26 g26 ++ flag 27 g27)))
             (o_crashed o)
    end
  end end.

Definition run (cases : list case) : list (Z * Z) :=
  flat_map (fun c => map (fun code => (cid c, code)) (check c)) cases.
