(* C12/Proofs6.v -- completeness of the boolean checkers of Spec.v: every declarative statement implies that its
   checker answers true (with the soundness lemmas of Proofs3/Proofs4: checker = true  <->  statement), so a clause
   code 21..25 of Corr.v is raised on an observed array exactly when the statement is false of it. *)
From Coq Require Import ZArith List Bool Arith Lia.
From PV Require Import Base.NpSearch C12.Model C12.Spec C12.Proofs C12.Proofs2 C12.Proofs3 C12.Proofs4.
Import ListNotations.
Open Scope Z_scope.

Lemma blocks_b_complete {B C} (chk : nat -> B -> C -> bool) (P : nat -> B -> C -> Prop) src out :
  (forall k b c, P k b c -> chk k b c = true) -> Blocks P src out -> blocks_b chk src out = true.
Proof.
  intros Hc [Hl Hb]. unfold blocks_b. apply andb_true_iff. split; [now apply Nat.eqb_eq|].
  apply forallb_forall. intros k Hk. apply in_seq in Hk. cbv zeta.
  destruct (nth_error src k) as [L|] eqn:EL; [|apply nth_error_None in EL; lia].
  rewrite (nth_error_nth src k [] EL). apply forallb_forall. intros i Hi. apply in_seq in Hi.
  destruct (nth_error L i) as [b|] eqn:Eb; [|apply nth_error_None in Eb; lia].
  destruct (Hb k L i b EL Eb) as (c & Ec & HP). rewrite Ec. now apply Hc.
Qed.

Lemma forall2b_complete {B C} (f : B -> C -> bool) (P : B -> C -> Prop) a b :
  (forall x y, P x y -> f x y = true) -> Forall2 P a b -> forall2b f a b = true.
Proof.
  intros Hc H. induction H as [|x y a b Hxy _ IH]; [reflexivity|]. cbn [forall2b]. now rewrite (Hc _ _ Hxy), IH.
Qed.

Section CheckerComplete.
Context {A : Type} (zero : A) (eqb : A -> A -> bool).
Hypothesis eqb_refl : forall x, eqb x x = true.

Lemma blockrow_b_complete n j0 src row : BlockRow zero n j0 src row -> blockrow_b zero eqb n j0 src row = true.
Proof.
  intros (Hl & Hle & Hin & Hout). unfold blockrow_b.
  apply andb_true_iff. split; [apply andb_true_iff; split; [now apply Nat.eqb_eq|now apply Nat.leb_le]|].
  apply forallb_forall. intros c Hc. apply in_seq in Hc.
  destruct (Nat.leb j0 c && Nat.ltb c (j0 + length src)) eqn:E.
  - apply andb_true_iff in E as [E1 E2]. apply Nat.leb_le in E1. apply Nat.ltb_lt in E2.
    destruct (nth_error src (c - j0)) as [x|] eqn:Ex; [|apply nth_error_None in Ex; lia].
    specialize (Hin _ _ Ex). replace (j0 + (c - j0))%nat with c in Hin by lia. rewrite Hin. apply eqb_refl.
  - assert (Hc' : (c < j0 \/ j0 + length src <= c)%nat).
    { apply andb_false_iff in E as [E|E]; [apply Nat.leb_gt in E|apply Nat.ltb_ge in E]; lia. }
    rewrite (Hout c ltac:(lia) Hc'). apply eqb_refl.
Qed.

Theorem template_blocks_b_complete Ts out : TemplateBlocks zero Ts out -> template_blocks_b zero eqb Ts out = true.
Proof.
  apply blocks_b_complete. intros k tm om. apply forall2b_complete. intros r o. apply blockrow_b_complete.
Qed.

Theorem block_diag_b_complete Ms out : BlockDiag zero Ms out -> block_diag_b zero eqb Ms out = true.
Proof. apply blocks_b_complete. intros k r o. apply blockrow_b_complete. Qed.
End CheckerComplete.

Lemma zlist_eqb_refl a : zlist_eqb a a = true.
Proof. induction a as [|x a IH]; [reflexivity|]. cbn [zlist_eqb]. now rewrite Z.eqb_refl, IH. Qed.

Theorem chan_labels_b_complete cms o : ChanLabels cms o -> chan_labels_b cms o = true.
Proof. apply blocks_b_complete. intros k _ c ->. apply Z.eqb_refl. Qed.

Theorem table_shift_b_complete off ts out : TableShift off ts out -> table_shift_b off ts out = true.
Proof. apply blocks_b_complete. intros k row o ->. apply zlist_eqb_refl. Qed.

(* the per-probe constant that the checker reads off the first cell of a block is the constant of the statement *)
Lemma first_delta_of_blocks {B} (get : B -> Z) (P : nat -> B -> B -> Prop) (d : nat -> Z) src out :
  (forall k b c, P k b c -> get c = get b + d k) -> Blocks P src out ->
  forall k L i b, nth_error src k = Some L -> nth_error L i = Some b -> first_delta get src out k = d k.
Proof.
  intros HP [_ Hb] k L i b HL Hi. unfold first_delta. rewrite (nth_error_nth src k [] HL).
  destruct L as [|b0 L']; [now destruct i|].
  destruct (Hb k (b0 :: L') 0%nat b0 HL eq_refl) as (c0 & Hc0 & P0). rewrite Nat.add_0_r in Hc0. rewrite Hc0.
  rewrite (HP _ _ _ P0). lia.
Qed.

Theorem chan_map_b_complete cms o : ChanMap cms o -> chan_map_b cms o = true.
Proof.
  intros (ds & _ & H). unfold chan_map_b.
  apply (blocks_b_complete _ (fun k v c => c = v + first_delta (fun z => z) cms o k)).
  - intros k v c ->. apply Z.eqb_refl.
  - eapply Blocks_impl; [|exact H]. intros k L i b c HL Hi ->. cbn beta.
    rewrite (first_delta_of_blocks (fun z => z) _ (fun k => nth k ds 0) cms o (fun k b c E => E) H k L i b HL Hi).
    reflexivity.
Qed.

Theorem pos_blocks_b_complete poss o : PosBlocks poss o -> pos_blocks_b poss o = true.
Proof.
  intros (dxs & _ & H). unfold pos_blocks_b.
  apply (blocks_b_complete _ (fun k p c => c = shift_x (first_delta px poss o k) p)).
  - intros k p c ->. cbn [shift_x px py]. now rewrite !Z.eqb_refl.
  - eapply Blocks_impl; [|exact H]. intros k L i b c HL Hi ->. cbn beta.
    rewrite (first_delta_of_blocks px _ (fun k => nth k dxs 0) poss o
               (fun k b c (E : c = shift_x (nth k dxs 0) b) => f_equal px E) H k L i b HL Hi).
    reflexivity.
Qed.

(* ---- apart_b ---- *)
Lemma in_firstn_px (opos : list xy) n x : In x (map px (firstn n opos)) ->
  exists a pa, (a < n)%nat /\ nth_error opos a = Some pa /\ px pa = x.
Proof.
  intros H. apply in_map_iff in H as (pa & E & Hin). apply In_nth_error in Hin as (a & Ha).
  assert (Hlt : (a < n)%nat).
  { assert (a < length (firstn n opos))%nat by (apply nth_error_Some; congruence).
    pose proof (firstn_le_length n opos). lia. }
  exists a, pa. split; [exact Hlt|]. split; [|exact E]. now rewrite <- (nth_error_firstn_lt opos n a Hlt).
Qed.

Lemma Apart_tail n rest opos : Apart (n :: rest) opos -> Apart rest (skipn n opos).
Proof.
  intros H j k a b pa pb Hjk Hk Ha Hb Hpa Hpb. rewrite nth_error_skipn_add in Hpa, Hpb.
  apply (H (S j) (S k) a b pa pb); cbn [length nth]; try lia; try assumption.
  - rewrite offs_S. now rewrite <- Nat.add_assoc.
  - rewrite offs_S. now rewrite <- Nat.add_assoc.
Qed.

Lemma apart_loop_complete lens : forall opos prev,
  Apart lens opos ->
  (forall m, prev = Some m -> forall k b pb, (k < length lens)%nat -> (b < nth k lens 0)%nat ->
     nth_error opos (offs lens k + b) = Some pb -> m < px pb) ->
  apart_loop prev lens opos = true.
Proof.
  induction lens as [|n rest IH]; intros opos prev HA Hprev; [reflexivity|].
  cbn [apart_loop]. apply andb_true_iff. split.
  - destruct prev as [m|]; [|reflexivity]. apply forallb_forall. intros x Hx.
    apply in_firstn_px in Hx as (a & pa & Ha & Hpa & <-).
    specialize (Hprev m eq_refl 0%nat a pa). cbn [length nth] in Hprev. rewrite offs_0 in Hprev.
    specialize (Hprev ltac:(lia) Ha Hpa). lia.
  - apply IH; [now apply Apart_tail|].
    intros m'' E k b pb Hk Hb Hpb. rewrite nth_error_skipn_add in Hpb.
    (* m'' is the previous bound or the x of a channel of the first block *)
    assert (Hcase : prev = Some m'' \/ (exists a pa, (a < n)%nat /\ nth_error opos a = Some pa /\ px pa = m'') \/
                    (exists m a pa, prev = Some m /\ (a < n)%nat /\ nth_error opos a = Some pa /\ m'' = Z.max m (px pa))).
    { destruct (list_max (map px (firstn n opos))) as [m'|] eqn:EM.
      - destruct (list_max_spec _ _ EM) as [Hin _]. apply in_firstn_px in Hin as (a & pa & Ha & Hpa & Hx).
        destruct prev as [m|]; injection E as <-.
        + right; right. exists m, a, pa. subst m'. auto.
        + right; left. exists a, pa. auto.
      - now left. }
    assert (Hlater : forall a pa, (a < n)%nat -> nth_error opos a = Some pa -> px pa < px pb).
    { intros a pa Ha Hpa. apply (HA 0%nat (S k) a b pa pb); cbn [length nth]; try lia; try assumption.
      rewrite offs_S. now rewrite <- Nat.add_assoc. }
    assert (Hold : forall m, prev = Some m -> m < px pb).
    { intros m Em. apply (Hprev m Em (S k) b pb); cbn [length nth]; try lia; try assumption.
      rewrite offs_S. now rewrite <- Nat.add_assoc. }
    destruct Hcase as [Em|[(a & pa & Ha & Hpa & <-)|(m & a & pa & Em & Ha & Hpa & ->)]].
    + now apply Hold.
    + now apply (Hlater a pa).
    + specialize (Hold m Em). specialize (Hlater a pa Ha Hpa). lia.
Qed.

Theorem apart_b_complete lens opos : Apart lens opos -> apart_b lens opos = true.
Proof. intros H. apply apart_loop_complete; [exact H|]. intros m E. discriminate. Qed.

(* ---- the spike-row checkers of Link.v ---- *)
From PV Require Import C12.Link.
From PV Require C11.Spec.

Lemma In_combine_nth {X Y} (l1 : list X) (l2 : list Y) x y : In (x, y) (combine l1 l2) ->
  exists i, nth_error l1 i = Some x /\ nth_error l2 i = Some y.
Proof.
  revert l2; induction l1 as [|a l1 IH]; intros [|b l2] H; cbn [combine] in H; try contradiction.
  destruct H as [[= -> ->]|H]; [now exists 0%nat|]. destruct (IH l2 H) as (i & H1 & H2). now exists (S i).
Qed.

Section SpikeComplete.
Context {A B : Type} (zero : A) (eqb : A -> A -> bool).
Hypothesis eqb_refl : forall x, eqb x x = true.

Theorem spike_rows_b_complete Ts (M : list (C11.Spec.tagged B)) ids out :
  SpikeRows zero Ts M ids out -> spike_rows_b zero eqb Ts M ids out = true.
Proof.
  intros [HL H]. unfold spike_rows_b. apply andb_true_iff. split; [now apply Nat.eqb_eq|].
  apply forallb_forall. intros [s id] Hin. cbn [fst snd]. apply In_combine_nth in Hin as (i & Hs & Hid).
  destruct (H i s Hs) as (id' & Tk & tm & om & G1 & G2 & G3 & G4 & G5 & G6 & G7).
  rewrite Hid in G1. injection G1 as <-. rewrite G4, G5, G6.
  replace (0 <=? id) with true by (symmetry; apply Z.leb_le; lia).
  replace (0 <=? C11.Spec.t_tmpl s) with true by (symmetry; apply Z.leb_le; lia). cbn [andb].
  apply (forall2b_complete _ _ _ _ (fun a b => blockrow_b_complete zero eqb eqb_refl _ _ a b)). exact G7.
Qed.

Theorem spike_table_b_complete off tfs (M : list (C11.Spec.tagged B)) ids out :
  SpikeTable off tfs M ids out -> spike_table_b off tfs M ids out = true.
Proof.
  intros [HL H]. unfold spike_table_b. apply andb_true_iff. split; [now apply Nat.eqb_eq|].
  apply forallb_forall. intros [s id] Hin. cbn [fst snd]. apply In_combine_nth in Hin as (i & Hs & Hid).
  destruct (H i s Hs) as (id' & Tk & row & G1 & G2 & G3 & G4 & G5 & G6).
  rewrite Hid in G1. injection G1 as <-. rewrite G4, G5, G6.
  replace (0 <=? id) with true by (symmetry; apply Z.leb_le; lia).
  replace (0 <=? C11.Spec.t_tmpl s) with true by (symmetry; apply Z.leb_le; lia). cbn [andb].
  apply zlist_eqb_refl.
Qed.
End SpikeComplete.
