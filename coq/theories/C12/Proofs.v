(* C12/Proofs.v -- generic lemmas about block-structured lists, and the structure of each loop of
   the model. *)
From Coq Require Import ZArith List Bool Arith Lia.
From PV Require Import Base.NpSearch C12.Model C12.Spec.
Import ListNotations.
Open Scope Z_scope.

(* ---------------------------------------------------------------------------------------------- *)
(* offsets *)
Lemma offs_0 l : offs l 0 = 0%nat.
Proof. reflexivity. Qed.
Lemma offs_S x l k : offs (x :: l) (S k) = (x + offs l k)%nat.
Proof. reflexivity. Qed.
Lemma offs_nil k : offs [] k = 0%nat.
Proof. unfold offs. now rewrite firstn_nil. Qed.

Lemma offs_le l k w : nth_error l k = Some w -> (offs l k + w <= nsum l)%nat.
Proof.
  revert k; induction l as [|x l IH]; intros [|k] H; cbn [nth_error] in H; try discriminate.
  - injection H as ->. rewrite offs_0. cbn [nsum fold_right]. lia.
  - rewrite offs_S. cbn [nsum fold_right]. specialize (IH k H). unfold nsum in IH. lia.
Qed.

Lemma offs_all l k : (length l <= k)%nat -> offs l k = nsum l.
Proof. intros H. unfold offs. now rewrite firstn_all2. Qed.

(* ---------------------------------------------------------------------------------------------- *)
(* Blocks *)
Lemma Blocks_nil {B C} (P : nat -> B -> C -> Prop) : Blocks P [] [].
Proof. split; [reflexivity|]. intros [|k] L i b H; discriminate. Qed.

Lemma Blocks_cons {B C} (P : nat -> B -> C -> Prop) L src outL out :
  length outL = length L ->
  (forall i b, nth_error L i = Some b -> exists c, nth_error outL i = Some c /\ P 0%nat b c) ->
  Blocks (fun k => P (S k)) src out -> Blocks P (L :: src) (outL ++ out).
Proof.
  intros Hlen H0 [Hl Hs]. split.
  - rewrite app_length, Hl, Hlen. reflexivity.
  - intros [|k] L' i b HL Hb; cbn [nth_error] in HL.
    + injection HL as <-. destruct (H0 i b Hb) as (c & Hc & Pc). exists c. split; [|exact Pc].
      cbn [map]. rewrite offs_0. cbn [Nat.add]. rewrite nth_error_app1; [exact Hc|].
      apply nth_error_Some. congruence.
    + destruct (Hs k L' i b HL Hb) as (c & Hc & Pc). exists c. split; [|exact Pc].
      cbn [map]. rewrite offs_S. rewrite nth_error_app2 by lia.
      replace (length L + offs (map (@length B) src) k + i - length outL)%nat
        with (offs (map (@length B) src) k + i)%nat by lia. exact Hc.
Qed.

Lemma Blocks_impl {B C} (P Q : nat -> B -> C -> Prop) src out :
  (forall k L i b c, nth_error src k = Some L -> nth_error L i = Some b -> P k b c -> Q k b c) ->
  Blocks P src out -> Blocks Q src out.
Proof.
  intros H [Hl Hs]. split; [exact Hl|]. intros k L i b HL Hb.
  destruct (Hs k L i b HL Hb) as (c & Hc & Pc). exists c. split; [exact Hc|]. eapply H; eassumption.
Qed.

Lemma Blocks_map_out {B C D} (P : nat -> B -> C -> Prop) (g : C -> D) src out :
  Blocks P src out -> Blocks (fun k b d => exists c, P k b c /\ d = g c) src (map g out).
Proof.
  intros [Hl Hs]. split; [now rewrite map_length|]. intros k L i b HL Hb.
  destruct (Hs k L i b HL Hb) as (c & Hc & Pc). exists (g c). split; [now apply map_nth_error|].
  exists c. now split.
Qed.

Lemma map_block {B C} (f : B -> C) (L : list B) i b :
  nth_error L i = Some b -> exists c, nth_error (map f L) i = Some c /\ c = f b.
Proof. intros H. exists (f b). split; [now apply map_nth_error|reflexivity]. Qed.

(* blocks built by mapping a k-indexed function over the k-th source block *)
Lemma Blocks_concat_seq_gen {B C} (f : nat -> B -> C) (src : list (list B)) k0 :
  Blocks (fun k b c => c = f (k0 + k)%nat b) src
         (concat (map (fun i => map (f (k0 + i)%nat) (nth i src [])) (seq 0 (length src)))).
Proof.
  revert k0; induction src as [|L src IH]; intros k0; [apply Blocks_nil|].
  cbn [length seq map concat]. rewrite <- seq_shift, map_map. apply Blocks_cons.
  - cbn [nth]. now rewrite map_length.
  - intros i b Hb. cbn [nth]. apply map_block; exact Hb.
  - specialize (IH (S k0)). eapply Blocks_impl; [|].
    2:{ erewrite map_ext; [exact IH|]. intros i. cbn [nth]. now rewrite Nat.add_succ_r. }
    intros k L' i b c _ _ ->. cbn beta. now rewrite Nat.add_succ_r.
Qed.

Lemma Blocks_concat_seq {B C} (f : nat -> B -> C) (src : list (list B)) :
  Blocks (fun k b c => c = f k b) src
         (concat (map (fun i => map (f i) (nth i src [])) (seq 0 (length src)))).
Proof. exact (Blocks_concat_seq_gen f src 0). Qed.

(* index form of concat *)
Lemma nth_error_concat {B} (ls : list (list B)) k a :
  (a < length (nth k ls []))%nat ->
  nth_error (concat ls) (offs (map (@length B) ls) k + a) = nth_error (nth k ls []) a.
Proof.
  revert k; induction ls as [|L ls IH]; intros k H.
  - destruct k; cbn in H; lia.
  - destruct k as [|k]; cbn [nth] in *; cbn [map concat].
    + rewrite offs_0. cbn [Nat.add]. now rewrite nth_error_app1.
    + rewrite offs_S. rewrite nth_error_app2 by lia.
      replace (length L + offs (map (@length B) ls) k + a - length L)%nat
        with (offs (map (@length B) ls) k + a)%nat by lia. now apply IH.
Qed.

(* ---------------------------------------------------------------------------------------------- *)
(* place / BlockRow *)
Section Poly.
Context {A : Type} (zero : A).

Lemma firstn_repeat_le (x : A) n j : (j <= n)%nat -> firstn j (repeat x n) = repeat x j.
Proof.
  revert j; induction n as [|n IH]; intros [|j] H; cbn [repeat firstn]; try reflexivity; try lia.
  f_equal. apply IH. lia.
Qed.
Lemma skipn_repeat_le (x : A) n j : skipn j (repeat x n) = repeat x (n - j).
Proof.
  revert j; induction n as [|n IH]; intros [|j]; cbn [repeat skipn Nat.sub]; try reflexivity.
  apply IH.
Qed.
Lemma nth_error_repeat_lt (x : A) n c : (c < n)%nat -> nth_error (repeat x n) c = Some x.
Proof.
  revert c; induction n as [|n IH]; intros [|c] H; cbn [repeat nth_error]; try reflexivity; try lia.
  apply IH. lia.
Qed.

Lemma place_eq n j0 src : (j0 + length src <= n)%nat ->
  place zero n j0 src = repeat zero j0 ++ src ++ repeat zero (n - (j0 + length src)).
Proof.
  intros H. unfold place, set_slice. rewrite firstn_repeat_le by lia. now rewrite skipn_repeat_le.
Qed.

Lemma place_blockrow n j0 src : (j0 + length src <= n)%nat -> BlockRow zero n j0 src (place zero n j0 src).
Proof.
  intros H. rewrite place_eq by exact H. unfold BlockRow. split; [|split; [exact H|split]].
  - rewrite !app_length, !repeat_length. lia.
  - intros c x Hc. rewrite nth_error_app2 by (rewrite repeat_length; lia). rewrite repeat_length.
    replace (j0 + c - j0)%nat with c by lia. rewrite nth_error_app1; [exact Hc|].
    apply nth_error_Some. congruence.
  - intros c Hc [Hlt|Hge].
    + rewrite nth_error_app1 by (rewrite repeat_length; lia). now apply nth_error_repeat_lt.
    + rewrite nth_error_app2 by (rewrite repeat_length; lia). rewrite repeat_length.
      rewrite nth_error_app2 by lia. apply nth_error_repeat_lt. lia.
Qed.

Lemma Forall2_place n j0 (tm : list (list A)) :
  (forall r, In r tm -> (j0 + length r <= n)%nat) ->
  Forall2 (BlockRow zero n j0) tm (map (place zero n j0) tm).
Proof.
  induction tm as [|r tm IH]; intros H; cbn [map]; constructor.
  - apply place_blockrow. apply H. now left.
  - apply IH. intros r' Hr'. apply H. now right.
Qed.

(* ---- write_templates ---- *)
Lemma nth_widths (Ts : list (list (list (list A)))) k T :
  nth_error Ts k = Some T -> nth_error (widths Ts) k = Some (tshape2 T).
Proof. intros H. unfold widths. now apply map_nth_error. Qed.

Lemma write_templates_blocks (Ts : list (list (list (list A)))) out :
  write_templates zero Ts = Some out -> (forall T, In T Ts -> RectT T) -> TemplateBlocks zero Ts out.
Proof.
  unfold write_templates. destruct Ts as [|T0 Ts']; [discriminate|].
  remember (T0 :: Ts') as Ts eqn:ETs. match goal with |- context [forallb ?f ?l] => destruct (forallb f l) end; [|discriminate].
  intros H Hrect. injection H as <-. unfold TemplateBlocks.
  eapply Blocks_impl; [|apply (Blocks_concat_seq (fun i => map (place zero (nsum (map (@tshape2 A) Ts))
                                   (nsum (firstn i (map (@tshape2 A) Ts))))))].
  intros k T i tm c HT Htm ->. cbn beta. apply Forall2_place.
  intros r Hr. pose proof (nth_widths Ts k T HT) as Hw. apply offs_le in Hw.
  rewrite (Hrect T (nth_error_In _ _ HT) tm r (nth_error_In _ _ Htm) Hr). exact Hw.
Qed.

Lemma write_templates_some (Ts : list (list (list (list A)))) :
  Ts <> [] -> (forall T, In T Ts -> tshape1 T = tshape1 (hd [] Ts)) -> exists out, write_templates zero Ts = Some out.
Proof.
  destruct Ts as [|T0 Ts']; [congruence|]. intros _ H. unfold write_templates.
  set (Ts := T0 :: Ts') in *. cbn [hd] in H.
  assert (forallb (fun T => Nat.eqb (tshape1 T) (tshape1 T0)) Ts = true) as ->.
  { apply forallb_forall. intros T HT. apply Nat.eqb_eq. unfold Ts in H. now apply H. }
  eexists; reflexivity.
Qed.

(* ---- block_diag ---- *)
Lemma bd_loop_blocks n (Ms : list (list (list A))) c0 :
  (forall M, In M Ms -> RectM M) -> (c0 + nsum (map (@mcols A) Ms) <= n)%nat ->
  Blocks (fun k r o => BlockRow zero n (c0 + offs (map (@mcols A) Ms) k) r o) Ms (bd_loop zero n c0 Ms).
Proof.
  revert c0; induction Ms as [|M Ms IH]; intros c0 Hrect Hn; cbn [bd_loop]; [apply Blocks_nil|].
  cbn [map nsum fold_right] in Hn. fold (nsum (map (@mcols A) Ms)) in Hn. apply Blocks_cons.
  - now rewrite map_length.
  - intros i r Hr. exists (place zero n c0 r). split; [now apply map_nth_error|].
    cbn [map]. rewrite offs_0, Nat.add_0_r. apply place_blockrow.
    rewrite (Hrect M (or_introl eq_refl) r (nth_error_In _ _ Hr)). lia.
  - eapply Blocks_impl; [|apply (IH (c0 + mcols M)%nat)].
    + intros k L i b c _ _ H. cbn [map]. rewrite offs_S.
      replace (c0 + (mcols M + offs (map (@mcols A) Ms) k))%nat with (c0 + mcols M + offs (map (@mcols A) Ms) k)%nat by lia.
      exact H.
    + intros M' HM'. apply Hrect. now right.
    + lia.
Qed.

Lemma block_diag_spec (Ms : list (list (list A))) :
  (forall M, In M Ms -> RectM M) -> BlockDiag zero Ms (block_diag zero Ms).
Proof.
  intros H. unfold BlockDiag, block_diag. eapply Blocks_impl; [|apply (bd_loop_blocks _ Ms 0%nat H); lia].
  intros k L i b c _ _ Hc. exact Hc.
Qed.

Lemma all_some_spec {B} (l : list (option B)) :
  match all_some l with
  | Some xs => l = map Some xs
  | None => In None l
  end.
Proof.
  induction l as [|[x|] l IH]; cbn [all_some]; [reflexivity| |now left].
  destruct (all_some l) as [xs|]; [cbn [map]; now f_equal|now right].
Qed.

Lemma write_misc_present (Ms : list (list (list A))) :
  (forall M, In M Ms -> RectM M) ->
  exists out, write_misc zero (map Some Ms) = Some out /\ BlockDiag zero Ms out.
Proof.
  intros H. unfold write_misc.
  assert (all_some (map Some Ms) = Some Ms) as ->.
  { clear H. induction Ms as [|M Ms IH]; [reflexivity|]. cbn [map all_some]. now rewrite IH. }
  eexists; split; [reflexivity|]. now apply block_diag_spec.
Qed.

Lemma write_misc_absent (Ms : list (option (list (list A)))) : In None Ms -> write_misc zero Ms = None.
Proof.
  intros H. unfold write_misc. pose proof (all_some_spec Ms) as S. destruct (all_some Ms) as [xs|]; [|reflexivity].
  subst Ms. apply in_map_iff in H as (x & Hx & _). discriminate.
Qed.
End Poly.

(* ---------------------------------------------------------------------------------------------- *)
Lemma write_params_spec {R} (ps : list (params R)) (r : R) :
  ps <> [] -> (forall p, In p ps -> pr_rate p = r) ->
  exists m, write_params ps = Some m /\ pr_rate m = r /\ pr_ncd m = zsum (map pr_ncd ps).
Proof.
  destruct ps as [|p0 rest]; [congruence|]. intros _ H. eexists; split; [reflexivity|].
  cbn [pr_rate pr_ncd]. split; [apply H; now left|reflexivity].
Qed.
