(* C12/Proofs.v *)
From Coq Require Import ZArith List Bool Arith Lia.
From PV Require Import Base.NpSearch C12.Model C12.Spec.
Import ListNotations.
Open Scope Z_scope.

Lemma write_params_spec {R} (ps : list (params R)) (r : R) :
  ps <> [] -> (forall p, In p ps -> pr_rate p = r) ->
  exists m, write_params ps = Some m /\ pr_rate m = r /\ pr_ncd m = zsum (map pr_ncd ps).
Proof.
  destruct ps as [|p0 rest]; [congruence|]. intros _ H. eexists; split; [reflexivity|].
  cbn [pr_rate pr_ncd]. split; [apply H; now left|reflexivity].
Qed.
