(* C12/Proofs3.v -- the assembled merge, and soundness of the boolean checkers of Spec.v. *)
From Coq Require Import ZArith List Bool Arith Lia.
From PV Require Import Base.NpSearch C12.Model C12.Spec C12.Proofs C12.Proofs2.
Import ListNotations.
Open Scope Z_scope.

Section Merge.
Context {A R : Type} (zero : A).

Definition coffZ (ps : list (probe A R)) (k : nat) : Z := Z.of_nat (offs (map (fun p => length (p_cm p)) ps) k).
Definition toffZ (ps : list (probe A R)) (k : nat) : Z := Z.of_nat (offs (map (fun p => length (p_tmpl p)) ps) k).

Lemma merge_side_inv unit (ps : list (probe A R)) m : merge_side zero unit ps = Some m ->
  exists par co pos T,
    write_params (map p_par ps) = Some par /\ channel_data (map p_cm ps) = Some co /\
    channel_positions unit (map p_pos ps) = Some pos /\ write_templates zero (map p_tmpl ps) = Some T /\
    m = mkmerged (co_map co) (co_probe co) pos T
                 (pc_table (co_offsets co) (map p_pc ps)) (tf_table (map p_tf ps))
                 (write_misc zero (map p_wm ps)) (write_misc zero (map p_wmi ps))
                 (write_misc zero (map p_sim ps)) par.
Proof.
  unfold merge_side. destruct (write_params _) as [par|]; [|discriminate].
  destruct (channel_data _) as [co|]; [|discriminate]. destruct (channel_positions _ _) as [pos|]; [|discriminate].
  destruct (write_templates _ _) as [T|]; [|discriminate]. intros H; injection H as <-.
  exists par, co, pos, T. repeat split; reflexivity.
Qed.

Lemma merge_side_defined unit (ps : list (probe A R)) :
  ps <> [] -> (forall p, In p ps -> p_cm p <> [] /\ p_pos p <> []) ->
  (exists ns, forall p, In p ps -> tshape1 (p_tmpl p) = ns) ->
  exists m, merge_side zero unit ps = Some m.
Proof.
  intros Hne Hch [ns Hns]. unfold merge_side. destruct ps as [|p0 ps']; [congruence|]. remember (p0 :: ps') as ps.
  assert (Hne' : forall B (f : probe A R -> B), map f ps <> []) by (intros B f; subst ps; discriminate).
  assert (write_params (map p_par ps) <> None) as Hp by (subst ps; discriminate).
  destruct (write_params (map p_par ps)) as [par|]; [|congruence].
  assert (exists co, channel_data (map p_cm ps) = Some co) as [co ->].
  { unfold channel_data. destruct (map p_cm ps) eqn:E; [now apply Hne' in E|]. rewrite <- E.
    destruct (chan_loop_some (map p_cm ps)) with (ind := 0) (offset := 0) (n := 0) as [o ->].
    - intros a Ha. apply in_map_iff in Ha as (p & <- & Hp'). now apply Hch.
    - eexists; reflexivity. }
  destruct (channel_positions_some unit (map p_pos ps)) as [pos ->].
  { apply Hne'. } { intros a Ha. apply in_map_iff in Ha as (p & <- & Hp'). now apply Hch. }
  destruct (write_templates_some zero (map p_tmpl ps)) as [T ->].
  { apply Hne'. }
  { intros T HT. apply in_map_iff in HT as (p & <- & Hp'). rewrite (Hns p Hp'). subst ps. cbn [map hd].
    symmetry. apply Hns. now left. }
  eexists; reflexivity.
Qed.

Lemma map_length_map {B} (f : probe A R -> list B) ps : map (@length B) (map f ps) = map (fun p => length (f p)) ps.
Proof. now rewrite map_map. Qed.

Theorem merge_channel_blocks unit (ps : list (probe A R)) m : merge_side zero unit ps = Some m ->
  ChanLabels (map p_cm ps) (m_probe m) /\ ChanMap (map p_cm ps) (m_map m) /\
  exists dxs, length dxs = length ps /\ nth 0 dxs 0 = 0 /\
    Blocks (fun k p o => o = shift_x (nth k dxs 0) p) (map p_pos ps) (m_pos m).
Proof.
  intros H. destruct (merge_side_inv _ _ _ H) as (par & co & pos & T & _ & Hc & Hp & _ & ->).
  cbn [m_probe m_map m_pos]. destruct (channel_data_spec _ _ Hc) as (H1 & H2 & _).
  split; [exact H1|]. split; [exact H2|]. destruct (channel_positions_spec _ _ _ Hp) as (dxs & Hl & H0 & Hb).
  exists dxs. rewrite map_length in Hl. now split.
Qed.

Theorem merge_apart unit (ps : list (probe A R)) m : 0 < unit ->
  (forall p q, In p ps -> In q (p_pos p) -> 0 <= px q) -> merge_side zero unit ps = Some m ->
  Apart (map (fun p => length (p_pos p)) ps) (m_pos m).
Proof.
  intros Hu Hx H. destruct (merge_side_inv _ _ _ H) as (par & co & pos & T & _ & _ & Hp & _ & ->).
  cbn [m_pos]. rewrite <- map_length_map. apply (channel_positions_apart unit); [exact Hu| |exact Hp].
  intros a q Ha Hq. apply in_map_iff in Ha as (p & <- & Hp'). now apply (Hx p q).
Qed.

Theorem merge_template_blocks unit (ps : list (probe A R)) m : merge_side zero unit ps = Some m ->
  (forall p, In p ps -> RectT (p_tmpl p)) -> TemplateBlocks zero (map p_tmpl ps) (m_tmpl m).
Proof.
  intros H Hr. destruct (merge_side_inv _ _ _ H) as (par & co & pos & T & _ & _ & _ & HT & ->).
  cbn [m_tmpl]. apply write_templates_blocks; [exact HT|].
  intros T' HT'. apply in_map_iff in HT' as (p & <- & Hp). now apply Hr.
Qed.

Lemma widths_channels (ps : list (probe A R)) :
  (forall p, In p ps -> tshape2 (p_tmpl p) = length (p_cm p)) ->
  widths (map p_tmpl ps) = map (fun p => length (p_cm p)) ps.
Proof. intros H. unfold widths. rewrite map_map. apply map_ext_in. exact H. Qed.

Theorem merge_index_tables unit (ps : list (probe A R)) m : merge_side zero unit ps = Some m ->
  (forall p, In p ps -> length (p_tf p) = length (p_tmpl p)) ->
  NoWrap (coffZ ps) (map p_pc ps) -> NoWrap (toffZ ps) (map p_tf ps) ->
  TableShift (coffZ ps) (map p_pc ps) (m_pc m) /\ TableShift (toffZ ps) (map p_tf ps) (m_tf m).
Proof.
  intros H Hlen Hn1 Hn2. destruct (merge_side_inv _ _ _ H) as (par & co & pos & T & _ & Hc & _ & _ & ->).
  cbn [m_pc m_tf]. destruct (channel_data_spec _ _ Hc) as (_ & _ & Ho). rewrite Ho. split.
  - assert (E : forall k, coffZ ps k = Z.of_nat (offs (map (@length Z) (map p_cm ps)) k)).
    { intros k. unfold coffZ. now rewrite map_length_map. }
    pose proof (pc_table_spec (map p_cm ps) (map p_pc ps)) as S. cbv zeta in S.
    unfold TableShift in *. eapply Blocks_impl; [|apply S].
    + intros k L i b c _ _ ->. now rewrite E.
    + now rewrite !map_length.
    + intros k T' row v HT' Hrow Hv. rewrite <- E. now apply (Hn1 k T' row v).
  - assert (E : forall k, toffZ ps k = Z.of_nat (offs (map (@length (list Z)) (map p_tf ps)) k)).
    { intros k. unfold toffZ. rewrite map_length_map. do 2 f_equal. apply map_ext_in. intros p Hp. now rewrite Hlen. }
    pose proof (tf_table_spec (map p_tf ps)) as S. cbv zeta in S.
    unfold TableShift in *. eapply Blocks_impl; [|apply S].
    + intros k L i b c _ _ ->. now rewrite E.
    + intros k T' row v HT' Hrow Hv. rewrite <- E. now apply (Hn2 k T' row v).
Qed.

Theorem merge_block_diag unit (ps : list (probe A R)) m (get : probe A R -> option (list (list A)))
        (got : merged A R -> option (list (list A))) :
  (forall par co pos T, got (mkmerged (co_map co) (co_probe co) pos T
                 (pc_table (co_offsets co) (map p_pc ps)) (tf_table (map p_tf ps))
                 (write_misc zero (map p_wm ps)) (write_misc zero (map p_wmi ps))
                 (write_misc zero (map p_sim ps)) par) = write_misc zero (map get ps)) ->
  merge_side zero unit ps = Some m ->
  (forall Ms, map get ps = map Some Ms -> (forall M, In M Ms -> RectM M) ->
     exists out, got m = Some out /\ BlockDiag zero Ms out) /\
  ((exists p, In p ps /\ get p = None) -> got m = None).
Proof.
  intros Hg H. destruct (merge_side_inv _ _ _ H) as (par & co & pos & T & _ & _ & _ & _ & ->). rewrite Hg. split.
  - intros Ms E Hr. rewrite E. now apply write_misc_present.
  - intros (p & Hp & E). apply write_misc_absent. rewrite <- E. now apply in_map.
Qed.

Lemma Forall2_nth_error {B C} (P : B -> C -> Prop) a b : Forall2 P a b ->
  forall s x, nth_error a s = Some x -> exists y, nth_error b s = Some y /\ P x y.
Proof.
  induction 1 as [|x0 y0 a b H0 _ IH]; intros [|s] x Hx; cbn [nth_error] in *; try discriminate.
  - injection Hx as <-. now exists y0.
  - now apply IH.
Qed.

Lemma Forall2_len {B C} (P : B -> C -> Prop) a b : Forall2 P a b -> length a = length b.
Proof. induction 1; cbn [length]; congruence. Qed.

(* the statement cell by cell *)
Theorem merge_template_cells unit (ps : list (probe A R)) m : merge_side zero unit ps = Some m ->
  (forall p, In p ps -> RectT (p_tmpl p)) ->
  (forall p, In p ps -> tshape2 (p_tmpl p) = length (p_cm p)) ->
  let lens := map (fun p => length (p_cm p)) ps in
  length (m_tmpl m) = nsum (map (fun p => length (p_tmpl p)) ps) /\
  forall k p t tm s r, nth_error ps k = Some p -> nth_error (p_tmpl p) t = Some tm -> nth_error tm s = Some r ->
    exists om orow,
      nth_error (m_tmpl m) (offs (map (fun p => length (p_tmpl p)) ps) k + t) = Some om /\
      length om = length tm /\ nth_error om s = Some orow /\ length orow = nsum lens /\
      (forall c x, nth_error r c = Some x -> nth_error orow (offs lens k + c) = Some x) /\
      (forall c, (c < nsum lens)%nat -> (c < offs lens k \/ offs lens k + length (p_cm p) <= c)%nat ->
                 nth_error orow c = Some zero).
Proof.
  intros H Hrect Hw lens. pose proof (merge_template_blocks _ _ _ H Hrect) as [Hl Hb].
  rewrite (widths_channels ps Hw) in Hb. fold lens in Hb. rewrite map_length_map in Hl, Hb. split; [exact Hl|].
  intros k p t tm s r Hp Htm Hr.
  destruct (Hb k (p_tmpl p) t tm (map_nth_error p_tmpl k ps Hp) Htm) as (om & Hom & HF).
  destruct (Forall2_nth_error _ _ _ HF s r Hr) as (orow & Horow & Hlen & Hle & Hin & Hout).
  exists om, orow. split; [exact Hom|]. split; [symmetry; eapply Forall2_len; exact HF|].
  split; [exact Horow|]. split; [exact Hlen|]. split; [exact Hin|].
  intros c Hc Hside. apply Hout; [exact Hc|].
  rewrite (Hrect p (nth_error_In _ _ Hp) tm r (nth_error_In _ _ Htm) (nth_error_In _ _ Hr)), (Hw p (nth_error_In _ _ Hp)).
  exact Hside.
Qed.

Theorem merge_params unit (ps : list (probe A R)) m (r : R) : merge_side zero unit ps = Some m ->
  (forall p, In p ps -> pr_rate (p_par p) = r) ->
  pr_rate (m_par m) = r /\ pr_ncd (m_par m) = zsum (map (fun p => pr_ncd (p_par p)) ps).
Proof.
  intros H Hr. destruct (merge_side_inv _ _ _ H) as (par & co & pos & T & Hp & _ & _ & _ & ->). cbn [m_par].
  destruct (write_params_spec (map p_par ps) r) as (m' & E & H1 & H2).
  - intros E. rewrite E in Hp. discriminate.
  - intros q Hq. apply in_map_iff in Hq as (p & <- & Hp'). now apply Hr.
  - rewrite Hp in E. injection E as <-. rewrite map_map in H2. now split.
Qed.
End Merge.

(* ---------------------------------------------------------------------------------------------- *)
(* soundness of the boolean checkers *)
Lemma blocks_b_sound {B C} (chk : nat -> B -> C -> bool) (P : nat -> B -> C -> Prop) src out :
  (forall k b c, chk k b c = true -> P k b c) -> blocks_b chk src out = true -> Blocks P src out.
Proof.
  intros Hs H. unfold blocks_b in H. apply andb_true_iff in H as [Hl Hf]. apply Nat.eqb_eq in Hl.
  split; [exact Hl|]. intros k L i b HL Hb. rewrite forallb_forall in Hf.
  assert (Hk : (k < length src)%nat) by (apply nth_error_Some; congruence).
  specialize (Hf k). rewrite in_seq in Hf. specialize (Hf ltac:(lia)). cbv zeta in Hf.
  rewrite (nth_error_nth src k [] HL) in Hf. rewrite forallb_forall in Hf.
  assert (Hi : (i < length L)%nat) by (apply nth_error_Some; congruence).
  specialize (Hf i). rewrite in_seq in Hf. specialize (Hf ltac:(lia)). rewrite Hb in Hf.
  destruct (nth_error out _) as [c|]; [|discriminate]. exists c. split; [reflexivity|now apply Hs].
Qed.

Lemma forall2b_sound {B C} (f : B -> C -> bool) (P : B -> C -> Prop) a b :
  (forall x y, f x y = true -> P x y) -> forall2b f a b = true -> Forall2 P a b.
Proof.
  intros Hs. revert b; induction a as [|x a IH]; intros [|y b] H; cbn [forall2b] in H; try discriminate; constructor.
  - apply Hs. now apply andb_true_iff in H as [H _].
  - apply IH. now apply andb_true_iff in H as [_ H].
Qed.

Section CheckerSound.
Context {A : Type} (zero : A) (eqb : A -> A -> bool).
Hypothesis eqb_eq : forall x y, eqb x y = true -> x = y.

Lemma blockrow_b_sound n j0 src row : blockrow_b zero eqb n j0 src row = true -> BlockRow zero n j0 src row.
Proof.
  unfold blockrow_b. intros H. apply andb_true_iff in H as [H Hf]. apply andb_true_iff in H as [Hl Hle].
  apply Nat.eqb_eq in Hl. apply Nat.leb_le in Hle. rewrite forallb_forall in Hf.
  split; [exact Hl|]. split; [exact Hle|]. split.
  - intros c x Hc. assert (Hc' : (c < length src)%nat) by (apply nth_error_Some; congruence).
    specialize (Hf (j0 + c)%nat). rewrite in_seq in Hf. specialize (Hf ltac:(lia)).
    destruct (nth_error row (j0 + c)) as [y|]; [|discriminate].
    replace (Nat.leb j0 (j0 + c)) with true in Hf by (symmetry; apply Nat.leb_le; lia).
    replace (Nat.ltb (j0 + c) (j0 + length src)) with true in Hf by (symmetry; apply Nat.ltb_lt; lia).
    cbn [andb] in Hf. replace (j0 + c - j0)%nat with c in Hf by lia. rewrite Hc in Hf. now rewrite (eqb_eq _ _ Hf).
  - intros c Hc Hout. specialize (Hf c). rewrite in_seq in Hf. specialize (Hf ltac:(lia)).
    destruct (nth_error row c) as [y|]; [|discriminate].
    assert (Nat.leb j0 c && Nat.ltb c (j0 + length src) = false) as E.
    { destruct Hout as [Hlt|Hge].
      - replace (Nat.leb j0 c) with false by (symmetry; apply Nat.leb_gt; lia). reflexivity.
      - replace (Nat.ltb c (j0 + length src)) with false by (symmetry; apply Nat.ltb_ge; lia). apply andb_false_r. }
    rewrite E in Hf. now rewrite (eqb_eq _ _ Hf).
Qed.

Theorem template_blocks_b_sound Ts out : template_blocks_b zero eqb Ts out = true -> TemplateBlocks zero Ts out.
Proof.
  apply blocks_b_sound. intros k tm om. apply forall2b_sound. intros r o. apply blockrow_b_sound.
Qed.

Theorem block_diag_b_sound Ms out : block_diag_b zero eqb Ms out = true -> BlockDiag zero Ms out.
Proof. apply blocks_b_sound. intros k r o. apply blockrow_b_sound. Qed.
End CheckerSound.

Lemma zlist_eqb_eq a b : zlist_eqb a b = true -> a = b.
Proof.
  revert b; induction a as [|x a IH]; intros [|y b] H; cbn [zlist_eqb] in H; try discriminate; [reflexivity|].
  apply andb_true_iff in H as [H1 H2]. apply Z.eqb_eq in H1. subst. f_equal. now apply IH.
Qed.

Theorem chan_labels_b_sound cms o : chan_labels_b cms o = true -> ChanLabels cms o.
Proof. apply blocks_b_sound. intros k _ c H. now apply Z.eqb_eq in H. Qed.

Theorem table_shift_b_sound off ts out : table_shift_b off ts out = true -> TableShift off ts out.
Proof. apply blocks_b_sound. intros k row o H. now apply zlist_eqb_eq in H. Qed.

Theorem chan_map_b_sound cms o : chan_map_b cms o = true -> ChanMap cms o.
Proof.
  intros H. exists (map (first_delta (fun z => z) cms o) (seq 0 (length cms))).
  split; [now rewrite map_length, seq_length|].
  unfold chan_map_b in H. apply (blocks_b_sound _ (fun k v c => c = v + first_delta (fun z => z) cms o k)) in H.
  - eapply Blocks_impl; [|exact H]. intros k L i b c HL _ ->. cbn beta.
    assert (Hk : (k < length cms)%nat) by (apply nth_error_Some; congruence).
    rewrite (nth_indep _ 0 (first_delta (fun z => z) cms o 0%nat)) by (now rewrite map_length, seq_length).
    rewrite (map_nth (first_delta (fun z => z) cms o)), seq_nth by exact Hk. reflexivity.
  - intros k v c E. now apply Z.eqb_eq in E.
Qed.

Theorem pos_blocks_b_sound poss o : pos_blocks_b poss o = true -> PosBlocks poss o.
Proof.
  intros H. exists (map (first_delta px poss o) (seq 0 (length poss))).
  split; [now rewrite map_length, seq_length|].
  unfold pos_blocks_b in H.
  apply (blocks_b_sound _ (fun k p c => c = shift_x (first_delta px poss o k) p)) in H.
  - eapply Blocks_impl; [|exact H]. intros k L i b c HL _ ->. cbn beta.
    assert (Hk : (k < length poss)%nat) by (apply nth_error_Some; congruence).
    rewrite (nth_indep _ 0 (first_delta px poss o 0%nat)) by (now rewrite map_length, seq_length).
    rewrite (map_nth (first_delta px poss o)), seq_nth by exact Hk. reflexivity.
  - intros k p c E. apply andb_true_iff in E as [E1 E2]. apply Z.eqb_eq in E1, E2.
    destruct c as [cx cy]. unfold shift_x. cbn [px py] in *. now subst.
Qed.
