(* C12/Link.v -- the spike side (C11: Merger.write_spike_clusters) and the template side (C12: write_templates,
   write_template_data) of one merge use the SAME template numbering.

   C11 says: merged spike i, coming from probe k with original template t, is labelled t + toff_k, where toff_k is
   the sum of the template counts (rows of templates.npy) of the earlier probes.  C12 says: template t of probe k is
   row toff'_k + t of the merged templates.npy, where toff'_k is the sum of the row counts of the earlier probes'
   templates.npy.  When the two models read the same probe directories (SameDirs) the two offsets are the same
   number, hence row (merged spike_templates[i]) of the merged templates.npy is the waveform of the template that
   spike i named in its own probe, on that probe's channel block (SpikeRows), and the rows of the merged
   template_feature_ind.npy at that index are the probe's rows renumbered by the same offset (SpikeTable).

   C11's names are used qualified (both developments have a record called probe). *)
From Coq Require Import ZArith List Bool Arith Lia Sorted Permutation.
From PV Require Import Base.NpSearch C12.Model C12.Spec C12.Proofs C12.Proofs2 C12.Proofs3.
From PV Require C11.Model C11.Spec C11.Proofs.
Import ListNotations.
Open Scope Z_scope.

Lemma zsum_firstn_nat (L : list nat) : forall k, zsum (firstn k (map Z.of_nat L)) = Z.of_nat (nsum (firstn k L)).
Proof.
  induction L as [|x L IH]; intros [|k]; cbn [map firstn zsum nsum fold_right]; try reflexivity.
  fold (zsum (firstn k (map Z.of_nat L))). fold (nsum (firstn k L)). rewrite IH. lia.
Qed.

Lemma nth_error_map_eq {X Y W} (f : X -> W) (g : Y -> W) (l1 : list X) (l2 : list Y) k x :
  map f l1 = map g l2 -> nth_error l1 k = Some x -> exists y, nth_error l2 k = Some y /\ f x = g y.
Proof.
  revert l2 k; induction l1 as [|a l1 IH]; intros [|b l2] k E H; cbn [map] in E; try discriminate.
  - destruct k; discriminate.
  - injection E as E1 E2. destruct k as [|k]; cbn [nth_error] in *.
    + injection H as <-. exists b. split; [reflexivity|exact E1].
    + now apply (IH l2 k).
Qed.

Section Spec.
Context {A B : Type} (zero : A).
Notation tagged := (C11.Spec.tagged B).

(* M = the provenance of the merged spikes (merged spike i is input spike M[i]); ids = the merged spike_templates;
   out = the merged templates array.  Row ids[i] of out is template (t_tmpl M[i]) of probe (t_probe M[i]), every sample
   row on that probe's channel block with zeros elsewhere *)
Definition SpikeRows (Ts : list (list (list (list A)))) (M : list tagged) (ids : list Z)
           (out : list (list (list A))) : Prop :=
  length ids = length M /\
  forall i s, nth_error M i = Some s ->
    exists id Tk tm om,
      nth_error ids i = Some id /\ 0 <= id /\ 0 <= C11.Spec.t_tmpl s /\
      nth_error Ts (C11.Spec.t_probe s) = Some Tk /\ nth_error Tk (Z.to_nat (C11.Spec.t_tmpl s)) = Some tm /\
      nth_error out (Z.to_nat id) = Some om /\
      Forall2 (BlockRow zero (nsum (widths Ts)) (offs (widths Ts) (C11.Spec.t_probe s))) tm om.

(* the same for a per-template index table whose entries are template ids (template_feature_ind): row ids[i] of the
   merged table is the row of the spike's own template, its entries renumbered by off (probe) *)
Definition SpikeTable (off : nat -> Z) (tfs : list (list (list Z))) (M : list tagged) (ids : list Z)
           (out : list (list Z)) : Prop :=
  length ids = length M /\
  forall i s, nth_error M i = Some s ->
    exists id Tk row,
      nth_error ids i = Some id /\ 0 <= id /\ 0 <= C11.Spec.t_tmpl s /\
      nth_error tfs (C11.Spec.t_probe s) = Some Tk /\ nth_error Tk (Z.to_nat (C11.Spec.t_tmpl s)) = Some row /\
      nth_error out (Z.to_nat id) = Some (map (fun v => v + off (C11.Spec.t_probe s)) row).

(* ---- boolean checkers, written from the two statements (run on phylib's output by C11/Corr.v and C12/Corr.v) ---- *)
Variable eqb : A -> A -> bool.

Definition spike_rows_b (Ts : list (list (list (list A)))) (M : list tagged) (ids : list Z)
           (out : list (list (list A))) : bool :=
  Nat.eqb (length ids) (length M) &&
  forallb (fun si => let s := fst si in let id := snd si in
     (0 <=? id) && (0 <=? C11.Spec.t_tmpl s) &&
     match nth_error Ts (C11.Spec.t_probe s) with
     | Some Tk => match nth_error Tk (Z.to_nat (C11.Spec.t_tmpl s)), nth_error out (Z.to_nat id) with
                  | Some tm, Some om =>
                      forall2b (blockrow_b zero eqb (nsum (widths Ts)) (offs (widths Ts) (C11.Spec.t_probe s))) tm om
                  | _, _ => false
                  end
     | None => false
     end) (combine M ids).

Definition spike_table_b (off : nat -> Z) (tfs : list (list (list Z))) (M : list tagged) (ids : list Z)
           (out : list (list Z)) : bool :=
  Nat.eqb (length ids) (length M) &&
  forallb (fun si => let s := fst si in let id := snd si in
     (0 <=? id) && (0 <=? C11.Spec.t_tmpl s) &&
     match nth_error tfs (C11.Spec.t_probe s) with
     | Some Tk => match nth_error Tk (Z.to_nat (C11.Spec.t_tmpl s)), nth_error out (Z.to_nat id) with
                  | Some row, Some orow => zlist_eqb orow (map (fun v => v + off (C11.Spec.t_probe s)) row)
                  | _, _ => false
                  end
     | None => false
     end) (combine M ids).

Hypothesis eqb_sound : forall x y, eqb x y = true -> x = y.

Lemma nth_error_combine {X Y} (l1 : list X) (l2 : list Y) : length l2 = length l1 ->
  forall i x, nth_error l1 i = Some x -> exists y, nth_error l2 i = Some y /\ In (x, y) (combine l1 l2).
Proof.
  revert l2; induction l1 as [|a l1 IH]; intros [|b l2] HL i x H; cbn [length] in HL; try discriminate.
  - destruct i; discriminate.
  - destruct i as [|i]; cbn [nth_error] in *.
    + injection H as <-. exists b. split; [reflexivity|now left].
    + destruct (IH l2 ltac:(lia) i x H) as (y & Hy & Hin). exists y. split; [exact Hy|now right].
Qed.

Theorem spike_rows_b_sound Ts M ids out : spike_rows_b Ts M ids out = true -> SpikeRows Ts M ids out.
Proof.
  unfold spike_rows_b. rewrite andb_true_iff, Nat.eqb_eq, forallb_forall. intros [HL H]. split; [exact HL|].
  intros i s Hs. destruct (nth_error_combine M ids HL i s Hs) as (id & Hid & Hin).
  specialize (H _ Hin). cbn [fst snd] in H. rewrite !andb_true_iff in H. destruct H as [[H1 H2] H3].
  destruct (nth_error Ts (C11.Spec.t_probe s)) as [Tk|] eqn:E1; [|discriminate].
  destruct (nth_error Tk (Z.to_nat (C11.Spec.t_tmpl s))) as [tm|] eqn:E2; [|discriminate].
  destruct (nth_error out (Z.to_nat id)) as [om|] eqn:E3; [|discriminate].
  exists id, Tk, tm, om. split; [exact Hid|]. split; [lia|]. split; [lia|]. split; [reflexivity|].
  split; [exact E2|]. split; [exact E3|].
  apply (forall2b_sound _ _ _ _ (fun a b => blockrow_b_sound zero eqb eqb_sound _ _ a b)). exact H3.
Qed.

Theorem spike_table_b_sound off tfs M ids out : spike_table_b off tfs M ids out = true -> SpikeTable off tfs M ids out.
Proof.
  unfold spike_table_b. rewrite andb_true_iff, Nat.eqb_eq, forallb_forall. intros [HL H]. split; [exact HL|].
  intros i s Hs. destruct (nth_error_combine M ids HL i s Hs) as (id & Hid & Hin).
  specialize (H _ Hin). cbn [fst snd] in H. rewrite !andb_true_iff in H. destruct H as [[H1 H2] H3].
  destruct (nth_error tfs (C11.Spec.t_probe s)) as [Tk|] eqn:E1; [|discriminate].
  destruct (nth_error Tk (Z.to_nat (C11.Spec.t_tmpl s))) as [row|] eqn:E2; [|discriminate].
  destruct (nth_error out (Z.to_nat id)) as [orow|] eqn:E3; [|discriminate].
  apply zlist_eqb_eq in H3. subst orow.
  exists id, Tk, row. split; [exact Hid|]. split; [lia|]. split; [lia|]. split; [reflexivity|].
  split; [exact E2|exact E3].
Qed.
End Spec.

Section Link.
Context {A R B V F : Type} (zero : A).
Notation sprobe := (C11.Model.probe B V F).

(* the two models read the same probe directories: as many probes, and the template count that write_spike_clusters
   reads off templates.npy (C11's input p_ntmpl) is the number of templates of the probe on C12's side *)
Definition SameDirs (sps : list sprobe) (ps : list (probe A R)) : Prop :=
  map (@C11.Model.p_ntmpl B V F) sps = map (fun p => Z.of_nat (length (p_tmpl p))) ps.

(* THE link: C11's template offset (what is added to the spike templates of probe k) = C12's template offset (the row
   of the merged templates.npy / template tables where probe k's block starts) *)
Lemma toff_link (sps : list sprobe) (ps : list (probe A R)) k : SameDirs sps ps ->
  C11.Spec.toff_spec sps k = toffZ ps k.
Proof.
  unfold SameDirs, C11.Spec.toff_spec, toffZ, offs. intros E.
  rewrite <- firstn_map, E, <- (map_map (fun p => length (p_tmpl p)) Z.of_nat). apply zsum_firstn_nat.
Qed.

(* provenance of a merged spike: it names one of the templates of its probe *)
Lemma spike_names_template (sps : list sprobe) (ps : list (probe A R)) s :
  Forall C11.Spec.wf_probe sps -> SameDirs sps ps -> In s (C11.Spec.tagged_concat sps) ->
  0 <= C11.Spec.t_tmpl s /\
  exists p tm, nth_error ps (C11.Spec.t_probe s) = Some p /\ nth_error (p_tmpl p) (Z.to_nat (C11.Spec.t_tmpl s)) = Some tm.
Proof.
  intros Hwf E Hs. destruct (C11.Proofs.tagged_from_in 0 sps s (C11.Proofs.wf_all sps Hwf) Hs) as (sp & Hsp & _ & Ht & _).
  rewrite Nat.sub_0_r in Hsp. rewrite Forall_forall in Hwf.
  pose proof (Hwf sp (nth_error_In _ _ Hsp)) as (_ & _ & _ & _ & _ & Pt & Nt).
  specialize (Pt _ Ht). specialize (Nt _ Ht). split; [exact Pt|].
  destruct (nth_error_map_eq _ _ sps ps _ sp E Hsp) as (p & Hp & En). rewrite En in Nt.
  exists p. destruct (nth_error (p_tmpl p) (Z.to_nat (C11.Spec.t_tmpl s))) as [tm|] eqn:Et; [eauto|].
  apply nth_error_None in Et. lia.
Qed.

Theorem link_templates unit (sps : list sprobe) (ps : list (probe A R)) m :
  C11.Spec.wf sps -> SameDirs sps ps -> merge_side zero unit ps = Some m ->
  (forall p, In p ps -> RectT (p_tmpl p)) ->
  exists sm M, C11.Model.merge sps = Some sm /\ C11.Spec.Payload sps sm M /\
    Permutation M (C11.Spec.tagged_concat sps) /\ StronglySorted (@C11.Spec.lt3 B) M /\
    SpikeRows zero (map p_tmpl ps) M (C11.Model.m_tmpl sm) (m_tmpl m).
Proof.
  intros Hwf E Hm Hr. destruct (C11.Proofs.merge_spec sps Hwf) as (sm & Hsm & HP & _).
  set (M := C11.Proofs.sorted_tagged (C11.Spec.tagged_concat sps)) in *.
  pose proof (C11.Proofs.sorted_tagged_perm (C11.Spec.tagged_concat sps)) as Pm. fold M in Pm.
  exists sm, M. split; [exact Hsm|]. split; [exact HP|]. split; [exact Pm|].
  split; [apply C11.Proofs.sorted_tagged_lt3, C11.Proofs.tagged_from_sorted|].
  destruct HP as (_ & _ & _ & Et). destruct Hwf as [_ Hwf].
  destruct (merge_template_blocks zero unit ps m Hm Hr) as [_ HB].
  split; [rewrite Et; apply map_length|].
  intros i s Hs.
  assert (Hin : In s (C11.Spec.tagged_concat sps)) by (apply (Permutation_in _ Pm); eapply nth_error_In; exact Hs).
  destruct (spike_names_template sps ps s Hwf E Hin) as (Pt & p & tm & Hp & Htm).
  destruct (HB (C11.Spec.t_probe s) (p_tmpl p) (Z.to_nat (C11.Spec.t_tmpl s)) tm) as (om & Hom & HF);
    [exact (map_nth_error p_tmpl _ _ Hp)|exact Htm|].
  exists (C11.Spec.t_tmpl s + C11.Spec.toff_spec sps (C11.Spec.t_probe s)), (p_tmpl p), tm, om.
  split; [rewrite Et; exact (map_nth_error _ _ _ Hs)|].
  rewrite (toff_link sps ps _ E). unfold toffZ. rewrite map_length_map in Hom.
  split; [lia|]. split; [exact Pt|].
  split; [exact (map_nth_error p_tmpl _ _ Hp)|]. split; [exact Htm|]. split; [|exact HF].
  rewrite <- Hom. f_equal. lia.
Qed.

Theorem link_template_tables unit (sps : list sprobe) (ps : list (probe A R)) m :
  C11.Spec.wf sps -> SameDirs sps ps -> merge_side zero unit ps = Some m ->
  (forall p, In p ps -> length (p_tf p) = length (p_tmpl p)) ->
  NoWrap (coffZ ps) (map p_pc ps) -> NoWrap (toffZ ps) (map p_tf ps) ->
  exists sm M, C11.Model.merge sps = Some sm /\ C11.Spec.Payload sps sm M /\
    Permutation M (C11.Spec.tagged_concat sps) /\ StronglySorted (@C11.Spec.lt3 B) M /\
    SpikeTable (C11.Spec.toff_spec sps) (map p_tf ps) M (C11.Model.m_tmpl sm) (m_tf m).
Proof.
  intros Hwf E Hm Hlen Hn1 Hn2. destruct (C11.Proofs.merge_spec sps Hwf) as (sm & Hsm & HP & _).
  set (M := C11.Proofs.sorted_tagged (C11.Spec.tagged_concat sps)) in *.
  pose proof (C11.Proofs.sorted_tagged_perm (C11.Spec.tagged_concat sps)) as Pm. fold M in Pm.
  exists sm, M. split; [exact Hsm|]. split; [exact HP|]. split; [exact Pm|].
  split; [apply C11.Proofs.sorted_tagged_lt3, C11.Proofs.tagged_from_sorted|].
  destruct HP as (_ & _ & _ & Et). destruct Hwf as [_ Hwf].
  destruct (merge_index_tables zero unit ps m Hm Hlen Hn1 Hn2) as [_ [_ HB]].
  split; [rewrite Et; apply map_length|].
  intros i s Hs.
  assert (Hin : In s (C11.Spec.tagged_concat sps)) by (apply (Permutation_in _ Pm); eapply nth_error_In; exact Hs).
  destruct (spike_names_template sps ps s Hwf E Hin) as (Pt & p & tm & Hp & Htm).
  assert (Hrow : exists row, nth_error (p_tf p) (Z.to_nat (C11.Spec.t_tmpl s)) = Some row).
  { destruct (nth_error (p_tf p) (Z.to_nat (C11.Spec.t_tmpl s))) as [row|] eqn:Er; [eauto|].
    apply nth_error_None in Er. rewrite (Hlen p (nth_error_In _ _ Hp)) in Er.
    assert (Z.to_nat (C11.Spec.t_tmpl s) < length (p_tmpl p))%nat by (apply nth_error_Some; congruence). lia. }
  destruct Hrow as (row & Hrow).
  destruct (HB (C11.Spec.t_probe s) (p_tf p) (Z.to_nat (C11.Spec.t_tmpl s)) row) as (orow & Hom & ->);
    [exact (map_nth_error p_tf _ _ Hp)|exact Hrow|].
  exists (C11.Spec.t_tmpl s + C11.Spec.toff_spec sps (C11.Spec.t_probe s)), (p_tf p), row.
  split; [rewrite Et; exact (map_nth_error _ _ _ Hs)|].
  rewrite (toff_link sps ps _ E). unfold toffZ in *. split; [lia|]. split; [exact Pt|].
  split; [exact (map_nth_error p_tf _ _ Hp)|]. split; [exact Hrow|].
  rewrite <- Hom. f_equal. rewrite map_length_map.
  replace (map (fun p0 => length (p_tf p0)) ps) with (map (fun p0 => length (p_tmpl p0)) ps)
    by (apply map_ext_in; intros q Hq; now rewrite Hlen).
  lia.
Qed.
End Link.
