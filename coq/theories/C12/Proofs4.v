(* C12/Proofs4.v -- soundness of the boolean checker apart_b. *)
From Coq Require Import ZArith List Bool Arith Lia.
From PV Require Import Base.NpSearch C12.Model C12.Spec C12.Proofs C12.Proofs2.
Import ListNotations.
Open Scope Z_scope.

Lemma nth_error_skipn_add {B} (l : list B) n i : nth_error (skipn n l) i = nth_error l (n + i).
Proof.
  revert l; induction n as [|n IH]; intros l; [reflexivity|]. destruct l as [|x l]; cbn [skipn Nat.add nth_error].
  - now destruct i.
  - apply IH.
Qed.

Lemma nth_error_firstn_lt {B} (l : list B) n i : (i < n)%nat -> nth_error (firstn n l) i = nth_error l i.
Proof.
  revert l i; induction n as [|n IH]; intros l i H; [lia|]. destruct l as [|x l]; [now destruct i|].
  destruct i as [|i]; cbn [firstn nth_error]; [reflexivity|]. apply IH. lia.
Qed.

Lemma apart_loop_sound lens : forall opos prev, apart_loop prev lens opos = true ->
  (forall m, prev = Some m -> forall k b pb, (k < length lens)%nat -> (b < nth k lens 0)%nat ->
     nth_error opos (offs lens k + b) = Some pb -> m < px pb) /\
  Apart lens opos.
Proof.
  induction lens as [|n rest IH]; intros opos prev H.
  - split; [intros m _ k b pb Hk; cbn in Hk; lia|]. intros j k a b pa pb _ Hk; cbn in Hk; lia.
  - cbn [apart_loop] in H. apply andb_true_iff in H as [H0 H1].
    set (blk := map px (firstn n opos)) in *.
    set (prev' := match list_max blk, prev with
                  | Some m', Some m => Some (Z.max m m') | Some m', None => Some m' | None, p => p end) in *.
    destruct (IH _ _ H1) as [IH1 IH2].
    (* facts about the first block *)
    assert (Hblk : forall a pa, (a < n)%nat -> nth_error opos a = Some pa -> In (px pa) blk).
    { intros a pa Ha Hpa. unfold blk. apply in_map. apply (nth_error_In _ a). now rewrite nth_error_firstn_lt. }
    assert (Hprev' : forall m, prev = Some m -> exists m'', prev' = Some m'' /\ m <= m'').
    { intros m ->. unfold prev'. destruct (list_max blk) as [m'|]; eexists; split; try reflexivity; lia. }
    assert (Hfirst : forall a pa, (a < n)%nat -> nth_error opos a = Some pa -> exists m'', prev' = Some m'' /\ px pa <= m'').
    { intros a pa Ha Hpa. specialize (Hblk a pa Ha Hpa). unfold prev'.
      destruct (list_max blk) as [m'|] eqn:E.
      - destruct (list_max_spec _ _ E) as [_ Hle]. specialize (Hle _ Hblk).
        destruct prev as [m|]; eexists; split; try reflexivity; lia.
      - destruct blk; [contradiction|discriminate]. }
    split.
    + intros m -> k b pb Hk Hb Hpb. destruct k as [|k]; cbn [nth] in Hb.
      * rewrite offs_0 in Hpb. cbn [Nat.add] in Hpb. rewrite forallb_forall in H0.
        specialize (H0 _ (Hblk b pb Hb Hpb)). lia.
      * rewrite offs_S in Hpb. rewrite <- Nat.add_assoc, <- nth_error_skipn_add in Hpb.
        destruct (Hprev' m eq_refl) as (m'' & E & Hle). cbn [length] in Hk.
        specialize (IH1 m'' E k b pb ltac:(lia) Hb Hpb). lia.
    + intros j k a b pa pb Hjk Hk Ha Hb Hpa Hpb. destruct k as [|k]; [lia|]. cbn [nth length] in Hb, Hk.
      rewrite offs_S in Hpb. rewrite <- Nat.add_assoc, <- nth_error_skipn_add in Hpb.
      destruct j as [|j]; cbn [nth] in Ha.
      * rewrite offs_0 in Hpa. cbn [Nat.add] in Hpa. destruct (Hfirst a pa Ha Hpa) as (m'' & E & Hle).
        specialize (IH1 m'' E k b pb ltac:(lia) Hb Hpb). lia.
      * rewrite offs_S in Hpa. rewrite <- Nat.add_assoc, <- nth_error_skipn_add in Hpa.
        apply (IH2 j k a b pa pb); try assumption; lia.
Qed.

Theorem apart_b_sound lens opos : apart_b lens opos = true -> Apart lens opos.
Proof. intros H. exact (proj2 (apart_loop_sound lens opos None H)). Qed.
