(* C12/Proofs5.v -- what the shift of the channel-index table is for: a merged pc_feature_ind entry
   names, in the merged channel arrays, the very channel the probe's entry named. *)
From Coq Require Import ZArith List Bool Arith Lia.
From PV Require Import Base.NpSearch C12.Model C12.Spec C12.Proofs C12.Proofs2 C12.Proofs3.
Import ListNotations.
Open Scope Z_scope.

Section Home.
Context {A R : Type} (zero : A).

Theorem merge_pc_points_home unit (ps : list (probe A R)) m : merge_side zero unit ps = Some m ->
  (forall p, In p ps -> length (p_tf p) = length (p_tmpl p)) ->
  (forall p, In p ps -> length (p_pos p) = length (p_cm p)) ->
  NoWrap (coffZ ps) (map p_pc ps) -> NoWrap (toffZ ps) (map p_tf ps) ->
  exists dxs, length dxs = length ps /\ nth 0 dxs 0 = 0 /\
  forall k p t row j v cmv q, nth_error ps k = Some p -> nth_error (p_pc p) t = Some row -> nth_error row j = Some v ->
    nth_error (p_cm p) (Z.to_nat v) = Some cmv -> nth_error (p_pos p) (Z.to_nat v) = Some q -> 0 <= v ->
    exists orow, nth_error (m_pc m) (offs (map (fun p => length (p_pc p)) ps) k + t) = Some orow /\
      nth_error orow j = Some (coffZ ps k + v) /\
      nth_error (m_probe m) (Z.to_nat (coffZ ps k + v)) = Some (Z.of_nat k) /\
      nth_error (m_pos m) (Z.to_nat (coffZ ps k + v)) = Some (shift_x (nth k dxs 0) q).
Proof.
  intros H Htf Hpos Hn1 Hn2.
  destruct (merge_index_tables zero unit ps m H Htf Hn1 Hn2) as [[_ Hpc] _].
  destruct (merge_channel_blocks zero unit ps m H) as ([_ Hlab] & _ & dxs & Hl & H0 & [_ Hp]).
  exists dxs. split; [exact Hl|]. split; [exact H0|].
  intros k p t row j v cmv q Hk Hrow Hj Hcm Hq Hv.
  destruct (Hpc k (p_pc p) t row (map_nth_error p_pc k ps Hk) Hrow) as (orow & Ho & ->).
  rewrite map_length_map in Ho. exists (map (fun v0 => v0 + coffZ ps k) row). split; [exact Ho|].
  split; [rewrite (map_nth_error _ _ _ Hj); f_equal; lia|].
  assert (E : Z.to_nat (coffZ ps k + v) = (offs (map (fun p => length (p_cm p)) ps) k + Z.to_nat v)%nat).
  { unfold coffZ. lia. }
  rewrite E. split.
  - destruct (Hlab k (p_cm p) (Z.to_nat v) cmv (map_nth_error p_cm k ps Hk) Hcm) as (c & Hc & ->).
    rewrite map_length_map in Hc. exact Hc.
  - destruct (Hp k (p_pos p) (Z.to_nat v) q (map_nth_error p_pos k ps Hk) Hq) as (c & Hc & ->).
    rewrite map_length_map in Hc.
    replace (map (fun p0 => length (p_pos p0)) ps) with (map (fun p0 => length (p_cm p0)) ps) in Hc
      by (apply map_ext_in; intros p0 Hp0; now rewrite Hpos).
    exact Hc.
Qed.
End Home.
