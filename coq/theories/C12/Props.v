(* C12/Props.v -- the property theorems, and nothing else.  [merge_side zero unit ps] is the model of
   the channel / template side of Merger.merge on the probes ps (Model.v); A is the type of waveform /
   matrix values with its zero, R the type of the sampling rate, unit > 0 the number of coordinate
   units in the repaired code's margin 1.0.  Blocks / BlockRow / Apart / TableShift are the cell-level
   statements of Spec.v:  Blocks P src out  =  out consists of one block per element of src, in order,
   element i of block k at index offs k + i and related to the source element by P k. *)
From Coq Require Import ZArith List Bool Arith Lia.
From Coq Require Import Sorted Permutation.
From PV Require Import Base.NpSearch C12.Model C12.Spec C12.Proofs C12.Proofs2 C12.Proofs3 C12.Proofs4 C12.Proofs5 C12.Link.
From PV Require Import C12.Dtypes C12.Proofs6 C12.Proofs7.
From PV Require C11.Model C11.Spec C11.Proofs.
Import ListNotations.
Open Scope Z_scope.

(* the merge is defined for any number >= 1 of probes with any (non-zero) channel and template counts *)
Theorem C12_defined : forall (A R : Type) (zero : A) (unit : Z) (ps : list (probe A R)),
  ps <> [] -> (forall p, In p ps -> p_cm p <> [] /\ p_pos p <> []) ->
  (exists ns, forall p, In p ps -> tshape1 (p_tmpl p) = ns) ->
  exists m, merge_side zero unit ps = Some m.
Proof. exact (@merge_side_defined). Qed.
Print Assumptions C12_defined.

(* channels of probe k form one contiguous block in input order: labelled k; channel-map values shifted
   by a per-probe constant; same y and x shifted by a per-probe constant dx_k, with dx_0 = 0 *)
Theorem C12_channel_blocks : forall (A R : Type) (zero : A) (unit : Z) (ps : list (probe A R)) m,
  merge_side zero unit ps = Some m ->
  ChanLabels (map p_cm ps) (m_probe m) /\ ChanMap (map p_cm ps) (m_map m) /\
  exists dxs, length dxs = length ps /\ nth 0 dxs 0 = 0 /\
    Blocks (fun k p o => o = shift_x (nth k dxs 0) p) (map p_pos ps) (m_pos m).
Proof. exact (@merge_channel_blocks). Qed.
Print Assumptions C12_channel_blocks.

(* the translation keeps different probes apart: with non-negative coordinates every channel of an
   earlier probe lies strictly left of every channel of a later probe -- for every number of probes,
   zero-width probes included *)
Theorem C12_apart : forall (A R : Type) (zero : A) (unit : Z) (ps : list (probe A R)) m,
  0 < unit -> (forall p q, In p ps -> In q (p_pos p) -> 0 <= px q) ->
  merge_side zero unit ps = Some m ->
  Apart (map (fun p => length (p_pos p)) ps) (m_pos m).
Proof. exact (@merge_apart). Qed.
Print Assumptions C12_apart.

(* the margin is needed: with unit = 0 (the code before the repair) two single-column probes at x = 0
   end up on top of each other *)
Theorem C12_apart_needs_margin : exists (ps : list (probe Z Z)) m,
  (forall p q, In p ps -> In q (p_pos p) -> 0 <= px q) /\ merge_side 0 0 ps = Some m /\
  ~ Apart (map (fun p => length (p_pos p)) ps) (m_pos m).
Proof.
  set (p := mkprobe [0] [mkxy 0 0] [[[1]]] [[0]] [[0]] None None None (mkpar 0 1 0) : probe Z Z).
  exists [p; p]. eexists. split; [|split; [vm_compute; reflexivity|]].
  - intros p' q [<-|[<-|[]]] [<-|[]]; cbn; lia.
  - intros H. specialize (H 0%nat 1%nat 0%nat 0%nat (mkxy 0 0) (mkxy 0 0)). cbn in H.
    specialize (H ltac:(lia) ltac:(lia) ltac:(lia) ltac:(lia) eq_refl eq_refl). lia.
Qed.
Print Assumptions C12_apart_needs_margin.

(* template t of probe k is merged template toff_k + t, with the same number of samples; each sample row
   has one cell per merged channel, carries the probe's row on the probe's block and zero elsewhere *)
Theorem C12_template_blocks : forall (A R : Type) (zero : A) (unit : Z) (ps : list (probe A R)) m,
  merge_side zero unit ps = Some m -> (forall p, In p ps -> RectT (p_tmpl p)) ->
  TemplateBlocks zero (map p_tmpl ps) (m_tmpl m).
Proof. exact (@merge_template_blocks). Qed.
Print Assumptions C12_template_blocks.

(* the same, cell by cell, with the channel counts of the channel maps:
   T[toff_k + t][s][coff_k + c] = T_k[t][s][c], and T[toff_k + t][s][c'] = 0 for c' outside the block *)
Theorem C12_template_cells : forall (A R : Type) (zero : A) (unit : Z) (ps : list (probe A R)) m,
  merge_side zero unit ps = Some m ->
  (forall p, In p ps -> RectT (p_tmpl p)) ->
  (forall p, In p ps -> tshape2 (p_tmpl p) = length (p_cm p)) ->
  let lens := map (fun p => length (p_cm p)) ps in
  length (m_tmpl m) = nsum (map (fun p => length (p_tmpl p)) ps) /\
  forall k p t tm s r, nth_error ps k = Some p -> nth_error (p_tmpl p) t = Some tm -> nth_error tm s = Some r ->
    exists om orow,
      nth_error (m_tmpl m) (offs (map (fun p => length (p_tmpl p)) ps) k + t) = Some om /\
      length om = length tm /\ nth_error om s = Some orow /\ length orow = nsum lens /\
      (forall c x, nth_error r c = Some x -> nth_error orow (offs lens k + c) = Some x) /\
      (forall c, (c < nsum lens)%nat -> (c < offs lens k \/ offs lens k + length (p_cm p) <= c)%nat ->
                 nth_error orow c = Some zero).
Proof. exact (@merge_template_cells). Qed.
Print Assumptions C12_template_cells.

(* whitening matrix, its inverse, similarity matrix: block-diagonal with the per-probe matrices as
   blocks when every probe has the file; not written when some probe lacks it *)
Theorem C12_block_diag_wm : forall (A R : Type) (zero : A) (unit : Z) (ps : list (probe A R)) m,
  merge_side zero unit ps = Some m ->
  (forall Ms, map p_wm ps = map Some Ms -> (forall M, In M Ms -> RectM M) ->
     exists out, m_wm m = Some out /\ BlockDiag zero Ms out) /\
  ((exists p, In p ps /\ p_wm p = None) -> m_wm m = None).
Proof. intros A R zero unit ps m. apply (merge_block_diag zero unit ps m p_wm m_wm). reflexivity. Qed.
Print Assumptions C12_block_diag_wm.

Theorem C12_block_diag_wmi : forall (A R : Type) (zero : A) (unit : Z) (ps : list (probe A R)) m,
  merge_side zero unit ps = Some m ->
  (forall Ms, map p_wmi ps = map Some Ms -> (forall M, In M Ms -> RectM M) ->
     exists out, m_wmi m = Some out /\ BlockDiag zero Ms out) /\
  ((exists p, In p ps /\ p_wmi p = None) -> m_wmi m = None).
Proof. intros A R zero unit ps m. apply (merge_block_diag zero unit ps m p_wmi m_wmi). reflexivity. Qed.
Print Assumptions C12_block_diag_wmi.

Theorem C12_block_diag_sim : forall (A R : Type) (zero : A) (unit : Z) (ps : list (probe A R)) m,
  merge_side zero unit ps = Some m ->
  (forall Ms, map p_sim ps = map Some Ms -> (forall M, In M Ms -> RectM M) ->
     exists out, m_sim m = Some out /\ BlockDiag zero Ms out) /\
  ((exists p, In p ps /\ p_sim p = None) -> m_sim m = None).
Proof. intros A R zero unit ps m. apply (merge_block_diag zero unit ps m p_sim m_sim). reflexivity. Qed.
Print Assumptions C12_block_diag_sim.

(* scipy's block_diag itself, for any list of rectangular matrices (square or not) *)
Theorem C12_block_diag : forall (A : Type) (zero : A) (Ms : list (list (list A))),
  (forall M, In M Ms -> RectM M) -> BlockDiag zero Ms (block_diag zero Ms).
Proof. exact (@block_diag_spec). Qed.
Print Assumptions C12_block_diag.

(* per-template channel-index rows of probe k are rows toff_k + t of the merged table, shifted by the
   probe's first merged channel coff_k; template-index rows are shifted by toff_k *)
Theorem C12_index_tables : forall (A R : Type) (zero : A) (unit : Z) (ps : list (probe A R)) m,
  merge_side zero unit ps = Some m ->
  (forall p, In p ps -> length (p_tf p) = length (p_tmpl p)) ->
  NoWrap (coffZ ps) (map p_pc ps) -> NoWrap (toffZ ps) (map p_tf ps) ->
  TableShift (coffZ ps) (map p_pc ps) (m_pc m) /\ TableShift (toffZ ps) (map p_tf ps) (m_tf m).
Proof. exact (@merge_index_tables). Qed.
Print Assumptions C12_index_tables.

(* what the shift is for: the merged entry for (probe k, template t, column j) is coff_k + v, and merged
   channel coff_k + v is channel v of probe k: labelled k, at the probe's position translated by dx_k *)
Theorem C12_index_tables_point_home : forall (A R : Type) (zero : A) (unit : Z) (ps : list (probe A R)) m,
  merge_side zero unit ps = Some m ->
  (forall p, In p ps -> length (p_tf p) = length (p_tmpl p)) ->
  (forall p, In p ps -> length (p_pos p) = length (p_cm p)) ->
  NoWrap (coffZ ps) (map p_pc ps) -> NoWrap (toffZ ps) (map p_tf ps) ->
  exists dxs, length dxs = length ps /\ nth 0 dxs 0 = 0 /\
  forall k p t row j v cmv q, nth_error ps k = Some p -> nth_error (p_pc p) t = Some row -> nth_error row j = Some v ->
    nth_error (p_cm p) (Z.to_nat v) = Some cmv -> nth_error (p_pos p) (Z.to_nat v) = Some q -> 0 <= v ->
    exists orow, nth_error (m_pc m) (offs (map (fun p => length (p_pc p)) ps) k + t) = Some orow /\
      nth_error orow j = Some (coffZ ps k + v) /\
      nth_error (m_probe m) (Z.to_nat (coffZ ps k + v)) = Some (Z.of_nat k) /\
      nth_error (m_pos m) (Z.to_nat (coffZ ps k + v)) = Some (shift_x (nth k dxs 0) q).
Proof. exact (@merge_pc_points_home). Qed.
Print Assumptions C12_index_tables_point_home.

(* merged parameters: the common sampling rate, and the summed raw channel count *)
Theorem C12_params : forall (A R : Type) (zero : A) (unit : Z) (ps : list (probe A R)) m (r : R),
  merge_side zero unit ps = Some m -> (forall p, In p ps -> pr_rate (p_par p) = r) ->
  pr_rate (m_par m) = r /\ pr_ncd (m_par m) = zsum (map (fun p => pr_ncd (p_par p)) ps).
Proof. exact (@merge_params). Qed.
Print Assumptions C12_params.

(* the boolean checkers that Corr.v runs on the implementation's output imply the statements *)
Theorem C12_checker_sound_templates : forall (A : Type) (zero : A) (eqb : A -> A -> bool),
  (forall x y, eqb x y = true -> x = y) ->
  forall Ts out, template_blocks_b zero eqb Ts out = true -> TemplateBlocks zero Ts out.
Proof. exact (@template_blocks_b_sound). Qed.
Print Assumptions C12_checker_sound_templates.

Theorem C12_checker_sound_block_diag : forall (A : Type) (zero : A) (eqb : A -> A -> bool),
  (forall x y, eqb x y = true -> x = y) ->
  forall Ms out, block_diag_b zero eqb Ms out = true -> BlockDiag zero Ms out.
Proof. exact (@block_diag_b_sound). Qed.
Print Assumptions C12_checker_sound_block_diag.

Theorem C12_checker_sound_channels : forall cms poss omap oprobe opos,
  chan_labels_b cms oprobe = true -> chan_map_b cms omap = true -> pos_blocks_b poss opos = true ->
  ChanLabels cms oprobe /\ ChanMap cms omap /\ PosBlocks poss opos.
Proof.
  intros. split; [now apply chan_labels_b_sound|]. split; [now apply chan_map_b_sound|now apply pos_blocks_b_sound].
Qed.
Print Assumptions C12_checker_sound_channels.

Theorem C12_checker_sound_apart : forall lens opos, apart_b lens opos = true -> Apart lens opos.
Proof. exact apart_b_sound. Qed.
Print Assumptions C12_checker_sound_apart.

Theorem C12_checker_sound_tables : forall off ts out, table_shift_b off ts out = true -> TableShift off ts out.
Proof. exact table_shift_b_sound. Qed.
Print Assumptions C12_checker_sound_tables.

(* ================= cross-property link with C11 (the spike side of the same merge) =================
   sps = the probes as PV.C11.Model reads them (spike times, amplitudes, spike templates, spike clusters, and the number
   of rows of templates.npy, p_ntmpl); ps = the same probes as this model reads them.  SameDirs sps ps = as many probes,
   and p_ntmpl of probe k = number of templates of probe k here.  C11.Spec.wf = every probe has a spike, equal-length
   per-spike arrays, ids >= 0 and every spike names a template < p_ntmpl. *)

(* the two offsets are one number: what write_spike_clusters adds to the spike templates of probe k is the row of the
   merged templates.npy / template tables where write_templates / write_template_data start probe k's block *)
Theorem C12_template_offsets_agree : forall (A R B V F : Type) (sps : list (C11.Model.probe B V F)) (ps : list (probe A R)) k,
  SameDirs sps ps ->
  C11.Spec.toff_spec sps k = Z.of_nat (offs (map (fun p => length (p_tmpl p)) ps) k).
Proof. exact (@toff_link). Qed.
Print Assumptions C12_template_offsets_agree.

(* for every number of probes: both sides of the merge are defined, the merged spikes are (Payload) the input spikes M
   in (time, probe, index) order, and for every merged spike i = M[i], coming from probe k = t_probe with original
   template t = t_tmpl: row (merged spike_templates[i]) of the merged templates array exists and carries template t of
   probe k, every sample row on probe k's channel block and zero on all other channels (SpikeRows, Link.v) *)
Theorem C12_spike_template_rows : forall (A R B V F : Type) (zero : A) (unit : Z)
    (sps : list (C11.Model.probe B V F)) (ps : list (probe A R)) m,
  C11.Spec.wf sps -> SameDirs sps ps -> merge_side zero unit ps = Some m ->
  (forall p, In p ps -> RectT (p_tmpl p)) ->
  exists sm M, C11.Model.merge sps = Some sm /\ C11.Spec.Payload sps sm M /\
    Permutation M (C11.Spec.tagged_concat sps) /\ StronglySorted (@C11.Spec.lt3 B) M /\
    length (C11.Model.m_tmpl sm) = length M /\
    forall i s, nth_error M i = Some s ->
      exists id p tm om,
        nth_error (C11.Model.m_tmpl sm) i = Some id /\ 0 <= id /\ 0 <= C11.Spec.t_tmpl s /\
        nth_error ps (C11.Spec.t_probe s) = Some p /\ nth_error (p_tmpl p) (Z.to_nat (C11.Spec.t_tmpl s)) = Some tm /\
        nth_error (m_tmpl m) (Z.to_nat id) = Some om /\
        Forall2 (BlockRow zero (nsum (widths (map p_tmpl ps))) (offs (widths (map p_tmpl ps)) (C11.Spec.t_probe s))) tm om.
Proof.
  intros A R B V F zero unit sps ps m Hwf E Hm Hr.
  destruct (link_templates zero unit sps ps m Hwf E Hm Hr) as (sm & M & H1 & H2 & H3 & H4 & HL & H5).
  exists sm, M. repeat (split; [assumption|]). intros i s Hs.
  destruct (H5 i s Hs) as (id & Tk & tm & om & G1 & G2 & G3 & G4 & G5 & G6 & G7).
  destruct (nth_error ps (C11.Spec.t_probe s)) as [p|] eqn:Ep;
    [|apply nth_error_None in Ep; assert (nth_error (map p_tmpl ps) (C11.Spec.t_probe s) = None)
        by (apply nth_error_None; rewrite map_length; exact Ep); congruence].
  rewrite (map_nth_error p_tmpl _ _ Ep) in G4. injection G4 as <-.
  exists id, p, tm, om. repeat (split; [first [assumption|reflexivity]|]). exact G7.
Qed.
Print Assumptions C12_spike_template_rows.

(* likewise the merged template_feature_ind (whose entries are template ids) uses the same numbering: row (merged
   spike_templates[i]) of the merged table is the row of the spike's own template in its own probe, each entry v
   renumbered to v + toff_k -- exactly the label C11_payload gives to a spike of probe k whose template is v *)
Theorem C12_spike_template_tables : forall (A R B V F : Type) (zero : A) (unit : Z)
    (sps : list (C11.Model.probe B V F)) (ps : list (probe A R)) m,
  C11.Spec.wf sps -> SameDirs sps ps -> merge_side zero unit ps = Some m ->
  (forall p, In p ps -> length (p_tf p) = length (p_tmpl p)) ->
  NoWrap (coffZ ps) (map p_pc ps) -> NoWrap (toffZ ps) (map p_tf ps) ->
  exists sm M, C11.Model.merge sps = Some sm /\ C11.Spec.Payload sps sm M /\
    Permutation M (C11.Spec.tagged_concat sps) /\ StronglySorted (@C11.Spec.lt3 B) M /\
    SpikeTable (C11.Spec.toff_spec sps) (map p_tf ps) M (C11.Model.m_tmpl sm) (m_tf m).
Proof. exact (@link_template_tables). Qed.
Print Assumptions C12_spike_template_tables.

(* the boolean checkers that Corr.v (of C12 and of C11) runs on phylib's merged spike_templates.npy against its merged
   templates.npy / template_feature_ind.npy imply the two statements *)
Theorem C12_checker_sound_spike_rows : forall (A B : Type) (zero : A) (eqb : A -> A -> bool),
  (forall x y, eqb x y = true -> x = y) ->
  (forall Ts (M : list (C11.Spec.tagged B)) ids out, spike_rows_b zero eqb Ts M ids out = true -> SpikeRows zero Ts M ids out) /\
  (forall off tfs (M : list (C11.Spec.tagged B)) ids out, spike_table_b off tfs M ids out = true -> SpikeTable off tfs M ids out).
Proof.
  intros A B zero eqb H. split; [intros; now apply (spike_rows_b_sound zero eqb H)|intros; now apply spike_table_b_sound].
Qed.
Print Assumptions C12_checker_sound_spike_rows.

(* ---- non-vacuity: three probes of unequal sizes (2, 3, 1 channels; 1, 2, 1 templates), where a
   previous-probe offset and a cumulative offset differ ---- *)
Definition ex_ps : list (probe Z Z) :=
  [ mkprobe [1; 0] [mkxy 0 0; mkxy 0 80] [[[1; 2]; [3; 4]]] [[1]] [[0]]
            (Some [[2; 0]; [0; 2]]) None (Some [[1]]) (mkpar 30000 2 0);
    mkprobe [2; 0; 1] [mkxy 0 0; mkxy 64 0; mkxy 0 80] [[[5; 6; 7]; [8; 9; 10]]; [[11; 12; 13]; [14; 15; 16]]]
            [[0]; [2]] [[1]; [0]] (Some [[1; 1; 0]; [0; 1; 0]; [0; 0; 1]]) None (Some [[1; 5]; [5; 1]]) (mkpar 30000 4 7);
    mkprobe [0] [mkxy 0 40] [[[17]; [18]]] [[0]] [[0]] (Some [[3]]) None (Some [[1]]) (mkpar 30000 1 0) ].

Example C12_ex_merge : merge_side 0 4 ex_ps = Some (mkmerged
  [1; 0; 3; 1; 2; 3] [0; 0; 1; 1; 1; 2]
  [mkxy 0 0; mkxy 0 80; mkxy 4 0; mkxy 68 0; mkxy 4 80; mkxy 132 40]
  [ [[1; 2; 0; 0; 0; 0]; [3; 4; 0; 0; 0; 0]];
    [[0; 0; 5; 6; 7; 0]; [0; 0; 8; 9; 10; 0]]; [[0; 0; 11; 12; 13; 0]; [0; 0; 14; 15; 16; 0]];
    [[0; 0; 0; 0; 0; 17]; [0; 0; 0; 0; 0; 18]] ]
  [[1]; [2]; [4]; [5]] [[0]; [2]; [1]; [3]]
  (Some [[2; 0; 0; 0; 0; 0]; [0; 2; 0; 0; 0; 0]; [0; 0; 1; 1; 0; 0]; [0; 0; 0; 1; 0; 0]; [0; 0; 0; 0; 1; 0];
         [0; 0; 0; 0; 0; 3]])
  None
  (Some [[1; 0; 0; 0]; [0; 1; 5; 0]; [0; 5; 1; 0]; [0; 0; 0; 1]])
  (mkpar 30000 7 0)).
Proof. vm_compute. reflexivity. Qed.

(* the hypotheses of the theorems hold on it *)
Example C12_ex_hyps :
  (forall p, In p ex_ps -> RectT (p_tmpl p)) /\ (forall p, In p ex_ps -> tshape2 (p_tmpl p) = length (p_cm p)) /\
  (forall p q, In p ex_ps -> In q (p_pos p) -> 0 <= px q) /\
  (forall p, In p ex_ps -> length (p_tf p) = length (p_tmpl p)).
Proof.
  split; [|split; [|split]].
  - intros p [<-|[<-|[<-|[]]]] tm r Htm Hr; cbn in Htm, Hr;
      repeat (destruct Htm as [<-|Htm]; [repeat (destruct Hr as [<-|Hr]; [reflexivity|]); contradiction|]); contradiction.
  - intros p [<-|[<-|[<-|[]]]]; reflexivity.
  - intros p q [<-|[<-|[<-|[]]]] Hq; cbn in Hq; repeat (destruct Hq as [<-|Hq]; [cbn; lia|]); contradiction.
  - intros p [<-|[<-|[<-|[]]]]; reflexivity.
Qed.

Example C12_ex_checkers :
  template_blocks_b 0 Z.eqb (map p_tmpl ex_ps) [ [[1; 2; 0; 0; 0; 0]; [3; 4; 0; 0; 0; 0]];
    [[0; 0; 5; 6; 7; 0]; [0; 0; 8; 9; 10; 0]]; [[0; 0; 11; 12; 13; 0]; [0; 0; 14; 15; 16; 0]];
    [[0; 0; 0; 0; 0; 17]; [0; 0; 0; 0; 0; 18]] ] = true /\
  (* the layout the code produced before the repair (third probe at the previous probe's width) is rejected *)
  template_blocks_b 0 Z.eqb (map p_tmpl ex_ps) [ [[1; 2; 0; 0; 0; 0]; [3; 4; 0; 0; 0; 0]];
    [[0; 0; 5; 6; 7; 0]; [0; 0; 8; 9; 10; 0]]; [[0; 0; 11; 12; 13; 0]; [0; 0; 14; 15; 16; 0]];
    [[0; 0; 0; 17; 0; 0]; [0; 0; 0; 18; 0; 0]] ] = false /\
  apart_b [2; 3; 1]%nat [mkxy 0 0; mkxy 0 80; mkxy 4 0; mkxy 68 0; mkxy 4 80; mkxy 132 40] = true /\
  apart_b [2; 2]%nat [mkxy 0 0; mkxy 0 80; mkxy 0 0; mkxy 0 80] = false.
Proof. vm_compute. repeat split; reflexivity. Qed.

(* ---- non-vacuity of the link: the spike side of ex_ps.  Probe 1 has 2 templates and its spikes use only template 0
   (a NON-LAST probe with an unused trailing template); probe 2's spike names its template 0.  With the template
   COUNTS as offsets (0, 1, 3) probe 2's spike is labelled 3 = the row of its waveform; with the pre-repair offsets
   (running max + 1: 0, 1, 2) it was labelled 2 = the unused template of probe 1, which the checker rejects. ---- *)
Definition ex_sps : list (C11.Model.probe Z Z Z) :=
  [ C11.Model.mkprobe [0; 5] [1; 1] [0; 0] [0; 0] 1 [];
    C11.Model.mkprobe [1; 5] [1; 1] [0; 0] [0; 0] 2 [];
    C11.Model.mkprobe [2] [1] [0] [0] 1 [] ].
Example C12_ex_link :
  C11.Spec.wf ex_sps /\ SameDirs ex_sps ex_ps /\
  option_map (@C11.Model.m_tmpl Z Z Z) (C11.Model.merge ex_sps) = Some [0; 1; 3; 0; 1] /\
  option_map (@C11.Model.m_toffs Z Z Z) (C11.Model.merge ex_sps) = Some [0; 1; 3] /\
  (forall m, merge_side 0 4 ex_ps = Some m ->
     spike_rows_b 0 Z.eqb (map p_tmpl ex_ps) (C11.Proofs.sorted_tagged (C11.Spec.tagged_concat ex_sps)) [0; 1; 3; 0; 1] (m_tmpl m) = true /\
     spike_rows_b 0 Z.eqb (map p_tmpl ex_ps) (C11.Proofs.sorted_tagged (C11.Spec.tagged_concat ex_sps)) [0; 1; 2; 0; 1] (m_tmpl m) = false /\
     spike_table_b (C11.Spec.toff_spec ex_sps) (map p_tf ex_ps) (C11.Proofs.sorted_tagged (C11.Spec.tagged_concat ex_sps))
                   [0; 1; 3; 0; 1] (m_tf m) = true).
Proof.
  split; [|split; [reflexivity|split; [vm_compute; reflexivity|split; [vm_compute; reflexivity|]]]].
  - split; [discriminate|]. repeat constructor; cbn; try discriminate; intros c H;
      repeat (destruct H as [<-|H]; [lia|]); contradiction.
  - intros m Hm. vm_compute in Hm. injection Hm as <-. vm_compute. repeat split; reflexivity.
Qed.

(* ================= stage 3: dtypes of the merged files, the error exits exactly, checker completeness ================= *)

(* which dtype each merged file gets (PV.C12.Dtypes.merged_dt, compared with the merged directory by Corr.v): channel map,
   probe labels, positions and templates take the dtype of the FIRST probe's file; both index tables are uint32 whatever
   the (signed or unsigned) dtypes of the inputs; the three block-diagonal matrices are given by misc_dt *)
Theorem C12_dtypes : forall d0 rest,
  exists m, merged_dt (d0 :: rest) = Some m /\
    md_map m = d_cm d0 /\ md_probe m = d_cm d0 /\ md_pos m = d_pos d0 /\ md_tmpl m = d_tmpl d0 /\
    md_pc m = U32 /\ md_tf m = U32 /\
    md_wm m = misc_dt (map d_wm (d0 :: rest)) /\ md_wmi m = misc_dt (map d_wmi (d0 :: rest)) /\
    md_sim m = misc_dt (map d_sim (d0 :: rest)).
Proof. exact merged_dt_spec. Qed.
Print Assumptions C12_dtypes.

(* a merged matrix has dtype d iff every probe has the file and d is the least upper bound (float32 <= float64) of the
   probes' dtypes: above each of them and one of them *)
Theorem C12_dtypes_matrices : forall l d,
  misc_dt l = Some d <->
  (l <> [] /\ ~ In None l /\ (forall x, In (Some x) l -> fle x d) /\ In (Some d) l).
Proof. exact misc_dt_spec. Qed.
Print Assumptions C12_dtypes_matrices.

(* the dtype function and the value model agree on which matrices are written at all *)
Theorem C12_dtypes_written : forall (A R : Type) (zero : A) (ps : list (probe A R)) (ds : list pdt)
    (fp : probe A R -> option (list (list A))) (fd : pdt -> option fdt),
  ps <> [] -> Forall2 (fun p d => match fp p, fd d with Some _, Some _ | None, None => True | _, _ => False end) ps ds ->
  (write_misc zero (map fp ps) = None <-> misc_dt (map fd ds) = None).
Proof. exact (@misc_written_iff). Qed.
Print Assumptions C12_dtypes_written.

Example C12_ex_dtypes :
  merged_dt [mkpdt I32 F64 F32 U16 I64 (Some F32) None (Some F32); mkpdt U32 F32 F64 I32 U32 (Some F64) None None;
             mkpdt I64 F32 F64 I32 U32 (Some F32) None (Some F64)]
  = Some (mkmdt I32 I32 F64 F32 U32 U32 (Some F64) None None).
Proof. reflexivity. Qed.

(* C12_defined is an equivalence: the model is undefined (phylib raises) ONLY without probes, with an empty channel
   map / position array, or with unequal numbers of waveform samples *)
Theorem C12_defined_iff : forall (A R : Type) (zero : A) (unit : Z) (ps : list (probe A R)),
  (exists m, merge_side zero unit ps = Some m) <->
  (ps <> [] /\ (forall p, In p ps -> p_cm p <> [] /\ p_pos p <> []) /\
   (exists ns, forall p, In p ps -> tshape1 (p_tmpl p) = ns)).
Proof. exact (@merge_side_defined_iff). Qed.
Print Assumptions C12_defined_iff.

(* with >= 1 probe and non-empty channel arrays the only exit left is the assertion of write_templates: two probes
   whose templates have different numbers of samples *)
Theorem C12_assertion_exit : forall (A R : Type) (zero : A) (unit : Z) (ps : list (probe A R)),
  ps <> [] -> (forall p, In p ps -> p_cm p <> [] /\ p_pos p <> []) ->
  (merge_side zero unit ps = None <-> exists p q, In p ps /\ In q ps /\ tshape1 (p_tmpl p) <> tshape1 (p_tmpl q)).
Proof. exact (@merge_side_assertion). Qed.
Print Assumptions C12_assertion_exit.

Example C12_ex_exits :
  (exists m, merge_side 0 4 ex_ps = Some m) /\
  merge_side 0 4 [ mkprobe [0] [mkxy 0 0] [[[1]; [2]]] [[0]] [[0]] None None None (mkpar 30000 1 0);
                   mkprobe [0] [mkxy 0 0] [[[1]]] [[0]] [[0]] None None None (mkpar 30000 1 0) : probe Z Z ] = None /\
  merge_side 0 4 [ mkprobe [] [mkxy 0 0] [[[1]]] [[0]] [[0]] None None None (mkpar 30000 1 0) : probe Z Z ] = None /\
  merge_side 0 4 ([] : list (probe Z Z)) = None.
Proof. split; [eexists; vm_compute; reflexivity|]. repeat split; reflexivity. Qed.

(* completeness of the checkers (with C12_checker_sound_*: checker = true <-> statement): a clause code 21..25 / 27 of
   Corr.v is raised on an observed array exactly when the declarative statement is false of it *)
Theorem C12_checker_complete_templates : forall (A : Type) (zero : A) (eqb : A -> A -> bool),
  (forall x, eqb x x = true) ->
  forall Ts out, TemplateBlocks zero Ts out -> template_blocks_b zero eqb Ts out = true.
Proof. exact (@template_blocks_b_complete). Qed.
Print Assumptions C12_checker_complete_templates.

Theorem C12_checker_complete_block_diag : forall (A : Type) (zero : A) (eqb : A -> A -> bool),
  (forall x, eqb x x = true) ->
  forall Ms out, BlockDiag zero Ms out -> block_diag_b zero eqb Ms out = true.
Proof. exact (@block_diag_b_complete). Qed.
Print Assumptions C12_checker_complete_block_diag.

Theorem C12_checker_complete_channels : forall cms poss omap oprobe opos,
  ChanLabels cms oprobe -> ChanMap cms omap -> PosBlocks poss opos ->
  chan_labels_b cms oprobe = true /\ chan_map_b cms omap = true /\ pos_blocks_b poss opos = true.
Proof.
  intros. split; [now apply chan_labels_b_complete|]. split; [now apply chan_map_b_complete|now apply pos_blocks_b_complete].
Qed.
Print Assumptions C12_checker_complete_channels.

Theorem C12_checker_complete_apart : forall lens opos, Apart lens opos -> apart_b lens opos = true.
Proof. exact apart_b_complete. Qed.
Print Assumptions C12_checker_complete_apart.

Theorem C12_checker_complete_tables : forall off ts out, TableShift off ts out -> table_shift_b off ts out = true.
Proof. exact table_shift_b_complete. Qed.
Print Assumptions C12_checker_complete_tables.

Theorem C12_checker_complete_spike_rows : forall (A B : Type) (zero : A) (eqb : A -> A -> bool),
  (forall x, eqb x x = true) ->
  (forall Ts (M : list (C11.Spec.tagged B)) ids out, SpikeRows zero Ts M ids out -> spike_rows_b zero eqb Ts M ids out = true) /\
  (forall off tfs (M : list (C11.Spec.tagged B)) ids out, SpikeTable off tfs M ids out -> spike_table_b off tfs M ids out = true).
Proof.
  intros A B zero eqb H. split; [intros; now apply (spike_rows_b_complete zero eqb H)|intros; now apply spike_table_b_complete].
Qed.
Print Assumptions C12_checker_complete_spike_rows.

(* hence the checkers accept the model's own output on every input of the regime: whenever phylib's arrays equal the
   model's (no code 1), none of the clause codes 21, 22, 23, 25 can be raised -- the theorems above and the checks
   run by Corr.v cannot disagree *)
Theorem C12_model_accepted : forall (A R : Type) (zero : A) (eqb : A -> A -> bool) (unit : Z) (ps : list (probe A R)) m,
  (forall x, eqb x x = true) -> merge_side zero unit ps = Some m ->
  0 < unit -> (forall p q, In p ps -> In q (p_pos p) -> 0 <= px q) ->
  (forall p, In p ps -> RectT (p_tmpl p)) -> (forall p, In p ps -> length (p_tf p) = length (p_tmpl p)) ->
  NoWrap (coffZ ps) (map p_pc ps) -> NoWrap (toffZ ps) (map p_tf ps) ->
  chan_labels_b (map p_cm ps) (m_probe m) = true /\ chan_map_b (map p_cm ps) (m_map m) = true /\
  pos_blocks_b (map p_pos ps) (m_pos m) = true /\
  apart_b (map (fun p => length (p_pos p)) ps) (m_pos m) = true /\
  template_blocks_b zero eqb (map p_tmpl ps) (m_tmpl m) = true /\
  table_shift_b (coffZ ps) (map p_pc ps) (m_pc m) = true /\ table_shift_b (toffZ ps) (map p_tf ps) (m_tf m) = true.
Proof.
  intros A R zero eqb unit ps m Hr Hm Hu Hx HT Hl N1 N2.
  destruct (merge_channel_blocks zero unit ps m Hm) as (C1 & C2 & dxs & D1 & _ & D3).
  destruct (merge_index_tables zero unit ps m Hm Hl N1 N2) as [T1 T2].
  split; [now apply chan_labels_b_complete|]. split; [now apply chan_map_b_complete|].
  split; [apply pos_blocks_b_complete; exists dxs; split; [now rewrite map_length|exact D3]|].
  split; [apply apart_b_complete; now apply (merge_apart zero unit ps m)|].
  split; [apply (template_blocks_b_complete zero eqb Hr); now apply (merge_template_blocks zero unit ps m)|].
  split; now apply table_shift_b_complete.
Qed.
Print Assumptions C12_model_accepted.

Example C12_ex_accepted : forall m, merge_side 0 4 ex_ps = Some m ->
  template_blocks_b 0 Z.eqb (map p_tmpl ex_ps) (m_tmpl m) = true /\
  apart_b (map (fun p => length (p_pos p)) ex_ps) (m_pos m) = true.
Proof.
  intros m Hm. destruct C12_ex_hyps as (H1 & H2 & H3 & H4).
  split.
  - apply (C12_checker_complete_templates Z 0 Z.eqb Z.eqb_refl). now apply (C12_template_blocks Z Z 0 4 ex_ps m).
  - apply C12_checker_complete_apart. apply (C12_apart Z Z 0 4 ex_ps m); [lia|exact H3|exact Hm].
Qed.
