(* C12/Props.v -- the property theorems, and nothing else. *)
From Coq Require Import ZArith List Bool Arith Lia.
From PV Require Import Base.NpSearch C12.Model C12.Spec C12.Proofs.
Import ListNotations.
Open Scope Z_scope.

(* merged parameters: the common sampling rate is kept, n_channels_dat is the sum *)
Theorem C12_params : forall (R : Type) (ps : list (params R)) (r : R),
  ps <> [] -> (forall p, In p ps -> pr_rate p = r) ->
  exists m, write_params ps = Some m /\ pr_rate m = r /\ pr_ncd m = zsum (map pr_ncd ps).
Proof. exact (@write_params_spec). Qed.
Print Assumptions C12_params.
