(* C12/Props.v -- the property theorems, and nothing else.  [merge_side zero unit ps] is the model of
   the channel / template side of Merger.merge on the probes ps (Model.v); A is the type of waveform /
   matrix values with its zero, R the type of the sampling rate, unit > 0 the number of coordinate
   units in the repaired code's margin 1.0.  Blocks / BlockRow / Apart / TableShift are the cell-level
   statements of Spec.v:  Blocks P src out  =  out consists of one block per element of src, in order,
   element i of block k at index offs k + i and related to the source element by P k. *)
From Coq Require Import ZArith List Bool Arith Lia.
From PV Require Import Base.NpSearch C12.Model C12.Spec C12.Proofs C12.Proofs2 C12.Proofs3 C12.Proofs4 C12.Proofs5.
Import ListNotations.
Open Scope Z_scope.

(* the merge is defined for any number >= 1 of probes with any (non-zero) channel and template counts *)
Theorem C12_defined : forall (A R : Type) (zero : A) (unit : Z) (ps : list (probe A R)),
  ps <> [] -> (forall p, In p ps -> p_cm p <> [] /\ p_pos p <> []) ->
  (exists ns, forall p, In p ps -> tshape1 (p_tmpl p) = ns) ->
  exists m, merge_side zero unit ps = Some m.
Proof. exact (@merge_side_defined). Qed.
Print Assumptions C12_defined.

(* channels of probe k form one contiguous block in input order: labelled k; channel-map values shifted
   by a per-probe constant; same y and x shifted by a per-probe constant dx_k, with dx_0 = 0 *)
Theorem C12_channel_blocks : forall (A R : Type) (zero : A) (unit : Z) (ps : list (probe A R)) m,
  merge_side zero unit ps = Some m ->
  ChanLabels (map p_cm ps) (m_probe m) /\ ChanMap (map p_cm ps) (m_map m) /\
  exists dxs, length dxs = length ps /\ nth 0 dxs 0 = 0 /\
    Blocks (fun k p o => o = shift_x (nth k dxs 0) p) (map p_pos ps) (m_pos m).
Proof. exact (@merge_channel_blocks). Qed.
Print Assumptions C12_channel_blocks.

(* the translation keeps different probes apart: with non-negative coordinates every channel of an
   earlier probe lies strictly left of every channel of a later probe -- for every number of probes,
   zero-width probes included *)
Theorem C12_apart : forall (A R : Type) (zero : A) (unit : Z) (ps : list (probe A R)) m,
  0 < unit -> (forall p q, In p ps -> In q (p_pos p) -> 0 <= px q) ->
  merge_side zero unit ps = Some m ->
  Apart (map (fun p => length (p_pos p)) ps) (m_pos m).
Proof. exact (@merge_apart). Qed.
Print Assumptions C12_apart.

(* the margin is needed: with unit = 0 (the code before the repair) two single-column probes at x = 0
   end up on top of each other *)
Theorem C12_apart_needs_margin : exists (ps : list (probe Z Z)) m,
  (forall p q, In p ps -> In q (p_pos p) -> 0 <= px q) /\ merge_side 0 0 ps = Some m /\
  ~ Apart (map (fun p => length (p_pos p)) ps) (m_pos m).
Proof.
  set (p := mkprobe [0] [mkxy 0 0] [[[1]]] [[0]] [[0]] None None None (mkpar 0 1 0) : probe Z Z).
  exists [p; p]. eexists. split; [|split; [vm_compute; reflexivity|]].
  - intros p' q [<-|[<-|[]]] [<-|[]]; cbn; lia.
  - intros H. specialize (H 0%nat 1%nat 0%nat 0%nat (mkxy 0 0) (mkxy 0 0)). cbn in H.
    specialize (H ltac:(lia) ltac:(lia) ltac:(lia) ltac:(lia) eq_refl eq_refl). lia.
Qed.
Print Assumptions C12_apart_needs_margin.

(* template t of probe k is merged template toff_k + t, with the same number of samples; each sample row
   has one cell per merged channel, carries the probe's row on the probe's block and zero elsewhere *)
Theorem C12_template_blocks : forall (A R : Type) (zero : A) (unit : Z) (ps : list (probe A R)) m,
  merge_side zero unit ps = Some m -> (forall p, In p ps -> RectT (p_tmpl p)) ->
  TemplateBlocks zero (map p_tmpl ps) (m_tmpl m).
Proof. exact (@merge_template_blocks). Qed.
Print Assumptions C12_template_blocks.

(* the same, cell by cell, with the channel counts of the channel maps:
   T[toff_k + t][s][coff_k + c] = T_k[t][s][c], and T[toff_k + t][s][c'] = 0 for c' outside the block *)
Theorem C12_template_cells : forall (A R : Type) (zero : A) (unit : Z) (ps : list (probe A R)) m,
  merge_side zero unit ps = Some m ->
  (forall p, In p ps -> RectT (p_tmpl p)) ->
  (forall p, In p ps -> tshape2 (p_tmpl p) = length (p_cm p)) ->
  let lens := map (fun p => length (p_cm p)) ps in
  length (m_tmpl m) = nsum (map (fun p => length (p_tmpl p)) ps) /\
  forall k p t tm s r, nth_error ps k = Some p -> nth_error (p_tmpl p) t = Some tm -> nth_error tm s = Some r ->
    exists om orow,
      nth_error (m_tmpl m) (offs (map (fun p => length (p_tmpl p)) ps) k + t) = Some om /\
      length om = length tm /\ nth_error om s = Some orow /\ length orow = nsum lens /\
      (forall c x, nth_error r c = Some x -> nth_error orow (offs lens k + c) = Some x) /\
      (forall c, (c < nsum lens)%nat -> (c < offs lens k \/ offs lens k + length (p_cm p) <= c)%nat ->
                 nth_error orow c = Some zero).
Proof. exact (@merge_template_cells). Qed.
Print Assumptions C12_template_cells.

(* whitening matrix, its inverse, similarity matrix: block-diagonal with the per-probe matrices as
   blocks when every probe has the file; not written when some probe lacks it *)
Theorem C12_block_diag_wm : forall (A R : Type) (zero : A) (unit : Z) (ps : list (probe A R)) m,
  merge_side zero unit ps = Some m ->
  (forall Ms, map p_wm ps = map Some Ms -> (forall M, In M Ms -> RectM M) ->
     exists out, m_wm m = Some out /\ BlockDiag zero Ms out) /\
  ((exists p, In p ps /\ p_wm p = None) -> m_wm m = None).
Proof. intros A R zero unit ps m. apply (merge_block_diag zero unit ps m p_wm m_wm). reflexivity. Qed.
Print Assumptions C12_block_diag_wm.

Theorem C12_block_diag_wmi : forall (A R : Type) (zero : A) (unit : Z) (ps : list (probe A R)) m,
  merge_side zero unit ps = Some m ->
  (forall Ms, map p_wmi ps = map Some Ms -> (forall M, In M Ms -> RectM M) ->
     exists out, m_wmi m = Some out /\ BlockDiag zero Ms out) /\
  ((exists p, In p ps /\ p_wmi p = None) -> m_wmi m = None).
Proof. intros A R zero unit ps m. apply (merge_block_diag zero unit ps m p_wmi m_wmi). reflexivity. Qed.
Print Assumptions C12_block_diag_wmi.

Theorem C12_block_diag_sim : forall (A R : Type) (zero : A) (unit : Z) (ps : list (probe A R)) m,
  merge_side zero unit ps = Some m ->
  (forall Ms, map p_sim ps = map Some Ms -> (forall M, In M Ms -> RectM M) ->
     exists out, m_sim m = Some out /\ BlockDiag zero Ms out) /\
  ((exists p, In p ps /\ p_sim p = None) -> m_sim m = None).
Proof. intros A R zero unit ps m. apply (merge_block_diag zero unit ps m p_sim m_sim). reflexivity. Qed.
Print Assumptions C12_block_diag_sim.

(* scipy's block_diag itself, for any list of rectangular matrices (square or not) *)
Theorem C12_block_diag : forall (A : Type) (zero : A) (Ms : list (list (list A))),
  (forall M, In M Ms -> RectM M) -> BlockDiag zero Ms (block_diag zero Ms).
Proof. exact (@block_diag_spec). Qed.
Print Assumptions C12_block_diag.

(* per-template channel-index rows of probe k are rows toff_k + t of the merged table, shifted by the
   probe's first merged channel coff_k; template-index rows are shifted by toff_k *)
Theorem C12_index_tables : forall (A R : Type) (zero : A) (unit : Z) (ps : list (probe A R)) m,
  merge_side zero unit ps = Some m ->
  (forall p, In p ps -> length (p_tf p) = length (p_tmpl p)) ->
  NoWrap (coffZ ps) (map p_pc ps) -> NoWrap (toffZ ps) (map p_tf ps) ->
  TableShift (coffZ ps) (map p_pc ps) (m_pc m) /\ TableShift (toffZ ps) (map p_tf ps) (m_tf m).
Proof. exact (@merge_index_tables). Qed.
Print Assumptions C12_index_tables.

(* what the shift is for: the merged entry for (probe k, template t, column j) is coff_k + v, and merged
   channel coff_k + v is channel v of probe k: labelled k, at the probe's position translated by dx_k *)
Theorem C12_index_tables_point_home : forall (A R : Type) (zero : A) (unit : Z) (ps : list (probe A R)) m,
  merge_side zero unit ps = Some m ->
  (forall p, In p ps -> length (p_tf p) = length (p_tmpl p)) ->
  (forall p, In p ps -> length (p_pos p) = length (p_cm p)) ->
  NoWrap (coffZ ps) (map p_pc ps) -> NoWrap (toffZ ps) (map p_tf ps) ->
  exists dxs, length dxs = length ps /\ nth 0 dxs 0 = 0 /\
  forall k p t row j v cmv q, nth_error ps k = Some p -> nth_error (p_pc p) t = Some row -> nth_error row j = Some v ->
    nth_error (p_cm p) (Z.to_nat v) = Some cmv -> nth_error (p_pos p) (Z.to_nat v) = Some q -> 0 <= v ->
    exists orow, nth_error (m_pc m) (offs (map (fun p => length (p_pc p)) ps) k + t) = Some orow /\
      nth_error orow j = Some (coffZ ps k + v) /\
      nth_error (m_probe m) (Z.to_nat (coffZ ps k + v)) = Some (Z.of_nat k) /\
      nth_error (m_pos m) (Z.to_nat (coffZ ps k + v)) = Some (shift_x (nth k dxs 0) q).
Proof. exact (@merge_pc_points_home). Qed.
Print Assumptions C12_index_tables_point_home.

(* merged parameters: the common sampling rate, and the summed raw channel count *)
Theorem C12_params : forall (A R : Type) (zero : A) (unit : Z) (ps : list (probe A R)) m (r : R),
  merge_side zero unit ps = Some m -> (forall p, In p ps -> pr_rate (p_par p) = r) ->
  pr_rate (m_par m) = r /\ pr_ncd (m_par m) = zsum (map (fun p => pr_ncd (p_par p)) ps).
Proof. exact (@merge_params). Qed.
Print Assumptions C12_params.

(* the boolean checkers that Corr.v runs on the implementation's output imply the statements *)
Theorem C12_checker_sound_templates : forall (A : Type) (zero : A) (eqb : A -> A -> bool),
  (forall x y, eqb x y = true -> x = y) ->
  forall Ts out, template_blocks_b zero eqb Ts out = true -> TemplateBlocks zero Ts out.
Proof. exact (@template_blocks_b_sound). Qed.
Print Assumptions C12_checker_sound_templates.

Theorem C12_checker_sound_block_diag : forall (A : Type) (zero : A) (eqb : A -> A -> bool),
  (forall x y, eqb x y = true -> x = y) ->
  forall Ms out, block_diag_b zero eqb Ms out = true -> BlockDiag zero Ms out.
Proof. exact (@block_diag_b_sound). Qed.
Print Assumptions C12_checker_sound_block_diag.

Theorem C12_checker_sound_channels : forall cms poss omap oprobe opos,
  chan_labels_b cms oprobe = true -> chan_map_b cms omap = true -> pos_blocks_b poss opos = true ->
  ChanLabels cms oprobe /\ ChanMap cms omap /\ PosBlocks poss opos.
Proof.
  intros. split; [now apply chan_labels_b_sound|]. split; [now apply chan_map_b_sound|now apply pos_blocks_b_sound].
Qed.
Print Assumptions C12_checker_sound_channels.

Theorem C12_checker_sound_apart : forall lens opos, apart_b lens opos = true -> Apart lens opos.
Proof. exact apart_b_sound. Qed.
Print Assumptions C12_checker_sound_apart.

Theorem C12_checker_sound_tables : forall off ts out, table_shift_b off ts out = true -> TableShift off ts out.
Proof. exact table_shift_b_sound. Qed.
Print Assumptions C12_checker_sound_tables.

(* ---- non-vacuity: three probes of unequal sizes (2, 3, 1 channels; 1, 2, 1 templates), where a
   previous-probe offset and a cumulative offset differ ---- *)
Definition ex_ps : list (probe Z Z) :=
  [ mkprobe [1; 0] [mkxy 0 0; mkxy 0 80] [[[1; 2]; [3; 4]]] [[1]] [[0]]
            (Some [[2; 0]; [0; 2]]) None (Some [[1]]) (mkpar 30000 2 0);
    mkprobe [2; 0; 1] [mkxy 0 0; mkxy 64 0; mkxy 0 80] [[[5; 6; 7]; [8; 9; 10]]; [[11; 12; 13]; [14; 15; 16]]]
            [[0]; [2]] [[1]; [0]] (Some [[1; 1; 0]; [0; 1; 0]; [0; 0; 1]]) None (Some [[1; 5]; [5; 1]]) (mkpar 30000 4 7);
    mkprobe [0] [mkxy 0 40] [[[17]; [18]]] [[0]] [[0]] (Some [[3]]) None (Some [[1]]) (mkpar 30000 1 0) ].

Example C12_ex_merge : merge_side 0 4 ex_ps = Some (mkmerged
  [1; 0; 3; 1; 2; 3] [0; 0; 1; 1; 1; 2]
  [mkxy 0 0; mkxy 0 80; mkxy 4 0; mkxy 68 0; mkxy 4 80; mkxy 132 40]
  [ [[1; 2; 0; 0; 0; 0]; [3; 4; 0; 0; 0; 0]];
    [[0; 0; 5; 6; 7; 0]; [0; 0; 8; 9; 10; 0]]; [[0; 0; 11; 12; 13; 0]; [0; 0; 14; 15; 16; 0]];
    [[0; 0; 0; 0; 0; 17]; [0; 0; 0; 0; 0; 18]] ]
  [[1]; [2]; [4]; [5]] [[0]; [2]; [1]; [3]]
  (Some [[2; 0; 0; 0; 0; 0]; [0; 2; 0; 0; 0; 0]; [0; 0; 1; 1; 0; 0]; [0; 0; 0; 1; 0; 0]; [0; 0; 0; 0; 1; 0];
         [0; 0; 0; 0; 0; 3]])
  None
  (Some [[1; 0; 0; 0]; [0; 1; 5; 0]; [0; 5; 1; 0]; [0; 0; 0; 1]])
  (mkpar 30000 7 0)).
Proof. vm_compute. reflexivity. Qed.

(* the hypotheses of the theorems hold on it *)
Example C12_ex_hyps :
  (forall p, In p ex_ps -> RectT (p_tmpl p)) /\ (forall p, In p ex_ps -> tshape2 (p_tmpl p) = length (p_cm p)) /\
  (forall p q, In p ex_ps -> In q (p_pos p) -> 0 <= px q) /\
  (forall p, In p ex_ps -> length (p_tf p) = length (p_tmpl p)).
Proof.
  split; [|split; [|split]].
  - intros p [<-|[<-|[<-|[]]]] tm r Htm Hr; cbn in Htm, Hr;
      repeat (destruct Htm as [<-|Htm]; [repeat (destruct Hr as [<-|Hr]; [reflexivity|]); contradiction|]); contradiction.
  - intros p [<-|[<-|[<-|[]]]]; reflexivity.
  - intros p q [<-|[<-|[<-|[]]]] Hq; cbn in Hq; repeat (destruct Hq as [<-|Hq]; [cbn; lia|]); contradiction.
  - intros p [<-|[<-|[<-|[]]]]; reflexivity.
Qed.

Example C12_ex_checkers :
  template_blocks_b 0 Z.eqb (map p_tmpl ex_ps) [ [[1; 2; 0; 0; 0; 0]; [3; 4; 0; 0; 0; 0]];
    [[0; 0; 5; 6; 7; 0]; [0; 0; 8; 9; 10; 0]]; [[0; 0; 11; 12; 13; 0]; [0; 0; 14; 15; 16; 0]];
    [[0; 0; 0; 0; 0; 17]; [0; 0; 0; 0; 0; 18]] ] = true /\
  (* the layout the code produced before the repair (third probe at the previous probe's width) is rejected *)
  template_blocks_b 0 Z.eqb (map p_tmpl ex_ps) [ [[1; 2; 0; 0; 0; 0]; [3; 4; 0; 0; 0; 0]];
    [[0; 0; 5; 6; 7; 0]; [0; 0; 8; 9; 10; 0]]; [[0; 0; 11; 12; 13; 0]; [0; 0; 14; 15; 16; 0]];
    [[0; 0; 0; 17; 0; 0]; [0; 0; 0; 18; 0; 0]] ] = false /\
  apart_b [2; 3; 1]%nat [mkxy 0 0; mkxy 0 80; mkxy 4 0; mkxy 68 0; mkxy 4 80; mkxy 132 40] = true /\
  apart_b [2; 2]%nat [mkxy 0 0; mkxy 0 80; mkxy 0 0; mkxy 0 80] = false.
Proof. vm_compute. repeat split; reflexivity. Qed.
