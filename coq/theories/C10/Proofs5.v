(* C10/Proofs5.v -- part 5: look-ups through the reloaded store (C03's stage-2 theorem). *)
From Coq Require Import ZArith List Lia Bool String Ascii Sorted.
From PV Require Import Base.Tok Base.PySlice Base.NpSearch Base.NpList C16.Model C16.Spec C03.Model C03.Spec C03.Proofs C03.Proofs2
                       C10.Model C10.Spec C10.Proofs C10.Proofs4.
Import ListNotations.
Local Open Scope Z_scope.

Section Lookup.
Variable classify : string -> cell.
Notation run := (Model.run classify).

(* what is on disk after an extraction, with the spikes made explicit *)
Lemma save_subset_files_explicit d data ids w :
  rest_ok (d_rest d) -> r_raw (d_rest d) = Some data -> ids_ok (d_rest d) ids -> 0 <= w ->
  exists c spikes f,
    rect c data /\ 1 <= c /\ 1 <= r_nsw (d_rest d) /\ Tiles (zlen data) (r_chunks (d_rest d)) /\
    mapM (subset_spike (d_rest d) w) ids = Some spikes /\ spikes_ok (zlen data) c w spikes /\
    export 0 idZ data (r_nsw (d_rest d)) (r_chunks (d_rest d)) spikes w PyFloat = Some f /\
    d_subset (save_subset d ids w) = Some (mksub ids (map sp_ch spikes) f).
Proof.
  intros [Hraw [Hlen Htempl]] Hdata Hids Hw. rewrite Hdata in Hraw.
  destruct Hraw as (c & Hrect & Hc & Hn & Htiles & Hsorted & Hsamp & Hbest).
  destruct (subset_spikes_ok _ _ _ _ _ Hdata Hrect Hc Hsorted Hsamp Hbest Hlen Htempl Hids Hw)
    as (spikes & Hm & Hok).
  destruct (@export_load Z 0 idZ c data (r_nsw (d_rest d)) w (r_chunks (d_rest d)) spikes PyFloat
              Hrect Hc Hn Hw Hok Htiles) as (f & Hf & _).
  exists c, spikes, f.
  split; [exact Hrect|]. split; [exact Hc|]. split; [exact Hn|]. split; [exact Htiles|].
  split; [exact Hm|]. split; [exact Hok|]. split; [exact Hf|].
  unfold save_subset. now rewrite Hdata, Hm, Hf.
Qed.

Theorem subset_lookup d0 pre post data ids w l q_ids q_ch :
  rest_ok (d_rest d0) -> r_raw (d_rest d0) = Some data -> ids_ok (d_rest d0) ids -> 0 <= w ->
  Forall (fun o => op_subset o = None) post ->
  view (run d0 (pre ++ SaveSubset ids w :: post)) = Some l ->
  Forall (fun x => In x ids) q_ids -> q_ch <> [] -> Forall (fun ch => -1 <= ch) q_ch ->
  exists st spikes sps,
    v_store l = Some st /\ mapM (subset_spike (d_rest d0) w) ids = Some spikes /\
    Forall2 (refers ids spikes) q_ids sps /\
    get_spike_waveforms 0 q_ids q_ch st (r_nsw (d_rest d0)) =
    Some (map (fun sp => lookup_window 0 idZ data (r_nsw (d_rest d0)) sp q_ch) sps).
Proof.
  intros Hr Hd Hi Hw Hp Hv Hq Hne Hch.
  assert (E : d_subset (run d0 (pre ++ SaveSubset ids w :: post)) = d_subset (save_subset (run d0 pre) ids w)).
  { rewrite run_app. change (SaveSubset ids w :: post) with ([SaveSubset ids w] ++ post).
    rewrite run_app. rewrite run_subset_other by exact Hp. reflexivity. }
  destruct (save_subset_files_explicit (run d0 pre) data ids w) as (c & spikes & f & Hrect & Hc & Hn & Ht & Hm & Hok & Hf & Hs);
    try (rewrite run_rest; assumption); [exact Hw|].
  rewrite run_rest in *.
  assert (Hids0 : Forall (fun x => 0 <= x) ids).
  { destruct Hi as [_ Hi]. eapply Forall_impl; [|exact Hi]. cbv beta. intros; lia. }
  assert (Hlen : zlen ids = zlen spikes).
  { unfold zlen. f_equal. symmetry. now destruct (mapM_Some_each _ _ _ Hm). }
  destruct (@export_store_lookup Z 0 idZ c data (r_nsw (d_rest d0)) w (r_chunks (d_rest d0)) spikes PyFloat
              ids q_ids q_ch Hrect Hc Hn Hw Hok Ht Hids0 Hlen Hq Hne Hch)
    as (f' & stw & sps & Hf' & Hload & Href & Hget).
  rewrite Hf in Hf'. injection Hf' as <-.
  exists (mkstore ids (map sp_ch spikes) stw), spikes, sps.
  split; [|split; [exact Hm|split; [exact Href|exact Hget]]].
  unfold view in Hv. destruct (negb _); [discriminate|]. destruct (_ && _); [discriminate|].
  injection Hv as <-. cbn [v_store]. rewrite E, Hs. cbn [load_store sf_wave sf_ids sf_ch]. now rewrite Hload.
Qed.
(* in the comparator's regime (queried channels other than -1 pairwise distinct) the answer is the raw
   window on the channels stored for the spike and zero elsewhere: what clause 27 judges *)
Theorem subset_lookup_masked d0 pre post data ids w l q_ids q_ch :
  rest_ok (d_rest d0) -> r_raw (d_rest d0) = Some data -> ids_ok (d_rest d0) ids -> 0 <= w ->
  Forall (fun o => op_subset o = None) post ->
  view (run d0 (pre ++ SaveSubset ids w :: post)) = Some l ->
  Forall (fun x => In x ids) q_ids -> q_ch <> [] -> Forall (fun ch => -1 <= ch) q_ch -> distinct_real q_ch ->
  exists st spikes sps,
    v_store l = Some st /\ mapM (subset_spike (d_rest d0) w) ids = Some spikes /\
    Forall2 (refers ids spikes) q_ids sps /\
    get_spike_waveforms 0 q_ids q_ch st (r_nsw (d_rest d0)) =
    Some (map (fun sp => masked_window 0 idZ data (r_nsw (d_rest d0)) sp q_ch) sps).
Proof.
  intros Hr Hd Hi Hw Hp Hv Hq Hne Hch Hdis.
  destruct (subset_lookup d0 pre post data ids w l q_ids q_ch Hr Hd Hi Hw Hp Hv Hq Hne Hch)
    as (st & spikes & sps & H1 & H2 & H3 & H4).
  exists st, spikes, sps. repeat (split; [assumption|]). rewrite H4. f_equal.
  apply map_ext. intros sp. apply (@lookup_window_masked Z 0 idZ); [reflexivity|exact Hdis].
Qed.
End Lookup.
