(* C10/Link.v -- stage 4: links to the properties whose functions save_spikes_subset_waveforms calls.

   C10's model of TemplateModel.save_spikes_subset_waveforms ([step .. (SaveSubset ids w)]) takes two things as
   given: the spike ids SpikeSelector returns ([ids], an argument of the operation) and, per template, the channel
   list of get_template(t) ([r_best], a field of the immutable part of the directory).  Here both are instantiated
   with the proved models of the neighbouring properties:

     ids     := PV.C17.Model.route choose spike_samples spike_templates traces.chunk_bounds max_n_spikes_per_template
                (SpikeSelector with n_chunks_kept = 20, subset_chunks=True, every template that has spikes requested;
                 [choose] = np.random.choice, any oracle admissible in C17's sense)
     r_best  := for t in range(n_templates): PV.C05.Model.get_template_channels argsort ds t
                ([argsort] = np.argsort, any oracle that returns a sorting permutation: C05's hypothesis)
     r_chunks:= PV.C16.Model.iter_base chunk_bounds (the list C03's export iterates over and the grid C17 thins out
                are the same array traces.chunk_bounds)

   and the theorems of C17 (C17_route), C05 (C05_dense_channels, C05_sorted) and C03 (through C10_subset /
   C10_subset_meaning: export_load, window_meets_spec) are composed:

     C10_link_selection  the ids found in the reloaded store satisfy C17's statement, and are a selection C10_subset
                         accepts ([ids_ok] is no longer a hypothesis); the kept chunks are chunks of the exported list
     C10_link_channels   the stored channel rows are C05's listed channels, in C05's order, cut to the table width and
                         padded with -1 (dense storage: never cut), = the rows of the table the code builds with
                         _template_n_channels (which gives an all -1 row to a template without spikes)
     C10_link_windows    raw data + spike vectors + template arrays/geometry -> reloaded store, no oracle left except
                         np.random.choice and np.argsort
     C10_link_code       the line-by-line composition route -> _template_n_channels table -> fancy indexing -> export
                         is C10's step on those ids (so the three theorems speak about the composed code path)
     C10_link_clause30   the checker of correspondence clause 30 (LinkSpec.select_c17_b, C17's checker on C17's kept
                         chunks) accepts an id array iff some admissible np.random.choice makes the route return it

   Not required by Corr.v (Corr.v requires LinkSpec.v, definitions only); Props.v lists the theorems
   (exact + Print Assumptions). *)
From Coq Require Import ZArith List Lia Bool String Ascii Sorted Arith.
From PV Require Import Base.Tok Base.PySlice Base.NpSearch Base.NpList C16.Model C16.Spec C16.Proofs
                       C03.Model C03.Spec C03.Proofs C10.Model C10.Spec C10.Proofs C10.Proofs4 C10.Proofs5 C10.LinkSpec.
From PV Require C17.Model C17.Spec C17.Proofs3 C17.Proofs4 C17.Props C05.Model C05.Spec C05.Proofs C05.Props.
Import ListNotations.
Local Open Scope Z_scope.

(* ================================================================================================================ *)
(* 0. the shared array traces.chunk_bounds                                                                          *)

(* bounds of a reader over n samples: start at 0, non-decreasing, end at n (C16_reader_bounds proves the stronger
   Bounds_Spec -- strictly increasing by at most the chunk length -- of _get_chunk_bounds) *)
Definition Grid_ok (grid : list Z) (n : Z) : Prop :=
  (exists g, grid = 0 :: g) /\ sortedZ grid /\ last grid 0 = n.

Lemma bounds_spec_grid_ok sizes cs b : Bounds_Spec sizes cs b -> Grid_ok b (zsum sizes).
Proof.
  intros (r & -> & Hc & Hl & _). split; [now exists r|]. split; [eapply chainP_sorted; exact Hc|exact Hl].
Qed.

Lemma grid_ok_tiles grid n : Grid_ok grid n -> Tiles n (iter_base grid).
Proof.
  intros ((g & ->) & Hs & Hl). unfold Tiles. apply linked_filter. rewrite iter_base_linked by exact Hs. now rewrite Hl.
Qed.

Lemma grid_ok_len grid n : Grid_ok grid n -> 1 <= zlen grid.
Proof. intros ((g & ->) & _). unfold zlen. cbn [List.length]. lia. Qed.

(* chunk number k of iter_chunks() is [chunk_bounds[k], chunk_bounds[k+1]) *)
Lemma iter_base_nth grid : forall k a b,
  nth_error grid k = Some a -> nth_error grid (S k) = Some b -> nth_error (iter_base grid) k = Some (mkiv a b).
Proof.
  induction grid as [|x r IH]; intros k a b Ha Hb; [destruct k; discriminate|].
  destruct r as [|y r']; [destruct k as [|[|k]]; discriminate|].
  destruct k as [|k].
  - cbn in Ha, Hb. injection Ha as <-. injection Hb as <-. reflexivity.
  - cbn [iter_base]. cbn [nth_error] in *. now apply IH.
Qed.

(* C17's kept chunks are members of the chunk list the export iterates over *)
Lemma kept_in_chunks grid s : 1 <= s -> forall ivs j, 0 <= j ->
  C17.Spec.KeptAt grid s j ivs ->
  forall v, In v ivs -> In (mkiv (C17.Model.iv_a v) (C17.Model.iv_b v)) (iter_base grid).
Proof.
  intros Hs. induction ivs as [|u ivs IH]; intros j Hj HK v Hv; [destruct Hv|].
  cbn [C17.Spec.KeptAt] in HK. destruct HK as (Ha & Hb & HK). destruct Hv as [<-|Hv].
  - apply (nth_error_In _ (Z.to_nat (j * s))). apply iter_base_nth; [exact Ha|].
    replace (S (Z.to_nat (j * s))) with (Z.to_nat (j * s + 1)) by nia. exact Hb.
  - apply (IH (j + 1)); [lia|exact HK|exact Hv].
Qed.

(* ================================================================================================================ *)
(* 1. the selected spike ids: C17's route                                                                           *)

(* C17's statement about the array the route returns (the conclusion of C17_route, verbatim) *)
Definition Route_Spec (samples templates : list Z) (ivs : list C17.Model.iv) (nst : Z) (ids : list Z) : Prop :=
  StronglySorted Z.lt ids /\
  (forall i, In i ids -> exists c, C17.Spec.Eligible samples templates ivs true None c i) /\
  (forall c, C17.Spec.Count_Spec (Some nst) (C17.Spec.elig samples templates ivs true None c)
                                 (filter (C17.Spec.has_cluster templates c) ids)).

Section Selection.
Variable choose : nat -> list Z -> Z -> list Z.         (* np.random.choice(ids, n, replace=False) *)

(* spike_ids = ss(max_n_spikes_per_template, template_ids, subset_chunks=True) on the immutable part of a directory *)
Definition route_ids (r : rest) (grid : list Z) (nst : Z) : option (list Z) :=
  C17.Model.route choose (r_samples r) (r_templates r) grid nst.

(* every array satisfying C17's statement is a selection C10's subset theorems accept *)
Lemma route_spec_ids_ok r ivs nst ids :
  zlen (r_templates r) = zlen (r_samples r) ->
  Route_Spec (r_samples r) (r_templates r) ivs nst ids -> ids_ok r ids.
Proof.
  intros Hlen (Hss & Hel & _). split; [exact Hss|]. apply Forall_forall. intros i Hi.
  destruct (Hel i Hi) as (c & H0 & Hc & _). split; [exact H0|].
  assert (Z.to_nat i < List.length (r_templates r))%nat by (apply nth_error_Some; congruence).
  unfold zlen in *. lia.
Qed.

Theorem route_link r grid nst :
  C17.Proofs3.Choose_OK choose ->
  zlen (r_templates r) = zlen (r_samples r) -> sortedZ grid -> 1 <= zlen grid -> 1 <= nst ->
  exists ivs ids,
    C17.Model.chunks_kept grid 20 = Some (C17.Spec.flat ivs) /\
    C17.Spec.Kept_Stride grid 20 (C17.Model.stride (zlen grid - 1) 20) ivs /\
    route_ids r grid nst = Some ids /\
    Route_Spec (r_samples r) (r_templates r) ivs nst ids /\
    ids_ok r ids /\
    forall v, In v ivs -> In (mkiv (C17.Model.iv_a v) (C17.Model.iv_b v)) (iter_base grid).
Proof.
  intros Hch Hlen Hg Hl Hn.
  destruct (C17.Props.C17_route choose (r_samples r) (r_templates r) grid nst Hch) as (ivs & ids & Hk & HS & Hr & H1 & H2 & H3);
    try assumption.
  { unfold zlen in Hlen. lia. }
  exists ivs, ids. split; [exact Hk|]. split; [exact HS|]. split; [exact Hr|].
  assert (HR : Route_Spec (r_samples r) (r_templates r) ivs nst ids) by (split; [exact H1|split; [exact H2|exact H3]]).
  split; [exact HR|]. split; [now apply (route_spec_ids_ok r ivs nst)|].
  destruct HS as (Hs1 & HKA & _). intros v Hv. now apply (kept_in_chunks grid _ Hs1 ivs 0).
Qed.
End Selection.

(* ================================================================================================================ *)
(* 2. the per-template channel lists: C05's get_template                                                            *)

Lemma nth_error_firstn_lt {X} n (l : list X) k : (k < n)%nat -> nth_error (firstn n l) k = nth_error l k.
Proof.
  revert l k. induction n as [|n IH]; intros l k Hk; [lia|].
  destruct l as [|x l]; [now destruct k|]. destruct k as [|k]; [reflexivity|]. cbn [firstn nth_error]. apply IH. lia.
Qed.

(* [row] is [chans] cut to [w] entries and padded with -1 up to [w] entries, order kept *)
Definition Padded (w : Z) (chans row : list Z) : Prop :=
  zlen row = w /\
  forall k, (k < Z.to_nat w)%nat ->
    nth_error row k = Some (match nth_error chans k with Some ch => ch | None => -1 end).

Lemma chan_row_padded w best : 0 <= w -> Padded w best (chan_row w best).
Proof.
  intros Hw. split; [now apply chan_row_length|]. intros k Hk. unfold chan_row.
  set (n := Z.to_nat w) in *. pose proof (firstn_length n best) as Hl.
  destruct (Nat.lt_ge_cases k (List.length best)) as [Hlt|Hge].
  - rewrite nth_error_app1 by lia. rewrite nth_error_firstn_lt by exact Hk.
    destruct (nth_error best k) eqn:E; [reflexivity|]. apply nth_error_None in E. lia.
  - rewrite nth_error_app2 by lia. rewrite nth_error_repeat by lia.
    destruct (nth_error best k) eqn:E; [|reflexivity].
    assert (k < List.length best)%nat by (apply nth_error_Some; congruence). lia.
Qed.

(* a list not longer than the table width is stored whole *)
Lemma chan_row_whole w best : (List.length best <= Z.to_nat w)%nat ->
  chan_row w best = best ++ repeat (-1) (Z.to_nat w - List.length best).
Proof. intros H. unfold chan_row. now rewrite firstn_all2 by exact H. Qed.

Lemma chan_row_nil w : chan_row w [] = repeat (-1) (Z.to_nat w).
Proof. unfold chan_row. rewrite firstn_nil. cbn [List.length app]. now rewrite Nat.sub_0_r. Qed.

Section Channels.
Variable argsort : list Z -> list nat.                   (* np.argsort (default kind) inside get_template *)

(* nc = max_n_channels or self.n_closest_channels; nc = max(nc, self.n_closest_channels)
   (`or`: None and 0 both give n_closest_channels) *)
Definition width (mnc : option Z) (ncl : Z) : Z :=
  Z.max (match mnc with Some m => if m =? 0 then ncl else m | None => ncl end) ncl.

Lemma width_ge mnc ncl : ncl <= width mnc ncl.
Proof. unfold width. lia. Qed.

Definition n_templates (ds : C05.Model.dataset) : nat := List.length (C05.Model.d_templates ds).

(* get_template(t).channel_ids as the integers NumPy holds; None = get_template raises *)
Definition listed (ds : C05.Model.dataset) (t : nat) : option (list Z) :=
  option_map (map Z.of_nat) (C05.Model.get_template_channels argsort ds t).

(* the channel oracle of C10's model instantiated: for t in range(n_templates): get_template(t).channel_ids *)
Definition best_of (ds : C05.Model.dataset) : option (list (list Z)) := mapM (listed ds) (seq 0 (n_templates ds)).
Definition Best_linked (ds : C05.Model.dataset) (r : rest) : Prop := best_of ds = Some (r_best r).

Lemma listed_rec ds t best : listed ds t = Some best ->
  exists rec, C05.Model.get_template argsort ds (C05.Model.default_request t) = Some rec /\
              best = map Z.of_nat (C05.Model.t_channels rec).
Proof.
  unfold listed, C05.Model.get_template_channels. intros H.
  destruct (C05.Model.get_template argsort ds (C05.Model.default_request t)) as [rec|]; [|discriminate].
  cbn [option_map] in H. injection H as <-. now exists rec.
Qed.

Lemma best_linked_nth ds r : Best_linked ds r ->
  List.length (r_best r) = n_templates ds /\
  forall t best, nth_error (r_best r) t = Some best -> listed ds t = Some best.
Proof.
  intros H. destruct (mapM_Some_each _ _ _ H) as [Hl Hn]. rewrite seq_length in Hl. split; [exact Hl|].
  intros t best Ht. assert (Hlt : (t < n_templates ds)%nat) by (rewrite <- Hl; apply nth_error_Some; congruence).
  destruct (Hn t t) as (y & Hy & Hf).
  { rewrite (nth_error_nth' _ 0%nat) by (now rewrite seq_length). now rewrite seq_nth. }
  congruence.
Qed.

(* C05's statement about the channel list of a dense template, as used below: distinct channels of the probe, at
   most n_closest_channels of them *)
Lemma dense_listed_facts ds t rec :
  C05.Spec.Argsort_ok argsort -> C05.Model.d_cols ds = None -> 1 <= C05.Model.d_nclosest ds ->
  C05.Model.get_template argsort ds (C05.Model.default_request t) = Some rec ->
  (exists T b, C05.Spec.Full_template ds (C05.Model.default_request t) T /\ C05.Spec.Peak T b /\
               C05.Spec.Dense_channels (C05.Model.d_pos ds) (C05.Model.d_shanks ds) (C05.Model.d_nclosest ds)
                                       (C05.Model.d_thr ds) T b (C05.Model.t_channels rec)) /\
  NoDup (C05.Model.t_channels rec) /\
  (forall ch, In ch (C05.Model.t_channels rec) -> (ch < List.length (C05.Model.d_pos ds))%nat) /\
  (List.length (C05.Model.t_channels rec) <= Z.to_nat (C05.Model.d_nclosest ds))%nat.
Proof.
  intros AS Hc Hn Hr.
  destruct (C05.Props.C05_dense_channels argsort AS ds (C05.Model.default_request t) rec Hc ltac:(lia) eq_refl Hr) as (T & HT & HP & HD).
  destruct (C05.Props.C05_sorted argsort AS ds (C05.Model.default_request t) rec Hc ltac:(lia) eq_refl Hr) as (T' & _ & (Hnd & _)).
  split; [exists T, (C05.Model.t_best rec); split; [exact HT|split; [exact HP|exact HD]]|]. split; [exact Hnd|].
  destruct HD as (N & (HN1 & HN2 & HN3 & _) & Hiff).
  assert (Hincl : incl (C05.Model.t_channels rec) N) by (intros ch Hch; now apply Hiff in Hch).
  split; [intros ch Hch; apply HN2, Hincl, Hch|].
  pose proof (NoDup_incl_length Hnd Hincl) as Hle. rewrite HN3 in Hle.
  replace (C05.Model.d_nclosest ds =? 0) with false in Hle by lia. lia.
Qed.

(* ---- the table the code builds -------------------------------------------------------------------------------- *)
(* TemplateModel._template_n_channels(template_id, n_channels); self.template_ids = np.unique(spike_templates);
   None = get_template raises *)
Definition template_n_channels (ds : C05.Model.dataset) (templates : list Z) (t : nat) (nc : Z) : option (list Z) :=
  if negb (memZ (Z.of_nat t) templates) then Some (repeat (-1) (Z.to_nat nc))      (* return [-1] * n_channels *)
  else match listed ds t with
       | None => None
       | Some chans =>
           let c := firstn (Z.to_nat nc) chans in                                   (* list(template.channel_ids[:n_channels]) *)
           Some (c ++ repeat (-1) (Z.to_nat nc - List.length c))                    (* += [-1] * (n_channels - len(...)) *)
       end.

(* best_channels = np.vstack([self._template_n_channels(t, nc) for t in range(self.n_templates)]) *)
Definition best_table (ds : C05.Model.dataset) (templates : list Z) (nc : Z) : option (list (list Z)) :=
  mapM (fun t => template_n_channels ds templates t nc) (seq 0 (n_templates ds)).

Lemma tnc_used ds templates t nc best :
  In (Z.of_nat t) templates -> listed ds t = Some best ->
  template_n_channels ds templates t nc = Some (chan_row nc best).
Proof.
  intros Hin Hl. unfold template_n_channels. apply memZ_In in Hin. rewrite Hin, Hl. reflexivity.
Qed.

Lemma tnc_unused ds templates t nc :
  ~ In (Z.of_nat t) templates -> template_n_channels ds templates t nc = Some (repeat (-1) (Z.to_nat nc)).
Proof.
  intros Hin. unfold template_n_channels. destruct (memZ (Z.of_nat t) templates) eqn:E; [|reflexivity].
  apply memZ_In in E. contradiction.
Qed.

(* the table exists as soon as get_template answers for every template that has spikes; its row for such a template
   is [chan_row] of C05's list, its row for a template without spikes is all -1 *)
Theorem best_table_rows ds r nc : Best_linked ds r ->
  exists table, best_table ds (r_templates r) nc = Some table /\ List.length table = n_templates ds /\
    forall t row, nth_error table t = Some row ->
      if memZ (Z.of_nat t) (r_templates r)
      then exists best, nth_error (r_best r) t = Some best /\ row = chan_row nc best
      else row = repeat (-1) (Z.to_nat nc).
Proof.
  intros HB. destruct (best_linked_nth ds r HB) as [Hlen Hnth].
  destruct (mapM_total (fun t => template_n_channels ds (r_templates r) t nc) (seq 0 (n_templates ds))) as [table Ht].
  { intros t Ht. apply in_seq in Ht. destruct (nth_error (r_best r) t) as [best|] eqn:E.
    2:{ apply nth_error_None in E. lia. }
    destruct (memZ (Z.of_nat t) (r_templates r)) eqn:Em.
    - apply memZ_In in Em. eexists. apply (tnc_used ds _ t nc best Em). now apply Hnth.
    - eexists. apply tnc_unused. intros Hin. apply memZ_In in Hin. congruence. }
  exists table. split; [exact Ht|]. destruct (mapM_Some_each _ _ _ Ht) as [Hl Hn]. rewrite seq_length in Hl.
  split; [exact Hl|]. intros t row Hrow.
  assert (Hlt : (t < n_templates ds)%nat) by (rewrite <- Hl; apply nth_error_Some; congruence).
  destruct (Hn t t) as (y & Hy & Hf).
  { rewrite (nth_error_nth' _ 0%nat) by (now rewrite seq_length). now rewrite seq_nth. }
  rewrite Hrow in Hy. injection Hy as <-.
  destruct (memZ (Z.of_nat t) (r_templates r)) eqn:Em.
  - destruct (nth_error (r_best r) t) as [best|] eqn:E.
    2:{ apply nth_error_None in E. lia. }
    exists best. split; [reflexivity|]. apply memZ_In in Em.
    rewrite (tnc_used ds _ t nc best Em (Hnth t best E)) in Hf. now injection Hf.
  - rewrite tnc_unused in Hf; [now injection Hf|]. intros Hin. apply memZ_In in Hin. congruence.
Qed.

(* ---- what the reloaded store holds, spike by spike ------------------------------------------------------------ *)
Section Store.
Variable classify : string -> cell.

Lemma linked_store d0 pre post data ds ids w l :
  Best_linked ds (d_rest d0) ->
  rest_ok (d_rest d0) -> r_raw (d_rest d0) = Some data -> ids_ok (d_rest d0) ids -> 0 <= w ->
  Forall (fun o => op_subset o = None) post ->
  view (C10.Model.run classify d0 (pre ++ SaveSubset ids w :: post)) = Some l ->
  exists st, v_store l = Some st /\ st_ids st = ids /\
    List.length (st_ch st) = List.length ids /\ List.length (st_w st) = List.length ids /\
    forall j i, nth_error ids j = Some i ->
      exists s t rec wv,
        nth_error (r_samples (d_rest d0)) (Z.to_nat i) = Some s /\
        nth_error (r_templates (d_rest d0)) (Z.to_nat i) = Some t /\ 0 <= t /\
        C05.Model.get_template argsort ds (C05.Model.default_request (Z.to_nat t)) = Some rec /\
        nth_error (r_best (d_rest d0)) (Z.to_nat t) = Some (map Z.of_nat (C05.Model.t_channels rec)) /\
        nth_error (st_ch st) j = Some (chan_row w (map Z.of_nat (C05.Model.t_channels rec))) /\
        nth_error (st_w st) j = Some wv /\
        Window_Spec 0 data s (r_nsw (d_rest d0)) (chan_row w (map Z.of_nat (C05.Model.t_channels rec))) wv.
Proof.
  intros HB Hr Hd Hi Hw Hp Hv.
  destruct (subset_after_history classify d0 pre post data ids w l Hr Hd Hi Hw Hp Hv) as (st & He & Hs).
  exists st. split; [exact Hs|].
  destruct Hr as [Hraw _]. rewrite Hd in Hraw. destruct Hraw as (c & Hrect & Hc & Hn & _ & _ & _ & Hbest).
  destruct (expected_store_meaning (d_rest d0) data c ids w st Hrect Hc ltac:(lia) Hbest He) as (H1 & H2 & H3 & H4).
  split; [exact H1|]. split; [exact H2|]. split; [exact H3|].
  intros j i Hj. destruct (H4 j i Hj) as (sp & wv & Hsp & Hch & Hwv & HW).
  unfold subset_spike in Hsp. destruct (i <? 0); [discriminate|].
  destruct (nth_error (r_samples (d_rest d0)) (Z.to_nat i)) as [s|]; [|discriminate].
  destruct (nth_error (r_templates (d_rest d0)) (Z.to_nat i)) as [t|]; [|discriminate].
  destruct (t <? 0) eqn:Et; [discriminate|].
  destruct (nth_error (r_best (d_rest d0)) (Z.to_nat t)) as [best|] eqn:Eb; [|discriminate].
  injection Hsp as <-. cbn [sp_s sp_ch] in *.
  destruct (best_linked_nth ds _ HB) as [_ Hnth].
  destruct (listed_rec ds _ best (Hnth _ _ Eb)) as (rec & Hrec & ->).
  exists s, t, rec, wv. split; [reflexivity|]. split; [reflexivity|]. split; [lia|]. split; [exact Hrec|].
  split; [exact Eb|]. split; [exact Hch|]. split; [exact Hwv|exact HW].
Qed.
End Store.
End Channels.

(* ================================================================================================================ *)
(* 3. the three link theorems                                                                                       *)

Section LinkTheorems.
Variable classify : string -> cell.

(* ---- 1. selection ---- *)
Theorem link_selection (choose : nat -> list Z -> Z -> list Z) d0 data grid nst :
  C17.Proofs3.Choose_OK choose ->
  rest_ok (d_rest d0) -> r_raw (d_rest d0) = Some data ->
  r_chunks (d_rest d0) = iter_base grid -> sortedZ grid -> 1 <= zlen grid -> 1 <= nst ->
  exists ivs ids,
    C17.Model.chunks_kept grid 20 = Some (C17.Spec.flat ivs) /\
    C17.Spec.Kept_Stride grid 20 (C17.Model.stride (zlen grid - 1) 20) ivs /\
    (forall v, In v ivs -> In (mkiv (C17.Model.iv_a v) (C17.Model.iv_b v)) (r_chunks (d_rest d0))) /\
    route_ids choose (d_rest d0) grid nst = Some ids /\
    Route_Spec (r_samples (d_rest d0)) (r_templates (d_rest d0)) ivs nst ids /\
    forall pre post w l, 0 <= w -> Forall (fun o => op_subset o = None) post ->
      view (C10.Model.run classify d0 (pre ++ SaveSubset ids w :: post)) = Some l ->
      exists st, v_store l = Some st /\ st_ids st = ids.
Proof.
  intros Hch Hr Hd Hck Hg Hl Hn. pose proof Hr as [_ [Hlen _]].
  destruct (route_link choose (d_rest d0) grid nst Hch Hlen Hg Hl Hn) as (ivs & ids & Hk & HS & Hroute & HR & Hids & Hin).
  exists ivs, ids. split; [exact Hk|]. split; [exact HS|]. split; [now rewrite Hck|]. split; [exact Hroute|].
  split; [exact HR|]. intros pre post w l Hw Hp Hv.
  destruct (subset_after_history classify d0 pre post data ids w l Hr Hd Hids Hw Hp Hv) as (st & He & Hs).
  exists st. split; [exact Hs|]. unfold expected_store in He.
  destruct (mapM (subset_spike (d_rest d0) w) ids); [|discriminate]. now injection He as <-.
Qed.

(* ---- 2. channel rows ---- *)
Theorem link_channels (argsort : list Z -> list nat) d0 pre post data ds ids w l :
  C05.Spec.Argsort_ok argsort -> Best_linked argsort ds (d_rest d0) ->
  rest_ok (d_rest d0) -> r_raw (d_rest d0) = Some data -> ids_ok (d_rest d0) ids -> 0 <= w ->
  Forall (fun o => op_subset o = None) post ->
  view (C10.Model.run classify d0 (pre ++ SaveSubset ids w :: post)) = Some l ->
  exists st table,
    v_store l = Some st /\ st_ids st = ids /\ List.length (st_ch st) = List.length ids /\
    best_table argsort ds (r_templates (d_rest d0)) w = Some table /\
    forall j i, nth_error ids j = Some i ->
      exists t rec row,
        nth_error (r_templates (d_rest d0)) (Z.to_nat i) = Some t /\ 0 <= t /\
        C05.Model.get_template argsort ds (C05.Model.default_request (Z.to_nat t)) = Some rec /\
        nth_error (st_ch st) j = Some row /\
        nth_error table (Z.to_nat t) = Some row /\
        Padded w (map Z.of_nat (C05.Model.t_channels rec)) row /\
        (C05.Model.d_cols ds = None -> 1 <= C05.Model.d_nclosest ds <= w ->
           row = map Z.of_nat (C05.Model.t_channels rec) ++
                 repeat (-1) (Z.to_nat w - List.length (C05.Model.t_channels rec)) /\
           NoDup (C05.Model.t_channels rec) /\
           exists T b, C05.Spec.Full_template ds (C05.Model.default_request (Z.to_nat t)) T /\ C05.Spec.Peak T b /\
                       C05.Spec.Dense_channels (C05.Model.d_pos ds) (C05.Model.d_shanks ds) (C05.Model.d_nclosest ds)
                                               (C05.Model.d_thr ds) T b (C05.Model.t_channels rec)).
Proof.
  intros AS HB Hr Hd Hi Hw Hp Hv.
  destruct (linked_store argsort classify d0 pre post data ds ids w l HB Hr Hd Hi Hw Hp Hv) as (st & Hs & H1 & H2 & _ & H4).
  destruct (best_table_rows argsort ds (d_rest d0) w HB) as (table & Ht & Htl & Hrows).
  exists st, table. split; [exact Hs|]. split; [exact H1|]. split; [exact H2|]. split; [exact Ht|].
  intros j i Hj. destruct (H4 j i Hj) as (s & t & rec & wv & _ & Htm & Ht0 & Hrec & Hbest & Hch & _ & _).
  exists t, rec, (chan_row w (map Z.of_nat (C05.Model.t_channels rec))).
  split; [exact Htm|]. split; [exact Ht0|]. split; [exact Hrec|]. split; [exact Hch|]. split; [|split].
  - destruct (best_linked_nth argsort ds _ HB) as [Hlen _].
    assert (Hlt : (Z.to_nat t < List.length table)%nat).
    { rewrite Htl, <- Hlen. apply nth_error_Some. congruence. }
    destruct (nth_error table (Z.to_nat t)) as [row|] eqn:Er; [|apply nth_error_None in Er; lia].
    specialize (Hrows _ _ Er). rewrite Z2Nat.id in Hrows by exact Ht0.
    assert (Hm : memZ t (r_templates (d_rest d0)) = true) by (apply memZ_In; eapply nth_error_In; exact Htm).
    rewrite Hm in Hrows. destruct Hrows as (best & Hb & ->). rewrite Hbest in Hb. now injection Hb as <-.
  - now apply chan_row_padded.
  - intros Hc [Hn1 Hn2].
    destruct (dense_listed_facts argsort ds _ rec AS Hc Hn1 Hrec) as ((T & b & HT & HP & HD) & Hnd & _ & Hle).
    split; [|split; [exact Hnd|exists T, b; split; [exact HT|split; [exact HP|exact HD]]]].
    rewrite chan_row_whole by (rewrite map_length; lia). now rewrite map_length.
Qed.

(* ---- 3. raw data + spike vectors + template arrays -> reloaded store ---- *)
(* the loaded state of a dataset with a raw data file, dense templates: rectangular recording of c channels, the
   reader's chunk bounds, sorted spike samples inside the recording, templates in range, one position per channel *)
Definition Source_ok (r : rest) (data : list (list Z)) (c : Z) (grid : list Z) (ds : C05.Model.dataset) : Prop :=
  r_raw r = Some data /\ rect c data /\ 1 <= c /\ 1 <= r_nsw r /\
  Grid_ok grid (zlen data) /\ r_chunks r = iter_base grid /\
  sortedZ (r_samples r) /\ Forall (fun s => 0 <= s < zlen data) (r_samples r) /\
  zlen (r_templates r) = zlen (r_samples r) /\
  Forall (fun t => 0 <= t < Z.of_nat (n_templates ds)) (r_templates r) /\
  C05.Model.d_cols ds = None /\ 1 <= C05.Model.d_nclosest ds /\
  Z.of_nat (List.length (C05.Model.d_pos ds)) = c.

(* [rest_ok] is a consequence: the chunks tile the recording (C16) and C05's channels are channels of the probe *)
Lemma source_rest_ok argsort r data c grid ds :
  C05.Spec.Argsort_ok argsort -> Source_ok r data c grid ds -> Best_linked argsort ds r -> rest_ok r.
Proof.
  intros AS (Hd & Hrect & Hc & Hn & Hg & Hck & Hso & Hsa & Hlen & Htm & Hcols & Hncl & Hpos) HB.
  destruct (best_linked_nth argsort ds r HB) as [Hbl Hnth].
  unfold rest_ok. rewrite Hd. split; [|split; [exact Hlen|]].
  - exists c. split; [exact Hrect|]. split; [exact Hc|]. split; [exact Hn|].
    split; [rewrite Hck; now apply grid_ok_tiles|]. split; [exact Hso|]. split; [exact Hsa|].
    apply Forall_forall. intros best Hin. apply In_nth_error in Hin as (t & Ht).
    destruct (listed_rec argsort ds t best (Hnth t best Ht)) as (rec & Hrec & ->).
    destruct (dense_listed_facts argsort ds t rec AS Hcols Hncl Hrec) as (_ & _ & Hrange & _).
    apply Forall_forall. intros ch Hch. apply in_map_iff in Hch as (k & <- & Hk). specialize (Hrange k Hk). lia.
  - unfold zlen. rewrite Hbl. exact Htm.
Qed.

Theorem link_windows (choose : nat -> list Z -> Z -> list Z) (argsort : list Z -> list nat)
    d0 data c grid ds nst mnc :
  C17.Proofs3.Choose_OK choose -> C05.Spec.Argsort_ok argsort ->
  Source_ok (d_rest d0) data c grid ds -> Best_linked argsort ds (d_rest d0) -> 1 <= nst ->
  let r := d_rest d0 in
  let w := width mnc (C05.Model.d_nclosest ds) in
  exists ivs ids,
    C17.Model.chunks_kept grid 20 = Some (C17.Spec.flat ivs) /\
    C17.Spec.Kept_Stride grid 20 (C17.Model.stride (zlen grid - 1) 20) ivs /\
    route_ids choose r grid nst = Some ids /\
    Route_Spec (r_samples r) (r_templates r) ivs nst ids /\
    forall pre post l, Forall (fun o => op_subset o = None) post ->
      view (C10.Model.run classify d0 (pre ++ SaveSubset ids w :: post)) = Some l ->
      exists st, v_store l = Some st /\ st_ids st = ids /\
        List.length (st_ch st) = List.length ids /\ List.length (st_w st) = List.length ids /\
        forall j i, nth_error ids j = Some i ->
          exists s t rec wv,
            nth_error (r_samples r) (Z.to_nat i) = Some s /\
            nth_error (r_templates r) (Z.to_nat i) = Some t /\ 0 <= t /\
            C05.Model.get_template argsort ds (C05.Model.default_request (Z.to_nat t)) = Some rec /\
            let row := map Z.of_nat (C05.Model.t_channels rec) ++
                       repeat (-1) (Z.to_nat w - List.length (C05.Model.t_channels rec)) in
            zlen row = w /\
            nth_error (st_ch st) j = Some row /\ nth_error (st_w st) j = Some wv /\
            Window_Spec 0 data s (r_nsw r) row wv /\
            NoDup (C05.Model.t_channels rec) /\
            exists T b, C05.Spec.Full_template ds (C05.Model.default_request (Z.to_nat t)) T /\ C05.Spec.Peak T b /\
                        C05.Spec.Dense_channels (C05.Model.d_pos ds) (C05.Model.d_shanks ds) (C05.Model.d_nclosest ds)
                                                (C05.Model.d_thr ds) T b (C05.Model.t_channels rec).
Proof.
  intros Hch AS HS HB Hn r w.
  pose proof (source_rest_ok argsort _ _ _ _ _ AS HS HB) as Hr.
  destruct HS as (Hd & _ & _ & _ & Hg & Hck & _ & _ & Hlen & _ & Hcols & Hncl & _).
  pose proof (width_ge mnc (C05.Model.d_nclosest ds)) as Hwge. fold w in Hwge.
  destruct (route_link choose r grid nst Hch Hlen ltac:(apply Hg) (grid_ok_len _ _ Hg) Hn)
    as (ivs & ids & Hk & HKS & Hroute & HR & Hids & _).
  exists ivs, ids. split; [exact Hk|]. split; [exact HKS|]. split; [exact Hroute|]. split; [exact HR|].
  intros pre post l Hp Hv.
  destruct (linked_store argsort classify d0 pre post data ds ids w l HB Hr Hd Hids ltac:(lia) Hp Hv)
    as (st & Hs & H1 & H2 & H3 & H4).
  exists st. split; [exact Hs|]. split; [exact H1|]. split; [exact H2|]. split; [exact H3|].
  intros j i Hj. destruct (H4 j i Hj) as (s & t & rec & wv & Hsm & Htm & Ht0 & Hrec & _ & Hrow & Hwv & HW).
  destruct (dense_listed_facts argsort ds _ rec AS Hcols Hncl Hrec) as ((T & b & HT & HP & HD) & Hnd & _ & Hle).
  assert (Hwhole : chan_row w (map Z.of_nat (C05.Model.t_channels rec)) =
                   map Z.of_nat (C05.Model.t_channels rec) ++
                   repeat (-1) (Z.to_nat w - List.length (C05.Model.t_channels rec))).
  { rewrite chan_row_whole by (rewrite map_length; lia). now rewrite map_length. }
  exists s, t, rec, wv. split; [exact Hsm|]. split; [exact Htm|]. split; [exact Ht0|]. split; [exact Hrec|].
  cbv zeta. rewrite <- Hwhole. split; [apply chan_row_length; lia|]. split; [exact Hrow|]. split; [exact Hwv|].
  split; [exact HW|]. split; [exact Hnd|]. exists T, b. split; [exact HT|split; [exact HP|exact HD]].
Qed.
End LinkTheorems.

(* ================================================================================================================ *)
(* 4. the method as the composition of the three neighbouring models                                                *)

(* a[idx] for non-negative indices (NumPy fancy indexing); None = IndexError / a negative index (not modelled) *)
Definition take_at {X} (a : list X) (idx : list Z) : option (list X) :=
  mapM (fun i => if i <? 0 then None else nth_error a (Z.to_nat i)) idx.

Lemma take_at_total {X} (a : list X) idx :
  Forall (fun i => 0 <= i < zlen a) idx -> exists ys, take_at a idx = Some ys.
Proof.
  intros H. apply mapM_total. intros i Hi. rewrite Forall_forall in H. specialize (H i Hi).
  replace (i <? 0) with false by lia. destruct (nth_error a (Z.to_nat i)) eqn:E; [now eexists|].
  apply nth_error_None in E. unfold zlen in H. lia.
Qed.

Lemma take_at_In {X} (a : list X) idx ys y : take_at a idx = Some ys -> In y ys -> In y a.
Proof.
  intros H Hy. destruct (mapM_In _ _ _ _ H Hy) as (i & _ & Hf). destruct (i <? 0); [discriminate|].
  eapply nth_error_In; exact Hf.
Qed.

Definition mk_spikes (ss : list Z) (chs : list (list Z)) : list spike :=
  map (fun p => mkspike (fst p) (snd p)) (combine ss chs).

Section Code.
Variable classify : string -> cell.
Variable choose : nat -> list Z -> Z -> list Z.
Variable argsort : list Z -> list nat.

(* TemplateModel.save_spikes_subset_waveforms(max_n_spikes_per_template=nst, max_n_channels=mnc), line by line, on
   the directory [d], the reader's chunk bounds [grid] and the template arrays / geometry [ds].  It reads neither
   [r_best] nor [r_chunks]: the selection is C17's [route], the channel table is built with C05's [get_template],
   the file is written by C03's [export].  None = an exception propagates. *)
Definition save_subset_code (d : disk) (grid : list Z) (ds : C05.Model.dataset) (nst : Z) (mnc : option Z)
  : option disk :=
  let r := d_rest d in
  match r_raw r with
  | None => Some d                                            (* if self.traces is None: warning; return *)
  | Some data =>
      let nc := width mnc (C05.Model.d_nclosest ds) in
      if nc <=? 0 then None else                              (* assert nc > 0  (assert nst > 0: first line of route) *)
      match C17.Model.route choose (r_samples r) (r_templates r) grid nst with
      | None => None
      | Some ids =>                                           (* np.save(path_spikes, spike_ids) *)
      match best_table argsort ds (r_templates r) nc with
      | None => None
      | Some table =>
      match take_at (r_templates r) ids with                  (* self.spike_templates[spike_ids] *)
      | None => None
      | Some ts =>
      match take_at table ts with                             (* best_channels[..., :]; np.save(path_channels, ...) *)
      | None => None
      | Some chs =>
      match take_at (r_samples r) ids with                    (* self.spike_samples[spike_ids] *)
      | None => None
      | Some ss =>
      match export 0 idZ data (r_nsw r) (iter_base grid) (mk_spikes ss chs) nc PyFloat with
      | None => None
      | Some f => Some (mkdisk (d_clusters d) (d_files d) (Some (mksub ids chs f)) r)
      end end end end end end
  end.

(* the spikes C10's model hands to the export are those the composed code builds *)
Lemma code_spikes ds r w table :
  Best_linked argsort ds r -> best_table argsort ds (r_templates r) w = Some table ->
  forall ids ts chs ss,
    take_at (r_templates r) ids = Some ts -> take_at table ts = Some chs -> take_at (r_samples r) ids = Some ss ->
    mapM (subset_spike r w) ids = Some (mk_spikes ss chs) /\ map sp_ch (mk_spikes ss chs) = chs.
Proof.
  intros HB Ht. destruct (best_table_rows argsort ds r w HB) as (table' & Ht' & _ & Hrows).
  rewrite Ht in Ht'. injection Ht' as <-.
  induction ids as [|i ids IH]; intros ts chs ss H1 H2 H3; unfold take_at in *; cbn [mapM] in *.
  - injection H1 as <-. cbn [mapM] in H2. injection H2 as <-. injection H3 as <-. split; reflexivity.
  - destruct (i <? 0) eqn:Ei; [discriminate|].
    destruct (nth_error (r_templates r) (Z.to_nat i)) as [t|] eqn:Et; [|discriminate].
    destruct (mapM _ ids) as [ts'|] eqn:E1 in H1; [|discriminate]. injection H1 as <-.
    destruct (nth_error (r_samples r) (Z.to_nat i)) as [s|] eqn:Es; [|discriminate].
    destruct (mapM _ ids) as [ss'|] eqn:E3 in H3; [|discriminate]. injection H3 as <-.
    cbn [mapM] in H2. destruct (t <? 0) eqn:Et0; [discriminate|].
    destruct (nth_error table (Z.to_nat t)) as [row|] eqn:Er; [|discriminate].
    destruct (mapM _ ts') as [chs'|] eqn:E2 in H2; [|discriminate]. injection H2 as <-.
    destruct (IH ts' chs' ss' E1 E2 E3) as [IH1 IH2].
    specialize (Hrows _ _ Er). rewrite Z2Nat.id in Hrows by lia.
    assert (Hm : memZ t (r_templates r) = true) by (apply memZ_In; eapply nth_error_In; exact Et).
    rewrite Hm in Hrows. destruct Hrows as (best & Hb & ->).
    unfold subset_spike at 1. rewrite Ei, Es, Et, Et0, Hb. rewrite IH1.
    unfold mk_spikes in *. cbn [combine map fst snd sp_ch]. split; [reflexivity|]. now rewrite IH2.
Qed.

(* whenever the composed code returns, it returns C10's step on C17's ids and the code's table width *)
Theorem code_is_step d grid ds nst mnc d' :
  Best_linked argsort ds (d_rest d) -> r_chunks (d_rest d) = iter_base grid ->
  save_subset_code d grid ds nst mnc = Some d' ->
  match r_raw (d_rest d) with
  | None => d' = d
  | Some _ => exists ids, route_ids choose (d_rest d) grid nst = Some ids /\
                          d' = C10.Model.step classify d (SaveSubset ids (width mnc (C05.Model.d_nclosest ds)))
  end.
Proof.
  intros HB Hck H. unfold save_subset_code in H. destruct (r_raw (d_rest d)) as [data|] eqn:Hd; [|now injection H].
  cbv zeta in H. set (w := width mnc (C05.Model.d_nclosest ds)) in *.
  destruct (w <=? 0); [discriminate|].
  destruct (C17.Model.route choose _ _ grid nst) as [ids|] eqn:Hroute; [|discriminate].
  destruct (best_table argsort ds _ w) as [table|] eqn:Ht; [|discriminate].
  destruct (take_at (r_templates (d_rest d)) ids) as [ts|] eqn:E1; [|discriminate].
  destruct (take_at table ts) as [chs|] eqn:E2; [|discriminate].
  destruct (take_at (r_samples (d_rest d)) ids) as [ss|] eqn:E3; [|discriminate].
  destruct (export _ _ _ _ _ _ _ _) as [f|] eqn:Ef; [|discriminate]. injection H as <-.
  exists ids. split; [exact Hroute|].
  destruct (code_spikes ds (d_rest d) w table HB Ht ids ts chs ss E1 E2 E3) as [Hm Hc].
  cbn [C10.Model.step]. unfold save_subset. rewrite Hd, Hm, Hck, Ef, Hc. reflexivity.
Qed.

(* and in the regime of link_windows it does return: the whole method is defined, and is that step *)
Theorem code_defined d data c grid ds nst mnc :
  C17.Proofs3.Choose_OK choose -> C05.Spec.Argsort_ok argsort ->
  Source_ok (d_rest d) data c grid ds -> Best_linked argsort ds (d_rest d) -> 1 <= nst ->
  exists ids, route_ids choose (d_rest d) grid nst = Some ids /\
    save_subset_code d grid ds nst mnc =
    Some (C10.Model.step classify d (SaveSubset ids (width mnc (C05.Model.d_nclosest ds)))).
Proof.
  intros Hch AS HS HB Hn.
  pose proof (source_rest_ok argsort _ _ _ _ _ AS HS HB) as Hr.
  destruct HS as (Hd & _ & _ & _ & Hg & Hck & _ & _ & Hlen & Htm & _ & Hncl & _).
  pose proof (width_ge mnc (C05.Model.d_nclosest ds)) as Hwge. set (w := width mnc (C05.Model.d_nclosest ds)) in *.
  destruct (route_link choose (d_rest d) grid nst Hch Hlen ltac:(apply Hg) (grid_ok_len _ _ Hg) Hn)
    as (ivs & ids & _ & _ & Hroute & _ & Hids & _).
  exists ids. split; [exact Hroute|].
  destruct (best_table_rows argsort ds (d_rest d) w HB) as (table & Ht & Htl & _).
  destruct (take_at_total (r_templates (d_rest d)) ids) as [ts E1].
  { destruct Hids as [_ Hi]. rewrite Hlen. exact Hi. }
  destruct (take_at_total table ts) as [chs E2].
  { apply Forall_forall. intros t Ht'. pose proof (take_at_In _ _ _ _ E1 Ht') as Hin.
    rewrite Forall_forall in Htm. specialize (Htm t Hin). unfold zlen. rewrite Htl. exact Htm. }
  destruct (take_at_total (r_samples (d_rest d)) ids) as [ss E3]; [apply Hids|].
  destruct (code_spikes ds (d_rest d) w table HB Ht ids ts chs ss E1 E2 E3) as [Hm Hc].
  destruct (save_subset_files_explicit d data ids w Hr Hd Hids ltac:(lia))
    as (c' & spikes & f & _ & _ & _ & _ & Hm' & _ & Hf & Hsub).
  rewrite Hm in Hm'. injection Hm' as <-.
  unfold save_subset_code. rewrite Hd. cbv zeta. fold w. replace (w <=? 0) with false by lia.
  unfold route_ids in Hroute. rewrite Hroute, Ht, E1, E2, E3. rewrite <- Hck, Hf.
  cbn [C10.Model.step]. unfold save_subset. rewrite Hd, Hm, Hf, Hc. reflexivity.
Qed.
End Code.

(* ================================================================================================================ *)
(* 5. correspondence clause 30, judged with C17's checker, is exact                                                 *)

Lemma map_hi_iter_base y r : map hi (iter_base (y :: r)) = r.
Proof.
  revert y. induction r as [|z r IH]; intros y; [reflexivity|].
  change (iter_base (y :: z :: r)) with (mkiv y z :: iter_base (z :: r)).
  rewrite map_cons. cbn [hi]. now rewrite IH.
Qed.

Lemma grid_of_iter_base grid : 2 <= zlen grid -> grid_of (iter_base grid) = grid.
Proof.
  destruct grid as [|x [|y r]]; unfold zlen; cbn [List.length]; try lia. intros _.
  change (iter_base (x :: y :: r)) with (mkiv x y :: iter_base (y :: r)).
  unfold grid_of. cbn [lo map hi]. now rewrite map_hi_iter_base.
Qed.

Theorem clause30_exact r grid nst ids :
  r_chunks r = iter_base grid -> 2 <= zlen grid -> sortedZ grid -> zlen (r_templates r) = zlen (r_samples r) ->
  (select_c17_b r nst ids = true <->
   exists choose, C17.Proofs3.Choose_OK choose /\ route_ids choose r grid nst = Some ids).
Proof.
  intros Hck Hl Hg Hlen.
  destruct (C17.Props.C17_select_exact (r_samples r) (r_templates r) grid 20 (Some nst)
              (C17.Model.unique (r_templates r)) true None) as (ivs & Hk & Hex); try assumption; try lia.
  { unfold zlen in Hlen. lia. }
  unfold select_c17_b. rewrite Hck, grid_of_iter_base by exact Hl.
  change C17.Model.n_chunks_kept_route with 20. rewrite Hk, C17.Proofs4.unflat_flat_id.
  unfold route_ids, C17.Model.route. change C17.Model.n_chunks_kept_route with 20. split.
  - intros H. apply andb_true_iff in H as [Hn H]. apply C17.Proofs3.select_spec_b_sound in H.
    apply Hex in H as (choose & Hch & Hcall). exists choose. split; [exact Hch|].
    replace (nst <=? 0) with false by lia. exact Hcall.
  - intros (choose & Hch & Hroute). destruct (nst <=? 0) eqn:En; [discriminate|].
    apply andb_true_iff. split; [lia|]. apply C17.Proofs4.select_spec_b_complete. apply Hex.
    exists choose. split; [exact Hch|exact Hroute].
Qed.

(* ================================================================================================================ *)
(* 6. non-vacuity: a recording of 22 samples x 4 channels read in 22 chunks (so that every second chunk is kept),
   three dense templates of which the last has no spike, five spikes                                                *)
Definition lk_ds : C05.Model.dataset :=
  C05.Model.mkds [ [[0; 1; 0]; [0; 3; 0]; [0; 9; 0]; [0; 2; 0]];
                   [[0; 8; 0]; [0; 5; 0]; [0; 1; 0]; [0; 1; 0]];
                   [[0; 1; 0]; [0; 1; 0]; [0; 2; 0]; [0; 7; 0]] ] None
       [[1; 0; 0; 0]; [0; 1; 0; 0]; [0; 0; 1; 0]; [0; 0; 0; 1]] 1
       [C05.Model.mkpos 0 0; C05.Model.mkpos 0 23; C05.Model.mkpos 0 52; C05.Model.mkpos 0 87] [0; 0; 0; 0] 2
       (C05.Model.mkthr 0 1).
Definition lk_data : list (list Z) := map (fun t => [t * 10; t * 10 + 1; t * 10 + 2; t * 10 + 3]) (zrange 0 22).
Definition lk_grid : list Z := zrange 0 23.
Definition lk_rest : rest :=
  mkrest [0; 1; 0; 1; 0] [1; 2; 4; 5; 8] [] (Some lk_data) (iter_base lk_grid) 2 [[2; 1]; [0; 1]; [3; 2]].
Definition lk_d0 : disk := mkdisk [0; 1; 0; 1; 0] [] None lk_rest.

(* the channel oracle is C05's answer; the route keeps the spikes at even samples (chunks 0, 2, 4, ...) and one per
   template; the code's table has an all -1 row for template 2 although get_template(2) lists channels 3, 2 *)
Example link_ex_instances :
  best_of Base.NpSort.stable_argsort lk_ds = Some (r_best lk_rest) /\
  route_ids C17.Model.choose0 lk_rest lk_grid 1 = Some [1; 2] /\
  route_ids C17.Model.choose0 lk_rest lk_grid 5 = Some [1; 2; 4] /\
  best_table Base.NpSort.stable_argsort lk_ds (r_templates lk_rest) 3 = Some [[2; 1; -1]; [0; 1; -1]; [-1; -1; -1]] /\
  width (Some 3) 2 = 3 /\ width None 2 = 2 /\ width (Some 0) 2 = 2 /\ width (Some 1) 2 = 2.
Proof. vm_compute. repeat split; reflexivity. Qed.

(* the composed code = C10's step on those ids, and what a fresh model loads: rows = C05's channels then -1, windows =
   raw samples on those channels (rows t-1, t), zero under -1 *)
Example link_ex_code :
  save_subset_code C17.Model.choose0 Base.NpSort.stable_argsort lk_d0 lk_grid lk_ds 1 (Some 3) =
    Some (C10.Model.step CText lk_d0 (SaveSubset [1; 2] 3)) /\
  option_map v_store (view (C10.Model.run CText lk_d0 [SaveSubset [1; 2] 3; CloseModel; Reload])) =
    Some (Some (mkstore [1; 2] [[0; 1; -1]; [2; 1; -1]]
                        [[[10; 11; 0]; [20; 21; 0]]; [[32; 31; 0]; [42; 41; 0]]])) /\
  select_c17_b lk_rest 1 [1; 2] = true /\ select_c17_b lk_rest 1 [1; 4] = true /\
  select_c17_b lk_rest 1 [0; 1] = false /\ select_c17_b lk_rest 1 [2; 1] = false /\
  select_c17_b lk_rest 1 [1; 2; 4] = false /\ select_c17_b lk_rest 5 [1; 2; 4] = true.
Proof. vm_compute. repeat split; reflexivity. Qed.

(* the premises of link_windows / code_defined hold on this dataset *)
Lemma forallb_Forall {X} (p : X -> bool) (P : X -> Prop) l :
  (forall x, p x = true -> P x) -> forallb p l = true -> Forall P l.
Proof. intros H Hb. apply Forall_forall. intros x Hx. apply H. rewrite forallb_forall in Hb. now apply Hb. Qed.

Example link_ex_premises :
  Source_ok lk_rest lk_data 4 lk_grid lk_ds /\ Best_linked Base.NpSort.stable_argsort lk_ds lk_rest /\
  C17.Proofs3.Choose_OK C17.Model.choose0 /\ C05.Spec.Argsort_ok Base.NpSort.stable_argsort.
Proof.
  split; [|split; [vm_compute; reflexivity|split; [exact C17.Proofs3.choose0_ok|exact C05.Proofs3.stable_argsort_ok]]].
  unfold Source_ok. change (zlen lk_data) with 22.
  split; [reflexivity|]. split.
  { apply (forallb_Forall (fun row => zlen row =? 4)); [intros; lia|vm_compute; reflexivity]. }
  split; [lia|]. split; [cbn; lia|]. split.
  { split; [eexists; reflexivity|]. split; [apply sortedZb_spec; vm_compute; reflexivity|reflexivity]. }
  split; [reflexivity|]. split; [apply sortedZb_spec; vm_compute; reflexivity|]. split.
  { apply (forallb_Forall (fun s => (0 <=? s) && (s <? 22))); [intros; lia|vm_compute; reflexivity]. }
  split; [reflexivity|]. split.
  { apply (forallb_Forall (fun t => (0 <=? t) && (t <? 3))); [intros x Hx; change (Z.of_nat (n_templates lk_ds)) with 3; lia|vm_compute; reflexivity]. }
  split; [reflexivity|]. split; [cbn; lia|reflexivity].
Qed.
