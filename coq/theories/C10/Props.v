(* C10/Props.v -- the property theorems, and nothing else.  Each is closed by [exact] of a lemma of
   Proofs*.v and followed by Print Assumptions.

   [run classify d0 ops] is the dataset directory after the history [ops] started on [d0];
   [view d] is what a freshly loaded TemplateModel shows of directory [d] (None = the constructor
   raises).  [classify] says how csv/_try_make_number read back the text of a saved string; the
   theorems hold for EVERY such oracle, the reading "non-numeric, non-empty strings" is the
   hypothesis [value_ok]. *)
From Coq Require Import ZArith List Lia Bool String Ascii Sorted.
From PV Require Import Base.Tok Base.NpSearch Base.NpList C16.Model C16.Spec C03.Model C03.Spec
                       C10.Model C10.Spec C10.Proofs.
Import ListNotations.
Local Open Scope Z_scope.

(* ---------------------------------------------------------------------------------------------
   Last write wins, spike clusters.  Whatever surrounds it in the history, the spike-cluster file
   holds the vector of the LAST save_spike_clusters (the initial one when there is none), and a
   fresh model shows exactly that vector when it is loadable (right length, ids in [0, 2^31)). *)
Theorem C10_last_write_wins_clusters :
  forall (classify : string -> cell) (d0 : disk) (pre post : list op) (v : list Z),
  Forall (fun o => op_clusters o = None) post ->
  clusters_ok v (d_rest d0) ->
  exists l, view (run classify d0 (pre ++ SaveClusters v :: post)) = Some l /\ v_clusters l = v.
Proof. exact last_write_clusters. Qed.
Print Assumptions C10_last_write_wins_clusters.

Theorem C10_initial_clusters_kept :
  forall (classify : string -> cell) (d0 : disk) (ops : list op),
  Forall (fun o => op_clusters o = None) ops ->
  clusters_ok (d_clusters d0) (d_rest d0) ->
  exists l, view (run classify d0 ops) = Some l /\ v_clusters l = d_clusters d0.
Proof. exact initial_clusters. Qed.
Print Assumptions C10_initial_clusters_kept.

(* ---------------------------------------------------------------------------------------------
   Frame.  No history changes the spike templates, samples and times a fresh model shows, nor
   anything else of the immutable part (raw data, chunking, template channels). *)
Theorem C10_frame :
  forall (classify : string -> cell) (d0 : disk) (ops : list op),
  d_rest (run classify d0 ops) = d_rest d0 /\
  forall l, view (run classify d0 ops) = Some l ->
    v_templates l = r_templates (d_rest d0) /\ v_samples l = r_samples (d_rest d0) /\
    v_times l = r_times (d_rest d0).
Proof. exact frame. Qed.
Print Assumptions C10_frame.

(* close and reload write nothing: a history and the same history without them leave the same
   directory *)
Theorem C10_close_reload_neutral :
  forall (classify : string -> cell) (d0 : disk) (ops : list op),
  run classify d0 (filter writes ops) = run classify d0 ops.
Proof. exact run_filter_writes. Qed.
Print Assumptions C10_close_reload_neutral.

(* ---------------------------------------------------------------------------------------------
   Tolerance.  Whether loading fails depends on the spike-cluster vector only (wrong length, or a
   negative id when the clusters differ from the templates): no metadata file, whatever its content
   -- unreadable, empty, ragged, without cluster_id column -- and no subset store can make it fail. *)
Theorem C10_tolerant :
  forall (classify : string -> cell) (d0 : disk) (ops : list op),
  view (run classify d0 ops) = None <->
  clusters_bad (hist_clusters d0 ops) (d_rest d0).
Proof. exact tolerant. Qed.
Print Assumptions C10_tolerant.

(* ---- non-vacuity ---- *)
Definition ex_rest : rest :=
  mkrest [0; 1; 1] [1; 2; 4] [TNum 1 0; TNum 1 1; TNum 1 2]
         (Some [[1; 2]; [11; 12]; [21; 22]; [31; 32]; [41; 42]; [51; 52]]) [mkiv 0 4; mkiv 4 6] 2 [[0; 1]; [1]].
Definition ex_d0 : disk := mkdisk [0; 1; 1] [] None ex_rest.
Example C10_ex_clusters :
  option_map v_clusters
    (view (run CText ex_d0 [SaveClusters [5; 5; 5]; Reload; SaveMeta "g" [(0, Some (VInt 1))];
                            SaveClusters [2; 0; 2]; CloseModel; WriteForeign (mkname "x" Tsv) FRaise; Reload]))
  = Some [2; 0; 2].
Proof. vm_compute. reflexivity. Qed.
Example C10_ex_tolerant_fails :
  view (run CText ex_d0 [SaveClusters [2; 0]]) = None /\ view (run CText ex_d0 [SaveClusters [2; -1; 0]]) = None.
Proof. vm_compute. split; reflexivity. Qed.
