(* C10/Props.v -- the property theorems, and nothing else.  Each is closed by [exact] of a lemma of
   Proofs*.v and followed by Print Assumptions.

   [run classify d0 ops] is the dataset directory after the history [ops] started on [d0];
   [view d] is what a freshly loaded TemplateModel shows of directory [d] (None = the constructor
   raises).  [classify] says how csv/_try_make_number read back the text of a saved string; the
   theorems hold for EVERY such oracle, the reading "non-numeric, non-empty strings" is the
   hypothesis [value_ok]. *)
From Coq Require Import ZArith List Lia Bool String Ascii Sorted Permutation.
From PV Require Import Base.Tok Base.NpSearch Base.NpList C16.Model C16.Spec C03.Model C03.Spec C03.Proofs2
                       C10.Model C10.Spec C10.Proofs C10.Proofs2 C10.Proofs3 C10.Proofs4 C10.Proofs5.
Import ListNotations.
Local Open Scope Z_scope.

(* ---------------------------------------------------------------------------------------------
   Last write wins, spike clusters.  Whatever surrounds it in the history, the spike-cluster file
   holds the vector of the LAST save_spike_clusters (the initial one when there is none), and a
   fresh model shows exactly that vector when it is loadable (right length, ids in [0, 2^31)). *)
Theorem C10_last_write_wins_clusters :
  forall (classify : string -> cell) (d0 : disk) (pre post : list op) (v : list Z),
  Forall (fun o => op_clusters o = None) post ->
  clusters_ok v (d_rest d0) ->
  exists l, view (run classify d0 (pre ++ SaveClusters v :: post)) = Some l /\ v_clusters l = v.
Proof. exact last_write_clusters. Qed.
Print Assumptions C10_last_write_wins_clusters.

Theorem C10_initial_clusters_kept :
  forall (classify : string -> cell) (d0 : disk) (ops : list op),
  Forall (fun o => op_clusters o = None) ops ->
  clusters_ok (d_clusters d0) (d_rest d0) ->
  exists l, view (run classify d0 ops) = Some l /\ v_clusters l = d_clusters d0.
Proof. exact initial_clusters. Qed.
Print Assumptions C10_initial_clusters_kept.

(* an undo: saving again, after any history (other saves included), the assignments the directory
   started with restores them -- the model has no "unchanged since load, do not rewrite" shortcut
   (seeded change C10-m1: such a shortcut compared with the load-time snapshot of the INSTANCE) *)
Theorem C10_undo_restores :
  forall (classify : string -> cell) (d0 : disk) (pre post : list op),
  Forall (fun o => op_clusters o = None) post ->
  clusters_ok (d_clusters d0) (d_rest d0) ->
  exists l, view (run classify d0 (pre ++ SaveClusters (d_clusters d0) :: post)) = Some l /\
            v_clusters l = d_clusters d0.
Proof. intros. apply last_write_clusters; assumption. Qed.
Print Assumptions C10_undo_restores.

(* ---------------------------------------------------------------------------------------------
   Frame.  No history changes the spike templates, samples and times a fresh model shows, nor
   anything else of the immutable part (raw data, chunking, template channels). *)
Theorem C10_frame :
  forall (classify : string -> cell) (d0 : disk) (ops : list op),
  d_rest (run classify d0 ops) = d_rest d0 /\
  forall l, view (run classify d0 ops) = Some l ->
    v_templates l = r_templates (d_rest d0) /\ v_samples l = r_samples (d_rest d0) /\
    v_times l = r_times (d_rest d0).
Proof. exact frame. Qed.
Print Assumptions C10_frame.

(* close and reload write nothing: a history and the same history without them leave the same
   directory *)
Theorem C10_close_reload_neutral :
  forall (classify : string -> cell) (d0 : disk) (ops : list op),
  run classify d0 (filter writes ops) = run classify d0 ops.
Proof. exact run_filter_writes. Qed.
Print Assumptions C10_close_reload_neutral.

(* ---------------------------------------------------------------------------------------------
   Tolerance.  Whether loading fails depends on the spike-cluster vector only (wrong length, or a
   negative id when the clusters differ from the templates): no metadata file, whatever its content
   -- unreadable, empty, ragged, without cluster_id column -- and no subset store can make it fail. *)
Theorem C10_tolerant :
  forall (classify : string -> cell) (d0 : disk) (ops : list op),
  view (run classify d0 ops) = None <->
  clusters_bad (hist_clusters d0 ops) (d_rest d0).
Proof. exact tolerant. Qed.
Print Assumptions C10_tolerant.

(* ---------------------------------------------------------------------------------------------
   The disk after a history, file by file: the content of a metadata file is that of the LAST
   operation that wrote it (save_metadata(f, .) writes cluster_<f>.tsv, a foreign write writes its
   own name), else what the directory held initially; file names stay pairwise distinct. *)
Theorem C10_disk_last_write :
  forall (classify : string -> cell) (d0 : disk) (ops : list op) (n : fname),
  dget fname_eqb n (d_files (run classify d0 ops)) = hist_file classify d0 ops n /\
  d_clusters (run classify d0 ops) = hist_clusters d0 ops.
Proof. intros. split; [apply run_files | apply run_clusters]. Qed.
Print Assumptions C10_disk_last_write.

(* "the last operation that ..." ([last_some]) means what it says: the answer of an element after
   which no element answers *)
Theorem C10_last_meaning : forall (X Y : Type) (f : X -> option Y) (l : list X) (y : Y),
  last_some f l = Some y <->
  exists pre x post, l = pre ++ x :: post /\ f x = Some y /\ Forall (fun z => f z = None) post.
Proof. exact @last_some_char. Qed.
Print Assumptions C10_last_meaning.

(* ---------------------------------------------------------------------------------------------
   The first sentence of the statement in one theorem, on the history functions the correspondence
   evaluates.  For EVERY history: if the vector of the last save_spike_clusters (the initial one when
   there is none) is loadable, a fresh model loads and shows exactly it, and for every field f whose
   file cluster_<f>.tsv was last written by save_metadata(f, m) ([hist_saved]) it shows, for every
   key, exactly [saved_get m] -- under the reading spelled out below ([others_silent] etc.). *)
Theorem C10_last_write_wins :
  forall (classify : string -> cell) (d0 : disk) (ops : list op),
  NoDup (map fst (d_files d0)) ->
  clusters_ok (hist_clusters d0 ops) (d_rest d0) ->
  exists l, view (run classify d0 ops) = Some l /\
    v_clusters l = hist_clusters d0 ops /\
    forall f m, hist_saved ops f = Some m ->
      f <> "cluster_id"%string -> excluded (meta_name f) = false -> NoDup (map fst m) ->
      others_silent (d_files (run classify d0 ops)) (meta_name f) f ->
      forall k, meta_get (v_meta l) f k = saved_get classify m k.
Proof. exact last_write_wins. Qed.
Print Assumptions C10_last_write_wins.

(* ---------------------------------------------------------------------------------------------
   Last write wins, metadata.  History: anything, then save_metadata(f, m), then anything that does
   not write cluster_<f>.tsv again.  Reading: f is not "cluster_id", cluster_<f>.tsv is not the
   excluded cluster_info.tsv, m is a dict (distinct keys), and no OTHER visible file of the final
   directory gives values to f ([others_silent]; glob order is then irrelevant -- whatever the order
   of [d_files]).  Then a fresh model shows, for every key k,
       metadata[f][k] = saved_get m k
   i.e. for an integer cluster id c: the value m[c] as csv/_try_make_number read it back when m[c]
   is not None and its text is not empty, and nothing otherwise -- nothing for ids absent from m
   even if an EARLIER save of f had them (replaced, not merged), nothing for non-integer keys. *)
Theorem C10_last_write_wins_meta :
  forall (classify : string -> cell) (d0 : disk) (pre post : list op) (f : string)
         (m : list (Z * option value)) (k : value) (l : loaded),
  NoDup (map fst (d_files d0)) -> f <> "cluster_id"%string -> excluded (meta_name f) = false ->
  NoDup (map fst m) ->
  Forall (fun o => op_writes classify (meta_name f) o = None) post ->
  let d := run classify d0 (pre ++ SaveMeta f m :: post) in
  others_silent (d_files d) (meta_name f) f ->
  view d = Some l ->
  meta_get (v_meta l) f k = saved_get classify m k.
Proof. exact last_write_meta. Qed.
Print Assumptions C10_last_write_wins_meta.

(* ... and under the reading of the statement (integers, floats, strings that are not numeric and
   not empty) the value read back is the value saved *)
Theorem C10_saved_value_shown :
  forall (classify : string -> cell) (m : list (Z * option value)) (c : Z) (v : value),
  dget Z.eqb c m = Some (Some v) -> value_ok classify v -> saved_get classify m (VInt c) = Some v.
Proof. intros classify m c v H Hok. cbn [saved_get]. rewrite H. now apply shown_ok. Qed.
Print Assumptions C10_saved_value_shown.

(* the written file itself: as read by load_metadata it defines exactly the field f, with the
   saved mapping (None dropped); in particular it never defines another field *)
Theorem C10_meta_file_reading :
  forall (classify : string -> cell) (f : string) (m : list (Z * option value)) (g : string) (k : value),
  f <> "cluster_id"%string -> NoDup (map fst m) ->
  file_get (meta_file classify f m) g k = if String.eqb g f then saved_get classify m k else None.
Proof. exact meta_file_get. Qed.
Print Assumptions C10_meta_file_reading.

(* ---------------------------------------------------------------------------------------------
   "... next to metadata found in other TSV/CSV files."  A file written by a foreign write (or
   present initially) and not written again shows, for every field f that no other visible file
   gives values to, the declarative reading of its table: the value of the last row that has both a
   cluster id equal to k and a non-empty cell under f ([file_get]; nothing for unreadable files). *)
Theorem C10_foreign_fields :
  forall (classify : string -> cell) (d0 : disk) (pre post : list op) (n : fname) (c : mfile)
         (f : string) (k : value) (l : loaded),
  NoDup (map fst (d_files d0)) -> excluded n = false ->
  Forall (fun o => op_writes classify n o = None) post ->
  let d := run classify d0 (pre ++ WriteForeign n c :: post) in
  others_silent (d_files d) n f ->
  view d = Some l ->
  meta_get (v_meta l) f k = file_get c f k.
Proof. exact foreign_fields. Qed.
Print Assumptions C10_foreign_fields.

Theorem C10_initial_fields :
  forall (classify : string -> cell) (d0 : disk) (ops : list op) (n : fname) (c : mfile)
         (f : string) (k : value) (l : loaded),
  NoDup (map fst (d_files d0)) -> excluded n = false ->
  dget fname_eqb n (d_files d0) = Some c ->
  Forall (fun o => op_writes classify n o = None) ops ->
  let d := run classify d0 ops in
  others_silent (d_files d) n f ->
  view d = Some l ->
  meta_get (v_meta l) f k = file_get c f k.
Proof. exact initial_fields. Qed.
Print Assumptions C10_initial_fields.

(* nothing comes from nowhere: a field to which no visible file gives a value is not shown; files
   whose reading raises and cluster_info.* are silent for every field *)
Theorem C10_no_field_from_nowhere :
  forall (d : disk) (f : string) (k : value) (l : loaded),
  (forall n c, In (n, c) (d_files d) -> silent f (n, c)) -> view d = Some l ->
  meta_get (v_meta l) f k = None.
Proof. exact no_field_from_nowhere. Qed.
Print Assumptions C10_no_field_from_nowhere.

Theorem C10_unreadable_and_info_silent :
  forall (n : fname) (e : ext) (c : mfile) (f : string),
  silent f (n, FRaise) /\ silent f (mkname "cluster_info" e, c).
Proof. intros. split; [apply raise_silent | apply info_silent]. Qed.
Print Assumptions C10_unreadable_and_info_silent.

(* glob order: the order in which the directory lists its files cannot matter when every field has
   one source ([one_source]: one visible file that alone may give it values, or none) ... *)
Theorem C10_glob_order_irrelevant :
  forall (files files' : list (fname * mfile)) (f : string) (k : value),
  Permutation files files' -> NoDup (map fst files) -> one_source files f ->
  meta_get (load_all_metadata files) f k = meta_get (load_all_metadata files') f k.
Proof. exact glob_order_irrelevant. Qed.
Print Assumptions C10_glob_order_irrelevant.

(* ... and it does matter otherwise (why the reading excludes a field defined by two files) *)
Theorem C10_two_sources_order_matters :
  exists (files files' : list (fname * mfile)) (f : string) (k : value),
    Permutation files files' /\ NoDup (map fst files) /\
    meta_get (load_all_metadata files) f k <> meta_get (load_all_metadata files') f k.
Proof.
  exists [(mkname "a" Tsv, FTable ["cluster_id"; "g"]%string [[CInt 0; CInt 1]]);
          (mkname "b" Tsv, FTable ["cluster_id"; "g"]%string [[CInt 0; CInt 2]])],
         [(mkname "b" Tsv, FTable ["cluster_id"; "g"]%string [[CInt 0; CInt 2]]);
          (mkname "a" Tsv, FTable ["cluster_id"; "g"]%string [[CInt 0; CInt 1]])], "g"%string, (VInt 0).
  split; [apply perm_swap|]. split.
  - constructor; [cbn; intros [H|[]]; discriminate|]. constructor; [intros []|constructor].
  - vm_compute. discriminate.
Qed.
Print Assumptions C10_two_sources_order_matters.

(* the boolean test by which the correspondence checks "at most one visible file defines f" is exact *)
Theorem C10_defines_checker : forall (c : mfile) (f : string), defines_b c f = true <-> Defines c f.
Proof. exact defines_b_spec. Qed.
Print Assumptions C10_defines_checker.

(* the dictionaries of read_tsv / load_metadata compute the declarative reading of a table *)
Theorem C10_table_reading :
  forall (header : list string) (rows : list (list cell)) (f : string) (k : value),
  meta_get (load_table header rows) f k = table_get header rows f k.
Proof. exact load_table_get. Qed.
Print Assumptions C10_table_reading.

(* the reading is needed: a field saved as "info" lands in cluster_info.tsv, which is never loaded *)
Theorem C10_info_field_not_shown :
  exists d0 m, clusters_ok (d_clusters d0) (d_rest d0) /\
    option_map (fun l => meta_get (v_meta l) "info" (VInt 0))
               (view (run CText d0 [SaveMeta "info" m])) = Some None /\
    saved_get CText m (VInt 0) = Some (VStr "x").
Proof.
  exists (mkdisk [0; 1] [] None (mkrest [0; 1] [1; 2] [] None [] 2 [[0]; [0]])), [(0, Some (VStr "x"))].
  split; [split; [reflexivity | repeat constructor; lia]|]. split; vm_compute; reflexivity.
Qed.
Print Assumptions C10_info_field_not_shown.

(* ---------------------------------------------------------------------------------------------
   Subset store.  History: anything, save_spikes_subset_waveforms selecting the spikes [ids]
   (increasing ids, as SpikeSelector returns them) with channel-table width w, then anything but a
   new extraction.  On a well-formed dataset with raw data ([rest_ok]: rectangular recording,
   chunks tiling it, sorted spike samples inside it, template channels inside the channel range)
   the store a fresh model loads is [expected_store]: the ids, the rows chan_row(w, best channels of
   the spike's template), and for each spike the raw zero-padded window on that row
   (C03.Spec.window) -- the file written chunk by chunk loads (C03_export) and is those windows. *)
Theorem C10_subset :
  forall (classify : string -> cell) (d0 : disk) (pre post : list op) (data : list (list Z))
         (ids : list Z) (w : Z) (l : loaded),
  rest_ok (d_rest d0) -> r_raw (d_rest d0) = Some data -> ids_ok (d_rest d0) ids -> 0 <= w ->
  Forall (fun o => op_subset o = None) post ->
  view (run classify d0 (pre ++ SaveSubset ids w :: post)) = Some l ->
  exists st, expected_store (d_rest d0) data ids w = Some st /\ v_store l = Some st.
Proof. exact subset_after_history. Qed.
Print Assumptions C10_subset.

(* what the expected store contains, cell by cell and without default values: entry j belongs to
   spike ids[j], its channel row is that of the spike's template, its waveform satisfies C03's
   Window_Spec (raw sample inside the recording on a real channel, zero outside / on -1) *)
Theorem C10_subset_meaning :
  forall (r : rest) (data : list (list Z)) (c : Z) (ids : list Z) (w : Z) (st : store (A := Z)),
  rect c data -> 1 <= c -> 0 <= r_nsw r ->
  Forall (fun best => Forall (fun ch => 0 <= ch < c) best) (r_best r) ->
  expected_store r data ids w = Some st ->
  st_ids st = ids /\ List.length (st_ch st) = List.length ids /\ List.length (st_w st) = List.length ids /\
  forall j i, nth_error ids j = Some i ->
    exists sp wv, subset_spike r w i = Some sp /\ nth_error (st_ch st) j = Some (sp_ch sp) /\
                  nth_error (st_w st) j = Some wv /\
                  Window_Spec 0 data (sp_s sp) (r_nsw r) (sp_ch sp) wv.
Proof. exact expected_store_meaning. Qed.
Print Assumptions C10_subset_meaning.

(* look-ups through the reloaded store (get_waveforms answered from it): for every queried id of the
   selection (any order, repetitions allowed) and every non-empty channel query, get_spike_waveforms
   returns C03's [lookup_window] of the spike the id refers to -- by C03's store theorem ... *)
Theorem C10_subset_lookup :
  forall (classify : string -> cell) (d0 : disk) (pre post : list op) (data : list (list Z))
         (ids : list Z) (w : Z) (l : loaded) (q_ids q_ch : list Z),
  rest_ok (d_rest d0) -> r_raw (d_rest d0) = Some data -> ids_ok (d_rest d0) ids -> 0 <= w ->
  Forall (fun o => op_subset o = None) post ->
  view (run classify d0 (pre ++ SaveSubset ids w :: post)) = Some l ->
  Forall (fun x => In x ids) q_ids -> q_ch <> [] -> Forall (fun ch => -1 <= ch) q_ch ->
  exists st spikes sps,
    v_store l = Some st /\ mapM (subset_spike (d_rest d0) w) ids = Some spikes /\
    Forall2 (refers ids spikes) q_ids sps /\
    get_spike_waveforms 0 q_ids q_ch st (r_nsw (d_rest d0)) =
    Some (map (fun sp => lookup_window 0 idZ data (r_nsw (d_rest d0)) sp q_ch) sps).
Proof. exact subset_lookup. Qed.
Print Assumptions C10_subset_lookup.

(* ... which, when the queried channels other than -1 are pairwise distinct, is the raw window on the
   channels stored for the spike and zero on the others: "subset-store waveforms equal to those read
   from the raw data" (what correspondence clause 27 judges) *)
Theorem C10_subset_lookup_raw_window :
  forall (classify : string -> cell) (d0 : disk) (pre post : list op) (data : list (list Z))
         (ids : list Z) (w : Z) (l : loaded) (q_ids q_ch : list Z),
  rest_ok (d_rest d0) -> r_raw (d_rest d0) = Some data -> ids_ok (d_rest d0) ids -> 0 <= w ->
  Forall (fun o => op_subset o = None) post ->
  view (run classify d0 (pre ++ SaveSubset ids w :: post)) = Some l ->
  Forall (fun x => In x ids) q_ids -> q_ch <> [] -> Forall (fun ch => -1 <= ch) q_ch -> distinct_real q_ch ->
  exists st spikes sps,
    v_store l = Some st /\ mapM (subset_spike (d_rest d0) w) ids = Some spikes /\
    Forall2 (refers ids spikes) q_ids sps /\
    get_spike_waveforms 0 q_ids q_ch st (r_nsw (d_rest d0)) =
    Some (map (fun sp => masked_window 0 idZ data (r_nsw (d_rest d0)) sp q_ch) sps).
Proof. exact subset_lookup_masked. Qed.
Print Assumptions C10_subset_lookup_raw_window.

(* without a raw data file nothing is extracted and the store files stay as they were *)
Theorem C10_subset_needs_raw :
  forall (classify : string -> cell) (d0 : disk) (ops : list op),
  r_raw (d_rest d0) = None -> d_subset (run classify d0 ops) = d_subset d0.
Proof. exact subset_needs_raw. Qed.
Print Assumptions C10_subset_needs_raw.

(* ---- non-vacuity ---- *)
Local Open Scope string_scope.
Local Open Scope Z_scope.
Definition ex_rest : rest :=
  mkrest [0; 1; 1] [1; 2; 4] [TNum 1 0; TNum 1 1; TNum 1 2]
         (Some [[1; 2]; [11; 12]; [21; 22]; [31; 32]; [41; 42]; [51; 52]]) [mkiv 0 4; mkiv 4 6] 2 [[0; 1]; [1]].
Definition ex_d0 : disk := mkdisk [0; 1; 1] [] None ex_rest.
Example C10_ex_clusters :
  option_map v_clusters
    (view (run CText ex_d0 [SaveClusters [5; 5; 5]; Reload; SaveMeta "g" [(0, Some (VInt 1))];
                            SaveClusters [2; 0; 2]; CloseModel; WriteForeign (mkname "x" Tsv) FRaise; Reload]))
  = Some [2; 0; 2].
Proof. vm_compute. reflexivity. Qed.
Example C10_ex_tolerant_fails :
  view (run CText ex_d0 [SaveClusters [2; 0]]) = None /\ view (run CText ex_d0 [SaveClusters [2; -1; 0]]) = None.
Proof. vm_compute. split; reflexivity. Qed.

(* overwrite, not merge; None and '' dropped; a foreign file next to it; cluster_info ignored *)
Definition ex_hist : list op :=
  [SaveMeta "group" [(0, Some (VStr "good")); (1, Some (VStr "mua")); (2, None)];
   WriteForeign (mkname "labels" Csv) (FTable ["cluster_id"; "ks"] [[CInt 3; CText "a"]; [CInt 3; CText "later"]; [CText ""; CText "lost"]]);
   WriteForeign (mkname "cluster_info" Tsv) (FTable ["cluster_id"; "group"] [[CInt 0; CText "zzz"]]);
   WriteForeign (mkname "junk" Tsv) FRaise;
   Reload;
   SaveMeta "group" [(1, Some (VStr "noise")); (4, Some (VFloat (TNum 5 (-1)))); (5, Some (VStr ""))]].
Example C10_ex_meta :
  option_map (fun l => (meta_get (v_meta l) "group" (VInt 0), meta_get (v_meta l) "group" (VInt 1),
                        meta_get (v_meta l) "group" (VInt 4), meta_get (v_meta l) "group" (VInt 5),
                        meta_get (v_meta l) "ks" (VInt 3)))
             (view (run CText ex_d0 ex_hist))
  = Some (None, Some (VStr "noise"), Some (VFloat (TNum 5 (-1))), None, Some (VStr "later")).
Proof. vm_compute. reflexivity. Qed.
(* the premises of C10_last_write_wins_meta hold on this history: the other visible files do not
   define "group" *)
Example C10_ex_meta_premises :
  forallb (fun nf => excluded (fst nf) || fname_eqb (fst nf) (meta_name "group") || negb (defines_b (snd nf) "group"))
          (d_files (run CText ex_d0 ex_hist)) = true.
Proof. vm_compute. reflexivity. Qed.
(* subset: spikes 0 and 2 (samples 1 and 4) of ex_d0, width 3; the window of spike 0 overflows the start *)
Example C10_ex_subset :
  option_map v_store (view (run CText ex_d0 [SaveSubset [0; 2] 3; SaveClusters [4; 4; 4]; Reload]))
  = Some (Some (mkstore [0; 2] [[0; 1; -1]; [1; -1; -1]]
                        [[[1; 2; 0]; [11; 12; 0]]; [[32; 0; 0]; [42; 0; 0]]])).
Proof. vm_compute. reflexivity. Qed.
Example C10_ex_subset_premises :
  tiles_b 6 (r_chunks ex_rest) = true /\ sortedZb (r_samples ex_rest) = true.
Proof. vm_compute. split; reflexivity. Qed.

(* a look-up through the reloaded store: spike 2 on channels [0; 1] (channel 0 is not stored for it) *)
Example C10_ex_lookup :
  match view (run CText ex_d0 [SaveSubset [0; 2] 3; Reload]) with
  | Some l => match v_store l with
              | Some st => get_spike_waveforms 0 [2] [0; 1] st 2
              | None => None
              end
  | None => None
  end = Some [[[0; 32]; [0; 42]]].
Proof. vm_compute. reflexivity. Qed.

(* the undo history of the seeded change C10-m1, and the same after a reload *)
Example C10_ex_undo :
  option_map v_clusters
    (view (run CText ex_d0 [SaveClusters [5; 5; 5]; SaveClusters [0; 1; 1]; CloseModel; Reload])) = Some [0; 1; 1] /\
  option_map v_clusters
    (view (run CText ex_d0 [SaveClusters [5; 5; 5]; Reload; SaveClusters [7; 7; 7]; SaveClusters [5; 5; 5]; Reload])) = Some [5; 5; 5].
Proof. vm_compute. split; reflexivity. Qed.

(* a store of exactly one spike (what the loader squeezed before the repair on fix-c10b) and of no spike:
   loaded with their spike axis, and a look-up through the one-spike store *)
Example C10_ex_one_spike_store :
  option_map v_store (view (run CText ex_d0 [SaveSubset [0; 2] 3; Reload; SaveSubset [1] 3; CloseModel; Reload]))
  = Some (Some (mkstore [1] [[1; -1; -1]] [[[12; 0; 0]; [22; 0; 0]]])) /\
  option_map v_store (view (run CText ex_d0 [SaveSubset [0; 2] 3; SaveSubset [] 3; Reload]))
  = Some (Some (mkstore [] [] [])) /\
  match view (run CText ex_d0 [SaveSubset [1] 3; Reload]) with
  | Some l => match v_store l with Some st => get_spike_waveforms 0 [1] [0; 1] st 2 | None => None end
  | None => None
  end = Some [[[0; 12]; [0; 22]]].
Proof. vm_compute. repeat split; reflexivity. Qed.

(* =============================================================================================
   Stage 4: links (Link.v).  The two things C10_subset* take as given are instantiated with the
   proved models of the neighbouring properties and the theorems are composed:
     selected ids     = PV.C17.Model.route (SpikeSelector, n_chunks_kept = 20, subset_chunks=True, every
                        template that has spikes, max_n_spikes_per_template), for EVERY oracle [choose]
                        standing for np.random.choice that is admissible in C17's sense (Choose_OK);
     r_best           = C05's get_template(t).channel_ids for t in range(n_templates) ([Best_linked]:
                        best_of argsort ds = Some (r_best r)), for EVERY oracle [argsort] standing for
                        np.argsort that returns a sorting permutation (C05's Argsort_ok);
     r_chunks         = iter_base of the one array traces.chunk_bounds that C17 thins out and C03's
                        export iterates over (C16).
   Vocabulary (Link.v): [route_ids choose r grid nst] = C17's route on the spike samples / templates
   of [r]; [Route_Spec] = the conclusion of C17_route (strictly increasing; every id an eligible spike:
   exists, in a kept chunk; per template all eligible spikes or exactly nst); [Padded w chans row] =
   row has w entries, entry k is chans[k] where it exists and -1 otherwise (order kept, cut at w);
   [best_table] / [template_n_channels] = the table the code builds (an all -1 row for a template
   without spikes); [width mnc ncl] = max(max_n_channels or ncl, ncl); [Source_ok] = loaded state of a
   dataset with raw data and dense templates (rectangular recording of c channels, chunk bounds from 0
   to n_samples, sorted spike samples inside it, templates in range, one position per channel,
   n_closest_channels >= 1); [save_subset_code] = save_spikes_subset_waveforms written line by line
   over C17.route, C05.get_template and C03.export (it reads neither r_best nor r_chunks). *)
From PV Require Import C10.LinkSpec C10.Link.
From PV Require C17.Model C17.Spec C17.Proofs3 C05.Model C05.Spec.

(* 1. selection: the ids a fresh model finds in the store satisfy C17's statement -- for every admissible
   np.random.choice -- the kept chunks are chunks of the exported chunk list, and "an increasing in-range
   selection" (ids_ok, a hypothesis of C10_subset) is a consequence, not an assumption *)
Theorem C10_link_selection :
  forall (classify : string -> cell) (choose : nat -> list Z -> Z -> list Z) (d0 : disk)
         (data : list (list Z)) (grid : list Z) (nst : Z),
  C17.Proofs3.Choose_OK choose ->
  rest_ok (d_rest d0) -> r_raw (d_rest d0) = Some data ->
  r_chunks (d_rest d0) = iter_base grid -> sortedZ grid -> 1 <= zlen grid -> 1 <= nst ->
  exists ivs ids,
    C17.Model.chunks_kept grid 20 = Some (C17.Spec.flat ivs) /\
    C17.Spec.Kept_Stride grid 20 (C17.Model.stride (zlen grid - 1) 20) ivs /\
    (forall v, In v ivs -> In (mkiv (C17.Model.iv_a v) (C17.Model.iv_b v)) (r_chunks (d_rest d0))) /\
    route_ids choose (d_rest d0) grid nst = Some ids /\
    Route_Spec (r_samples (d_rest d0)) (r_templates (d_rest d0)) ivs nst ids /\
    forall pre post w l, 0 <= w -> Forall (fun o => op_subset o = None) post ->
      view (run classify d0 (pre ++ SaveSubset ids w :: post)%list) = Some l ->
      exists st, v_store l = Some st /\ st_ids st = ids.
Proof. exact link_selection. Qed.
Print Assumptions C10_link_selection.

(* 2. channel rows: row j of the reloaded channel table is the row of the code's table
   (best_channels[spike_templates[ids[j]], :]) = C05's listed channels of the spike's template in C05's
   order, cut to w entries and padded with -1; with dense storage and w >= n_closest_channels >= 1 nothing
   is ever cut (C05: distinct channels among n_closest nearest ones), the row is the whole list followed by
   -1s, and the list is what C05_dense_channels says *)
Theorem C10_link_channels :
  forall (classify : string -> cell) (argsort : list Z -> list nat) (d0 : disk) (pre post : list op)
         (data : list (list Z)) (ds : C05.Model.dataset) (ids : list Z) (w : Z) (l : loaded),
  C05.Spec.Argsort_ok argsort -> Best_linked argsort ds (d_rest d0) ->
  rest_ok (d_rest d0) -> r_raw (d_rest d0) = Some data -> ids_ok (d_rest d0) ids -> 0 <= w ->
  Forall (fun o => op_subset o = None) post ->
  view (run classify d0 (pre ++ SaveSubset ids w :: post)%list) = Some l ->
  exists st table,
    v_store l = Some st /\ st_ids st = ids /\ List.length (st_ch st) = List.length ids /\
    best_table argsort ds (r_templates (d_rest d0)) w = Some table /\
    forall j i, nth_error ids j = Some i ->
      exists t rec row,
        nth_error (r_templates (d_rest d0)) (Z.to_nat i) = Some t /\ 0 <= t /\
        C05.Model.get_template argsort ds (C05.Model.default_request (Z.to_nat t)) = Some rec /\
        nth_error (st_ch st) j = Some row /\
        nth_error table (Z.to_nat t) = Some row /\
        Padded w (map Z.of_nat (C05.Model.t_channels rec)) row /\
        (C05.Model.d_cols ds = None -> 1 <= C05.Model.d_nclosest ds <= w ->
           row = (map Z.of_nat (C05.Model.t_channels rec) ++
                  repeat (-1) (Z.to_nat w - List.length (C05.Model.t_channels rec)))%list /\
           NoDup (C05.Model.t_channels rec) /\
           exists T b, C05.Spec.Full_template ds (C05.Model.default_request (Z.to_nat t)) T /\ C05.Spec.Peak T b /\
                       C05.Spec.Dense_channels (C05.Model.d_pos ds) (C05.Model.d_shanks ds) (C05.Model.d_nclosest ds)
                                               (C05.Model.d_thr ds) T b (C05.Model.t_channels rec)).
Proof. exact link_channels. Qed.
Print Assumptions C10_link_channels.

(* the code's table, row by row: chan_row of C05's list for a template that has spikes, all -1 for one that
   has none (`template_id not in self.template_ids`) -- whatever get_template would list for it *)
Theorem C10_link_table :
  forall (argsort : list Z -> list nat) (ds : C05.Model.dataset) (r : rest) (nc : Z),
  Best_linked argsort ds r ->
  exists table, best_table argsort ds (r_templates r) nc = Some table /\ List.length table = n_templates ds /\
    forall t row, nth_error table t = Some row ->
      if memZ (Z.of_nat t) (r_templates r)
      then exists best, nth_error (r_best r) t = Some best /\ row = chan_row nc best
      else row = repeat (-1) (Z.to_nat nc).
Proof. exact best_table_rows. Qed.
Print Assumptions C10_link_table.

(* 3. one closed statement from the raw data, the spike vectors and the template arrays / geometry to the
   reloaded store: save_spikes_subset_waveforms(nst, mnc), then anything but a new extraction, then a fresh
   load.  The store holds C17's selection; for each selected spike, its template's C05 channels followed by
   -1s, and the raw zero-padded window on that row (C03's Window_Spec: raw sample inside the recording on a
   real channel, zero outside it and on -1).  No oracle is left but np.random.choice and np.argsort. *)
Theorem C10_link_windows :
  forall (classify : string -> cell) (choose : nat -> list Z -> Z -> list Z) (argsort : list Z -> list nat)
         (d0 : disk) (data : list (list Z)) (c : Z) (grid : list Z) (ds : C05.Model.dataset) (nst : Z)
         (mnc : option Z),
  C17.Proofs3.Choose_OK choose -> C05.Spec.Argsort_ok argsort ->
  Source_ok (d_rest d0) data c grid ds -> Best_linked argsort ds (d_rest d0) -> 1 <= nst ->
  let r := d_rest d0 in
  let w := width mnc (C05.Model.d_nclosest ds) in
  exists ivs ids,
    C17.Model.chunks_kept grid 20 = Some (C17.Spec.flat ivs) /\
    C17.Spec.Kept_Stride grid 20 (C17.Model.stride (zlen grid - 1) 20) ivs /\
    route_ids choose r grid nst = Some ids /\
    Route_Spec (r_samples r) (r_templates r) ivs nst ids /\
    forall pre post l, Forall (fun o => op_subset o = None) post ->
      view (run classify d0 (pre ++ SaveSubset ids w :: post)%list) = Some l ->
      exists st, v_store l = Some st /\ st_ids st = ids /\
        List.length (st_ch st) = List.length ids /\ List.length (st_w st) = List.length ids /\
        forall j i, nth_error ids j = Some i ->
          exists s t rec wv,
            nth_error (r_samples r) (Z.to_nat i) = Some s /\
            nth_error (r_templates r) (Z.to_nat i) = Some t /\ 0 <= t /\
            C05.Model.get_template argsort ds (C05.Model.default_request (Z.to_nat t)) = Some rec /\
            let row := (map Z.of_nat (C05.Model.t_channels rec) ++
                        repeat (-1) (Z.to_nat w - List.length (C05.Model.t_channels rec)))%list in
            zlen row = w /\
            nth_error (st_ch st) j = Some row /\ nth_error (st_w st) j = Some wv /\
            Window_Spec 0 data s (r_nsw r) row wv /\
            NoDup (C05.Model.t_channels rec) /\
            exists T b, C05.Spec.Full_template ds (C05.Model.default_request (Z.to_nat t)) T /\ C05.Spec.Peak T b /\
                        C05.Spec.Dense_channels (C05.Model.d_pos ds) (C05.Model.d_shanks ds) (C05.Model.d_nclosest ds)
                                                (C05.Model.d_thr ds) T b (C05.Model.t_channels rec).
Proof. exact link_windows. Qed.
Print Assumptions C10_link_windows.

(* the operation of 1-3 is the code path: save_spikes_subset_waveforms composed line by line from C17's route,
   the _template_n_channels table over C05's get_template, NumPy fancy indexing and C03's export.  Whenever it
   returns it returns C10's step on the route's ids and the code's table width; in the regime of
   C10_link_windows it does return. *)
Theorem C10_link_code :
  forall (classify : string -> cell) (choose : nat -> list Z -> Z -> list Z) (argsort : list Z -> list nat)
         (d : disk) (grid : list Z) (ds : C05.Model.dataset) (nst : Z) (mnc : option Z),
  Best_linked argsort ds (d_rest d) -> r_chunks (d_rest d) = iter_base grid ->
  (forall d', save_subset_code choose argsort d grid ds nst mnc = Some d' ->
     match r_raw (d_rest d) with
     | None => d' = d
     | Some _ => exists ids, route_ids choose (d_rest d) grid nst = Some ids /\
                             d' = step classify d (SaveSubset ids (width mnc (C05.Model.d_nclosest ds)))
     end) /\
  (forall data c, C17.Proofs3.Choose_OK choose -> C05.Spec.Argsort_ok argsort ->
     Source_ok (d_rest d) data c grid ds -> 1 <= nst ->
     exists ids, route_ids choose (d_rest d) grid nst = Some ids /\
       save_subset_code choose argsort d grid ds nst mnc =
       Some (step classify d (SaveSubset ids (width mnc (C05.Model.d_nclosest ds))))).
Proof.
  intros classify choose argsort d grid ds nst mnc HB Hck. split.
  - intros d'. now apply code_is_step.
  - intros data c Hch AS HS Hn. now apply (code_defined classify choose argsort d data c).
Qed.
Print Assumptions C10_link_code.

(* correspondence clause 30, as judged since stage 4 (LinkSpec.select_c17_b: C17's checker select_spec_b on
   C17's kept chunks of the reader's chunk bounds), accepts an id array IF AND ONLY IF some admissible
   np.random.choice makes C17's route return it: the clause is as sharp as a relational judgement can be *)
Theorem C10_link_clause30 :
  forall (r : rest) (grid : list Z) (nst : Z) (ids : list Z),
  r_chunks r = iter_base grid -> 2 <= zlen grid -> sortedZ grid -> zlen (r_templates r) = zlen (r_samples r) ->
  (select_c17_b r nst ids = true <->
   exists choose, C17.Proofs3.Choose_OK choose /\ route_ids choose r grid nst = Some ids).
Proof. exact clause30_exact. Qed.
Print Assumptions C10_link_clause30.

(* non-vacuity (Link.v): 22 samples x 4 channels in 22 chunks (every second chunk kept), three dense templates
   (the last without spikes), five spikes *)
Example C10_ex_link_instances :
  best_of Base.NpSort.stable_argsort lk_ds = Some (r_best lk_rest) /\
  route_ids C17.Model.choose0 lk_rest lk_grid 1 = Some [1; 2] /\
  route_ids C17.Model.choose0 lk_rest lk_grid 5 = Some [1; 2; 4] /\
  best_table Base.NpSort.stable_argsort lk_ds (r_templates lk_rest) 3 = Some [[2; 1; -1]; [0; 1; -1]; [-1; -1; -1]] /\
  width (Some 3) 2 = 3 /\ width None 2 = 2 /\ width (Some 0) 2 = 2 /\ width (Some 1) 2 = 2.
Proof. exact link_ex_instances. Qed.
Example C10_ex_link_code :
  save_subset_code C17.Model.choose0 Base.NpSort.stable_argsort lk_d0 lk_grid lk_ds 1 (Some 3) =
    Some (step CText lk_d0 (SaveSubset [1; 2] 3)) /\
  option_map v_store (view (run CText lk_d0 [SaveSubset [1; 2] 3; CloseModel; Reload])) =
    Some (Some (mkstore [1; 2] [[0; 1; -1]; [2; 1; -1]]
                        [[[10; 11; 0]; [20; 21; 0]]; [[32; 31; 0]; [42; 41; 0]]])) /\
  select_c17_b lk_rest 1 [1; 2] = true /\ select_c17_b lk_rest 1 [1; 4] = true /\
  select_c17_b lk_rest 1 [0; 1] = false /\ select_c17_b lk_rest 1 [2; 1] = false /\
  select_c17_b lk_rest 1 [1; 2; 4] = false /\ select_c17_b lk_rest 5 [1; 2; 4] = true.
Proof. exact link_ex_code. Qed.
Example C10_ex_link_premises :
  Source_ok lk_rest lk_data 4 lk_grid lk_ds /\ Best_linked Base.NpSort.stable_argsort lk_ds lk_rest /\
  C17.Proofs3.Choose_OK C17.Model.choose0 /\ C05.Spec.Argsort_ok Base.NpSort.stable_argsort.
Proof. exact link_ex_premises. Qed.
