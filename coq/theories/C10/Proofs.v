(* C10/Proofs.v -- part 1: dictionaries, the history reading of the disk (last write wins per file,
   per cluster vector, per subset store), frame, tolerance. *)
From Coq Require Import ZArith List Lia Bool String Ascii.
From PV Require Import Base.Tok Base.NpSearch Base.NpList C16.Model C16.Spec C03.Model C03.Spec C10.Model C10.Spec.
Import ListNotations.
Local Open Scope Z_scope.

(* ---------------- equality tests ---------------- *)
Lemma ext_eqb_eq a b : ext_eqb a b = true <-> a = b.
Proof. destruct a, b; cbn; split; congruence. Qed.

Lemma fname_eqb_eq a b : fname_eqb a b = true <-> a = b.
Proof.
  destruct a as [s e], b as [s' e']. unfold fname_eqb; cbn [stem fext].
  rewrite andb_true_iff, String.eqb_eq, ext_eqb_eq. split.
  - intros [-> ->]. reflexivity.
  - intros H; injection H as -> ->. split; reflexivity.
Qed.

Lemma value_eqb_eq a b : value_eqb a b = true <-> a = b.
Proof.
  destruct a, b; cbn [value_eqb]; try (split; discriminate).
  - rewrite Z.eqb_eq. split; [intros ->; reflexivity | intros H; injection H; auto].
  - rewrite tok_eqb_eq. split; [intros ->; reflexivity | intros H; injection H; auto].
  - rewrite String.eqb_eq. split; [intros ->; reflexivity | intros H; injection H; auto].
Qed.

Lemma NoDup_snoc {X} (l : list X) x : NoDup l -> ~ In x l -> NoDup (l ++ [x]).
Proof.
  induction l as [|y r IH]; cbn [app]; intros Hnd Hn.
  - constructor; [intros []|constructor].
  - apply NoDup_cons_iff in Hnd as [H1 H2]. constructor.
    + rewrite in_app_iff. cbn [In]. intros [H|[H|[]]]; [tauto|]. subst. apply Hn. now left.
    + apply IH; [exact H2|]. intros H. apply Hn. now right.
Qed.

(* ---------------- dictionaries ---------------- *)
Section DictLemmas.
Context {K V : Type}.
Variable keq : K -> K -> bool.
Hypothesis keq_eq : forall a b, keq a b = true <-> a = b.

Lemma keq_refl a : keq a a = true.
Proof. now apply keq_eq. Qed.

Lemma keq_neq a b : a <> b -> keq a b = false.
Proof. intros H. destruct (keq a b) eqn:E; [|reflexivity]. apply keq_eq in E. contradiction. Qed.

Lemma dget_dset (k k' : K) (v : V) d :
  dget keq k (dset keq k' v d) = if keq k k' then Some v else dget keq k d.
Proof.
  induction d as [|[k0 v0] r IH]; cbn [dset dget]; [reflexivity|].
  destruct (keq k' k0) eqn:E0; cbn [dget].
  - apply keq_eq in E0. subst k0. destruct (keq k k'); reflexivity.
  - rewrite IH. destruct (keq k k0) eqn:E1; [|reflexivity].
    destruct (keq k k') eqn:E2; [|reflexivity].
    apply keq_eq in E1, E2. subst. rewrite keq_refl in E0. discriminate.
Qed.

Lemma dset_keys (k : K) (v : V) d :
  map fst (dset keq k v d) = if existsb (keq k) (map fst d) then map fst d else map fst d ++ [k].
Proof.
  induction d as [|[k0 v0] r IH]; cbn [dset map fst existsb app]; [reflexivity|].
  destruct (keq k k0) eqn:E; cbn [orb map fst]; [reflexivity|].
  rewrite IH. destruct (existsb (keq k) (map fst r)); reflexivity.
Qed.

Lemma dset_NoDup (k : K) (v : V) d : NoDup (map fst d) -> NoDup (map fst (dset keq k v d)).
Proof.
  intros H. rewrite dset_keys. destruct (existsb (keq k) (map fst d)) eqn:E; [exact H|].
  apply NoDup_snoc; [exact H|].
  intros Hin. assert (existsb (keq k) (map fst d) = true); [|congruence].
  apply existsb_exists. exists k. split; [exact Hin | apply keq_refl].
Qed.

Lemma dget_In (k : K) (v : V) d : dget keq k d = Some v -> In (k, v) d.
Proof.
  induction d as [|[k0 v0] r IH]; cbn [dget]; [discriminate|].
  destruct (keq k k0) eqn:E.
  - apply keq_eq in E. subst. intros H; injection H as ->. now left.
  - intros H. right. now apply IH.
Qed.

Lemma In_dget (k : K) (v : V) d : NoDup (map fst d) -> In (k, v) d -> dget keq k d = Some v.
Proof.
  induction d as [|[k0 v0] r IH]; cbn [dget map fst]; [contradiction|].
  intros Hnd [H|H].
  - injection H as -> ->. now rewrite keq_refl.
  - apply NoDup_cons_iff in Hnd as [Hn Hnd]. destruct (keq k k0) eqn:E.
    + apply keq_eq in E. subst. exfalso. apply Hn. apply in_map_iff. exists (k0, v). split; auto.
    + now apply IH.
Qed.

Lemma dget_None_notin (k : K) (d : list (K * V)) : dget keq k d = None <-> ~ In k (map fst d).
Proof.
  induction d as [|[k0 v0] r IH]; cbn [dget map fst In]; [tauto|].
  destruct (keq k k0) eqn:E.
  - apply keq_eq in E. subst. split; [discriminate | intros H; exfalso; apply H; now left].
  - rewrite IH. split; [|tauto]. intros H [H1|H1]; [|tauto]. subst. rewrite keq_refl in E. discriminate.
Qed.
End DictLemmas.

(* ---------------- "the last operation that ..." ---------------- *)
Lemma last_some_app {X Y} (f : X -> option Y) a b :
  last_some f (a ++ b) = match last_some f b with Some y => Some y | None => last_some f a end.
Proof.
  induction a as [|x a IH]; cbn [app last_some].
  - destruct (last_some f b); reflexivity.
  - rewrite IH. destruct (last_some f b); reflexivity.
Qed.

Lemma last_some_none {X Y} (f : X -> option Y) l :
  last_some f l = None <-> Forall (fun z => f z = None) l.
Proof.
  induction l as [|x l IH]; cbn [last_some]; [split; [constructor | reflexivity]|].
  destruct (last_some f l) eqn:E.
  - split; [discriminate|]. intros H. inversion H; subst. apply IH in H3. discriminate.
  - split.
    + intros H. constructor; [exact H | now apply IH].
    + intros H. now inversion H.
Qed.

(* the declarative reading: y is the answer of an element after which no element answers *)
Lemma last_some_char {X Y} (f : X -> option Y) l y :
  last_some f l = Some y <->
  exists pre x post, l = pre ++ x :: post /\ f x = Some y /\ Forall (fun z => f z = None) post.
Proof.
  split.
  - induction l as [|x l IH]; cbn [last_some]; [discriminate|].
    destruct (last_some f l) eqn:E.
    + intros H. destruct (IH H) as (pre & x' & post & -> & Hx & Hp).
      exists (x :: pre), x', post. repeat split; auto.
    + intros H. exists [], x, l. repeat split; auto. now apply last_some_none.
  - intros (pre & x & post & -> & Hx & Hp). rewrite last_some_app. cbn [last_some].
    apply last_some_none in Hp. now rewrite Hp, Hx.
Qed.

(* ---------------- the disk after a history ---------------- *)
Section Run.
Variable classify : string -> cell.
Notation run := (run classify).
Notation step := (step classify).

Lemma run_snoc d ops o : run d (ops ++ [o]) = step (run d ops) o.
Proof. unfold Model.run. now rewrite fold_left_app. Qed.

Lemma save_subset_rest d ids w : d_rest (save_subset d ids w) = d_rest d.
Proof.
  unfold save_subset. destruct (r_raw (d_rest d)); [|reflexivity].
  destruct (mapM _ ids); [|reflexivity]. destruct (export _ _ _ _ _ _ _ _); reflexivity.
Qed.
Lemma save_subset_clusters d ids w : d_clusters (save_subset d ids w) = d_clusters d.
Proof.
  unfold save_subset. destruct (r_raw (d_rest d)); [|reflexivity].
  destruct (mapM _ ids); [|reflexivity]. destruct (export _ _ _ _ _ _ _ _); reflexivity.
Qed.
Lemma save_subset_files d ids w : d_files (save_subset d ids w) = d_files d.
Proof.
  unfold save_subset. destruct (r_raw (d_rest d)); [|reflexivity].
  destruct (mapM _ ids); [|reflexivity]. destruct (export _ _ _ _ _ _ _ _); reflexivity.
Qed.

Lemma step_rest d o : d_rest (step d o) = d_rest d.
Proof. destruct o; cbn [Model.step d_rest]; try reflexivity. apply save_subset_rest. Qed.

Lemma run_rest d ops : d_rest (run d ops) = d_rest d.
Proof.
  induction ops as [|o ops IH] using rev_ind; [reflexivity|]. now rewrite run_snoc, step_rest.
Qed.

(* clusters: the vector of the last save_spike_clusters, else the initial one *)
Lemma run_clusters d ops : d_clusters (run d ops) = hist_clusters d ops.
Proof.
  induction ops as [|o ops IH] using rev_ind; [reflexivity|].
  rewrite run_snoc. unfold hist_clusters. rewrite last_some_app. cbn [last_some].
  unfold hist_clusters in IH.
  destruct o; cbn [Model.step d_clusters op_clusters]; try exact IH.
  - reflexivity.
  - rewrite save_subset_clusters. exact IH.
Qed.

(* files: the content of the last write to that name, else the initial content *)
Lemma run_files d ops n : dget fname_eqb n (d_files (run d ops)) = hist_file classify d ops n.
Proof.
  induction ops as [|o ops IH] using rev_ind; [reflexivity|].
  rewrite run_snoc. unfold hist_file. rewrite last_some_app. cbn [last_some].
  unfold hist_file in IH.
  destruct o; cbn [Model.step d_files op_writes]; try exact IH.
  - rewrite (dget_dset _ fname_eqb_eq).
    destruct (fname_eqb n (meta_name f)) eqn:E.
    + apply fname_eqb_eq in E. subst n. rewrite (keq_refl _ fname_eqb_eq). reflexivity.
    + destruct (fname_eqb (meta_name f) n) eqn:E'; [|exact IH].
      apply fname_eqb_eq in E'. subst n. rewrite (keq_refl _ fname_eqb_eq) in E. discriminate.
  - rewrite (dget_dset _ fname_eqb_eq).
    destruct (fname_eqb n n0) eqn:E.
    + apply fname_eqb_eq in E. subst n0. rewrite (keq_refl _ fname_eqb_eq). reflexivity.
    + destruct (fname_eqb n0 n) eqn:E'; [|exact IH].
      apply fname_eqb_eq in E'. subst n0. rewrite (keq_refl _ fname_eqb_eq) in E. discriminate.
  - rewrite save_subset_files. exact IH.
Qed.

Lemma step_files_NoDup d o : NoDup (map fst (d_files d)) -> NoDup (map fst (d_files (step d o))).
Proof.
  destruct o; cbn [Model.step d_files]; auto.
  - apply (dset_NoDup _ fname_eqb_eq).
  - apply (dset_NoDup _ fname_eqb_eq).
  - now rewrite save_subset_files.
Qed.

Lemma run_files_NoDup d ops : NoDup (map fst (d_files d)) -> NoDup (map fst (d_files (run d ops))).
Proof.
  intros H. induction ops as [|o ops IH] using rev_ind; [exact H|].
  rewrite run_snoc. now apply step_files_NoDup.
Qed.

(* close and reload write nothing: dropping them from a history changes no file *)
Definition writes (o : op) : bool := match o with CloseModel | Reload => false | _ => true end.
Lemma run_filter_writes d ops : run d (filter writes ops) = run d ops.
Proof.
  revert d. induction ops as [|o ops IH]; intros d; [reflexivity|].
  cbn [filter]. destruct o; cbn [writes]; unfold Model.run in *; cbn [fold_left Model.step]; apply IH.
Qed.
End Run.

(* ---------------- loading: when it fails, and that files cannot make it fail ---------------- *)
Definition clusters_bad (cl : list Z) (r : rest) : Prop :=
  zlen cl <> zlen (r_samples r) \/
  (map to_i32 cl <> r_templates r /\ exists c, In c (map to_i32 cl) /\ c < 0).

Lemma zlist_eqb_eq a b : zlist_eqb a b = true <-> a = b.
Proof.
  revert b. induction a as [|x a IH]; intros [|y b]; cbn [zlist_eqb]; split; try discriminate; try reflexivity.
  - rewrite andb_true_iff, Z.eqb_eq, IH. intros [-> ->]. reflexivity.
  - intros H; injection H as -> ->. rewrite andb_true_iff, Z.eqb_eq, IH. split; reflexivity.
Qed.

Lemma zlen_map {X Y} (f : X -> Y) l : zlen (map f l) = zlen l.
Proof. unfold zlen. now rewrite map_length. Qed.

Lemma view_None_iff d : view d = None <-> clusters_bad (d_clusters d) (d_rest d).
Proof.
  unfold view, clusters_bad. rewrite zlen_map.
  destruct (zlen (d_clusters d) =? zlen (r_samples (d_rest d))) eqn:E1; cbn [negb].
  - apply Z.eqb_eq in E1.
    destruct (zlist_eqb (map to_i32 (d_clusters d)) (r_templates (d_rest d))) eqn:E2; cbn [negb andb].
    + apply zlist_eqb_eq in E2. split; [discriminate|]. intros [H|[H _]]; contradiction.
    + assert (Hne : map to_i32 (d_clusters d) <> r_templates (d_rest d)).
      { intros H. apply zlist_eqb_eq in H. congruence. }
      destruct (existsb (fun c => c <? 0) (map to_i32 (d_clusters d))) eqn:E3.
      * split; [|reflexivity]. intros _. right. split; [exact Hne|].
        apply existsb_exists in E3 as (c & Hc & Hlt). exists c. split; [exact Hc|lia].
      * split; [discriminate|]. intros [H|[_ (c & Hc & Hlt)]]; [contradiction|].
        assert (existsb (fun c => c <? 0) (map to_i32 (d_clusters d)) = true); [|congruence].
        apply existsb_exists. exists c. split; [exact Hc|lia].
  - apply Z.eqb_neq in E1. split; [|reflexivity]. intros _. now left.
Qed.

Lemma to_i32_id z : -2147483648 <= z < 2147483648 -> to_i32 z = z.
Proof. intros H. unfold to_i32. rewrite Z.mod_small by lia. lia. Qed.

Lemma map_to_i32_id l : Forall (fun z => 0 <= z < 2147483648) l -> map to_i32 l = l.
Proof.
  induction 1 as [|z l Hz _ IH]; [reflexivity|]. cbn [map]. rewrite IH, to_i32_id by lia. reflexivity.
Qed.

(* loadable clusters: right length, ids in [0, 2^31) *)
Definition clusters_ok (cl : list Z) (r : rest) : Prop :=
  zlen cl = zlen (r_samples r) /\ Forall (fun z => 0 <= z < 2147483648) cl.

Lemma view_ok d : clusters_ok (d_clusters d) (d_rest d) ->
  view d = Some (mkloaded (d_clusters d) (load_all_metadata (d_files d)) (r_templates (d_rest d))
                          (r_samples (d_rest d)) (r_times (d_rest d)) (load_store (d_subset d))).
Proof.
  intros [Hl Hr]. unfold view. rewrite (map_to_i32_id _ Hr).
  replace (zlen (d_clusters d) =? zlen (r_samples (d_rest d))) with true by (symmetry; now apply Z.eqb_eq).
  cbn [negb].
  replace (existsb (fun c => c <? 0) (d_clusters d)) with false.
  { rewrite andb_false_r. reflexivity. }
  symmetry. destruct (existsb _ (d_clusters d)) eqn:E; [|reflexivity].
  apply existsb_exists in E as (c & Hc & Hlt). rewrite Forall_forall in Hr. specialize (Hr c Hc). lia.
Qed.

(* ---------------- theorems of part 1 ---------------- *)
Section Part1.
Variable classify : string -> cell.
Notation run := (Model.run classify).

Lemma hist_clusters_last d0 pre v post :
  Forall (fun o => op_clusters o = None) post -> hist_clusters d0 (pre ++ SaveClusters v :: post) = v.
Proof.
  intros H. unfold hist_clusters.
  assert (last_some op_clusters (pre ++ SaveClusters v :: post) = Some v) as ->; [|reflexivity].
  apply last_some_char. exists pre, (SaveClusters v), post. repeat split; auto.
Qed.

Lemma hist_clusters_none d0 ops :
  Forall (fun o => op_clusters o = None) ops -> hist_clusters d0 ops = d_clusters d0.
Proof. intros H. unfold hist_clusters. apply last_some_none in H. now rewrite H. Qed.

Lemma last_write_clusters d0 pre post v :
  Forall (fun o => op_clusters o = None) post ->
  clusters_ok v (d_rest d0) ->
  exists l, view (run d0 (pre ++ SaveClusters v :: post)) = Some l /\ v_clusters l = v.
Proof.
  intros Hp Hok. set (d := run d0 (pre ++ SaveClusters v :: post)).
  assert (Hc : d_clusters d = v) by (unfold d; rewrite run_clusters; now apply hist_clusters_last).
  assert (Hr : d_rest d = d_rest d0) by apply run_rest.
  eexists. split; [apply view_ok; rewrite Hc, Hr; exact Hok|]. exact Hc.
Qed.

Lemma initial_clusters d0 ops :
  Forall (fun o => op_clusters o = None) ops ->
  clusters_ok (d_clusters d0) (d_rest d0) ->
  exists l, view (run d0 ops) = Some l /\ v_clusters l = d_clusters d0.
Proof.
  intros Hp Hok. set (d := run d0 ops).
  assert (Hc : d_clusters d = d_clusters d0) by (unfold d; rewrite run_clusters; now apply hist_clusters_none).
  assert (Hr : d_rest d = d_rest d0) by apply run_rest.
  eexists. split; [apply view_ok; rewrite Hc, Hr; exact Hok|]. exact Hc.
Qed.

Lemma frame d0 ops :
  d_rest (run d0 ops) = d_rest d0 /\
  forall l, view (run d0 ops) = Some l ->
    v_templates l = r_templates (d_rest d0) /\ v_samples l = r_samples (d_rest d0) /\
    v_times l = r_times (d_rest d0).
Proof.
  split; [apply run_rest|]. intros l. unfold view. rewrite run_rest.
  destruct (negb _); [discriminate|]. destruct (_ && _); [discriminate|].
  intros H; injection H as <-. cbn. auto.
Qed.

Lemma tolerant d0 ops :
  view (run d0 ops) = None <-> clusters_bad (hist_clusters d0 ops) (d_rest d0).
Proof. rewrite view_None_iff, run_clusters, run_rest. reflexivity. Qed.
End Part1.
