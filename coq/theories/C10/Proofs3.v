(* C10/Proofs3.v -- part 3: the file written by save_metadata reads back as the saved mapping with
   its None entries dropped; the metadata theorems on histories; the subset store. *)
From Coq Require Import ZArith List Lia Bool String Ascii Sorted.
From PV Require Import Base.Tok Base.NpSearch Base.NpList C16.Model C16.Spec C03.Model C03.Spec C03.Proofs
                       C10.Model C10.Spec C10.Proofs C10.Proofs2.
Import ListNotations.
Local Open Scope Z_scope.

Notation zget := (dget Z.eqb).

(* ---------------- sorted(data) keeps every look-up ---------------- *)
Lemma insert_kv_get c kv l :
  zget c (insert_kv kv l) = if c =? fst kv then Some (snd kv) else zget c l.
Proof.
  induction l as [|kv' r IH]; cbn [insert_kv dget].
  - destruct kv as [a b]. cbn [fst snd]. reflexivity.
  - destruct (fst kv <=? fst kv') eqn:E.
    + destruct kv as [a b]. cbn [dget fst snd]. reflexivity.
    + destruct kv' as [a' b']. cbn [dget fst snd] in *. rewrite IH.
      destruct (c =? fst kv) eqn:E1; [|reflexivity].
      destruct (c =? a') eqn:E2; [|reflexivity]. lia.
Qed.

Lemma sort_kv_get c l : zget c (sort_kv l) = zget c l.
Proof.
  induction l as [|[a b] l IH]; cbn [sort_kv fold_right]; [reflexivity|].
  fold (sort_kv l). rewrite insert_kv_get, IH. reflexivity.
Qed.

Lemma insert_kv_keys c kv l : In c (map fst (insert_kv kv l)) <-> c = fst kv \/ In c (map fst l).
Proof.
  induction l as [|kv' r IH]; cbn [insert_kv map In]; [intuition|].
  destruct (fst kv <=? fst kv'); cbn [map In]; [intuition|]. rewrite IH. intuition.
Qed.

Lemma insert_kv_NoDup kv l : NoDup (map fst l) -> ~ In (fst kv) (map fst l) -> NoDup (map fst (insert_kv kv l)).
Proof.
  induction l as [|kv' r IH]; cbn [insert_kv map]; intros Hnd Hn.
  - constructor; [intros []|constructor].
  - destruct (fst kv <=? fst kv'); cbn [map].
    + constructor; assumption.
    + apply NoDup_cons_iff in Hnd as [H1 H2]. constructor.
      * rewrite insert_kv_keys. intros [H|H]; [|contradiction]. apply Hn. left. congruence.
      * apply IH; [exact H2|]. intros H. apply Hn. now right.
Qed.

Lemma sort_kv_keys c l : In c (map fst (sort_kv l)) <-> In c (map fst l).
Proof.
  induction l as [|kv l IH]; cbn [sort_kv fold_right map In]; [tauto|].
  fold (sort_kv l). rewrite insert_kv_keys, IH. intuition.
Qed.

Lemma sort_kv_NoDup l : NoDup (map fst l) -> NoDup (map fst (sort_kv l)).
Proof.
  induction l as [|kv l IH]; cbn [sort_kv fold_right map]; intros H; [constructor|].
  fold (sort_kv l). apply NoDup_cons_iff in H as [H1 H2]. apply insert_kv_NoDup; [now apply IH|].
  now rewrite sort_kv_keys.
Qed.

(* ---------------- dropping the None entries ---------------- *)
Lemma clean_keys c m : In c (map fst (clean m)) -> In c (map fst m).
Proof.
  induction m as [|[a [v|]] m IH]; cbn [clean flat_map map fst snd app In]; [tauto| |].
  - fold (clean m). intros [H|H]; [now left | right; now apply IH].
  - fold (clean m). intros H. right. now apply IH.
Qed.

Lemma clean_NoDup m : NoDup (map fst m) -> NoDup (map fst (clean m)).
Proof.
  induction m as [|[a [v|]] m IH]; cbn [clean flat_map map fst snd app]; intros H; [constructor| |].
  - fold (clean m). apply NoDup_cons_iff in H as [H1 H2]. constructor; [|now apply IH].
    intros Hin. apply H1. now apply clean_keys.
  - fold (clean m). apply NoDup_cons_iff in H as [_ H2]. now apply IH.
Qed.

Lemma clean_get c m : NoDup (map fst m) ->
  zget c (clean m) = match zget c m with Some (Some v) => Some v | _ => None end.
Proof.
  induction m as [|[a [v|]] m IH]; cbn [clean flat_map map fst snd app dget]; intros H; [reflexivity| |].
  - fold (clean m). apply NoDup_cons_iff in H as [_ H2]. destruct (c =? a); [reflexivity | now apply IH].
  - fold (clean m). apply NoDup_cons_iff in H as [H1 H2]. destruct (c =? a) eqn:E; [|now apply IH].
    apply Z.eqb_eq in E. subst a. apply (dget_None_notin _ Zeqb_eq'). intros Hin. apply H1. now apply clean_keys.
Qed.

(* ---------------- one match per key ---------------- *)
Lemma last_some_by_key {Y} (F : value -> option Y) c (l : list (Z * value)) :
  NoDup (map fst l) ->
  last_some (fun kv => if c =? fst kv then F (snd kv) else None) l =
  match zget c l with Some v => F v | None => None end.
Proof.
  induction l as [|[a b] l IH]; cbn [last_some dget map fst snd]; intros H; [reflexivity|].
  apply NoDup_cons_iff in H as [H1 H2]. rewrite (IH H2).
  destruct (c =? a) eqn:E.
  - apply Z.eqb_eq in E. subst a.
    assert (zget c l = None) as -> by (apply (dget_None_notin _ Zeqb_eq'); exact H1). reflexivity.
  - destruct (zget c l) as [v|]; [|reflexivity]. destruct (F v); reflexivity.
Qed.

(* ---------------- the file of save_metadata, read back ---------------- *)
Section MetaFile.
Variable classify : string -> cell.
Notation CID := "cluster_id"%string.

Lemma saved_row_gives f c v g k : f <> CID -> g <> CID ->
  row_gives [CID; f] [CInt c; wcell classify v] g k =
  if String.eqb g f then
    match k with
    | VInt c' => if c' =? c then shown classify v else None
    | _ => None
    end
  else None.
Proof.
  intros Hf Hg. unfold row_gives, col_cell. cbn [combine last_some fst snd cell_empty negb].
  assert (Ef : String.eqb f CID = false) by now apply String.eqb_neq.
  rewrite Ef. cbn [andb]. rewrite String.eqb_refl. cbn [andb].
  destruct (String.eqb g f) eqn:Eg.
  - apply String.eqb_eq in Eg. subst g. rewrite String.eqb_refl. rewrite (String.eqb_sym CID f), Ef. cbn [andb].
    unfold shown. destruct (cell_empty (wcell classify v)); cbn [negb].
    + destruct k as [c'| |]; try reflexivity. destruct (c' =? c); reflexivity.
    + destruct k as [c'| |]; cbn [value_eqb try_make_number]; try reflexivity.
  - rewrite (String.eqb_sym f g), Eg. cbn [andb].
    replace (String.eqb CID g) with false by (symmetry; apply String.eqb_neq; congruence).
    reflexivity.
Qed.

Theorem meta_file_get f m g k : f <> CID -> NoDup (map fst m) ->
  file_get (meta_file classify f m) g k = if String.eqb g f then saved_get classify m k else None.
Proof.
  intros Hf Hnd. unfold meta_file. cbn [file_get]. unfold table_get.
  destruct (String.eqb g CID) eqn:Ec.
  - apply String.eqb_eq in Ec. subst g.
    replace (String.eqb CID f) with false; [reflexivity|]. symmetry. apply String.eqb_neq. congruence.
  - rewrite last_some_map.
    rewrite (last_some_ext _ (fun kv : Z * value =>
               if String.eqb g f then
                 match k with VInt c' => if c' =? fst kv then shown classify (snd kv) else None | _ => None end
               else None)).
    2:{ intros kv _. apply saved_row_gives; [exact Hf|]. now apply String.eqb_neq. }
    destruct (String.eqb g f).
    + destruct k as [c'| |]; cbn [saved_get].
      * rewrite (last_some_by_key (shown classify) c').
        2:{ apply sort_kv_NoDup. now apply clean_NoDup. }
        rewrite sort_kv_get, (clean_get _ _ Hnd). destruct (zget c' m) as [[v|]|]; reflexivity.
      * generalize (sort_kv (clean m)). induction l; cbn [last_some]; [reflexivity|now rewrite IHl].
      * generalize (sort_kv (clean m)). induction l; cbn [last_some]; [reflexivity|now rewrite IHl].
    + generalize (sort_kv (clean m)). induction l; cbn [last_some]; [reflexivity|now rewrite IHl].
Qed.

(* under the reading (non-numeric, non-empty strings) a saved value is shown as it was saved *)
Lemma shown_ok v : value_ok classify v -> shown classify v = Some v.
Proof.
  unfold shown. destruct v as [z|t|s]; cbn [wcell value_ok cell_empty try_make_number]; try reflexivity.
  intros [-> Hne]. cbn [cell_empty try_make_number]. destruct s; [congruence|reflexivity].
Qed.

(* ---------------- metadata on histories ---------------- *)
Notation run := (Model.run classify).

Lemma hist_file_last d0 pre o post n c :
  op_writes classify n o = Some c -> Forall (fun o' => op_writes classify n o' = None) post ->
  hist_file classify d0 (pre ++ o :: post) n = Some c.
Proof.
  intros Ho Hp. unfold hist_file.
  assert (last_some (op_writes classify n) (pre ++ o :: post) = Some c) as ->; [|reflexivity].
  apply last_some_char. exists pre, o, post. repeat split; auto.
Qed.

(* the metadata a fresh model shows for field f, when file n (holding c) is the only visible file
   that gives values to f *)
Lemma view_meta_of_file d n c f k l :
  NoDup (map fst (d_files d)) -> dget fname_eqb n (d_files d) = Some c -> excluded n = false ->
  others_silent (d_files d) n f -> view d = Some l ->
  meta_get (v_meta l) f k = file_get c f k.
Proof.
  intros Hnd Hg Ex Hs Hv. unfold view in Hv.
  destruct (negb _); [discriminate|]. destruct (_ && _); [discriminate|].
  injection Hv as <-. cbn [v_meta].
  apply (load_all_get _ n c); auto. now apply (dget_In _ fname_eqb_eq).
Qed.

Theorem last_write_meta d0 pre post f m k l :
  NoDup (map fst (d_files d0)) -> f <> CID -> excluded (meta_name f) = false -> NoDup (map fst m) ->
  Forall (fun o => op_writes classify (meta_name f) o = None) post ->
  let d := run d0 (pre ++ SaveMeta f m :: post) in
  others_silent (d_files d) (meta_name f) f ->
  view d = Some l ->
  meta_get (v_meta l) f k = saved_get classify m k.
Proof.
  intros Hnd Hf Ex Hm Hp d Hs Hv.
  rewrite (view_meta_of_file d (meta_name f) (meta_file classify f m) f k l); auto.
  - rewrite meta_file_get by assumption. now rewrite String.eqb_refl.
  - now apply run_files_NoDup.
  - unfold d. rewrite run_files. apply hist_file_last; [|exact Hp].
    cbn [op_writes]. now rewrite (keq_refl _ fname_eqb_eq).
Qed.

Theorem foreign_fields d0 pre post n c f k l :
  NoDup (map fst (d_files d0)) -> excluded n = false ->
  Forall (fun o => op_writes classify n o = None) post ->
  let d := run d0 (pre ++ WriteForeign n c :: post) in
  others_silent (d_files d) n f ->
  view d = Some l ->
  meta_get (v_meta l) f k = file_get c f k.
Proof.
  intros Hnd Ex Hp d Hs Hv.
  apply (view_meta_of_file d n c f k l); auto.
  - now apply run_files_NoDup.
  - unfold d. rewrite run_files. apply hist_file_last; [|exact Hp].
    cbn [op_writes]. now rewrite (keq_refl _ fname_eqb_eq).
Qed.

Theorem initial_fields d0 ops n c f k l :
  NoDup (map fst (d_files d0)) -> excluded n = false ->
  dget fname_eqb n (d_files d0) = Some c ->
  Forall (fun o => op_writes classify n o = None) ops ->
  let d := run d0 ops in
  others_silent (d_files d) n f ->
  view d = Some l ->
  meta_get (v_meta l) f k = file_get c f k.
Proof.
  intros Hnd Ex Hg Hp d Hs Hv.
  apply (view_meta_of_file d n c f k l); auto.
  - now apply run_files_NoDup.
  - unfold d. rewrite run_files. unfold hist_file. apply last_some_none in Hp. now rewrite Hp.
Qed.

Theorem no_field_from_nowhere d f k l :
  (forall n c, In (n, c) (d_files d) -> silent f (n, c)) -> view d = Some l -> meta_get (v_meta l) f k = None.
Proof.
  intros Hs Hv. unfold view in Hv.
  destruct (negb _); [discriminate|]. destruct (_ && _); [discriminate|].
  injection Hv as <-. cbn [v_meta]. now apply load_all_none.
Qed.

(* files that cannot be read, and cluster_info.*, are silent for every field *)
Lemma raise_silent n f : silent f (n, FRaise).
Proof. right. intros (k & v & H). cbn [snd file_get] in H. discriminate. Qed.
Lemma info_silent e c f : silent f (mkname "cluster_info" e, c).
Proof. left. reflexivity. Qed.
End MetaFile.

(* ---------------- glob order is irrelevant under the reading ---------------- *)
From Coq Require Import Permutation.

(* the reading, for one field: some visible file is the only one that may give values to f, or no
   file gives any *)
Definition one_source (files : list (fname * mfile)) (f : string) : Prop :=
  (exists n c, In (n, c) files /\ excluded n = false /\ others_silent files n f) \/
  (forall n c, In (n, c) files -> silent f (n, c)).

Theorem glob_order_irrelevant files files' f k :
  Permutation files files' -> NoDup (map fst files) -> one_source files f ->
  meta_get (load_all_metadata files) f k = meta_get (load_all_metadata files') f k.
Proof.
  intros Hp Hnd [(n & c & Hin & Ex & Hs)|Hs].
  - rewrite (load_all_get files n c f k Hnd Hin Ex Hs). symmetry.
    apply (load_all_get files' n c f k).
    + eapply Permutation_NoDup; [apply Permutation_map; exact Hp | exact Hnd].
    + eapply Permutation_in; eassumption.
    + exact Ex.
    + intros n' c' Hin' Hne. apply Hs; [|exact Hne]. eapply Permutation_in; [apply Permutation_sym; exact Hp|exact Hin'].
  - rewrite (load_all_none files f k Hs). symmetry. apply load_all_none.
    intros n c Hin. apply Hs. eapply Permutation_in; [apply Permutation_sym; exact Hp|exact Hin].
Qed.

(* ---------------- the checker of the reading, and the unified statement ---------------- *)
(* the boolean test used by the correspondence to check the reading is exact *)
Lemma defines_b_spec c f : defines_b c f = true <-> Defines c f.
Proof.
  unfold defines_b, Defines. split.
  - intros H. apply existsb_exists in H as (k & _ & Hk).
    destruct (file_get c f k) as [v|] eqn:E; [|discriminate]. now exists k, v.
  - intros (k & v & H). apply existsb_exists. exists k. split; [|now rewrite H].
    destruct c as [h rows|]; [|discriminate]. cbn [file_get file_keys] in *.
    unfold table_get in H. destruct (String.eqb f "cluster_id"); [discriminate|].
    apply last_some_char in H as (pre & row & post & -> & Hrow & _).
    unfold table_keys. apply in_flat_map. exists row. split; [apply in_or_app; right; now left|].
    unfold row_gives in Hrow. destruct (col_cell h row "cluster_id") as [ck|]; [|discriminate].
    destruct (col_cell h row f); [|discriminate].
    destruct (value_eqb k (try_make_number ck)) eqn:E; [|discriminate].
    apply value_eqb_eq in E. subst k. now left.
Qed.

Lemma append_inj p a b : String.append p a = String.append p b -> a = b.
Proof. induction p as [|c p IH]; cbn [String.append]; intros H; [exact H|]. injection H as H. now apply IH. Qed.

Lemma meta_name_inj f g : meta_name f = meta_name g -> f = g.
Proof. unfold meta_name. intros H. injection H as H. exact H. Qed.

Section Unified.
Variable classify : string -> cell.
Notation run := (Model.run classify).

Lemma op_saved_writes f o : op_saved f o = None -> op_writes classify (meta_name f) o = None.
Proof.
  destruct o; cbn [op_saved op_writes]; try reflexivity.
  - destruct (fname_eqb (meta_name f0) (meta_name f)); [discriminate|reflexivity].
  - destruct (fname_eqb n (meta_name f)); [discriminate|reflexivity].
Qed.

(* the whole first sentence of the statement in one theorem, on the history functions the
   correspondence evaluates: [hist_clusters] and [hist_saved] *)
Theorem last_write_wins d0 ops :
  NoDup (map fst (d_files d0)) ->
  clusters_ok (hist_clusters d0 ops) (d_rest d0) ->
  exists l, view (run d0 ops) = Some l /\
    v_clusters l = hist_clusters d0 ops /\
    forall f m, hist_saved ops f = Some m ->
      f <> "cluster_id"%string -> excluded (meta_name f) = false -> NoDup (map fst m) ->
      others_silent (d_files (run d0 ops)) (meta_name f) f ->
      forall k, meta_get (v_meta l) f k = saved_get classify m k.
Proof.
  intros Hnd Hok.
  assert (Hv : exists l, view (run d0 ops) = Some l /\ v_clusters l = hist_clusters d0 ops).
  { eexists. split; [apply view_ok; rewrite run_clusters, run_rest; exact Hok|]. cbn [v_clusters]. apply run_clusters. }
  destruct Hv as (l & Hv & Hc). exists l. split; [exact Hv|]. split; [exact Hc|].
  intros f m Hs Hf Ex Hm Hsil k. unfold hist_saved in Hs.
  destruct (last_some (op_saved f) ops) as [[m'|]|] eqn:E; try discriminate. injection Hs as ->.
  apply last_some_char in E as (pre & x & post & Hops & Hx & Hp).
  destruct x; cbn [op_saved] in Hx; try discriminate.
  - destruct (fname_eqb (meta_name f0) (meta_name f)) eqn:En; [|discriminate].
    apply fname_eqb_eq in En. apply meta_name_inj in En. subst f0. injection Hx as ->.
    subst ops. apply (last_write_meta classify d0 pre post f m k l); auto.
    eapply Forall_impl; [|exact Hp]. intros o. apply op_saved_writes.
  - destruct (fname_eqb n (meta_name f)); discriminate.
Qed.
End Unified.
