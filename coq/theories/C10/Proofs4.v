(* C10/Proofs4.v -- part 4: the subset store.  After save_spikes_subset_waveforms the three files hold
   the selected ids, the channel rows of their templates and -- by C03's export theorem -- a loadable
   array whose entries are the raw zero-padded windows; later operations other than a new extraction
   leave them alone. *)
From Coq Require Import ZArith List Lia Bool String Ascii Sorted.
From PV Require Import Base.Tok Base.PySlice Base.NpSearch Base.NpList C16.Model C16.Spec C03.Model C03.Spec C03.Proofs
                       C10.Model C10.Spec C10.Proofs.
Import ListNotations.
Local Open Scope Z_scope.

Lemma sorted_nth_mono l i j : sortedZ l -> (i <= j < List.length l)%nat -> nth i l 0 <= nth j l 0.
Proof.
  revert i j. induction l as [|y r IH]; intros i j Hs Hij; [cbn in Hij; lia|].
  destruct i as [|i].
  - pose proof (sorted_head_le y r (Z.of_nat j) Hs) as H. unfold nthZ, zlen in H.
    rewrite Nat2Z.id in H. change (nth 0 (y :: r) 0) with y. apply H. cbn [List.length] in *. lia.
  - destruct j as [|j]; [lia|]. cbn [nth]. apply IH; [now apply sorted_tail in Hs|]. cbn [List.length] in Hij. lia.
Qed.

Lemma sortedZ_map_mono (g : Z -> Z) ids :
  StronglySorted Z.lt ids ->
  (forall a b, In a ids -> In b ids -> a < b -> g a <= g b) ->
  sortedZ (map g ids).
Proof.
  induction ids as [|a ids IH]; intros Hs Hg; cbn [map]; [constructor|].
  inversion Hs as [|? ? Hs' Hall]; subst.
  destruct ids as [|b r]; cbn [map]; [constructor|].
  constructor.
  - apply Hg; [now left | right; now left |]. rewrite Forall_forall in Hall. apply Hall. now left.
  - apply IH; [exact Hs'|]. intros x y Hx Hy. apply Hg; now right.
Qed.

Lemma mapM_Some_each {X Y} (f : X -> option Y) l ys :
  mapM f l = Some ys -> List.length ys = List.length l /\
  forall i x, nth_error l i = Some x -> exists y, nth_error ys i = Some y /\ f x = Some y.
Proof.
  revert ys. induction l as [|x l IH]; intros ys H; cbn [mapM] in H.
  - injection H as <-. split; [reflexivity|]. intros [|i] x Hx; discriminate.
  - destruct (f x) as [y|] eqn:E; [|discriminate]. destruct (mapM f l) as [ys'|] eqn:E'; [|discriminate].
    injection H as <-. destruct (IH _ eq_refl) as [Hl Hn]. split; [cbn; now rewrite Hl|].
    intros [|i] x' Hx'; cbn [nth_error] in *.
    + injection Hx' as <-. exists y. split; [reflexivity|exact E].
    + now apply Hn.
Qed.

Lemma mapM_total {X Y} (f : X -> option Y) l :
  (forall x, In x l -> exists y, f x = Some y) -> exists ys, mapM f l = Some ys.
Proof.
  induction l as [|x l IH]; intros H; cbn [mapM]; [eexists; reflexivity|].
  destruct (H x (or_introl eq_refl)) as [y ->].
  destruct IH as [ys ->]; [intros; apply H; now right|]. eexists; reflexivity.
Qed.

Lemma mapM_In {X Y} (f : X -> option Y) l ys y :
  mapM f l = Some ys -> In y ys -> exists x, In x l /\ f x = Some y.
Proof.
  revert ys. induction l as [|x l IH]; intros ys H Hy; cbn [mapM] in H.
  - injection H as <-. destruct Hy.
  - destruct (f x) as [y0|] eqn:E; [|discriminate]. destruct (mapM f l) as [ys'|] eqn:E'; [|discriminate].
    injection H as <-. destruct Hy as [<-|Hy].
    + exists x. split; [now left|exact E].
    + destruct (IH _ eq_refl Hy) as (x' & Hx' & Hf). exists x'. split; [now right|exact Hf].
Qed.

Lemma mapM_map_fst {X Y W} (f : X -> option Y) (g : Y -> W) (h : X -> W) l ys :
  mapM f l = Some ys -> (forall x y, In x l -> f x = Some y -> g y = h x) -> map g ys = map h l.
Proof.
  revert ys. induction l as [|x l IH]; intros ys H Hg; cbn [mapM] in H.
  - injection H as <-. reflexivity.
  - destruct (f x) as [y0|] eqn:E; [|discriminate]. destruct (mapM f l) as [ys'|] eqn:E'; [|discriminate].
    injection H as <-. cbn [map]. rewrite (Hg x y0 (or_introl eq_refl) E).
    rewrite (IH _ eq_refl); [reflexivity|]. intros; eapply Hg; [now right|eassumption].
Qed.

Lemma firstn_In' {X} (n : nat) (l : list X) x : In x (firstn n l) -> In x l.
Proof.
  revert l. induction n as [|n IH]; intros [|y l]; cbn [firstn In]; try tauto.
  intros [H|H]; [now left | right; now apply IH].
Qed.

Lemma chan_row_length w best : 0 <= w -> zlen (chan_row w best) = w.
Proof.
  intros Hw. unfold chan_row, zlen. rewrite app_length, repeat_length.
  pose proof (firstn_le_length (Z.to_nat w) best). lia.
Qed.

Lemma chan_row_ok c w best : 1 <= c -> Forall (fun ch => 0 <= ch < c) best -> chans_ok c (chan_row w best).
Proof.
  intros Hc Hb. unfold chans_ok, chan_row. apply Forall_app. split.
  - apply Forall_forall. intros ch Hin. apply firstn_In' in Hin. rewrite Forall_forall in Hb. specialize (Hb ch Hin). lia.
  - apply Forall_forall. intros ch Hin. apply repeat_spec in Hin. lia.
Qed.

Lemma map_map_idZ (w : list (list Z)) : map (map idZ) w = w.
Proof.
  induction w as [|row w IH]; cbn [map]; [reflexivity|]. rewrite IH. f_equal.
  induction row as [|x row IHr]; cbn [map]; [reflexivity|]. now rewrite IHr.
Qed.

Section Subset.
Variable classify : string -> cell.
Notation run := (Model.run classify).
Notation step := (Model.step classify).

(* the selected spikes exist, and satisfy the premises of C03's export theorem *)
Lemma subset_spikes_ok r data c ids w :
  r_raw r = Some data -> rect c data -> 1 <= c -> sortedZ (r_samples r) ->
  Forall (fun s => 0 <= s < zlen data) (r_samples r) ->
  Forall (fun best => Forall (fun ch => 0 <= ch < c) best) (r_best r) ->
  zlen (r_templates r) = zlen (r_samples r) ->
  Forall (fun t => 0 <= t < zlen (r_best r)) (r_templates r) ->
  ids_ok r ids -> 0 <= w ->
  exists spikes, mapM (subset_spike r w) ids = Some spikes /\ spikes_ok (zlen data) c w spikes.
Proof.
  intros Hraw Hrect Hc Hsorted Hsamp Hbest Hlen Htempl [Hinc Hrange] Hw.
  assert (Heach : forall i, In i ids -> exists s t best,
            nth_error (r_samples r) (Z.to_nat i) = Some s /\ nth_error (r_templates r) (Z.to_nat i) = Some t /\
            0 <= t /\ nth_error (r_best r) (Z.to_nat t) = Some best /\
            subset_spike r w i = Some (mkspike s (chan_row w best)) /\ 0 <= i).
  { intros i Hi. rewrite Forall_forall in Hrange. specialize (Hrange i Hi). unfold zlen in *.
    destruct (nth_error (r_samples r) (Z.to_nat i)) as [s|] eqn:Es.
    2:{ apply nth_error_None in Es. lia. }
    destruct (nth_error (r_templates r) (Z.to_nat i)) as [t|] eqn:Et.
    2:{ apply nth_error_None in Et. lia. }
    assert (Ht : 0 <= t < Z.of_nat (List.length (r_best r))).
    { rewrite Forall_forall in Htempl. apply Htempl. eapply nth_error_In; eassumption. }
    destruct (nth_error (r_best r) (Z.to_nat t)) as [best|] eqn:Eb.
    2:{ apply nth_error_None in Eb. lia. }
    exists s, t, best. repeat split; auto; try lia.
    unfold subset_spike. replace (i <? 0) with false by (symmetry; apply Z.ltb_ge; lia).
    rewrite Es, Et. replace (t <? 0) with false by (symmetry; apply Z.ltb_ge; lia). now rewrite Eb. }
  destruct (mapM_total (subset_spike r w) ids) as [spikes Hm].
  { intros i Hi. destruct (Heach i Hi) as (s & t & best & _ & _ & _ & _ & H & _). eexists; exact H. }
  exists spikes. split; [exact Hm|]. split.
  - (* samples of increasing ids of a sorted vector are sorted *)
    rewrite (mapM_map_fst _ sp_s (fun i => nth (Z.to_nat i) (r_samples r) 0) _ _ Hm).
    + apply sortedZ_map_mono; [exact Hinc|]. intros a b Ha Hb Hab.
      rewrite Forall_forall in Hrange. pose proof (Hrange a Ha). pose proof (Hrange b Hb). unfold zlen in *.
      apply sorted_nth_mono; [exact Hsorted|]. lia.
    + intros i sp Hi Hsp. destruct (Heach i Hi) as (s & t & best & Es & _ & _ & _ & H & _).
      rewrite H in Hsp. injection Hsp as <-. cbn [sp_s]. symmetry. now apply nth_error_nth.
  - apply Forall_forall. intros sp Hsp. destruct (mapM_In _ _ _ _ Hm Hsp) as (i & Hi & Hf).
    destruct (Heach i Hi) as (s & t & best & Es & _ & _ & Eb & H & _). rewrite H in Hf. injection Hf as <-.
    cbn [sp_s sp_ch]. repeat split.
    + rewrite Forall_forall in Hsamp. apply Hsamp. eapply nth_error_In; eassumption.
    + rewrite Forall_forall in Hsamp. apply Hsamp. eapply nth_error_In; eassumption.
    + apply chan_row_ok; [exact Hc|]. rewrite Forall_forall in Hbest. apply Hbest. eapply nth_error_In; eassumption.
    + now apply chan_row_length.
Qed.

(* what save_spikes_subset_waveforms leaves on disk, and how it loads *)
Theorem save_subset_store d data ids w :
  rest_ok (d_rest d) -> r_raw (d_rest d) = Some data -> ids_ok (d_rest d) ids -> 0 <= w ->
  exists st, expected_store (d_rest d) data ids w = Some st /\
             load_store (d_subset (save_subset d ids w)) = Some st.
Proof.
  intros [Hraw [Hlen Htempl]] Hdata Hids Hw. rewrite Hdata in Hraw.
  destruct Hraw as (c & Hrect & Hc & Hn & Htiles & Hsorted & Hsamp & Hbest).
  destruct (subset_spikes_ok _ _ _ _ _ Hdata Hrect Hc Hsorted Hsamp Hbest Hlen Htempl Hids Hw)
    as (spikes & Hm & Hok).
  destruct (@export_load Z 0 idZ c data (r_nsw (d_rest d)) w (r_chunks (d_rest d)) spikes PyFloat
              Hrect Hc Hn Hw Hok Htiles) as (f & Hf & _ & _ & Hload).
  unfold expected_store, save_subset. rewrite Hdata, Hm, Hf. cbn [d_subset load_store sf_wave sf_ids sf_ch].
  rewrite Hload. eexists. split; [reflexivity|]. f_equal. f_equal.
  unfold scaled_windows, spike_window. apply map_ext. intros sp. apply map_map_idZ.
Qed.

Lemma step_subset_other d o : op_subset o = None -> d_subset (step d o) = d_subset d.
Proof. destruct o; cbn [op_subset Model.step d_subset]; try reflexivity. discriminate. Qed.

Lemma run_subset_other d ops : Forall (fun o => op_subset o = None) ops -> d_subset (run d ops) = d_subset d.
Proof.
  intros H. induction ops as [|o ops IH] using rev_ind; [reflexivity|].
  apply Forall_app in H as [H1 H2]. inversion H2; subst.
  rewrite run_snoc, step_subset_other by assumption. now apply IH.
Qed.

Lemma run_app d a b : run d (a ++ b) = run (run d a) b.
Proof. unfold Model.run. apply fold_left_app. Qed.

Theorem subset_after_history d0 pre post data ids w l :
  rest_ok (d_rest d0) -> r_raw (d_rest d0) = Some data -> ids_ok (d_rest d0) ids -> 0 <= w ->
  Forall (fun o => op_subset o = None) post ->
  view (run d0 (pre ++ SaveSubset ids w :: post)) = Some l ->
  exists st, expected_store (d_rest d0) data ids w = Some st /\ v_store l = Some st.
Proof.
  intros Hr Hd Hi Hw Hp Hv.
  assert (E : d_subset (run d0 (pre ++ SaveSubset ids w :: post)) = d_subset (save_subset (run d0 pre) ids w)).
  { rewrite run_app. change (SaveSubset ids w :: post) with ([SaveSubset ids w] ++ post).
    rewrite run_app. rewrite run_subset_other by exact Hp. reflexivity. }
  destruct (save_subset_store (run d0 pre) data ids w) as (st & He & Hl).
  - now rewrite run_rest.
  - now rewrite run_rest.
  - now rewrite run_rest.
  - exact Hw.
  - rewrite run_rest in He. exists st. split; [exact He|].
    unfold view in Hv. destruct (negb _); [discriminate|]. destruct (_ && _); [discriminate|].
    injection Hv as <-. cbn [v_store]. now rewrite E.
Qed.

(* without raw data nothing is extracted: the store files stay as they were *)
Theorem subset_needs_raw d0 ops :
  r_raw (d_rest d0) = None -> d_subset (run d0 ops) = d_subset d0.
Proof.
  intros Hr. induction ops as [|o ops IH] using rev_ind; [reflexivity|].
  rewrite run_snoc. destruct o; cbn [Model.step d_subset]; try exact IH.
  unfold save_subset. rewrite run_rest, Hr. exact IH.
Qed.

(* the entries of the expected store, cell by cell: C03's Window_Spec for every stored spike *)
Theorem expected_store_meaning r data c ids w st :
  rect c data -> 1 <= c -> 0 <= r_nsw r ->
  Forall (fun best => Forall (fun ch => 0 <= ch < c) best) (r_best r) ->
  expected_store r data ids w = Some st ->
  st_ids st = ids /\ List.length (st_ch st) = List.length ids /\ List.length (st_w st) = List.length ids /\
  forall j i, nth_error ids j = Some i ->
    exists sp wv, subset_spike r w i = Some sp /\ nth_error (st_ch st) j = Some (sp_ch sp) /\
                  nth_error (st_w st) j = Some wv /\
                  Window_Spec 0 data (sp_s sp) (r_nsw r) (sp_ch sp) wv.
Proof.
  intros Hrect Hc Hn Hbest He. unfold expected_store in He.
  destruct (mapM (subset_spike r w) ids) as [spikes|] eqn:Hm; [|discriminate]. injection He as <-.
  cbn [st_ids st_ch st_w]. destruct (mapM_Some_each _ _ _ Hm) as [Hl Hn'].
  split; [reflexivity|]. split; [now rewrite map_length|]. split; [now rewrite map_length|].
  intros j i Hj. destruct (Hn' j i Hj) as (sp & Hsp & Hf). exists sp, (window 0 data (sp_s sp) (r_nsw r) (sp_ch sp)).
  split; [exact Hf|]. split; [now rewrite nth_error_map, Hsp|]. split; [now rewrite nth_error_map, Hsp|].
  apply (@window_meets_spec Z 0 c); [exact Hrect| |exact Hn].
  (* the channel row of a stored spike is a padded prefix of its template's channels *)
  unfold subset_spike in Hf. destruct (i <? 0); [discriminate|].
  destruct (nth_error (r_samples r) (Z.to_nat i)); [|discriminate].
  destruct (nth_error (r_templates r) (Z.to_nat i)) as [t|]; [|discriminate].
  destruct (t <? 0); [discriminate|].
  destruct (nth_error (r_best r) (Z.to_nat t)) as [best|] eqn:Eb; [|discriminate].
  injection Hf as <-. cbn [sp_ch]. apply chan_row_ok; [exact Hc|].
  rewrite Forall_forall in Hbest. apply Hbest. eapply nth_error_In; eassumption.
Qed.
End Subset.
