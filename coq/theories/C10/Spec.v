(* C10/Spec.v -- the property, stated on the HISTORY (which operation was the last to write what)
   and on the tables (which row is the last to give a value), independently of the dictionaries
   and folds of the model; plus the boolean checkers used by the correspondence. *)
From Coq Require Import ZArith List Bool String Ascii Sorted.
From PV Require Import Base.Tok Base.NpSearch Base.NpList C16.Model C16.Spec C03.Model C03.Spec C10.Model.
Import ListNotations.
Local Open Scope string_scope.
Local Open Scope Z_scope.

Definition is_some {X} (o : option X) : bool := match o with Some _ => true | None => false end.

(* the result of the LAST element of l on which f answers *)
Fixpoint last_some {X Y} (f : X -> option Y) (l : list X) : option Y :=
  match l with
  | [] => None
  | x :: r => match last_some f r with Some y => Some y | None => f x end
  end.

(* ---------------- reading one table, declaratively ---------------- *)
(* the cell of a row under column [name]: csv rows are zipped with the header (extra cells and
   missing cells are ignored), empty cells do not count; with a duplicated column name the last
   non-empty one is read *)
Definition col_cell (header : list string) (row : list cell) (name : string) : option cell :=
  last_some (fun kc : string * cell =>
               if String.eqb (fst kc) name && negb (cell_empty (snd kc)) then Some (snd kc) else None)
            (combine header row).
(* the value a row gives to (field f, cluster k): it needs a cluster id and a cell under f *)
Definition row_gives (header : list string) (row : list cell) (f : string) (k : value) : option value :=
  match col_cell header row "cluster_id", col_cell header row f with
  | Some ck, Some cf => if value_eqb k (try_make_number ck) then Some (try_make_number cf) else None
  | _, _ => None
  end.
(* the table's value for (f, k): that of the last row that gives one *)
Definition table_get (header : list string) (rows : list (list cell)) (f : string) (k : value) : option value :=
  if String.eqb f "cluster_id" then None
  else last_some (fun row => row_gives header row f k) rows.
Definition file_get (c : mfile) (f : string) (k : value) : option value :=
  match c with FTable h rows => table_get h rows f k | FRaise => None end.

(* a file defines field f when it gives a value to (f, k) for some k *)
Definition Defines (c : mfile) (f : string) : Prop := exists k v, file_get c f k = Some v.

(* candidate cluster keys of a table (every key a row can give a value to) *)
Definition table_keys (header : list string) (rows : list (list cell)) : list value :=
  flat_map (fun row => match col_cell header row "cluster_id" with
                       | Some ck => [try_make_number ck] | None => [] end) rows.
Definition file_keys (c : mfile) : list value :=
  match c with FTable h rows => table_keys h rows | FRaise => [] end.
Definition file_header (c : mfile) : list string :=
  match c with FTable h _ => h | FRaise => [] end.
Definition defines_b (c : mfile) (f : string) : bool :=
  existsb (fun k => is_some (file_get c f k)) (file_keys c).

(* ---------------- the last saved mapping ---------------- *)
Section Hist.
Variable classify : string -> cell.

(* how a saved value is shown after a reload: what _try_make_number makes of its text; a value whose
   text is empty is dropped by read_tsv *)
Definition shown (v : value) : option value :=
  let c := wcell classify v in if cell_empty c then None else Some (try_make_number c).
(* the reading of the statement: strings are non-empty and not numeric *)
Definition value_ok (v : value) : Prop :=
  match v with VStr s => classify s = CText s /\ s <> "" | _ => True end.

(* the mapping {c: v} with the None entries dropped, as a function of the cluster id *)
Definition saved_get (m : list (Z * option value)) (k : value) : option value :=
  match k with
  | VInt c => match dget Z.eqb c m with
              | Some (Some v) => shown v
              | _ => None
              end
  | _ => None
  end.

(* ---------------- history ---------------- *)
Definition op_writes (n : fname) (o : op) : option mfile :=
  match o with
  | SaveMeta f m => if fname_eqb (meta_name f) n then Some (meta_file classify f m) else None
  | WriteForeign n' c => if fname_eqb n' n then Some c else None
  | _ => None
  end.
Definition op_clusters (o : op) : option (list Z) :=
  match o with SaveClusters v => Some v | _ => None end.
Definition op_subset (o : op) : option (list Z * Z) :=
  match o with SaveSubset ids w => Some (ids, w) | _ => None end.

(* content of file n after the history: the last write to it, else what was there *)
Definition hist_file (d0 : disk) (ops : list op) (n : fname) : option mfile :=
  match last_some (op_writes n) ops with
  | Some c => Some c
  | None => dget fname_eqb n (d_files d0)
  end.
Definition hist_clusters (d0 : disk) (ops : list op) : list Z :=
  match last_some op_clusters ops with Some v => v | None => d_clusters d0 end.

(* the field saved last into cluster_<f>.tsv, if the last write to that file is a save_metadata *)
Definition op_saved (f : string) (o : op) : option (option (list (Z * option value))) :=
  match o with
  | SaveMeta f' m => if fname_eqb (meta_name f') (meta_name f) then Some (Some m) else None
  | WriteForeign n' c => if fname_eqb n' (meta_name f) then Some None else None
  | _ => None
  end.
Definition hist_saved (ops : list op) (f : string) : option (list (Z * option value)) :=
  match last_some (op_saved f) ops with Some (Some m) => Some m | _ => None end.
End Hist.

(* ---------------- the subset store ---------------- *)
(* what the store has to contain for the selection ids: the ids, the per-spike channel rows of
   their templates, and for each spike the raw zero-padded window on those channels *)
Definition expected_store (r : rest) (data : list (list Z)) (ids : list Z) (w : Z) : option (store (A := Z)) :=
  match mapM (subset_spike r w) ids with
  | Some spikes => Some (mkstore ids (map sp_ch spikes)
                                 (map (fun sp => window 0 data (sp_s sp) (r_nsw r) (sp_ch sp)) spikes))
  | None => None
  end.

(* well-formed immutable part: rectangular raw data of c >= 1 channels, chunks tiling it, sorted
   spike samples inside it, templates with channel lists inside the channel range *)
Definition rest_ok (r : rest) : Prop :=
  match r_raw r with
  | None => True
  | Some data =>
      exists c, rect c data /\ 1 <= c /\ 1 <= r_nsw r /\ Tiles (zlen data) (r_chunks r) /\
        sortedZ (r_samples r) /\ Forall (fun s => 0 <= s < zlen data) (r_samples r) /\
        Forall (fun best => Forall (fun ch => 0 <= ch < c) best) (r_best r)
  end /\ zlen (r_templates r) = zlen (r_samples r) /\
  Forall (fun t => 0 <= t < zlen (r_best r)) (r_templates r).
(* a selection the selector can return: increasing spike ids *)
Definition ids_ok (r : rest) (ids : list Z) : Prop :=
  StronglySorted Z.lt ids /\ Forall (fun i => 0 <= i < zlen (r_samples r)) ids.

(* ---------------- boolean checkers ---------------- *)
Fixpoint list_eqb' {X} (eqb : X -> X -> bool) (a b : list X) : bool :=
  match a, b with
  | [], [] => true
  | x :: a', y :: b' => eqb x y && list_eqb' eqb a' b'
  | _, _ => false
  end.
Definition opt_value_eqb (a b : option value) : bool :=
  match a, b with
  | Some x, Some y => value_eqb x y
  | None, None => true
  | _, _ => false
  end.
Definition store_eqb (a b : store (A := Z)) : bool :=
  zlist_eqb (st_ids a) (st_ids b) && list_eqb' zlist_eqb (st_ch a) (st_ch b) &&
  waves_eqb (st_w a) (st_w b).
Definition opt_store_eqb (a b : option (store (A := Z))) : bool :=
  match a, b with
  | Some x, Some y => store_eqb x y
  | None, None => true
  | _, _ => false
  end.
