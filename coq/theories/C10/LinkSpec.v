(* C10/LinkSpec.v -- stage 4: the checker by which correspondence clause 30 judges the spike ids an extraction stores,
   written with C17's own definitions (definitions only; the theorem about it is C10_link_clause30 in Link.v/Props.v).

   Clause 30 used to be judged by Corr.select_ok alone, C10's own reading of SpikeSelector (every ceil(n_chunks/20)-th
   chunk, per template min(nst, candidates) ids among the candidates).  The link to C17 shows what the stored ids have
   to satisfy exactly: C17's Select_Spec for the call save_spikes_subset_waveforms makes (C17_route), whose boolean
   form C17.Spec.select_spec_b is sound and complete (C17_checker_sound / C17_checker_complete) and which describes
   exactly the arrays the selector can return (C17_select_exact).  [select_c17_b] evaluates that checker on C17's
   model of SpikeSelector.__init__ (chunks_kept, n_chunks_kept = 20) over the reader's chunk bounds; Corr.v now demands
   both.  It also carries the two conditions that were regime guards of the SaveSubset operation before (strictly
   increasing ids, ids that are spikes): an extraction storing unsorted or out-of-range ids is now a clause-30
   violation instead of an input "outside the regime". *)
From Coq Require Import ZArith List Bool.
From PV Require Import Base.NpSearch C16.Model C10.Model.
From PV Require C17.Model C17.Spec.
Import ListNotations.
Open Scope Z_scope.

(* traces.chunk_bounds recovered from what iter_chunks() yields (zip(bounds[:-1], bounds[1:])) *)
Definition grid_of (chunks : list iv) : list Z :=
  match chunks with [] => [] | c :: _ => lo c :: map hi chunks end.

Definition select_c17_b (r : rest) (nst : Z) (ids : list Z) : bool :=
  (1 <=? nst) &&
  match C17.Model.chunks_kept (grid_of (r_chunks r)) C17.Model.n_chunks_kept_route with
  | Some kept =>
      match C17.Spec.unflat kept with
      | Some ivs => C17.Spec.select_spec_b (r_samples r) (r_templates r) ivs true None (Some nst)
                                           (C17.Model.unique (r_templates r)) ids
      | None => false
      end
  | None => false
  end.
