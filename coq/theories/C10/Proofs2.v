(* C10/Proofs2.v -- part 2: reading tables.  The nested dictionaries built by read_tsv / load_metadata
   / _load_metadata agree with the declarative reading of Spec.v (the last row that gives a value;
   the one visible file that defines the field), and the file written by save_metadata reads back as
   the saved mapping with its None entries dropped. *)
From Coq Require Import ZArith List Lia Bool String Ascii.
From PV Require Import Base.Tok Base.NpSearch Base.NpList C16.Model C16.Spec C03.Model C03.Spec
                       C10.Model C10.Spec C10.Proofs.
Import ListNotations.
Local Open Scope Z_scope.

Notation sget := (dget String.eqb).
Notation sset := (dset String.eqb).
Notation vget := (dget value_eqb).
Notation vset := (dset value_eqb).
Notation CID := "cluster_id"%string.

Lemma Zeqb_eq' a b : Z.eqb a b = true <-> a = b.
Proof. apply Z.eqb_eq. Qed.

Lemma last_some_map {X Y W} (g : Y -> option W) (r : X -> Y) l :
  last_some g (map r l) = last_some (fun x => g (r x)) l.
Proof. induction l as [|x l IH]; cbn [map last_some]; [reflexivity|]. now rewrite IH. Qed.

Lemma last_some_ext {X Y} (g h : X -> option Y) l :
  (forall x, In x l -> g x = h x) -> last_some g l = last_some h l.
Proof.
  induction l as [|x l IH]; intros H; cbn [last_some]; [reflexivity|].
  rewrite IH by (intros; apply H; now right). rewrite (H x) by now left. reflexivity.
Qed.

(* ---------------- one row ---------------- *)
Definition row_step (d : list (string * value)) (kc : string * cell) : list (string * value) :=
  if cell_empty (snd kc) then d else sset (fst kc) (try_make_number (snd kc)) d.

Lemma row_fold_get name l acc :
  sget name (fold_left row_step l acc) =
  match last_some (fun kc : string * cell =>
                     if String.eqb (fst kc) name && negb (cell_empty (snd kc)) then Some (snd kc) else None) l with
  | Some c => Some (try_make_number c)
  | None => sget name acc
  end.
Proof.
  revert acc. induction l as [|[k c] l IH]; intros acc; cbn [fold_left last_some]; [reflexivity|].
  rewrite IH. destruct (last_some _ l); [reflexivity|].
  unfold row_step; cbn [fst snd]. destruct (cell_empty c); cbn [negb].
  - now rewrite andb_false_r.
  - rewrite andb_true_r, (dget_dset _ String.eqb_eq). rewrite (String.eqb_sym k name).
    destruct (String.eqb name k); reflexivity.
Qed.

Lemma row_dict_get header row name :
  sget name (row_dict header row) = option_map try_make_number (col_cell header row name).
Proof.
  unfold row_dict, col_cell. change (fun d kc => _) with row_step.
  rewrite row_fold_get. destruct (last_some _ _); reflexivity.
Qed.

Lemma row_fold_NoDup l acc : NoDup (map fst acc) -> NoDup (map fst (fold_left row_step l acc)).
Proof.
  revert acc. induction l as [|kc l IH]; intros acc H; cbn [fold_left]; [exact H|].
  apply IH. unfold row_step. destruct (cell_empty (snd kc)); [exact H|].
  now apply (dset_NoDup _ String.eqb_eq).
Qed.

Lemma row_dict_NoDup header row : NoDup (map fst (row_dict header row)).
Proof. unfold row_dict. change (fun d kc => _) with row_step. apply row_fold_NoDup. constructor. Qed.

(* ---------------- load_metadata: one row dictionary into the output ---------------- *)
(* invariants of the output: no "cluster_id" field, no empty mapping *)
Definition out_ok (out : mdict) : Prop :=
  sget CID out = None /\ forall f m, sget f out = Some m -> m <> [].

Lemma dset_nonempty {K V} (keq : K -> K -> bool) (k : K) (v : V) d : dset keq k v d <> [].
Proof. destruct d as [|[k0 v0] r]; cbn [dset]; [discriminate|]. destruct (keq k k0); discriminate. Qed.

Lemma add_field_get cid out fv f k :
  meta_get (add_field cid out fv) f k =
  if String.eqb (fst fv) CID then meta_get out f k
  else if String.eqb f (fst fv) then (if value_eqb k cid then Some (snd fv) else meta_get out f k)
  else meta_get out f k.
Proof.
  unfold add_field. destruct (String.eqb (fst fv) CID); [reflexivity|].
  unfold meta_get. rewrite (dget_dset _ String.eqb_eq).
  destruct (String.eqb f (fst fv)) eqn:E; [|reflexivity].
  apply String.eqb_eq in E. subst f. rewrite (dget_dset _ value_eqb_eq).
  destruct (value_eqb k cid); [reflexivity|]. destruct (sget (fst fv) out); reflexivity.
Qed.

Lemma add_field_ok cid out fv : out_ok out -> out_ok (add_field cid out fv).
Proof.
  intros [H1 H2]. unfold add_field. destruct (String.eqb (fst fv) CID) eqn:E; [split; assumption|].
  split.
  - rewrite (dget_dset _ String.eqb_eq). rewrite String.eqb_sym, E. exact H1.
  - intros f m. rewrite (dget_dset _ String.eqb_eq). destruct (String.eqb f (fst fv)).
    + intros H; injection H as <-. apply dset_nonempty.
    + apply H2.
Qed.

Lemma add_fields_ok cid d out : out_ok out -> out_ok (fold_left (add_field cid) d out).
Proof. revert out. induction d as [|fv d IH]; intros out H; cbn [fold_left]; [exact H|]. apply IH. now apply add_field_ok. Qed.

Lemma add_fields_get cid d out f k :
  NoDup (map fst d) ->
  meta_get (fold_left (add_field cid) d out) f k =
  match (if String.eqb f CID then None else sget f d) with
  | Some v => if value_eqb k cid then Some v else meta_get out f k
  | None => meta_get out f k
  end.
Proof.
  revert out. induction d as [|[f' v'] d IH]; intros out Hnd; cbn [fold_left].
  - destruct (String.eqb f CID); reflexivity.
  - cbn [map fst] in Hnd. apply NoDup_cons_iff in Hnd as [Hn Hnd]. rewrite (IH _ Hnd).
    rewrite add_field_get. cbn [fst snd dget].
    destruct (String.eqb f CID) eqn:Ec.
    + apply String.eqb_eq in Ec. subst f.
      destruct (String.eqb f' CID) eqn:E1; [reflexivity|].
      rewrite (String.eqb_sym CID f'), E1. reflexivity.
    + destruct (String.eqb f f') eqn:E.
      * apply String.eqb_eq in E. subst f'. rewrite Ec.
        assert (sget f d = None) as -> by (apply (dget_None_notin _ String.eqb_eq); exact Hn).
        reflexivity.
      * destruct (sget f d); destruct (String.eqb f' CID); reflexivity.
Qed.

(* what a row dictionary gives to (f, k) *)
Definition dict_gives (d : list (string * value)) (f : string) (k : value) : option value :=
  if String.eqb f CID then None else
  match sget CID d, sget f d with
  | Some c, Some v => if value_eqb k c then Some v else None
  | _, _ => None
  end.

Lemma add_row_get out d f k :
  NoDup (map fst d) ->
  meta_get (add_row out d) f k =
  match dict_gives d f k with Some v => Some v | None => meta_get out f k end.
Proof.
  intros Hnd. unfold add_row, dict_gives. destruct (sget CID d) as [cid|].
  - rewrite (add_fields_get _ _ _ _ _ Hnd). destruct (String.eqb f CID); [reflexivity|].
    destruct (sget f d); [|reflexivity]. destruct (value_eqb k cid); reflexivity.
  - destruct (String.eqb f CID); reflexivity.
Qed.

Lemma add_row_ok out d : out_ok out -> out_ok (add_row out d).
Proof. intros H. unfold add_row. destruct (sget CID d); [now apply add_fields_ok | exact H]. Qed.

Lemma add_rows_get ds out f k :
  Forall (fun d => NoDup (map (@fst string value) d)) ds ->
  meta_get (fold_left add_row ds out) f k =
  match last_some (fun d => dict_gives d f k) ds with Some v => Some v | None => meta_get out f k end.
Proof.
  revert out. induction ds as [|d ds IH]; intros out H; cbn [fold_left last_some]; [reflexivity|].
  inversion H as [|? ? Hd Hds]; subst. rewrite (IH _ Hds).
  destruct (last_some _ ds); [reflexivity|]. now apply add_row_get.
Qed.

Lemma add_rows_ok ds out : out_ok out -> out_ok (fold_left add_row ds out).
Proof. revert out. induction ds as [|d ds IH]; intros out H; cbn [fold_left]; [exact H|]. apply IH. now apply add_row_ok. Qed.

Lemma dict_gives_row header row f k : dict_gives (row_dict header row) f k =
  if String.eqb f CID then None else row_gives header row f k.
Proof.
  unfold dict_gives, row_gives. destruct (String.eqb f CID); [reflexivity|].
  rewrite !row_dict_get. destruct (col_cell header row CID); cbn [option_map]; [|reflexivity].
  destruct (col_cell header row f); reflexivity.
Qed.

(* the table, as the model reads it, is the declarative table *)
Theorem load_table_get header rows f k :
  meta_get (load_table header rows) f k = table_get header rows f k.
Proof.
  unfold load_table, table_get. rewrite add_rows_get.
  2:{ apply Forall_forall. intros d Hd. apply in_map_iff in Hd as (row & <- & _). apply row_dict_NoDup. }
  rewrite last_some_map.
  destruct (String.eqb f CID) eqn:E.
  - rewrite (last_some_ext _ (fun _ => None)).
    + assert (forall (l : list (list cell)), last_some (fun _ : list cell => @None value) l = None) as ->
        by (induction l; cbn [last_some]; [reflexivity|now rewrite IHl]).
      reflexivity.
    + intros row _. rewrite dict_gives_row, E. reflexivity.
  - rewrite (last_some_ext _ (fun row => row_gives header row f k)).
    + destruct (last_some _ rows); reflexivity.
    + intros row _. rewrite dict_gives_row, E. reflexivity.
Qed.

Lemma load_table_ok header rows : out_ok (load_table header rows).
Proof. unfold load_table. apply add_rows_ok. split; [reflexivity|]. intros f m H. discriminate. Qed.

Lemma load_table_NoDup header rows : NoDup (map fst (load_table header rows)).
Proof.
  unfold load_table. generalize (map (row_dict header) rows). intros ds.
  assert (G : forall out, NoDup (map fst out) -> NoDup (map fst (fold_left add_row ds out))).
  { induction ds as [|d ds IH]; intros out H; cbn [fold_left]; [exact H|]. apply IH.
    unfold add_row. destruct (sget CID d) as [cid|]; [|exact H].
    clear IH. revert out H. induction d as [|fv d IHd]; intros out H; cbn [fold_left]; [exact H|].
    apply IHd. unfold add_field. destruct (String.eqb (fst fv) CID); [exact H|].
    now apply (dset_NoDup _ String.eqb_eq). }
  apply G. constructor.
Qed.

(* a file, as the model reads it *)
Lemma load_metadata_get c out f k : load_metadata c = Some out -> meta_get out f k = file_get c f k.
Proof. destruct c; cbn [load_metadata file_get]; [|discriminate]. intros H; injection H as <-. apply load_table_get. Qed.

Lemma load_metadata_None c f k : load_metadata c = None -> file_get c f k = None.
Proof. destruct c; cbn [load_metadata file_get]; [discriminate|reflexivity]. Qed.

(* a file that defines nothing for f has no entry for f at all *)
Lemma not_defines_no_entry c out f : load_metadata c = Some out -> ~ Defines c f -> sget f out = None.
Proof.
  intros Hl Hn. destruct (sget f out) as [m|] eqn:E; [|reflexivity]. exfalso.
  destruct c as [h rows|]; [|discriminate]. cbn [load_metadata] in Hl. injection Hl as <-.
  destruct (load_table_ok h rows) as [_ Hne]. specialize (Hne f m E).
  destruct m as [|[k0 v0] r]; [congruence|].
  apply Hn. exists k0, v0. cbn [file_get]. rewrite <- load_table_get. unfold meta_get. rewrite E.
  cbn [dget]. now rewrite (keq_refl _ value_eqb_eq).
Qed.

(* ---------------- _load_metadata: all the files ---------------- *)
Lemma merge_fields_get md out f k :
  NoDup (map fst out) ->
  meta_get (merge_fields md out) f k =
  match sget f out with Some m => vget k m | None => meta_get md f k end.
Proof.
  unfold merge_fields. revert md. induction out as [|[f' m'] out IH]; intros md Hnd; cbn [fold_left dget]; [reflexivity|].
  cbn [map fst] in Hnd. apply NoDup_cons_iff in Hnd as [Hn Hnd]. rewrite (IH _ Hnd). cbn [fst snd].
  destruct (String.eqb f f') eqn:E.
  - apply String.eqb_eq in E. subst f'.
    assert (sget f out = None) as -> by (apply (dget_None_notin _ String.eqb_eq); exact Hn).
    unfold meta_get. rewrite (dget_dset _ String.eqb_eq), String.eqb_refl. reflexivity.
  - destruct (sget f out); [reflexivity|].
    unfold meta_get. rewrite (dget_dset _ String.eqb_eq), E. reflexivity.
Qed.

Definition silent (f : string) (nf : fname * mfile) : Prop :=
  excluded (fst nf) = true \/ ~ Defines (snd nf) f.

Lemma load_one_silent md nf f k : silent f nf -> meta_get (load_one md nf) f k = meta_get md f k.
Proof.
  intros Hs. unfold load_one. destruct (excluded (fst nf)) eqn:Ex; [reflexivity|].
  destruct Hs as [H|H]; [congruence|].
  destruct (load_metadata (snd nf)) as [out|] eqn:El; [|reflexivity].
  rewrite merge_fields_get.
  - now rewrite (not_defines_no_entry _ _ _ El H).
  - destruct (snd nf); [|discriminate]. cbn [load_metadata] in El. injection El as <-. apply load_table_NoDup.
Qed.

Lemma load_fold_silent L md f k : Forall (silent f) L -> meta_get (fold_left load_one L md) f k = meta_get md f k.
Proof.
  revert md. induction L as [|nf L IH]; intros md H; cbn [fold_left]; [reflexivity|].
  inversion H; subst. rewrite IH by assumption. now apply load_one_silent.
Qed.

Lemma load_one_visible md n c f k : excluded n = false ->
  meta_get (load_one md (n, c)) f k =
  match file_get c f k with Some v => Some v | None =>
    match load_metadata c with
    | Some out => match sget f out with Some _ => None | None => meta_get md f k end
    | None => meta_get md f k
    end end.
Proof.
  intros Ex. unfold load_one. cbn [fst snd]. rewrite Ex.
  destruct (load_metadata c) as [out|] eqn:El.
  - rewrite merge_fields_get.
    2:{ destruct c; [|discriminate]. cbn [load_metadata] in El. injection El as <-. apply load_table_NoDup. }
    rewrite <- (load_metadata_get _ _ f k El). unfold meta_get.
    destruct (sget f out) as [m|]; [|reflexivity]. destruct (vget k m); reflexivity.
  - now rewrite (load_metadata_None _ f k El).
Qed.

(* one visible file among silent ones: its reading is what is shown *)
Lemma load_fold_one L1 L2 n c f k :
  excluded n = false -> Forall (silent f) L1 -> Forall (silent f) L2 ->
  meta_get (fold_left load_one (L1 ++ (n, c) :: L2) []) f k = file_get c f k.
Proof.
  intros Ex H1 H2. rewrite fold_left_app. cbn [fold_left]. rewrite (load_fold_silent _ _ _ _ H2).
  rewrite (load_one_visible _ _ _ _ _ Ex). rewrite (load_fold_silent _ _ _ _ H1).
  destruct (file_get c f k); [reflexivity|]. destruct (load_metadata c) as [out|]; [|reflexivity].
  destruct (sget f out); reflexivity.
Qed.

Lemma filter_names_NoDup {X} (p : fname * X -> bool) (l : list (fname * X)) :
  NoDup (map fst l) -> NoDup (map fst (filter p l)).
Proof.
  induction l as [|x l IH]; cbn [map filter]; intros H; [constructor|].
  apply NoDup_cons_iff in H as [Hn H]. destruct (p x); cbn [map]; [|now apply IH].
  constructor; [|now apply IH]. intros Hin. apply Hn. apply in_map_iff in Hin as (y & Hy & Hyin).
  apply filter_In in Hyin as [Hyin _]. apply in_map_iff. exists y. split; assumption.
Qed.

(* the reading: the visible files other than n give no value to f *)
Definition others_silent (files : list (fname * mfile)) (n : fname) (f : string) : Prop :=
  forall n' c', In (n', c') files -> n' <> n -> silent f (n', c').

Lemma split_by_name (L : list (fname * mfile)) n c :
  NoDup (map fst L) -> In (n, c) L ->
  exists L1 L2, L = L1 ++ (n, c) :: L2 /\ (forall x, In x L1 \/ In x L2 -> fst x <> n).
Proof.
  intros Hnd Hin. apply in_split in Hin as (L1 & L2 & ->). exists L1, L2. split; [reflexivity|].
  rewrite map_app in Hnd. cbn [map fst] in Hnd. intros x Hx Heq.
  apply NoDup_remove_2 in Hnd. apply Hnd. rewrite in_app_iff.
  destruct Hx as [Hx|Hx]; [left|right]; apply in_map_iff; exists x; split; auto.
Qed.

Theorem load_all_get files n c f k :
  NoDup (map fst files) -> In (n, c) files -> excluded n = false -> others_silent files n f ->
  meta_get (load_all_metadata files) f k = file_get c f k.
Proof.
  intros Hnd Hin Ex Hs. unfold load_all_metadata, glob_order.
  assert (Hsil : forall e x, In x (filter (is_ext e) files) -> fst x <> n -> silent f x).
  { intros e [n' c'] Hx Hne. apply filter_In in Hx as [Hx _]. now apply (Hs n' c'). }
  destruct (fext n) eqn:En.
  - (* a .tsv file: read after all the .csv files *)
    assert (Hin' : In (n, c) (filter (is_ext Tsv) files)).
    { apply filter_In. split; [exact Hin|]. unfold is_ext. cbn [fst]. now rewrite En. }
    destruct (split_by_name _ _ _ (filter_names_NoDup _ _ Hnd) Hin') as (L1 & L2 & E & Hne).
    rewrite E, app_assoc. apply load_fold_one; [exact Ex| |].
    + apply Forall_app. split; apply Forall_forall; intros x Hx.
      * apply (Hsil Csv x Hx). apply filter_In in Hx as [_ Hx]. unfold is_ext in Hx.
        intros Heq. rewrite Heq, En in Hx. discriminate.
      * apply (Hsil Tsv x); [rewrite E; apply in_or_app; now left | apply Hne; now left].
    + apply Forall_forall; intros x Hx.
      apply (Hsil Tsv x); [rewrite E; apply in_or_app; right; now right | apply Hne; now right].
  - assert (Hin' : In (n, c) (filter (is_ext Csv) files)).
    { apply filter_In. split; [exact Hin|]. unfold is_ext. cbn [fst]. now rewrite En. }
    destruct (split_by_name _ _ _ (filter_names_NoDup _ _ Hnd) Hin') as (L1 & L2 & E & Hne).
    rewrite E, <- app_assoc. cbn [app]. apply load_fold_one; [exact Ex| |].
    + apply Forall_forall; intros x Hx.
      apply (Hsil Csv x); [rewrite E; apply in_or_app; now left | apply Hne; now left].
    + apply Forall_app. split; apply Forall_forall; intros x Hx.
      * apply (Hsil Csv x); [rewrite E; apply in_or_app; right; now right | apply Hne; now right].
      * apply (Hsil Tsv x Hx). apply filter_In in Hx as [_ Hx]. unfold is_ext in Hx.
        intros Heq. rewrite Heq, En in Hx. discriminate.
Qed.

(* no visible file defines f: nothing is shown for f *)
Theorem load_all_none files f k :
  (forall n c, In (n, c) files -> silent f (n, c)) -> meta_get (load_all_metadata files) f k = None.
Proof.
  intros H. unfold load_all_metadata. rewrite load_fold_silent; [reflexivity|].
  apply Forall_forall. intros [n c] Hx. apply H. unfold glob_order in Hx.
  apply in_app_or in Hx as [Hx|Hx]; apply filter_In in Hx as [Hx _]; exact Hx.
Qed.
