(* C10/Corr.v -- comparator evaluated by vm_compute on generated case files.
   One case = an initial dataset directory (as a [disk]) and a history of operations; the
   implementation is observed after EVERY reload.
   codes: 1  = an observed view differs from the model PV.C10.Model.view on the disk after the prefix
          21 = C10_last_write_wins (clusters): not the assignments of the last save_spike_clusters
               (or the initial ones), or save_spike_clusters raised
          22 = C10_last_write_wins (metadata): a field saved through save_metadata does not show the
               mapping of the LAST save with the None entries dropped, or save_metadata raised
          23 = C10_foreign_fields: metadata of the other TSV/CSV files wrong, or unexpected fields
          24 = C10_frame: spike templates / samples / times changed
          25 = C10_subset: the subset store is not (ids, channel rows of their templates, raw windows),
               or save_spikes_subset_waveforms raised
          26 = C10_tolerant: loading raised although the spike clusters are loadable
          27 = C10_subset (look-up route): get_waveforms answered from the store is not the raw window
               on the stored channels
          28 = C10_frame (files): a file outside the curation state changed or appeared
          29 = close() raised
          30 = the spike ids found in the store file after an extraction are not an answer the selector
               may give for THAT extraction (SpikeSelector, n_chunks_kept = 20, subset_chunks=True):
               per template, min(max_n_spikes_per_template, #spikes of the template inside the kept
               chunks) ids, all of them spikes of the template inside the kept chunks -- relational,
               the random choice itself is not predicted.  Stage 4: judged twice, by [select_ok] (C10's
               own reading) AND by [LinkSpec.select_c17_b] = C17's checker select_spec_b on C17's model of
               the kept chunks, which also demands strictly increasing ids that are spikes; by
               C10_link_clause30 the latter accepts exactly the arrays some admissible np.random.choice
               makes C17's route return
          3  = input outside the stated regime (harness bug)
   Strings are classified by the identity oracle [CText]: the harness asserts, with Python's own
   int()/float(), that no saved string is numeric. *)
From Coq Require Import ZArith List Bool String Ascii.
From PV Require Export Base.Tok Base.NpSearch Base.NpList C16.Model C16.Spec C03.Model C03.Spec C10.Model C10.Spec.
From PV Require Import C10.LinkSpec.
Import ListNotations.
Local Open Scope string_scope.
Local Open Scope Z_scope.

Definition cls : string -> cell := CText.

(* literals for texts with non-printable characters *)
Definition chr (n : nat) : string := String (ascii_of_nat n) EmptyString.
Definition scat (l : list string) : string := fold_right String.append EmptyString l.

Record oview := mkoview {
  o_clusters : list Z;
  o_meta : mdict;
  o_templates : list Z;
  o_samples : list Z;
  o_times : list tok;
  o_store : option (store (A := Z));
  o_lookup : option (list (list (list Z)));   (* get_waveforms(stored ids, all channels), when a store is loaded *)
  o_lookup_ok : bool;                         (* false = that call raised (or returned something that is not spikes x samples x channels) *)
  o_changed : list string
}.
Inductive oreload := OView (v : oview) | OFail.

(* nsts: max_n_spikes_per_template of each SaveSubset operation, in order *)
Inductive input := InHist (d0 : disk) (ops : list op) (nsts : list Z).
(* views: one per executed reload; crash_at: index of the (non-reload) operation that raised *)
Inductive observed := ObsHist (views : list oreload) (crash_at : option Z) | ObsCrash.
Record case := { cid : Z; cin : input; cobs : observed }.

Definition flag (code : Z) (ok : bool) : list Z := if ok then [] else [code].

Definition mk_chunks (sizes : list Z) (cs : Z) : list iv :=
  match get_chunk_bounds sizes cs with Some b => iter_base b | None => [] end.

(* ---------------- dictionaries compared as finite maps ---------------- *)
Definition mapping_equiv (a b : mapping) : bool :=
  forallb (fun k => opt_value_eqb (dget value_eqb k a) (dget value_eqb k b)) (map fst a ++ map fst b).
Definition mdict_equiv (a b : mdict) : bool :=
  forallb (fun f => match dget String.eqb f a, dget String.eqb f b with
                    | Some x, Some y => mapping_equiv x y
                    | None, None => true
                    | _, _ => false
                    end) (map fst a ++ map fst b).

Definition obs_keys (md : mdict) (f : string) : list value :=
  match dget String.eqb f md with Some m => map fst m | None => [] end.

(* ---------------- regime ---------------- *)
(* that the saved strings are not numeric (int()/float() reject them) is asserted by the harness on
   the Python side, with Python's own int()/float() (props/c10.py: _value) *)
Fixpoint nodup_b {X} (eqb : X -> X -> bool) (l : list X) : bool :=
  match l with [] => true | x :: r => negb (existsb (eqb x) r) && nodup_b eqb r end.
Fixpoint incr_b (l : list Z) : bool :=
  match l with x :: ((y :: _) as r) => (x <? y) && incr_b r | _ => true end.
(* Python dictionaries identify the keys 3 and 3.0 and never find a NaN key again; the model
   compares keys structurally, so cluster-id cells that read as an integral float or as NaN are
   outside its regime (other float ids, e.g. 3.5, are ordinary keys) *)
Definition bad_key (v : value) : bool :=
  match v with
  | VFloat (TNum m e) => 0 <=? e
  | VFloat TNaN => true
  | _ => false
  end.
Definition file_ok (c : mfile) : bool := negb (existsb bad_key (file_keys c)).

Definition op_ok (r : rest) (o : op) : bool :=
  match o with
  | SaveClusters v => true
  | SaveMeta f m => negb (String.eqb f "cluster_id") && negb (String.eqb f "") &&
                    nodup_b Z.eqb (map fst m)
  | WriteForeign n c => file_ok c
  | SaveSubset ids w =>
      match r_raw r with
      | None => match ids with [] => true | _ => false end
      (* any number of selected spikes, one and none included: the loader no longer squeezes the
         three store files (repair on branch fix-c10b).  Stage 4: "strictly increasing ids that are
         spikes" is no longer a regime guard here (code 3) but part of clause 30 (select_c17_b): ids
         read back from the store file that violate it are a verdict about phylib, not about the harness *)
      (* w is computed by the harness as max(max_n_channels or k, k), k = n_closest_channels of params.py
         (class default 12; datasets with k = 1 / 2 since the stage-4 mutation triage): at least one column *)
      | Some _ => 1 <=? w
      end
  | _ => true
  end.

Definition rest_ok_b (r : rest) : bool :=
  (2 <=? zlen (r_samples r)) && (zlen (r_templates r) =? zlen (r_samples r)) &&
  (zlen (r_times r) =? zlen (r_samples r)) &&
  forallb (fun t => (0 <=? t) && (t <? zlen (r_best r))) (r_templates r) &&
  match r_raw r with
  | None => true
  | Some data =>
      match data with
      | [] => false
      | row :: _ =>
          let c := zlen row in
          (1 <=? c) && forallb (fun rw => zlen rw =? c) data && (2 <=? r_nsw r) &&
          tiles_b (zlen data) (r_chunks r) && sortedZb (r_samples r) &&
          forallb (fun s => (0 <=? s) && (s <? zlen data)) (r_samples r) &&
          forallb (fun best => forallb (fun ch => (0 <=? ch) && (ch <? c)) best) (r_best r)
      end
  end.

Definition disk_ok (d : disk) : bool :=
  rest_ok_b (d_rest d) && nodup_b fname_eqb (map fst (d_files d)) && forallb (fun nf => file_ok (snd nf)) (d_files d) &&
  (zlen (d_clusters d) =? zlen (r_samples (d_rest d))) &&
  (* a store present before the first load: only one whose waveform file np.load rejects *)
  match d_subset d with
  | None => true
  | Some sf => match np_load (sf_wave sf) with None => true | Some _ => false end
  end.

(* names of every metadata file that exists after the prefix *)
Definition op_name (o : op) : list fname :=
  match o with SaveMeta f _ => [meta_name f] | WriteForeign n _ => [n] | _ => [] end.
Fixpoint dedup {X} (eqb : X -> X -> bool) (l : list X) : list X :=
  match l with [] => [] | x :: r => if existsb (eqb x) r then dedup eqb r else x :: dedup eqb r end.
Definition all_names (d0 : disk) (pre : list op) : list fname :=
  dedup fname_eqb (map fst (d_files d0) ++ flat_map op_name pre).
(* the visible files after the prefix, by the history *)
Definition visible_files (d0 : disk) (pre : list op) : list (fname * mfile) :=
  flat_map (fun n => if excluded n then [] else
                     match hist_file cls d0 pre n with Some c => [(n, c)] | None => [] end)
           (all_names d0 pre).
Definition cand_fields (files : list (fname * mfile)) : list string :=
  dedup String.eqb (filter (fun f => negb (String.eqb f "cluster_id")) (flat_map (fun nf => file_header (snd nf)) files)).
(* the reading: no field is given values by two visible files *)
Definition disjoint_b (files : list (fname * mfile)) : bool :=
  forallb (fun f => Z.of_nat (List.length (filter (fun nf => defines_b (snd nf) f) files)) <=? 1) (cand_fields files).

(* ---------------- clauses judged on one observed view ---------------- *)
Definition saved_fields (pre : list op) : list string :=
  dedup String.eqb (flat_map (fun o => match o with SaveMeta f _ => [f] | _ => [] end) pre).

(* 22: fields whose file was last written by save_metadata *)
Definition clause_saved (pre : list op) (om : mdict) : bool :=
  forallb (fun f =>
             if excluded (meta_name f) then true else
             match hist_saved pre f with
             | None => true
             | Some m =>
                 forallb (fun k => opt_value_eqb (meta_get om f k) (saved_get cls m k))
                         (map (fun cv => VInt (fst cv)) m ++ obs_keys om f)
             end) (saved_fields pre).

Definition is_saved_file (pre : list op) (n : fname) : bool :=
  existsb (fun f => fname_eqb (meta_name f) n && is_some (hist_saved pre f)) (saved_fields pre).

(* 23: the other visible files, and no field out of nowhere *)
Definition clause_foreign (d0 : disk) (pre : list op) (om : mdict) : bool :=
  let files := visible_files d0 pre in
  forallb (fun nf =>
             if is_saved_file pre (fst nf) then true else
             forallb (fun f =>
                        if defines_b (snd nf) f then
                          forallb (fun k => opt_value_eqb (meta_get om f k) (file_get (snd nf) f k))
                                  (file_keys (snd nf) ++ obs_keys om f)
                        else true)
                     (filter (fun f => negb (String.eqb f "cluster_id")) (file_header (snd nf))))
          files &&
  forallb (fun f => existsb (fun nf => defines_b (snd nf) f) files) (map fst om) &&
  forallb (fun fm => match snd fm with [] => false | _ => true end) om.

Definition expected_hist_store (d0 : disk) (pre : list op) : option (store (A := Z)) :=
  match r_raw (d_rest d0), last_some op_subset pre with
  | Some data, Some (ids, w) => expected_store (d_rest d0) data ids w
  | _, _ => None
  end.

Definition all_chans (r : rest) : list Z :=
  match r_raw r with Some (row :: _) => zrange 0 (List.length row) | _ => [] end.

Definition clause_lookup (d0 : disk) (pre : list op) (v : oview) : bool :=
  let r := d_rest d0 in
  match r_raw r, last_some op_subset pre, o_lookup v with
  | Some data, Some (ids, w), Some lk =>
      match mapM (subset_spike r w) ids with
      | Some spikes => waves_eqb lk (map (fun sp => masked_window 0 idZ data (r_nsw r) sp (all_chans r)) spikes)
      | None => false
      end
  | _, None, None => true
  | None, _, None => true
  | _, _, _ => false
  end.

(* ---------------- the selection of an extraction (relational) ---------------- *)
(* SpikeSelector.__init__: for i in range(0, n_chunks, max(1, int(ceil(n_chunks / 20)))): keep chunk i *)
Definition kept_step (n : Z) : Z := Z.max 1 ((n + 19) / 20).
Fixpoint every_nth (step : nat) (k : nat) (l : list iv) : list iv :=
  match l with
  | [] => []
  | c :: r => match k with
              | O => c :: every_nth step (step - 1) r
              | S k' => every_nth step k' r
              end
  end.
Definition kept_chunks (chunks : list iv) : list iv :=
  every_nth (Z.to_nat (kept_step (zlen chunks))) 0 chunks.
(* _times_in_chunks: searchsorted(chunks_kept, t, side='right') odd = t in [lo, hi) of a kept chunk
   (samples lie below the last bound: rest_ok_b) *)
Definition in_kept (chunks : list iv) (s : Z) : bool :=
  existsb (fun c => (lo c <=? s) && (s <? hi c)) (kept_chunks chunks).
Definition spikes_of (r : rest) (t : Z) : list Z :=
  filter (fun i => match nth_error (r_templates r) (Z.to_nat i), nth_error (r_samples r) (Z.to_nat i) with
                   | Some t', Some sm => (t' =? t) && in_kept (r_chunks r) sm
                   | _, _ => false
                   end) (zrange 0 (List.length (r_samples r))).
Definition select_ok (r : rest) (nst : Z) (ids : list Z) : bool :=
  (1 <=? nst) &&
  forallb (fun t =>
             let cand := spikes_of r t in
             let got := filter (fun i => match nth_error (r_templates r) (Z.to_nat i) with
                                         | Some t' => t' =? t | None => false end) ids in
             forallb (fun i => existsb (Z.eqb i) cand) got && (zlen got =? Z.min nst (zlen cand)))
          (zrange 0 (List.length (r_best r))).
(* one verdict per executed SaveSubset (those before the operation that raised) *)
Fixpoint sel_codes (r : rest) (ops : list op) (nsts : list Z) (crash : option Z) (k : Z) : list Z :=
  match ops with
  | [] => []
  | o :: rest' =>
      if match crash with Some c => c <=? k | None => false end then [] else
      match o with
      | SaveSubset ids w =>
          match nsts with
          | n :: ns => (match r_raw r with
                        | None => []
                        | Some _ => flag 30 (select_ok r n ids && select_c17_b r n ids)
                        end) ++ sel_codes r rest' ns crash (k + 1)
          | [] => [3]
          end
      | _ => sel_codes r rest' nsts crash (k + 1)
      end
  end.

Definition loadable (cl : list Z) (r : rest) : bool :=
  (zlen cl =? zlen (r_samples r)) && forallb (fun c => (0 <=? c) && (c <? 2147483648)) cl.

Definition check_view (d0 : disk) (pre : list op) (d : disk) (ob : oreload) : list Z :=
  let r := d_rest d0 in
  let hc := hist_clusters d0 pre in
  match ob with
  | OFail =>
      flag 1 (match view d with None => true | Some _ => false end) ++
      flag 26 (negb (loadable hc r))
  | OView v =>
      flag 1 (match view d with
              | Some l => zlist_eqb (v_clusters l) (o_clusters v) && mdict_equiv (v_meta l) (o_meta v) &&
                          zlist_eqb (v_templates l) (o_templates v) && zlist_eqb (v_samples l) (o_samples v) &&
                          list_eqb' tok_eqb (v_times l) (o_times v) && opt_store_eqb (v_store l) (o_store v)
              | None => false
              end) ++
      (if loadable hc r then flag 21 (zlist_eqb (o_clusters v) hc) else []) ++
      flag 22 (clause_saved pre (o_meta v)) ++
      flag 23 (clause_foreign d0 pre (o_meta v)) ++
      flag 24 (zlist_eqb (o_templates v) (r_templates r) && zlist_eqb (o_samples v) (r_samples r) &&
               list_eqb' tok_eqb (o_times v) (r_times r)) ++
      flag 25 (opt_store_eqb (o_store v) (expected_hist_store d0 pre)) ++
      flag 27 (o_lookup_ok v && clause_lookup d0 pre v) ++
      flag 28 (match o_changed v with [] => true | _ => false end)
  end.

Definition crash_codes (o : op) : list Z :=
  match o with
  | SaveClusters _ => [1; 21]
  | SaveMeta _ _ => [1; 22]
  | WriteForeign _ _ => [3]            (* the harness writes these files itself *)
  | SaveSubset _ _ => [1; 25]
  | CloseModel => [1; 29]
  | Reload => [1; 26]
  end.

(* [closed]: close() was called on the model object in use and no reload followed; extracting the
   subset then reads closed memory maps (use after close: outside the reading) *)
Fixpoint walk (d0 : disk) (pre : list op) (d : disk) (ops : list op) (views : list oreload)
              (crash : option Z) (k : Z) (closed : bool) : list Z :=
  match ops with
  | [] => match views with [] => [] | _ => [3] end
  | o :: rest =>
      if match crash with Some c => c =? k | None => false end then crash_codes o else
      (if op_ok (d_rest d0) o then [] else [3]) ++
      (match o with SaveSubset _ _ => if closed then [3] else [] | _ => [] end) ++
      match o with
      | Reload =>
          (if disjoint_b (visible_files d0 pre) then [] else [3]) ++
          match views with
          | ob :: views' =>
              check_view d0 pre d ob ++
              walk d0 (pre ++ [o]) d rest views' crash (k + 1)
                   (match ob with OFail => closed | OView _ => false end)
          | [] => [3]
          end
      | CloseModel => walk d0 (pre ++ [o]) (step cls d o) rest views crash (k + 1) true
      | _ => walk d0 (pre ++ [o]) (step cls d o) rest views crash (k + 1) closed
      end
  end.

Definition check (c : case) : list Z :=
  nodup Z.eq_dec
    match cin c, cobs c with
    | InHist d0 ops nsts, ObsHist views crash =>
        if negb (disk_ok d0) then [3]
        else walk d0 [] d0 ops views crash 0 false ++ sel_codes (d_rest d0) ops nsts crash 0
    | InHist d0 ops _, ObsCrash => [1; 26]
    end.

Definition run (cases : list case) : list (Z * Z) :=
  flat_map (fun c => map (fun code => (cid c, code)) (check c)) cases.
