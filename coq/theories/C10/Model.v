(* C10/Model.v -- executable model of the on-disk curation state of a phy dataset directory and of
   what a freshly loaded TemplateModel shows of it.  No proofs here.

   phylib/io/model.py  : save_spike_clusters (as repaired on branch fix-c10: same glob pattern as the
                         loader), save_metadata, _load_metadata, load_metadata, _load_spike_clusters,
                         get_merge_map (only its KeyError exit), save_spikes_subset_waveforms,
                         _load_spike_waveforms, close
   phylib/utils/_misc.py: read_tsv, _write_tsv_simple, _try_make_number
   phylib/io/traces.py : export_waveforms / np.load of its file = PV.C03.Model.export / np_load

   Abstractions.
   * A text cell, as csv.reader returns it, is classified by what _try_make_number makes of it:
     [CInt z] = text accepted by int(); [CFloat t] = text rejected by int() and accepted by float(),
     t the exact binary64 value; [CText s] = any other text (the empty string included).  The csv
     text layer itself (quoting, delimiters, str()/repr() of numbers) is a round-tripping oracle:
     csv.writer turns an int into a CInt cell, a float into a CFloat cell of the same value, and a
     string s into the cell [classify s], where [classify] is an arbitrary function (a Section
     variable: no assumption).  "Non-numeric string" means [classify s = CText s].
   * A metadata file is what csv.reader yields from it with the delimiter read_tsv detects (header
     + rows of cells), or [FRaise] when reading it raises (empty file: StopIteration from
     next(reader); undecodable bytes: UnicodeDecodeError; a directory: IsADirectoryError).
   * Python dicts are association lists with update-in-place / append ([dset]); only look-ups
     ([dget]) are ever compared, so insertion order is immaterial.
   * The directory order returned by glob is the order of [d_files] (arbitrary). *)
From Coq Require Import ZArith List Bool String Ascii.
From PV Require Import Base.Tok Base.NpSearch Base.NpList C16.Model C16.Spec C03.Model.
Import ListNotations.
Local Open Scope string_scope.
Local Open Scope Z_scope.

(* ---------------- Python dicts ---------------- *)
Section Dict.
Context {K V : Type}.
Variable keq : K -> K -> bool.
Fixpoint dget (k : K) (d : list (K * V)) : option V :=
  match d with
  | [] => None
  | (k', v) :: r => if keq k k' then Some v else dget k r
  end.
Fixpoint dset (k : K) (v : V) (d : list (K * V)) : list (K * V) :=
  match d with
  | [] => [(k, v)]
  | (k', v') :: r => if keq k k' then (k', v) :: r else (k', v') :: dset k v r
  end.
End Dict.

(* ---------------- cells, values ---------------- *)
Inductive value := VInt (z : Z) | VFloat (t : tok) | VStr (s : string).
Inductive cell := CInt (z : Z) | CFloat (t : tok) | CText (s : string).

Definition value_eqb (a b : value) : bool :=
  match a, b with
  | VInt x, VInt y => x =? y
  | VFloat x, VFloat y => tok_eqb x y
  | VStr x, VStr y => String.eqb x y
  | _, _ => false
  end.

(* _try_make_number: int(value), else float(value), else the string itself *)
Definition try_make_number (c : cell) : value :=
  match c with CInt z => VInt z | CFloat t => VFloat t | CText s => VStr s end.

(* the test `v != ''` of read_tsv *)
Definition cell_empty (c : cell) : bool := match c with CText "" => true | _ => false end.

(* ---------------- file names ---------------- *)
Inductive ext := Tsv | Csv.
Record fname := mkname { stem : string; fext : ext }.
Definition ext_eqb (a b : ext) : bool := match a, b with Tsv, Tsv | Csv, Csv => true | _, _ => false end.
Definition fname_eqb (a b : fname) : bool := String.eqb (stem a) (stem b) && ext_eqb (fext a) (fext b).

(* ---------------- metadata files ---------------- *)
Inductive mfile :=
| FTable (header : list string) (rows : list (list cell))
| FRaise.

(* {field: {cluster_id: value}} *)
Definition mapping := list (value * value).
Definition mdict := list (string * mapping).

(* read_tsv, one row:  {k: _try_make_number(v) for k, v in zip(field_names, row) if v != ''} *)
Definition row_dict (header : list string) (row : list cell) : list (string * value) :=
  fold_left (fun d kc => if cell_empty (snd kc) then d
                         else dset String.eqb (fst kc) (try_make_number (snd kc)) d)
            (combine header row) [].

(* load_metadata, the body of `for d in data:` *)
Definition add_field (cid : value) (out : mdict) (fv : string * value) : mdict :=
  if String.eqb (fst fv) "cluster_id" then out
  else dset String.eqb (fst fv)
            (dset value_eqb cid (snd fv)
                  (match dget String.eqb (fst fv) out with Some m => m | None => [] end))
            out.
Definition add_row (out : mdict) (d : list (string * value)) : mdict :=
  match dget String.eqb "cluster_id" d with
  | None => out                                         (* if 'cluster_id' in d *)
  | Some cid => fold_left (add_field cid) d out
  end.
(* `if not data: return {}` is the fold over no row *)
Definition load_table (header : list string) (rows : list (list cell)) : mdict :=
  fold_left add_row (map (row_dict header) rows) [].
(* None = an exception propagates out of load_metadata *)
Definition load_metadata (f : mfile) : option mdict :=
  match f with FTable h rows => Some (load_table h rows) | FRaise => None end.

(* _load_metadata: glob('*.csv') then glob('*.tsv'); cluster_info skipped; a file whose reading
   raises is skipped (logged); `metadata[field] = data` replaces, it does not merge *)
Definition is_ext (e : ext) (nf : fname * mfile) : bool := ext_eqb (fext (fst nf)) e.
Definition glob_order (files : list (fname * mfile)) : list (fname * mfile) :=
  filter (is_ext Csv) files ++ filter (is_ext Tsv) files.
Definition excluded (n : fname) : bool := String.eqb (stem n) "cluster_info".
Definition merge_fields (md out : mdict) : mdict :=
  fold_left (fun m fd => dset String.eqb (fst fd) (snd fd) m) out md.
Definition load_one (md : mdict) (nf : fname * mfile) : mdict :=
  if excluded (fst nf) then md else
  match load_metadata (snd nf) with
  | None => md                                          (* except Exception: ... continue *)
  | Some out => merge_fields md out
  end.
Definition load_all_metadata (files : list (fname * mfile)) : mdict :=
  fold_left load_one (glob_order files) [].

(* ---------------- writing a field ---------------- *)
Section Write.
Variable classify : string -> cell.

(* the cell csv.writer produces for a value (str() of it) as csv.reader gives it back *)
Definition wcell (v : value) : cell :=
  match v with VInt z => CInt z | VFloat t => CFloat t | VStr s => classify s end.

(* {c: v for c, v in values.items() if v is not None} *)
Definition clean (m : list (Z * option value)) : list (Z * value) :=
  flat_map (fun cv => match snd cv with Some v => [(fst cv, v)] | None => [] end) m.

(* sorted(data): insertion sort on the cluster ids (keys of a dict: pairwise distinct) *)
Fixpoint insert_kv (kv : Z * value) (l : list (Z * value)) : list (Z * value) :=
  match l with
  | [] => [kv]
  | kv' :: r => if fst kv <=? fst kv' then kv :: l else kv' :: insert_kv kv r
  end.
Definition sort_kv (l : list (Z * value)) : list (Z * value) := fold_right insert_kv [] l.

(* _write_tsv_simple(path, field_name, data) read back by csv.reader *)
Definition meta_file (f : string) (m : list (Z * option value)) : mfile :=
  FTable ["cluster_id"; f]
         (map (fun kv => [CInt (fst kv); wcell (snd kv)]) (sort_kv (clean m))).
Definition meta_name (f : string) : fname := mkname (String.append "cluster_" f) Tsv.

(* ---------------- the disk ---------------- *)
(* what no operation of the history writes *)
Record rest := mkrest {
  r_templates : list Z;              (* spike_templates *)
  r_samples : list Z;                (* spike_samples *)
  r_times : list tok;                (* spike_times (seconds, exact binary64 values) *)
  r_raw : option (list (list Z));    (* traces[:, channel_map]; None = no raw data file *)
  r_chunks : list iv;                (* traces.iter_chunks() *)
  r_nsw : Z;                         (* n_samples_waveforms *)
  r_best : list (list Z)             (* per template: get_template(t).channel_ids *)
}.

(* the three _phy_spikes_subset.* files *)
Record subfiles := mksub { sf_ids : list Z; sf_ch : list (list Z); sf_wave : npy (A := Z) }.

Record disk := mkdisk {
  d_clusters : list Z;               (* payload of the spike-cluster file *)
  d_files : list (fname * mfile);    (* the *.tsv / *.csv files *)
  d_subset : option subfiles;
  d_rest : rest
}.

Inductive op :=
| SaveClusters (v : list Z)
| SaveMeta (f : string) (m : list (Z * option value))
| WriteForeign (n : fname) (c : mfile)
| SaveSubset (ids : list Z) (w : Z)      (* ids = what SpikeSelector returned (random: an oracle);
                                            w = max(max_n_channels or 12, 12) *)
| CloseModel
| Reload.

(* _template_n_channels(t, w): the first w best channels, padded with -1 *)
Definition chan_row (w : Z) (best : list Z) : list Z :=
  let c := firstn (Z.to_nat w) best in c ++ repeat (-1) (Z.to_nat w - List.length c)%nat.

(* the spikes handed to export_waveforms: self.spike_samples[spike_ids] with the rows
   best_channels[self.spike_templates[spike_ids], :]; None = IndexError *)
Definition subset_spike (r : rest) (w : Z) (i : Z) : option spike :=
  if i <? 0 then None else
  match nth_error (r_samples r) (Z.to_nat i), nth_error (r_templates r) (Z.to_nat i) with
  | Some s, Some t =>
      if t <? 0 then None else
      match nth_error (r_best r) (Z.to_nat t) with
      | Some best => Some (mkspike s (chan_row w best))
      | None => None
      end
  | _, _ => None
  end.

Definition idZ (z : Z) : Z := z.       (* sample2unit = 1.0 on integer-valued samples *)

(* save_spikes_subset_waveforms: nothing without raw data; the three files otherwise.  (When the
   arguments are not what the selector can return -- an id out of range, a failed size assertion --
   Python raises after having written part of the files; that state is not modelled: the disk is
   left unchanged and the theorems state the guard under which this branch is not taken.) *)
Definition save_subset (d : disk) (ids : list Z) (w : Z) : disk :=
  let r := d_rest d in
  match r_raw r with
  | None => d
  | Some data =>
      match mapM (subset_spike r w) ids with
      | None => d
      | Some spikes =>
          match export 0 idZ data (r_nsw r) (r_chunks r) spikes w PyFloat with
          | None => d
          | Some f => mkdisk (d_clusters d) (d_files d) (Some (mksub ids (map sp_ch spikes) f)) r
          end
      end
  end.

Definition step (d : disk) (o : op) : disk :=
  match o with
  | SaveClusters v => mkdisk v (d_files d) (d_subset d) (d_rest d)
  | SaveMeta f m => mkdisk (d_clusters d) (dset fname_eqb (meta_name f) (meta_file f m) (d_files d))
                           (d_subset d) (d_rest d)
  | WriteForeign n c => mkdisk (d_clusters d) (dset fname_eqb n c (d_files d)) (d_subset d) (d_rest d)
  | SaveSubset ids w => save_subset d ids w
  | CloseModel => d                   (* closes memory maps: no file is written *)
  | Reload => d                       (* a new TemplateModel: reads only (the spike-cluster copy and
                                         whitening inverse a first load may create are in d0) *)
  end.

Definition run (d : disk) (ops : list op) : disk := fold_left step ops d.
End Write.

(* ---------------- what a freshly loaded model shows ---------------- *)
Record loaded := mkloaded {
  v_clusters : list Z;
  v_meta : mdict;
  v_templates : list Z;
  v_samples : list Z;
  v_times : list tok;
  v_store : option (store (A := Z))
}.

(* .astype(np.int32) *)
Definition to_i32 (z : Z) : Z := (z + 2147483648) mod 4294967296 - 2147483648.

Fixpoint zlist_eqb (a b : list Z) : bool :=
  match a, b with
  | [], [] => true
  | x :: a', y :: b' => (x =? y) && zlist_eqb a' b'
  | _, _ => false
  end.

(* _load_spike_waveforms: None when a file is missing or np.load raises (logged).  The three arrays
   keep the dimensions they were written with (as repaired on branch fix-c10b: the loader no longer
   squeezes them, so a store of exactly one spike is one row, not a 0-d id and a 1-d channel row) *)
Definition load_store (s : option subfiles) : option (store (A := Z)) :=
  match s with
  | None => None
  | Some sf => match np_load (sf_wave sf) with
               | None => None
               | Some w => Some (mkstore (sf_ids sf) (sf_ch sf) w)
               end
  end.

(* None = the constructor raises:
   - `assert self.spike_clusters.shape == (ns,)`;
   - get_merge_map (called when the clusters differ from the templates; dense templates):
     `inverse_mapping_dict[n]` is a KeyError for a negative cluster id. *)
Definition view (d : disk) : option loaded :=
  let r := d_rest d in
  let cl := map to_i32 (d_clusters d) in
  if negb (zlen cl =? zlen (r_samples r)) then None
  else if negb (zlist_eqb cl (r_templates r)) && existsb (fun c => c <? 0) cl then None
  else Some (mkloaded cl (load_all_metadata (d_files d)) (r_templates r) (r_samples r) (r_times r)
                      (load_store (d_subset d))).

(* the value shown for (field, cluster id) *)
Definition meta_get (md : mdict) (f : string) (k : value) : option value :=
  match dget String.eqb f md with
  | None => None
  | Some m => dget value_eqb k m
  end.
