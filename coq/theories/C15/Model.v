(* C15/Model.v -- executable model of phylib/stats/ccg.py.  No proofs here.
   correlograms (the shift loop with its shrinking mask, ravel_multi_index + bincount increment),
   _increment, _diff_shifted, _create_correlograms_array, _symmetrize_correlograms, firing_rate,
   and phylib/io/array.py: _unique, _index_of (the latter from Base.NpList).

   Inputs are spike *samples* (integers): the property restricts itself to sample rates for which
   time * rate is exact, so  (spike_times * sample_rate).astype(int64)  is the identity on them.
   sample_rate, bin_size, window_size, duration are exact rationals (the harness generates dyadic
   values so that the float computation is exact, and Corr.v re-checks that regime). *)
From Coq Require Import ZArith List Lia Bool QArith Qround.
From PV Require Import Base.NpList Base.NpSearch.
Import ListNotations.
Open Scope Z_scope.

(* ---------- small NumPy vocabulary ---------- *)
Fixpoint map2 {A B C} (f : A -> B -> C) (l1 : list A) (l2 : list B) : list C :=
  match l1, l2 with
  | x :: r1, y :: r2 => f x y :: map2 f r1 r2
  | _, _ => []
  end.

(* boolean-mask indexing  l[m]  (m and l of equal length in every use) *)
Fixpoint select {A} (m : list bool) (l : list A) : list A :=
  match m, l with
  | b :: m', x :: l' => if b then x :: select m' l' else select m' l'
  | _, _ => []
  end.

(* np.bincount on non-negative integers: length max+1, empty for empty input *)
Definition bincount (l : list Z) : list Z :=
  match l with
  | [] => []
  | _ => map (fun k => Z.of_nat (count_occ Z.eq_dec l k)) (zrange 0 (Z.to_nat (zmax_list l + 1)))
  end.

(* arr[:len(bb)] += bb ; a longer bb cannot be broadcast into the clipped slice: ValueError *)
Fixpoint add_prefix (arr bb : list Z) : option (list Z) :=
  match bb, arr with
  | [], _ => Some arr
  | b :: bb', a :: arr' => option_map (cons (a + b)) (add_prefix arr' bb')
  | _ :: _, [] => None
  end.

(* _increment(arr, indices) *)
Definition increment (arr indices : list Z) : option (list Z) := add_prefix arr (bincount indices).

(* np.ravel_multi_index((i, j, d), (nc, nc, nb)), mode='raise' *)
Definition ravel (nc nb i j d : Z) : option Z :=
  if (0 <=? i) && (i <? nc) && (0 <=? j) && (j <? nc) && (0 <=? d) && (d <? nb)
  then Some ((i * nc + j) * nb + d) else None.

Fixpoint ravel_all (nc nb : Z) (ii jj dd : list Z) : option (list Z) :=
  match ii, jj, dd with
  | [], [], [] => Some []
  | i :: ii', j :: jj', d :: dd' =>
      match ravel nc nb i j d, ravel_all nc nb ii' jj' dd' with
      | Some x, Some r => Some (x :: r)
      | _, _ => None
      end
  | _, _, _ => None                                  (* arrays of different shapes *)
  end.

(* _unique(x): nonzero(bincount(x[x >= 0])) ; [] for empty x *)
Definition unique (x : list Z) : list Z :=
  let x' := filter (fun v => 0 <=? v) x in
  filter (fun c => existsb (Z.eqb c) x') (zrange 0 (Z.to_nat (zmax_list x' + 1))).

(* _index_of(arr, lookup): tmp[arr] raises IndexError outside [-len(tmp), len(tmp)) *)
Definition index_of_chk (arr lookup : list Z) : option (list Z) :=
  let len := Z.of_nat (length (index_table lookup)) in
  if forallb (fun x => (- len <=? x) && (x <? len)) arr then Some (index_of arr lookup) else None.

(* ---------- the shift loop ---------- *)
(* what one iteration computes: the shift, mask[:-shift] after masking, spike_diff_b *)
Record step := mkstep { st_shift : nat; st_mask : list bool; st_diff : list Z }.
(* an increment performed by the code: spike a, spike b = a + shift, binned lag *)
Record event := mkev { ea : nat; eb : nat; ed : Z }.

Section Loop.
Variable t : list Z.      (* spike samples *)
Variable bs W : Z.        (* binsize in samples; winsize_bins // 2 *)
Let n := length t.

(* _diff_shifted(spike_samples, shift) *)
Definition diff_shifted (s : nat) : list Z := map2 Z.sub (skipn s t) (firstn (n - s) t).

Definition shift_step (s : nat) (mask : list bool) : list bool * step :=
  let db := map (fun x => x / bs) (diff_shifted s) in                   (* spike_diff // binsize *)
  let m := map2 (fun b d => if W <? d then false else b) (firstn (n - s) mask) db in
                                                                          (* mask[:-shift][diff_b > W] = False *)
  (m ++ skipn (n - s) mask, mkstep s m db).

(* while mask[:-shift].any(): ... shift += 1 ;  None = out of fuel *)
Fixpoint loop (fuel : nat) (s : nat) (mask : list bool) : option (list step) :=
  if existsb (fun b => b) (firstn (n - s) mask) then
    match fuel with
    | O => None
    | S f =>
        let r := shift_step s mask in
        match loop f (S s) (fst r) with
        | None => None
        | Some l => Some (snd r :: l)
        end
    end
  else Some [].

Definition ccg_steps : option (list step) := loop n 1 (repeat true n).

(* the increments of one iteration, as (a, a+shift, lag bin), in the order of the masked arrays *)
Definition step_events (st : step) : list event :=
  select (st_mask st)
         (map2 (fun a d => mkev a (a + st_shift st) d) (seq 0 (length (st_diff st))) (st_diff st)).
End Loop.

(* indices = ravel_multi_index((ci[:-shift][m], ci[+shift:][m], d[m]), shape) *)
Definition step_indices (ci : list Z) (nc nb : Z) (st : step) : option (list Z) :=
  let s := st_shift st in
  let m := st_mask st in
  ravel_all nc nb (select m (firstn (length ci - s) ci)) (select m (skipn s ci)) (select m (st_diff st)).

Definition accumulate (ci : list Z) (nc nb : Z) (steps : list step) : option (list Z) :=
  fold_left (fun acc st =>
               match acc with
               | None => None
               | Some arr => match step_indices ci nc nb st with
                             | None => None
                             | Some idx => increment arr idx
                             end
               end) steps (Some (repeat 0 (Z.to_nat (nc * nc * nb)))).

(* ---------- arrays of shape (nc, nc, nb) ---------- *)
Definition cube := list (list (list Z)).
Definition cell (C : cube) (i j : nat) : list Z := nth j (nth i C []) [].

(* C-order view of the flat array *)
Definition cube_of (nc nb : Z) (flat : list Z) : cube :=
  map (fun i => map (fun j => map (fun k => nthZ flat ((i * nc + j) * nb + k))
                                   (zrange 0 (Z.to_nat nb)))
                    (zrange 0 (Z.to_nat nc)))
      (zrange 0 (Z.to_nat nc)).

(* _symmetrize_correlograms: c[..., 0] = maximum(c[..., 0], c[..., 0].T);
   dstack((transpose(c[..., 1:][..., ::-1], (1, 0, 2)), c)) *)
Definition sym_centre (C : cube) (i j : nat) : list Z :=
  match cell C i j, cell C j i with
  | c0 :: r, c0' :: _ => Z.max c0 c0' :: r
  | c, _ => c
  end.

Definition symmetrize (C : cube) : option cube :=
  let nc := length C in
  if forallb (fun row => Nat.eqb (length row) nc) C then          (* assert n_clusters == _ *)
    Some (map (fun i => map (fun j => rev (tl (sym_centre C j i)) ++ sym_centre C i j) (seq 0 nc))
              (seq 0 nc))
  else None.

(* ---------- parameters ---------- *)
Definition clipQ (x lo hi : Q) : Q :=
  let y := if Qle_bool x lo then lo else x in if Qle_bool hi y then hi else y.
Definition clip_lo : Q := 1 # 100000.
Definition clip_hi : Q := 100000 # 1.
Definition clip5 (x : Q) : Q := clipQ x clip_lo clip_hi.            (* np.clip(x, 1e-5, 1e5) *)

(* binsize = int(sample_rate * bin_size) *)
Definition binsize_of (rate bin : Q) : Z := Qfloor (rate * clip5 bin).
(* winsize_bins // 2 = int(.5 * window_size / bin_size) *)
Definition half_of (bin win : Q) : Z := Qfloor ((1 # 2) * clip5 win / clip5 bin).

Definition clusters_of (labels : list Z) (ids : option (list Z)) : list Z :=
  match ids with None => unique labels | Some l => l end.

(* ---------- correlograms ---------- *)
Definition ccg_core (t ci : list Z) (nc bs W : Z) : option cube :=
  match ccg_steps t bs W with
  | None => None
  | Some steps =>
      match accumulate ci nc (W + 1) steps with
      | None => None
      | Some flat => Some (cube_of nc (W + 1) flat)
      end
  end.

Definition correlograms (t labels : list Z) (ids : option (list Z)) (rate bin win : Q)
           (symm : bool) : option cube :=
  if Qle_bool rate 0 then None else                                  (* assert sample_rate > 0 *)
  if negb (sortedZb t) then None else                                (* assert all(diff(times) >= 0) *)
  if negb (Nat.eqb (length t) (length labels)) then None else        (* assert shapes equal *)
  let bs := binsize_of rate bin in
  if bs <? 1 then None else                                          (* assert binsize >= 1 *)
  let W := half_of bin win in
  let clusters := clusters_of labels ids in
  match index_of_chk labels clusters with
  | None => None
  | Some ci =>
      match ccg_core t ci (zlen clusters) bs W with
      | None => None
      | Some C => if symm then symmetrize C else Some C
      end
  end.

(* ---------- firing_rate ---------- *)
Definition firing_rate (labels : list Z) (ids : option (list Z)) (bin : Q) (dur : option Q)
  : option (list (list Q)) :=
  let clusters := clusters_of labels ids in
  match index_of_chk labels clusters with
  | None => None
  | Some ci =>
      if Qle_bool bin 0 then None else                               (* assert bin_size > 0 *)
      if existsb (fun x => x <? 0) ci then None else                 (* bincount of a negative value *)
      let bc0 := bincount ci in
      let bc := bc0 ++ repeat 0 (length clusters - length bc0) in
      if negb (Nat.eqb (length bc) (length clusters)) then None else (* assert bc.shape == (n,) *)
      let d := match dur with
               | None => 1%Q
               | Some d => if Qeq_bool d 0 then 1%Q else d          (* duration or 1. *)
               end in
      let q := (bin / d)%Q in
      Some (map (fun bi => map (fun bj => (inject_Z (bj * bi) * q)%Q) bc) bc)
  end.
