(* C15/Proofs.v -- part 1: list vocabulary and the shift loop. *)
From Coq Require Import ZArith List Lia Bool Arith Permutation.
From PV Require Import Base.NpList Base.NpSearch C15.Model C15.Spec.
Import ListNotations.
Open Scope Z_scope.

(* ================= generic list lemmas ================= *)
Lemma nth_map_seq {X} (f : nat -> X) m a d : (a < m)%nat -> nth a (map f (seq 0 m)) d = f a.
Proof.
  intros Ha. rewrite (nth_indep _ d (f 0%nat)) by (rewrite map_length, seq_length; lia).
  rewrite map_nth, seq_nth by lia. reflexivity.
Qed.

Lemma nth_firstn_lt {X} (l : list X) k a d : (a < k)%nat -> nth a (firstn k l) d = nth a l d.
Proof.
  revert l a; induction k as [|k IH]; intros l a Ha; [lia|].
  destruct l as [|x r]; [destruct a; reflexivity|]. cbn [firstn]. destruct a as [|a]; cbn [nth]; [reflexivity|].
  apply IH; lia.
Qed.

Lemma nth_skipn_add {X} (l : list X) s a d : nth a (skipn s l) d = nth (a + s) l d.
Proof.
  assert (Hnil : forall k, nth k (@nil X) d = d) by (intros [|k]; reflexivity).
  revert l; induction s as [|s IH]; intros l; cbn [skipn].
  - now rewrite Nat.add_0_r.
  - destruct l as [|x r].
    + now rewrite !Hnil.
    + rewrite IH. replace (a + S s)%nat with (S (a + s)) by lia. reflexivity.
Qed.

Lemma firstn_as_map {X} (l : list X) k d : (k <= length l)%nat ->
  firstn k l = map (fun a => nth a l d) (seq 0 k).
Proof.
  intros Hk. apply (nth_ext _ _ d d).
  - rewrite firstn_length, map_length, seq_length. lia.
  - intros a Ha. rewrite firstn_length in Ha. rewrite nth_firstn_lt by lia. now rewrite nth_map_seq by lia.
Qed.

Lemma skipn_as_map {X} (l : list X) s d :
  skipn s l = map (fun a => nth (a + s) l d) (seq 0 (length l - s)).
Proof.
  apply (nth_ext _ _ d d).
  - now rewrite skipn_length, map_length, seq_length.
  - intros a Ha. rewrite skipn_length in Ha. rewrite nth_skipn_add. now rewrite nth_map_seq by lia.
Qed.

Lemma map2_map {X A B C} (f : A -> B -> C) (g : X -> A) (h : X -> B) l :
  map2 f (map g l) (map h l) = map (fun x => f (g x) (h x)) l.
Proof. induction l as [|x r IH]; cbn [map map2]; [reflexivity|]. now rewrite IH. Qed.

Lemma select_map {X Y} (p : X -> bool) (g : X -> Y) l :
  select (map p l) (map g l) = map g (filter p l).
Proof.
  induction l as [|x r IH]; cbn [map select filter]; [reflexivity|].
  destruct (p x); cbn [map]; now rewrite IH.
Qed.

Lemma flat_map_nil {X Y} (f : X -> list Y) l : (forall x, In x l -> f x = []) -> flat_map f l = [].
Proof.
  induction l as [|x r IH]; intros H; cbn [flat_map]; [reflexivity|].
  rewrite H by now left. rewrite IH; [reflexivity|]. intros y Hy; apply H; now right.
Qed.

Lemma filter_nil {X} (p : X -> bool) l : (forall x, In x l -> p x = false) -> filter p l = [].
Proof.
  induction l as [|x r IH]; intros H; cbn [filter]; [reflexivity|].
  rewrite (H x) by now left. apply IH. intros y Hy; apply H; now right.
Qed.

Lemma flat_map_seq_cut {Y} (f : nat -> list Y) a k m :
  (k <= m)%nat -> (forall s, (a + k <= s)%nat -> f s = []) ->
  flat_map f (seq a m) = flat_map f (seq a k).
Proof.
  intros Hk Hnil. replace m with (k + (m - k))%nat by lia. rewrite seq_app, flat_map_app.
  rewrite (flat_map_nil f (seq (a + k) (m - k))); [apply app_nil_r|].
  intros s Hs. apply in_seq in Hs. apply Hnil. lia.
Qed.

Lemma existsb_id_false m (mask : list bool) :
  existsb (fun b => b) (firstn m mask) = false ->
  forall a, (a < m)%nat -> (a < length mask)%nat -> nth a mask false = false.
Proof.
  revert mask; induction m as [|m IH]; intros mask H a Ha Hl; [lia|].
  destruct mask as [|b r]; [cbn in Hl; lia|]. cbn [firstn existsb] in H.
  apply orb_false_iff in H as [Hb Hr]. destruct a as [|a]; cbn [nth]; [exact Hb|].
  apply IH; [exact Hr|lia|cbn in Hl; lia].
Qed.

Lemma existsb_id_true m (mask : list bool) :
  existsb (fun b => b) (firstn m mask) = true -> (0 < m)%nat.
Proof. destruct m; cbn; [discriminate|lia]. Qed.

Lemma nth_repeat_true m a : (a < m)%nat -> nth a (repeat true m) false = true.
Proof. revert a; induction m as [|m IH]; intros a Ha; [lia|]. destruct a; cbn; [reflexivity|]. apply IH; lia. Qed.

(* ================= the shift loop ================= *)
Section Loop.
Variable t : list Z.
Variable bs W : Z.
Let n := length t.

(* the increments at shift s: every a with a + s < n whose lag bin is within the half window *)
Definition events_at (s : nat) : list event :=
  map (fun a => mkev a (a + s) (D t bs a (a + s)))
      (filter (fun a => D t bs a (a + s) <=? W) (seq 0 (n - s))).

(* what iteration s of the while loop computes *)
Definition step_at (s : nat) : step :=
  mkstep s (map (fun a => D t bs a (a + s) <=? W) (seq 0 (n - s)))
           (map (fun a => D t bs a (a + s)) (seq 0 (n - s))).

Lemma step_events_at s : step_events (step_at s) = events_at s.
Proof.
  unfold step_events, step_at, events_at. cbn [st_mask st_diff st_shift].
  rewrite map_length, seq_length.
  rewrite <- (map_id (seq 0 (n - s))) at 2. rewrite map2_map.
  apply select_map.
Qed.

Hypothesis Hbs : 0 < bs.
Hypothesis HW : 0 <= W.
Hypothesis Hsorted : forall i j, (i <= j < n)%nat -> nth i t 0 <= nth j t 0.

Lemma D_mono a b c : (a <= b <= c)%nat -> (c < n)%nat -> D t bs a b <= D t bs a c.
Proof.
  intros H Hc. unfold D. apply Z.div_le_mono; [lia|].
  pose proof (Hsorted b c ltac:(lia)). lia.
Qed.

Lemma D_refl a : D t bs a a = 0.
Proof. unfold D. rewrite Z.sub_diag. apply Z.div_0_l. lia. Qed.

Lemma D_nonneg a b : (a <= b < n)%nat -> 0 <= D t bs a b.
Proof. intros H. rewrite <- (D_refl a). apply D_mono; lia. Qed.

(* invariant at the start of iteration s: mask[a] says whether the lag at shift s-1 was inside *)
Definition Inv (s : nat) (mask : list bool) : Prop :=
  length mask = n /\
  forall a, (a + (s - 1) < n)%nat -> nth a mask false = (D t bs a (a + (s - 1)) <=? W).

Lemma diff_shifted_as_map s :
  diff_shifted t s = map (fun a => nth (a + s) t 0 - nth a t 0) (seq 0 (n - s)).
Proof.
  unfold diff_shifted. fold n. rewrite (skipn_as_map t s 0). fold n.
  rewrite (firstn_as_map t (n - s) 0) by (unfold n; lia). apply map2_map.
Qed.

Lemma shift_step_snd s mask : (1 <= s)%nat -> Inv s mask -> snd (shift_step t bs W s mask) = step_at s.
Proof.
  intros Hs [Hlen Hinv]. unfold shift_step, step_at. cbn [snd]. fold n.
  rewrite diff_shifted_as_map, map_map.
  change (map (fun x => (nth (x + s) t 0 - nth x t 0) / bs) (seq 0 (n - s)))
    with (map (fun a => D t bs a (a + s)) (seq 0 (n - s))).
  f_equal.
  rewrite (firstn_as_map mask (n - s) false) by lia. rewrite map2_map.
  apply map_ext_in. intros a Ha. apply in_seq in Ha.
  rewrite Hinv by lia.
  pose proof (D_mono a (a + (s - 1)) (a + s) ltac:(lia) ltac:(lia)).
  destruct (W <? D t bs a (a + s)) eqn:E1; destruct (D t bs a (a + s) <=? W) eqn:E2;
    destruct (D t bs a (a + (s - 1)) <=? W) eqn:E3; try reflexivity; lia.
Qed.

Lemma shift_step_inv s mask : (1 <= s)%nat -> Inv s mask -> Inv (S s) (fst (shift_step t bs W s mask)).
Proof.
  intros Hs HI. pose proof (shift_step_snd s mask Hs HI) as Hsnd. pose proof HI as [Hlen Hinv].
  unfold shift_step in *. cbn [fst snd] in *. fold n in Hsnd |- *.
  unfold step_at in Hsnd. injection Hsnd as Hm _. rewrite Hm. split.
  - rewrite app_length, map_length, seq_length, skipn_length. lia.
  - intros a Ha. replace (S s - 1)%nat with s in * by lia.
    rewrite app_nth1 by (rewrite map_length, seq_length; lia).
    now rewrite nth_map_seq by lia.
Qed.

Lemma stopped_no_events s mask : (1 <= s)%nat -> Inv s mask ->
  existsb (fun b => b) (firstn (n - s) mask) = false ->
  forall s', (s <= s')%nat -> events_at s' = [].
Proof.
  intros Hs [Hlen Hinv] E s' Hs'. unfold events_at.
  rewrite filter_nil; [reflexivity|].
  intros a Ha. apply in_seq in Ha.
  pose proof (existsb_id_false _ _ E a ltac:(lia) ltac:(lia)) as Hm.
  rewrite Hinv in Hm by lia.
  pose proof (D_mono a (a + (s - 1)) (a + s') ltac:(lia) ltac:(lia)). lia.
Qed.

Lemma loop_spec : forall fuel s mask, (1 <= s)%nat -> Inv s mask -> (n < fuel + s)%nat ->
  exists k, loop t bs W fuel s mask = Some (map step_at (seq s k)) /\ (s + k <= Nat.max s n)%nat /\
            forall s', (s + k <= s')%nat -> events_at s' = [].
Proof.
  induction fuel as [|f IH]; intros s mask Hs HI Hf; cbn [loop]; fold n;
    destruct (existsb (fun b => b) (firstn (n - s) mask)) eqn:E.
  - apply existsb_id_true in E. lia.
  - exists 0%nat. split; [reflexivity|]. split; [lia|]. intros s' Hs'. apply (stopped_no_events s mask Hs HI E). lia.
  - apply existsb_id_true in E.
    pose proof (shift_step_snd s mask Hs HI) as Hsnd. pose proof (shift_step_inv s mask Hs HI) as HI'.
    destruct (IH (S s) (fst (shift_step t bs W s mask)) ltac:(lia) HI' ltac:(lia)) as (k & -> & Hk & Hnil).
    exists (S k). rewrite Hsnd. split; [reflexivity|]. split; [lia|].
    intros s' Hs'. apply Hnil. lia.
  - exists 0%nat. split; [reflexivity|]. split; [lia|]. intros s' Hs'. apply (stopped_no_events s mask Hs HI E). lia.
Qed.

Definition all_events : list event := flat_map events_at (seq 1 (n - 1)).

Lemma ccg_steps_spec :
  exists k, ccg_steps t bs W = Some (map step_at (seq 1 k)) /\ (k <= n - 1)%nat /\
            flat_map events_at (seq 1 k) = all_events.
Proof.
  unfold ccg_steps. fold n.
  destruct (loop_spec n 1 (repeat true n) ltac:(lia)) as (k & Hk & Hle & Hnil).
  - split; [apply repeat_length|]. intros a Ha. rewrite nth_repeat_true by lia.
    replace (a + (1 - 1))%nat with a by lia. rewrite D_refl. symmetry. apply Z.leb_le. exact HW.
  - lia.
  - exists k. split; [exact Hk|].
    assert (k <= n - 1)%nat as Hkn.
    { destruct k as [|k]; [lia|]. lia. }
    split; [exact Hkn|]. unfold all_events. symmetry. apply flat_map_seq_cut; [exact Hkn|exact Hnil].
Qed.

(* the increments, in the order the code performs them, are exactly the events of all shifts *)
Lemma loop_events :
  exists steps, ccg_steps t bs W = Some steps /\ concat (map step_events steps) = all_events.
Proof.
  destruct ccg_steps_spec as (k & Hk & _ & Hall). exists (map step_at (seq 1 k)). split; [exact Hk|].
  rewrite map_map, <- Hall, flat_map_concat_map. f_equal. apply map_ext. intros s. apply step_events_at.
Qed.

(* membership: exactly the pairs a < b < n whose lag bin is within the half window *)
Lemma events_mem a b d :
  In (mkev a b d) all_events <-> (a < b < n)%nat /\ d = D t bs a b /\ d <= W.
Proof.
  unfold all_events. rewrite in_flat_map. split.
  - intros (s & Hs & Hin). apply in_seq in Hs. unfold events_at in Hin.
    apply in_map_iff in Hin as (a' & Heq & Hin). apply filter_In in Hin as [Ha' E].
    apply in_seq in Ha'. injection Heq as -> <- <-. repeat split; lia.
  - intros (Hab & -> & HdW). exists (b - a)%nat. split; [apply in_seq; lia|].
    unfold events_at. apply in_map_iff. exists a. split.
    + replace (a + (b - a))%nat with b by lia. reflexivity.
    + apply filter_In. split; [apply in_seq; lia|].
      replace (a + (b - a))%nat with b by lia. lia.
Qed.
End Loop.
