From Coq Require Import ZArith List Lia Bool.
From PV Require Import C15.Model C15.Spec.
Import ListNotations.
Open Scope Z_scope.
Lemma tmp_example : ccg_steps [0;1] 1 1 <> None.
Proof. vm_compute. discriminate. Qed.
