(* C15/Proofs5.v -- stage 3: completeness of the boolean checkers (Spec -> checker = true), the bound on the
   counts (no entry exceeds n(n-1)/2, so the code's int32 array cannot wrap for n <= 65536; tight), the
   error exits of the parameter asserts and the `duration or 1.` default of firing_rate. *)
From Coq Require Import ZArith List Lia Bool Arith Permutation QArith Qround.
From PV Require Import Base.NpList Base.NpSearch C15.Model C15.Spec C15.Proofs C15.Proofs2 C15.Proofs3 C15.Proofs4.
Import ListNotations.
Open Scope Z_scope.

(* ================= extensionality of cubes ================= *)
Lemma zlist_eqb_refl a : zlist_eqb a a = true.
Proof. induction a as [|x a IH]; [reflexivity|]. cbn [zlist_eqb]. now rewrite Z.eqb_refl, IH. Qed.

Lemma list_eqb_refl {X} (eqb : X -> X -> bool) : (forall x, eqb x x = true) -> forall a, list_eqb eqb a a = true.
Proof. intros H a. induction a as [|x a IH]; [reflexivity|]. cbn [list_eqb]. now rewrite H, IH. Qed.

Lemma cube_eqb_refl C : cube_eqb C C = true.
Proof. unfold cube_eqb. apply list_eqb_refl. intros r. apply list_eqb_refl. apply zlist_eqb_refl. Qed.

Lemma shape_row n1 n2 n3 C i : Shape n1 n2 n3 C -> (i < n1)%nat -> length (nth i C []) = n2.
Proof.
  intros [H1 H2] Hi. rewrite Forall_forall in H2. destruct (H2 (nth i C [])) as [Hr _]; [apply nth_In; lia|exact Hr].
Qed.

Lemma cube_ext n1 n2 n3 (C C' : cube) : Shape n1 n2 n3 C -> Shape n1 n2 n3 C' ->
  (forall i j k, (i < n1)%nat -> (j < n2)%nat -> (k < n3)%nat -> nth k (cell C i j) 0 = nth k (cell C' i j) 0) ->
  C = C'.
Proof.
  intros S1 S2 H. apply (nth_ext C C' [] []).
  - destruct S1 as [L1 _], S2 as [L2 _]. congruence.
  - intros i Hi. destruct S1 as [L1 F1] eqn:E1. rewrite L1 in Hi. clear E1.
    apply (nth_ext _ _ [] []).
    + rewrite (shape_row _ _ _ _ _ (conj L1 F1) Hi), (shape_row _ _ _ _ _ S2 Hi). reflexivity.
    + intros j Hj. rewrite (shape_row _ _ _ _ _ (conj L1 F1) Hi) in Hj.
      apply (nth_ext _ _ 0 0).
      * pose proof (shape_cell _ _ _ C i j (conj L1 F1) Hi Hj) as A. pose proof (shape_cell _ _ _ C' i j S2 Hi Hj) as B.
        unfold cell in A, B. congruence.
      * intros k Hk. pose proof (shape_cell _ _ _ C i j (conj L1 F1) Hi Hj) as A. unfold cell in A. rewrite A in Hk.
        apply (H i j k Hi Hj Hk).
Qed.

(* ================= completeness: one-sided ================= *)
Lemma onesided_b_complete' t labels ids bs W C : length labels = length t -> 0 <= W ->
  OneSided_Spec t labels ids bs W C -> onesided_b t labels ids bs W C = true.
Proof.
  intros Hlen HW HC. pose proof (expected_cube_spec t labels ids bs W Hlen HW) as HE.
  unfold onesided_b.
  replace C with (expected_cube t labels ids bs W); [apply cube_eqb_refl|].
  destruct HC as [SC EC], HE as [SE EE].
  apply (cube_ext _ _ _ _ _ SE SC). intros i j k Hi Hj Hk.
  rewrite EC, EE by (try assumption; lia). reflexivity.
Qed.

(* ================= completeness: symmetrised ================= *)
Lemma shape_b_complete n1 n2 n3 C : Shape n1 n2 n3 C -> shape_b n1 n2 n3 C = true.
Proof.
  intros [H1 H2]. unfold shape_b. apply andb_true_iff. split; [now apply Nat.eqb_eq|].
  apply forallb_forall. intros row Hr. rewrite Forall_forall in H2. destruct (H2 row Hr) as [H3 H4].
  apply andb_true_iff. split; [now apply Nat.eqb_eq|]. apply forallb_forall. intros c Hc.
  rewrite Forall_forall in H4. apply Nat.eqb_eq. now apply H4.
Qed.

Lemma all_ij_complete nc f : (forall i j, (i < nc)%nat -> (j < nc)%nat -> f i j = true) -> all_ij nc f = true.
Proof.
  intros H. unfold all_ij. apply forallb_forall. intros i Hi. apply forallb_forall. intros j Hj.
  apply in_seq in Hi, Hj. apply H; lia.
Qed.

Lemma zlist_eqb_ext a b : length a = length b -> (forall k, (k < length a)%nat -> nth k a 0 = nth k b 0) ->
  zlist_eqb a b = true.
Proof. intros L H. rewrite (nth_ext a b 0 0 L H). apply zlist_eqb_refl. Qed.

Lemma sym_checks_complete nc w E S' : Shape nc nc (S w) E -> Sym_Spec nc w E S' ->
  shape_b nc nc (2 * w + 1) S' = true /\ sym_pos_b E S' nc w = true /\ sym_mirror_b S' nc = true /\
  sym_centre_b E S' nc w = true.
Proof.
  intros SE [SS H]. split; [now apply shape_b_complete|]. split; [|split].
  - apply all_ij_complete. intros i j Hi Hj. destruct (H i j Hi Hj) as (Pos & _).
    pose proof (shape_cell _ _ _ S' i j SS Hi Hj) as LS. pose proof (shape_cell _ _ _ E i j SE Hi Hj) as LE.
    apply zlist_eqb_ext.
    + rewrite skipn_length, LS. destruct (cell E i j) as [|e r]; [discriminate|]. cbn in LE |- *. lia.
    + intros k Hk. rewrite skipn_length, LS in Hk. rewrite nth_skipn_add, nth_tl.
      replace (k + (w + 1))%nat with (w + S k)%nat by lia. apply Pos. lia.
  - apply all_ij_complete. intros i j Hi Hj. destruct (H i j Hi Hj) as (_ & _ & _ & Mir).
    pose proof (shape_cell _ _ _ S' i j SS Hi Hj) as LS. pose proof (shape_cell _ _ _ S' j i SS Hj Hi) as LS'.
    apply zlist_eqb_ext.
    + rewrite rev_length. lia.
    + intros k Hk. rewrite LS in Hk. rewrite rev_nth by lia. rewrite LS'. rewrite Mir by lia. f_equal. lia.
  - apply all_ij_complete. intros i j Hi Hj. destruct (H i j Hi Hj) as (_ & _ & Cen & _).
    pose proof (shape_cell _ _ _ S' i j SS Hi Hj) as LS. pose proof (shape_cell _ _ _ E i j SE Hi Hj) as LE.
    pose proof (shape_cell _ _ _ E j i SE Hj Hi) as LE'.
    destruct (nth_error (cell S' i j) w) as [c|] eqn:E1.
    + destruct (cell E i j) as [|e0 r0]; [discriminate|]. destruct (cell E j i) as [|e0' r0']; [discriminate|].
      cbn [nth] in Cen. apply Z.eqb_eq. rewrite <- Cen. symmetry. now apply nth_error_nth.
    + apply nth_error_None in E1. lia.
Qed.

(* ================= completeness: firing rate ================= *)
Lemma qlist_eqb_complete : forall a b, length a = length b ->
  (forall i, (i < length a)%nat -> (nth i a 0 == nth i b 0)%Q) -> list_eqb Qeq_bool a b = true.
Proof.
  induction a as [|x a IH]; intros [|y b] L H; cbn in L; try discriminate; [reflexivity|].
  cbn [list_eqb]. apply andb_true_iff. split.
  - apply Qeq_bool_iff. apply (H 0%nat). cbn. lia.
  - apply IH; [lia|]. intros i Hi. apply (H (S i)). cbn. lia.
Qed.

Lemma qqlist_eqb_complete : forall a b, length a = length b ->
  (forall i, (i < length a)%nat -> length (nth i a []) = length (nth i b []) /\
             forall j, (j < length (nth i a []))%nat -> (nth j (nth i a []) 0 == nth j (nth i b []) 0)%Q) ->
  list_eqb (list_eqb Qeq_bool) a b = true.
Proof.
  induction a as [|x a IH]; intros [|y b] L H; cbn in L; try discriminate; [reflexivity|].
  cbn [list_eqb]. apply andb_true_iff. split.
  - destruct (H 0%nat ltac:(cbn; lia)) as [L0 N0]. cbn [nth] in L0, N0. now apply qlist_eqb_complete.
  - apply IH; [lia|]. intros i Hi. apply (H (S i)). cbn. lia.
Qed.

Lemma rate_b_complete labels ids bin d R : Rate_Spec labels ids bin d R -> rate_b labels ids bin d R = true.
Proof.
  intros (L & F & N). unfold rate_b, expected_rate. apply qqlist_eqb_complete.
  - now rewrite map_length.
  - intros i Hi. rewrite L in Hi. rewrite Forall_forall in F.
    assert (Lr : length (nth i R []) = length ids) by (apply F, nth_In; lia).
    rewrite (nth_map' _ ids i (-1) []) by lia. split; [now rewrite map_length|].
    intros j Hj. rewrite Lr in Hj. rewrite (nth_map' _ ids j (-1) 0%Q) by lia. now apply N.
Qed.

(* ================= the counts are bounded: no int32 wrap-around ================= *)
Lemma length_all_pairs n : 2 * Z.of_nat (length (all_pairs n)) = Z.of_nat n * (Z.of_nat n - 1).
Proof.
  induction n as [|n IH]; [reflexivity|].
  rewrite all_pairs_S, app_length, !map_length, seq_length. lia.
Qed.

Lemma filter_length_le' {X} (p : X -> bool) l : (length (filter p l) <= length l)%nat.
Proof. induction l as [|x l IH]; [cbn; lia|]. cbn [filter]. destruct (p x); cbn [length]; lia. Qed.

Lemma pair_count_bound t bs labels x y k :
  0 <= pair_count t bs labels x y k /\
  2 * pair_count t bs labels x y k <= Z.of_nat (length t) * (Z.of_nat (length t) - 1).
Proof.
  unfold pair_count. split; [lia|]. rewrite <- length_all_pairs.
  pose proof (filter_length_le'
    (fun p => (nth (fst p) labels (-1) =? x) && (nth (snd p) labels (-1) =? y) && (D t bs (fst p) (snd p) =? k))
    (all_pairs (length t))). lia.
Qed.

(* 2^31 - 1 = 2147483647 >= 65536 * 65535 / 2 = 2147450880 *)
Lemma onesided_count_bound t labels ids bs W C : OneSided_Spec t labels ids bs W C ->
  forall i j k, (i < length ids)%nat -> (j < length ids)%nat -> Z.of_nat k <= W ->
    0 <= nth k (cell C i j) 0 /\
    2 * nth k (cell C i j) 0 <= Z.of_nat (length t) * (Z.of_nat (length t) - 1) /\
    (Z.of_nat (length t) <= 65536 -> nth k (cell C i j) 0 < 2 ^ 31).
Proof.
  intros [_ H] i j k Hi Hj Hk. rewrite H by assumption.
  destruct (pair_count_bound t bs labels (nth i ids (-1)) (nth j ids (-1)) (Z.of_nat k)) as [A B].
  split; [exact A|]. split; [exact B|]. intros Hn.
  assert (Z.of_nat (length t) * (Z.of_nat (length t) - 1) <= 65536 * 65535).
  { destruct (Z.eq_dec (Z.of_nat (length t)) 0) as [E|E]; [rewrite E; lia|].
    apply Z.mul_le_mono_nonneg; lia. }
  change (2 ^ 31) with 2147483648. lia.
Qed.

Lemma sym_count_bound t labels ids bs W C S' : 0 <= W -> OneSided_Spec t labels ids bs W C ->
  Sym_Spec (length ids) (Z.to_nat W) C S' ->
  forall i j k, (i < length ids)%nat -> (j < length ids)%nat -> (k <= 2 * Z.to_nat W)%nat ->
    0 <= nth k (cell S' i j) 0 /\
    2 * nth k (cell S' i j) 0 <= Z.of_nat (length t) * (Z.of_nat (length t) - 1) /\
    (Z.of_nat (length t) <= 65536 -> nth k (cell S' i j) 0 < 2 ^ 31).
Proof.
  intros HW HC [_ HS] i j k Hi Hj Hk. destruct (HS i j Hi Hj) as (Pos & Neg & Cen & _).
  set (w := Z.to_nat W) in *.
  destruct (lt_eq_lt_dec k w) as [[Hlt|Heq]|Hgt].
  - replace k with (w - (w - k))%nat by lia. rewrite Neg by lia.
    apply (onesided_count_bound _ _ _ _ _ _ HC); try assumption. unfold w in *. lia.
  - subst k. rewrite Cen.
    pose proof (onesided_count_bound _ _ _ _ _ _ HC i j 0%nat Hi Hj ltac:(cbn; lia)) as (A1 & A2 & A3).
    pose proof (onesided_count_bound _ _ _ _ _ _ HC j i 0%nat Hj Hi ltac:(cbn; lia)) as (B1 & B2 & B3).
    split; [lia|]. split; [lia|]. intros Hn. specialize (A3 Hn). specialize (B3 Hn). lia.
  - replace k with (w + (k - w))%nat by lia. rewrite Pos by lia.
    apply (onesided_count_bound _ _ _ _ _ _ HC); try assumption. unfold w in *. lia.
Qed.

(* tightness: n coincident spikes of one cluster put all n(n-1)/2 pairs into one entry *)
Lemma nth_repeat' {X} (x d : X) n k : (k < n)%nat -> nth k (repeat x n) d = x.
Proof. revert k. induction n as [|n IH]; intros k Hk; [lia|]. destruct k; [reflexivity|]. cbn. apply IH. lia. Qed.

Lemma filter_all {X} (p : X -> bool) l : (forall x, In x l -> p x = true) -> filter p l = l.
Proof.
  induction l as [|x l IH]; intros H; [reflexivity|]. cbn [filter]. rewrite (H x) by now left.
  f_equal. apply IH. intros y Hy. apply H. now right.
Qed.

Lemma pair_count_coincident (s c bs : Z) (n : nat) :
  2 * pair_count (repeat s n) bs (repeat c n) c c 0 = Z.of_nat n * (Z.of_nat n - 1).
Proof.
  unfold pair_count. rewrite repeat_length. rewrite filter_all; [apply length_all_pairs|].
  intros [a b] Hab. apply in_all_pairs in Hab. cbn [fst snd]. unfold D.
  rewrite !nth_repeat' by lia. rewrite Z.eqb_refl, Z.sub_diag. cbn [andb]. apply Z.eqb_eq. apply Zdiv_0_l.
Qed.

(* ================= error exits of the asserts on the parameters ================= *)
Lemma correlograms_rejects t labels ids rate bin win symm :
  (rate <= 0)%Q \/ length t <> length labels \/ binsize_of rate bin < 1 ->
  correlograms t labels ids rate bin win symm = None.
Proof.
  intros H. unfold correlograms.
  destruct (Qle_bool rate 0) eqn:E1; [reflexivity|].
  destruct (negb (sortedZb t)); [reflexivity|].
  destruct (Nat.eqb (length t) (length labels)) eqn:E3; cbn [negb]; [|reflexivity].
  destruct (binsize_of rate bin <? 1) eqn:E4; [reflexivity|].
  exfalso. destruct H as [H|[H|H]].
  - apply Qle_bool_iff in H. congruence.
  - apply Nat.eqb_eq in E3. contradiction.
  - apply Z.ltb_ge in E4. lia.
Qed.

Lemma firing_rate_rejects labels ids bin dur : (bin <= 0)%Q -> firing_rate labels ids bin dur = None.
Proof.
  intros H. unfold firing_rate. destruct (index_of_chk labels (clusters_of labels ids)); [|reflexivity].
  apply Qle_bool_iff in H. now rewrite H.
Qed.

(* ================= `duration or 1.` ================= *)
Lemma eff_dur_nonzero dur : ~ (eff_dur dur == 0)%Q.
Proof.
  unfold eff_dur. destruct dur as [d|]; [|discriminate].
  destruct (Qeq_bool d 0) eqn:E; [discriminate|]. intros H. apply Qeq_bool_iff in H. congruence.
Qed.

Lemma firing_rate_zero_duration labels ids bin d : (d == 0)%Q ->
  firing_rate labels ids bin (Some d) = firing_rate labels ids bin None /\
  firing_rate labels ids bin None = firing_rate labels ids bin (Some 1%Q).
Proof.
  intros H. apply Qeq_bool_iff in H. unfold firing_rate. rewrite H. split; reflexivity.
Qed.

(* the symmetrised clause of the statement, w.r.t. ANY array satisfying the one-sided clause, makes every
   check of Corr.v pass (the checks are evaluated against expected_cube, which is that array) *)
Lemma sym_checks_complete' t labels ids bs W C S' : length labels = length t -> 0 <= W ->
  OneSided_Spec t labels ids bs W C -> Sym_Spec (length ids) (Z.to_nat W) C S' ->
  let E := expected_cube t labels ids bs W in
  let nc := length ids in let w := Z.to_nat W in
  shape_b nc nc (2 * w + 1) S' = true /\ sym_pos_b E S' nc w = true /\ sym_mirror_b S' nc = true /\
  sym_centre_b E S' nc w = true.
Proof.
  intros Hlen HW HC HS E nc w.
  pose proof (onesided_b_complete' t labels ids bs W C Hlen HW HC) as Hb. apply cube_eqb_eq in Hb. subst C.
  apply sym_checks_complete; [|exact HS].
  destruct (expected_cube_spec t labels ids bs W Hlen HW) as [Sh _].
  replace (S w) with (Z.to_nat (W + 1)) by (unfold w; lia). exact Sh.
Qed.
