(* C15/Proofs4.v -- part 4: soundness of the boolean checkers that Corr.v evaluates on the observed output
   (a checker returning true implies the declarative Spec; so a flagged clause 21/23/24 is a kernel-evaluated
   refutation of the Spec only in the direction "not checker"; the useful direction proved here is
   checker = true -> Spec, i.e. a silent run certifies the Spec on every explored case). *)
From Coq Require Import ZArith List Lia Bool Arith Permutation QArith Qround.
From PV Require Import Base.NpList Base.NpSearch C15.Model C15.Spec C15.Proofs C15.Proofs2 C15.Proofs3.
Import ListNotations.
Open Scope Z_scope.

(* ---------- list equality checkers ---------- *)
Lemma zlist_eqb_eq a b : zlist_eqb a b = true -> a = b.
Proof.
  revert b; induction a as [|x a IH]; intros [|y b] H; cbn in H; try discriminate; [reflexivity|].
  apply andb_true_iff in H as [H1 H2]. apply Z.eqb_eq in H1. subst. f_equal. now apply IH.
Qed.

Lemma list_eqb_eq {X} (eqb : X -> X -> bool) : (forall x y, eqb x y = true -> x = y) ->
  forall a b, list_eqb eqb a b = true -> a = b.
Proof.
  intros Hx. induction a as [|x a IH]; intros [|y b] H; cbn in H; try discriminate; [reflexivity|].
  apply andb_true_iff in H as [H1 H2]. apply Hx in H1. subst. f_equal. now apply IH.
Qed.

Lemma cube_eqb_eq a b : cube_eqb a b = true -> a = b.
Proof. apply list_eqb_eq, list_eqb_eq, zlist_eqb_eq. Qed.

(* ---------- all_pairs by recursion on n ---------- *)
Definition shift2 (p : nat * nat) : nat * nat := (S (fst p), S (snd p)).

Lemma map_flat_map {X Y Z'} (g : Y -> Z') (f : X -> list Y) l : map g (flat_map f l) = flat_map (fun x => map g (f x)) l.
Proof. induction l as [|x l IH]; cbn [flat_map map]; [reflexivity|]. now rewrite map_app, IH. Qed.

Lemma flat_map_map {X Y Z'} (f : Y -> list Z') (g : X -> Y) l : flat_map f (map g l) = flat_map (fun x => f (g x)) l.
Proof. induction l as [|x l IH]; cbn [flat_map map]; [reflexivity|]. now rewrite IH. Qed.

Lemma all_pairs_S n : all_pairs (S n) = map (pair 0%nat) (seq 1 n) ++ map shift2 (all_pairs n).
Proof.
  unfold all_pairs. cbn [seq flat_map]. replace (S n - 1)%nat with n by lia. f_equal.
  rewrite <- seq_shift, flat_map_map, map_flat_map. apply flat_map_ext. intros a.
  replace (S n - S (S a))%nat with (n - S a)%nat by lia.
  rewrite <- seq_shift, !map_map. reflexivity.
Qed.

(* ---------- the checker's pair enumeration counts the same pairs ---------- *)
Section Keys.
Variable bs W : Z.
Variables x y k : Z.
Hypothesis Hk : k <= W.

Definition dflt : Z * Z := (0, -1).
Definition cond (p q : Z * Z) : bool := (snd p =? x) && (snd q =? y) && ((fst q - fst p) / bs =? k).

(* pair_count on the zipped list *)
Definition pc (l : list (Z * Z)) : nat :=
  length (filter (fun p => cond (nth (fst p) l dflt) (nth (snd p) l dflt)) (all_pairs (length l))).

Definition key_match (q : key) : bool := (kx q =? x) && (ky q =? y) && (kd q =? k).

Definition first_keys (p : Z * Z) (r : list (Z * Z)) : list key :=
  flat_map (fun q => if (fst q - fst p) / bs <=? W then [mkkey (snd p) (snd q) ((fst q - fst p) / bs)] else []) r.

Lemma count_first p r : length (filter key_match (first_keys p r)) = length (filter (cond p) r).
Proof.
  unfold first_keys. induction r as [|q r IH]; [reflexivity|]. cbn [flat_map]. rewrite filter_app, app_length, IH.
  cbn [filter]. unfold cond at 2.
  destruct ((fst q - fst p) / bs <=? W) eqn:E; cbn [filter length].
  - unfold key_match at 1. cbn [kx ky kd].
    destruct ((snd p =? x) && (snd q =? y) && ((fst q - fst p) / bs =? k)); cbn [length]; lia.
  - replace ((fst q - fst p) / bs =? k) with false by lia. rewrite andb_false_r. cbn [length]. lia.
Qed.

Lemma filter_seq_nth {X} (P : X -> bool) (r : list X) d :
  length (filter (fun i => P (nth i r d)) (seq 0 (length r))) = length (filter P r).
Proof.
  transitivity (length (filter P (map (fun i => nth i r d) (seq 0 (length r))))).
  - now rewrite filter_map_comm, map_length.
  - f_equal. f_equal. rewrite <- (firstn_as_map r (length r) d) by lia. apply firstn_all.
Qed.

Lemma pc_cons p r : pc (p :: r) = (length (filter (cond p) r) + pc r)%nat.
Proof.
  unfold pc. cbn [length]. rewrite all_pairs_S, filter_app, app_length. f_equal.
  - rewrite <- seq_shift, map_map, filter_map_comm, map_length. cbn [fst snd nth].
    apply (filter_seq_nth (cond p) r dflt).
  - rewrite filter_map_comm, map_length. reflexivity.
Qed.

Lemma count_pair_keys l : length (filter key_match (pair_keys bs W l)) = pc l.
Proof.
  induction l as [|p r IH]; [reflexivity|].
  change (pair_keys bs W (p :: r)) with (first_keys p r ++ pair_keys bs W r).
  rewrite filter_app, app_length, count_first, IH. symmetry. apply pc_cons.
Qed.
End Keys.

Lemma count_key_pair_count t labels bs W x y k : length labels = length t -> k <= W ->
  count_key (pair_keys bs W (combine t labels)) x y k = pair_count t bs labels x y k.
Proof.
  intros Hlen Hk. unfold count_key, pair_count. f_equal.
  change (fun q : key => (kx q =? x) && (ky q =? y) && (kd q =? k)) with (key_match x y k).
  rewrite (count_pair_keys bs W x y k Hk). unfold pc. rewrite combine_length, Hlen, Nat.min_id. f_equal.
  apply filter_ext. intros [a b]. cbn [fst snd]. unfold cond, dflt, D.
  rewrite !combine_nth by (symmetry; exact Hlen). reflexivity.
Qed.

(* ---------- the expected cube satisfies the one-sided Spec; checker soundness ---------- *)
Lemma expected_cube_spec t labels ids bs W : length labels = length t -> 0 <= W ->
  OneSided_Spec t labels ids bs W (expected_cube t labels ids bs W).
Proof.
  intros Hlen HW. unfold expected_cube. split.
  - split; [now rewrite map_length|]. apply Forall_forall. intros row Hr. apply in_map_iff in Hr as (x & <- & _).
    split; [now rewrite map_length|]. apply Forall_forall. intros c Hc. apply in_map_iff in Hc as (y & <- & _).
    now rewrite map_length, zrange_length.
  - intros i j k Hi Hj Hk. unfold cell.
    rewrite (nth_map' _ ids i (-1) []) by exact Hi. rewrite (nth_map' _ ids j (-1) []) by exact Hj.
    rewrite (nth_map_zrange' _ _ k 0) by lia. now apply count_key_pair_count.
Qed.

Lemma onesided_b_sound t labels ids bs W C : length labels = length t -> 0 <= W ->
  onesided_b t labels ids bs W C = true -> OneSided_Spec t labels ids bs W C.
Proof. intros Hlen HW H. apply cube_eqb_eq in H. subst C. now apply expected_cube_spec. Qed.

Lemma onesided_b_complete t labels ids bs W C : length labels = length t -> 0 <= W ->
  OneSided_Spec t labels ids bs W C -> forall i j k, (i < length ids)%nat -> (j < length ids)%nat -> Z.of_nat k <= W ->
  nth k (cell C i j) 0 = nth k (cell (expected_cube t labels ids bs W) i j) 0.
Proof.
  intros Hlen HW [_ H] i j k Hi Hj Hk. destruct (expected_cube_spec t labels ids bs W Hlen HW) as [_ H'].
  now rewrite H, H'.
Qed.

(* ---------- symmetrised output ---------- *)
Lemma shape_b_sound n1 n2 n3 C : shape_b n1 n2 n3 C = true -> Shape n1 n2 n3 C.
Proof.
  unfold shape_b, Shape. intros H. apply andb_true_iff in H as [H1 H2]. apply Nat.eqb_eq in H1. split; [exact H1|].
  apply Forall_forall. intros row Hr. rewrite forallb_forall in H2. specialize (H2 row Hr).
  apply andb_true_iff in H2 as [H3 H4]. apply Nat.eqb_eq in H3. split; [exact H3|].
  apply Forall_forall. intros c Hc. rewrite forallb_forall in H4. apply Nat.eqb_eq. now apply H4.
Qed.

Lemma all_ij_sound nc f : all_ij nc f = true -> forall i j, (i < nc)%nat -> (j < nc)%nat -> f i j = true.
Proof.
  unfold all_ij. intros H i j Hi Hj. rewrite forallb_forall in H.
  specialize (H i ltac:(apply in_seq; lia)). rewrite forallb_forall in H. apply H. apply in_seq. lia.
Qed.

Lemma nth_tl (L : list Z) k : nth k (tl L) 0 = nth (S k) L 0.
Proof. destruct L; [destruct k; reflexivity|reflexivity]. Qed.

Lemma sym_checks_sound nc w E S' :
  shape_b nc nc (2 * w + 1) S' = true -> sym_pos_b E S' nc w = true -> sym_mirror_b S' nc = true ->
  sym_centre_b E S' nc w = true -> Sym_Spec nc w E S'.
Proof.
  intros Hsh Hpos Hmir Hcen. apply shape_b_sound in Hsh. split; [exact Hsh|].
  pose proof (all_ij_sound _ _ Hpos) as Hpos'. pose proof (all_ij_sound _ _ Hmir) as Hmir'.
  pose proof (all_ij_sound _ _ Hcen) as Hcen'. cbv beta in *.
  assert (Pos : forall i j, (i < nc)%nat -> (j < nc)%nat -> forall k, (1 <= k <= w)%nat ->
            nth (w + k) (cell S' i j) 0 = nth k (cell E i j) 0).
  { intros i j Hi Hj k Hk. specialize (Hpos' i j Hi Hj). apply zlist_eqb_eq in Hpos'.
    replace (w + k)%nat with ((k - 1) + (w + 1))%nat by lia. rewrite <- nth_skipn_add, Hpos', nth_tl.
    f_equal. lia. }
  assert (Mir : forall i j, (i < nc)%nat -> (j < nc)%nat -> forall k, (k <= 2 * w)%nat ->
            nth k (cell S' i j) 0 = nth (2 * w - k) (cell S' j i) 0).
  { intros i j Hi Hj k Hk. specialize (Hmir' i j Hi Hj). apply zlist_eqb_eq in Hmir'. rewrite Hmir'.
    pose proof (shape_cell _ _ _ S' j i Hsh Hj Hi) as L. rewrite rev_nth by lia. rewrite L. f_equal. lia. }
  intros i j Hi Hj. split; [apply Pos; assumption|]. split; [|split; [|apply Mir; assumption]].
  - intros k Hk. rewrite Mir by (try assumption; lia). replace (2 * w - (w - k))%nat with (w + k)%nat by lia.
    apply Pos; assumption.
  - specialize (Hcen' i j Hi Hj). destruct (nth_error (cell S' i j) w) as [c|] eqn:E1; [|discriminate].
    destruct (cell E i j) as [|e0 r0]; [discriminate|]. destruct (cell E j i) as [|e0' r0']; [discriminate|].
    apply Z.eqb_eq in Hcen'. cbn [nth]. rewrite <- Hcen'. now apply nth_error_nth.
Qed.

(* ---------- firing rate ---------- *)
Lemma qlist_eqb_sound : forall a b, list_eqb Qeq_bool a b = true ->
  length a = length b /\ forall i, (nth i a 0 == nth i b 0)%Q.
Proof.
  induction a as [|x a IH]; intros [|y b] H; cbn in H; try discriminate.
  - split; [reflexivity|]. intros i. destruct i; reflexivity.
  - apply andb_true_iff in H as [H1 H2]. apply Qeq_bool_iff in H1. destruct (IH b H2) as [L N].
    split; [cbn; lia|]. intros [|i]; cbn [nth]; [exact H1|apply N].
Qed.

Lemma qqlist_eqb_sound : forall a b, list_eqb (list_eqb Qeq_bool) a b = true ->
  length a = length b /\ forall i, length (nth i a []) = length (nth i b []) /\
                                  forall j, (nth j (nth i a []) 0 == nth j (nth i b []) 0)%Q.
Proof.
  induction a as [|x a IH]; intros [|y b] H; cbn in H; try discriminate.
  - split; [reflexivity|]. intros i. destruct i; cbn; (split; [reflexivity|]); intros j; destruct j; reflexivity.
  - apply andb_true_iff in H as [H1 H2]. apply qlist_eqb_sound in H1. destruct (IH b H2) as [L N].
    split; [cbn; lia|]. intros [|i]; cbn [nth]; [exact H1|apply N].
Qed.

Lemma rate_b_sound labels ids bin d R : rate_b labels ids bin d R = true -> Rate_Spec labels ids bin d R.
Proof.
  unfold rate_b. intros H. apply qqlist_eqb_sound in H as [L N]. unfold expected_rate in *.
  rewrite map_length in L. split; [exact L|]. split.
  - apply Forall_forall. intros row Hr. destruct (In_nth R row [] Hr) as (i & Hi & <-).
    destruct (N i) as [Li _]. rewrite Li. rewrite (nth_map' _ ids i (-1) []) by lia. now rewrite map_length.
  - intros i j Hi Hj. destruct (N i) as [_ Nj]. rewrite Nj.
    rewrite (nth_map' _ ids i (-1) []) by lia. rewrite (nth_map' _ ids j (-1) 0%Q) by lia. reflexivity.
Qed.
