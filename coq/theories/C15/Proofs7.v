(* C15/Proofs7.v -- stage 3: the int32 storage of the counts is exact for n <= 65536 spikes; the float layer of
   firing_rate (int64 counts -> float64, bin_size / duration, the product) is exact in the regime of Corr.v. *)
From Coq Require Import ZArith List Lia Bool QArith Qround Qabs Lqa.
From PV Require Import Base.NpList Base.NpSearch C15.Model C15.Spec C15.ParamsModel C15.Proofs5 C15.Proofs6.
Import ListNotations.
Open Scope Z_scope.

(* the value an np.int32 cell holds after the exact integer z was added into it (two's complement wrap-around);
   every partial sum of non-negative increments is between 0 and the final count, so if the final count is
   below 2^31 no intermediate value wraps either *)
Definition wrap32 (z : Z) : Z := (z + 2 ^ 31) mod 2 ^ 32 - 2 ^ 31.

Lemma wrap32_id z : - 2 ^ 31 <= z < 2 ^ 31 -> wrap32 z = z.
Proof. intros H. unfold wrap32. rewrite Z.mod_small; lia. Qed.

Lemma onesided_int32_exact t labels ids bs W C : OneSided_Spec t labels ids bs W C ->
  Z.of_nat (length t) <= 65536 ->
  forall i j k, (i < length ids)%nat -> (j < length ids)%nat -> Z.of_nat k <= W ->
    wrap32 (nth k (cell C i j) 0) = nth k (cell C i j) 0.
Proof.
  intros HC Hn i j k Hi Hj Hk. destruct (onesided_count_bound _ _ _ _ _ _ HC i j k Hi Hj Hk) as (A & _ & B).
  apply wrap32_id. specialize (B Hn). lia.
Qed.

(* ---------- firing_rate: bc * np.c_[bc] * (bin_size / (duration or 1.)) ----------
   bc is int64; bc * np.c_[bc] is an exact int64 product; int64 * float64 converts the integer to float64 (one
   rounding), bin_size / duration is one rounding, the product a third. *)
Definition f_rate_entry (ni nj : Z) (bin d : Q) (r : Q) : Prop :=
  exists c q, Nearest (inject_Z (ni * nj)) c /\ Nearest (bin / d) q /\ Nearest (c * q) r.

Lemma rate_entry_exact ni nj bin d r : Z.abs (ni * nj) < 2 ^ 53 ->
  is_f64 (bin / d) -> is_f64 (inject_Z (ni * nj) * (bin / d)) ->
  f_rate_entry ni nj bin d r -> (r == inject_Z (ni * nj) * (bin / d))%Q.
Proof.
  intros Hn Hq Hr (c & q & Hc & Hq' & Hr').
  pose proof (Nearest_exact _ _ (is_f64_Z _ Hn) Hc) as Ec. pose proof (Nearest_exact _ _ Hq Hq') as Eq.
  apply Nearest_exact; [exact Hr|]. apply (Nearest_wd (c * q)); [now rewrite Ec, Eq|exact Hr'].
Qed.

(* the boolean of Corr.v implies representability *)
Lemma exact_f64_is_f64 x : exact_f64 x = true -> is_f64 x.
Proof. apply (dyadic_f64 53 900); lia. Qed.
