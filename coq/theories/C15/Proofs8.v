(* C15/Proofs8.v -- stage 3 (after fix-c15): n coincident spikes of one cluster in closed form (the input on which
   the int32 array of the unrepaired code wrapped), used by Corr.v for trains too long to run the model on;
   the int64 storage of the repaired code is exact for every n <= 2^32. *)
From Coq Require Import ZArith List Lia Bool Arith QArith Qround.
From PV Require Import Base.NpList Base.NpSearch C15.Model C15.Spec C15.Proofs C15.Proofs2 C15.Proofs3 C15.Proofs4 C15.Proofs5.
Import ListNotations.
Open Scope Z_scope.

(* ---------- int64 ---------- *)
Definition wrap64 (z : Z) : Z := (z + 2 ^ 63) mod 2 ^ 64 - 2 ^ 63.

Lemma wrap64_id z : - 2 ^ 63 <= z < 2 ^ 63 -> wrap64 z = z.
Proof. intros H. unfold wrap64. rewrite Z.mod_small; lia. Qed.

Lemma int64_bound (n x : Z) : 0 <= n <= 2 ^ 32 -> 0 <= x -> 2 * x <= n * (n - 1) -> x < 2 ^ 63.
Proof.
  intros Hn Hx H.
  assert (n * (n - 1) <= 2 ^ 32 * (2 ^ 32 - 1)).
  { destruct (Z.eq_dec n 0) as [E|E]; [rewrite E; lia|]. apply Z.mul_le_mono_nonneg; lia. }
  lia.
Qed.

Lemma onesided_int64_exact t labels ids bs W C : OneSided_Spec t labels ids bs W C ->
  Z.of_nat (length t) <= 2 ^ 32 ->
  forall i j k, (i < length ids)%nat -> (j < length ids)%nat -> Z.of_nat k <= W ->
    wrap64 (nth k (cell C i j) 0) = nth k (cell C i j) 0.
Proof.
  intros HC Hn i j k Hi Hj Hk. destruct (onesided_count_bound _ _ _ _ _ _ HC i j k Hi Hj Hk) as (A & B & _).
  apply wrap64_id. pose proof (int64_bound (Z.of_nat (length t)) _ ltac:(lia) A B). lia.
Qed.

Lemma sym_int64_exact t labels ids bs W C S' : 0 <= W -> OneSided_Spec t labels ids bs W C ->
  Sym_Spec (length ids) (Z.to_nat W) C S' -> Z.of_nat (length t) <= 2 ^ 32 ->
  forall i j k, (i < length ids)%nat -> (j < length ids)%nat -> (k <= 2 * Z.to_nat W)%nat ->
    wrap64 (nth k (cell S' i j) 0) = nth k (cell S' i j) 0.
Proof.
  intros HW HC HS Hn i j k Hi Hj Hk. destruct (sym_count_bound _ _ _ _ _ _ _ HW HC HS i j k Hi Hj Hk) as (A & B & _).
  apply wrap64_id. pose proof (int64_bound (Z.of_nat (length t)) _ ltac:(lia) A B). lia.
Qed.

(* ---------- n coincident spikes of one cluster ---------- *)
Lemma nth_repeat0 k m : nth k (repeat 0 m) 0 = 0.
Proof. revert k. induction m as [|m IH]; intros [|k]; cbn; auto. Qed.

Lemma sortedZ_repeat s n : sortedZ (repeat s n).
Proof.
  induction n as [|n IH]; [constructor|]. cbn [repeat]. destruct n as [|n]; [constructor|].
  cbn [repeat] in *. constructor; [lia|exact IH].
Qed.

Lemma pair_count_coincident_pos (s c bs k : Z) (n : nat) : k <> 0 ->
  pair_count (repeat s n) bs (repeat c n) c c k = 0.
Proof.
  intros Hk. unfold pair_count. rewrite filter_nil; [reflexivity|].
  intros [a b] Hab. rewrite repeat_length in Hab. apply in_all_pairs in Hab. cbn [fst snd]. unfold D.
  rewrite !nth_repeat' by lia. rewrite Z.sub_diag, Zdiv_0_l.
  destruct (0 =? k) eqn:E; [apply Z.eqb_eq in E; congruence|]. now rewrite andb_false_r.
Qed.

Lemma pair_count_coincident_0 (s c bs : Z) (n : nat) :
  pair_count (repeat s n) bs (repeat c n) c c 0 = tri (Z.of_nat n).
Proof.
  unfold tri. rewrite <- (pair_count_coincident s c bs n). rewrite Z.mul_comm. symmetry. apply Z.div_mul. lia.
Qed.

Lemma coincident_onesided s c bs W n C : 0 <= W ->
  OneSided_Spec (repeat s n) (repeat c n) [c] bs W C -> C = coinc_onesided (Z.of_nat n) W.
Proof.
  intros HW [Sh En]. cbn [length] in Sh.
  apply (cube_ext 1 1 (Z.to_nat (W + 1)) _ _ Sh).
  - unfold coinc_onesided. split; [reflexivity|]. constructor; [|constructor]. split; [reflexivity|].
    constructor; [|constructor]. cbn [length]. rewrite repeat_length. lia.
  - intros i j k Hi Hj Hk. assert (i = 0%nat) by lia. assert (j = 0%nat) by lia. subst i j.
    rewrite En by (cbn [length]; lia). cbn [nth]. unfold coinc_onesided, cell. cbn [nth].
    destruct k as [|k].
    + cbn [nth]. apply pair_count_coincident_0.
    + cbn [nth]. rewrite nth_repeat0. apply pair_count_coincident_pos. lia.
Qed.

Lemma coincident_sym n W C S' : 0 <= W -> C = coinc_onesided n W -> Sym_Spec 1 (Z.to_nat W) C S' ->
  S' = coinc_sym n W.
Proof.
  intros HW -> [Sh H]. set (w := Z.to_nat W) in *.
  apply (cube_ext 1 1 (2 * w + 1) _ _ Sh).
  - unfold coinc_sym. split; [reflexivity|]. constructor; [|constructor]. split; [reflexivity|].
    constructor; [|constructor]. fold w. rewrite app_length. cbn [length]. rewrite !repeat_length. lia.
  - intros i j k Hi Hj Hk. assert (i = 0%nat) by lia. assert (j = 0%nat) by lia. subst i j.
    destruct (H 0%nat 0%nat ltac:(lia) ltac:(lia)) as (Pos & Neg & Cen & _).
    unfold coinc_sym, coinc_onesided, cell in *. cbn [nth] in *. fold w in Pos, Neg, Cen |- *.
    destruct (lt_eq_lt_dec k w) as [[Hlt|Heq]|Hgt].
    + replace k with (w - (w - k))%nat at 1 by lia. rewrite Neg by lia.
      rewrite app_nth1 by (rewrite repeat_length; lia). rewrite nth_repeat0.
      destruct (w - k)%nat as [|q] eqn:E; [lia|]. cbn [nth]. apply nth_repeat0.
    + subst k. rewrite Cen. rewrite app_nth2 by (rewrite repeat_length; lia). rewrite repeat_length, Nat.sub_diag.
      cbn [nth]. lia.
    + replace k with (w + (k - w))%nat at 1 by lia. rewrite Pos by lia.
      rewrite app_nth2 by (rewrite repeat_length; lia). rewrite repeat_length.
      destruct (k - w)%nat as [|q] eqn:E; [lia|]. cbn [nth]. now rewrite !nth_repeat0.
Qed.

(* the model on n coincident spikes of cluster c, caller's list [c]: closed form, for every n *)
Lemma correlograms_coincident (s c : Z) (n : nat) (rate bin win : Q) : (0 < rate)%Q -> 0 <= c ->
  1 <= binsize_of rate bin ->
  correlograms (repeat s n) (repeat c n) (Some [c]) rate bin win false =
    Some (coinc_onesided (Z.of_nat n) (half_of bin win)) /\
  correlograms (repeat s n) (repeat c n) (Some [c]) rate bin win true =
    Some (coinc_sym (Z.of_nat n) (half_of bin win)).
Proof.
  intros Hr Hc Hb.
  assert (Hok : ids_ok (repeat c n) [c]).
  { split; [constructor; [intros []|constructor]|]. split.
    - intros x [<-|[]]. exact Hc.
    - intros x Hx. apply repeat_spec in Hx. subst. now left. }
  destruct (correlograms_sym (repeat s n) (repeat c n) [c] rate bin win Hr (sortedZ_repeat s n)
              ltac:(now rewrite !repeat_length) Hok Hb) as (C & S' & H1 & H2 & HC & HS).
  pose proof (half_of_nonneg bin win) as HW.
  pose proof (coincident_onesided s c _ _ n C HW HC) as EC.
  cbn [length] in HS. pose proof (coincident_sym _ _ C S' HW EC HS) as ES.
  rewrite H1, H2, EC, ES. split; reflexivity.
Qed.
