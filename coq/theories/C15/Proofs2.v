(* C15/Proofs2.v -- part 2: the increments into the flat array, counting, and the pair-count theorem
   for the core (relabelled clusters 0..nc-1). *)
From Coq Require Import ZArith List Lia Bool Arith Permutation.
From PV Require Import Base.NpList Base.NpSearch C15.Model C15.Spec C15.Proofs.
Import ListNotations.
Open Scope Z_scope.

(* ================= counting vocabulary ================= *)
Lemma count_occ_filter (l : list Z) x : count_occ Z.eq_dec l x = length (filter (fun y => y =? x) l).
Proof.
  induction l as [|a l IH]; cbn [count_occ filter]; [reflexivity|].
  destruct (Z.eq_dec a x) as [->|Hn].
  - rewrite Z.eqb_refl. cbn [length]. now rewrite IH.
  - replace (a =? x) with false by (symmetry; apply Z.eqb_neq; exact Hn). exact IH.
Qed.

Lemma filter_map_comm {X Y} (p : Y -> bool) (f : X -> Y) l :
  filter p (map f l) = map f (filter (fun x => p (f x)) l).
Proof. induction l as [|x r IH]; cbn [map filter]; [reflexivity|]. destruct (p (f x)); cbn [map]; now rewrite IH. Qed.

Lemma filter_filter' {X} (p q : X -> bool) l : filter p (filter q l) = filter (fun x => q x && p x) l.
Proof.
  induction l as [|x r IH]; cbn [filter]; [reflexivity|].
  destruct (q x); cbn [filter andb]; [destruct (p x)|]; now rewrite IH.
Qed.

Lemma Permutation_filter_length {X} (p : X -> bool) l l' :
  Permutation l l' -> length (filter p l) = length (filter p l').
Proof.
  induction 1; cbn [filter]; try reflexivity.
  - destruct (p x); cbn [length]; lia.
  - destruct (p x), (p y); reflexivity.
  - lia.
Qed.

Lemma NoDup_app_intro {X} (l1 l2 : list X) :
  NoDup l1 -> NoDup l2 -> (forall x, In x l1 -> ~ In x l2) -> NoDup (l1 ++ l2).
Proof.
  induction l1 as [|x r IH]; intros H1 H2 Hd; cbn [app]; [exact H2|].
  apply NoDup_cons_iff in H1 as [Hx Hr]. constructor.
  - rewrite in_app_iff. intros [H|H]; [tauto|]. apply (Hd x); [now left|exact H].
  - apply IH; [exact Hr|exact H2|]. intros y Hy. apply Hd. now right.
Qed.

Lemma NoDup_flat_map {X Y} (f : X -> list Y) l :
  NoDup l -> (forall x, In x l -> NoDup (f x)) ->
  (forall x x' y, In x l -> In x' l -> In y (f x) -> In y (f x') -> x = x') ->
  NoDup (flat_map f l).
Proof.
  induction l as [|x r IH]; intros Hnd Hf Hdisj; cbn [flat_map]; [constructor|].
  apply NoDup_cons_iff in Hnd as [Hx Hr]. apply NoDup_app_intro.
  - apply Hf. now left.
  - apply IH; [exact Hr| |].
    + intros y Hy. apply Hf. now right.
    + intros a b y Ha Hb. apply Hdisj; now right.
  - intros y Hy Hy'. apply in_flat_map in Hy' as (x' & Hx' & Hy').
    assert (x = x') by (apply (Hdisj x x' y); [now left|now right|exact Hy|exact Hy']).
    subst x'. tauto.
Qed.

Lemma NoDup_map_inj_in {X Y} (f : X -> Y) l :
  (forall x y, In x l -> In y l -> f x = f y -> x = y) -> NoDup l -> NoDup (map f l).
Proof.
  induction l as [|x r IH]; intros Hinj Hnd; cbn [map]; [constructor|].
  apply NoDup_cons_iff in Hnd as [Hx Hr]. constructor.
  - intros H. apply in_map_iff in H as (y & Hy & Hin).
    assert (y = x) by (apply Hinj; [now right|now left|exact Hy]). subst y. tauto.
  - apply IH; [|exact Hr]. intros a b Ha Hb. apply Hinj; now right.
Qed.

(* ================= all_pairs ================= *)
Lemma in_all_pairs n a b : In (a, b) (all_pairs n) <-> (a < b < n)%nat.
Proof.
  unfold all_pairs. rewrite in_flat_map. split.
  - intros (a' & Ha' & Hin). apply in_seq in Ha'. apply in_map_iff in Hin as (b' & Heq & Hb').
    apply in_seq in Hb'. injection Heq as -> ->. lia.
  - intros H. exists a. split; [apply in_seq; lia|]. apply in_map_iff. exists b.
    split; [reflexivity|apply in_seq; lia].
Qed.

Lemma NoDup_all_pairs n : NoDup (all_pairs n).
Proof.
  unfold all_pairs. apply NoDup_flat_map.
  - apply seq_NoDup.
  - intros a _. apply NoDup_map_inj_in; [|apply seq_NoDup]. intros x y _ _ H. now injection H.
  - intros a a' [y1 y2] _ _ H1 H2. apply in_map_iff in H1 as (b & Hb & _). apply in_map_iff in H2 as (b' & Hb' & _).
    congruence.
Qed.

(* ================= zmax / bincount / increment ================= *)
Lemma zmax_ge l x : In x l -> x <= zmax_list l.
Proof.
  unfold zmax_list. induction l as [|y r IH]; cbn [fold_right In]; [tauto|].
  intros [->|H]; [lia|]. specialize (IH H). lia.
Qed.

Lemma zmax_nonneg l : 0 <= zmax_list l.
Proof. unfold zmax_list. induction l as [|y r IH]; cbn [fold_right]; lia. Qed.

Lemma zmax_lt l b : 0 < b -> Forall (fun x => x < b) l -> zmax_list l < b.
Proof.
  unfold zmax_list. intros Hb H. induction H as [|y r Hy _ IH]; cbn [fold_right]; lia.
Qed.

Lemma nth_map_zrange (f : Z -> Z) m k :
  nth k (map f (zrange 0 m)) 0 = if (k <? m)%nat then f (Z.of_nat k) else 0.
Proof.
  destruct (k <? m)%nat eqn:E.
  - apply Nat.ltb_lt in E. rewrite (nth_indep _ 0 (f 0)) by (rewrite map_length, zrange_length; exact E).
    rewrite map_nth, zrange_nth by exact E. reflexivity.
  - apply Nat.ltb_ge in E. apply nth_overflow. rewrite map_length, zrange_length. exact E.
Qed.

Lemma bincount_nth l k : Forall (fun x => 0 <= x) l ->
  nth k (bincount l) 0 = Z.of_nat (count_occ Z.eq_dec l (Z.of_nat k)).
Proof.
  intros Hl. unfold bincount. destruct l as [|x0 r] eqn:El; [destruct k; reflexivity|]. rewrite <- El in *.
  rewrite nth_map_zrange. destruct (k <? Z.to_nat (zmax_list l + 1))%nat eqn:E; [reflexivity|].
  apply Nat.ltb_ge in E. pose proof (zmax_nonneg l).
  replace (count_occ Z.eq_dec l (Z.of_nat k)) with 0%nat; [reflexivity|].
  symmetry. apply count_occ_not_In. intros Hin. apply zmax_ge in Hin. lia.
Qed.

Lemma bincount_length l b : 0 <= b -> Forall (fun x => 0 <= x < b) l -> (length (bincount l) <= Z.to_nat b)%nat.
Proof.
  intros Hb Hl. unfold bincount. destruct l as [|x0 r] eqn:El; [cbn; lia|]. rewrite <- El in *.
  rewrite map_length, zrange_length.
  assert (0 < b) by (rewrite El in Hl; inversion Hl; lia).
  assert (zmax_list l < b) by (apply zmax_lt; [lia|]; eapply Forall_impl; [|exact Hl]; cbn; intros; lia).
  pose proof (zmax_nonneg l). lia.
Qed.

Lemma add_prefix_spec : forall bb arr, (length bb <= length arr)%nat ->
  exists arr', add_prefix arr bb = Some arr' /\ length arr' = length arr /\
               forall k, nth k arr' 0 = nth k arr 0 + nth k bb 0.
Proof.
  induction bb as [|b bb IH]; intros arr Hl.
  - exists arr. destruct arr; (split; [reflexivity|]); (split; [reflexivity|]); intros k; destruct k; cbn [nth]; lia.
  - destruct arr as [|a arr]; [cbn in Hl; lia|]. cbn [add_prefix].
    destruct (IH arr ltac:(cbn in Hl; lia)) as (arr' & -> & Hlen & Hn).
    exists ((a + b) :: arr'). cbn [option_map]. split; [reflexivity|]. split; [cbn [length]; lia|].
    intros [|k]; cbn [nth]; [reflexivity|apply Hn].
Qed.

Lemma increment_spec arr idx : Forall (fun x => 0 <= x < zlen arr) idx ->
  exists arr', increment arr idx = Some arr' /\ length arr' = length arr /\
    forall k, nth k arr' 0 = nth k arr 0 + Z.of_nat (count_occ Z.eq_dec idx (Z.of_nat k)).
Proof.
  intros H. unfold increment.
  destruct (add_prefix_spec (bincount idx) arr) as (arr' & Ha & Hlen & Hn).
  - pose proof (bincount_length idx (zlen arr) ltac:(unfold zlen; lia) H). unfold zlen in *. lia.
  - exists arr'. split; [exact Ha|]. split; [exact Hlen|]. intros k. rewrite Hn, bincount_nth; [reflexivity|].
    eapply Forall_impl; [|exact H]. cbn. intros; lia.
Qed.

(* ================= accumulate ================= *)
Lemma accumulate_spec ci nc nb len : forall steps idxs arr0,
  zlen arr0 = len ->
  Forall2 (fun st idx => step_indices ci nc nb st = Some idx /\ Forall (fun x => 0 <= x < len) idx) steps idxs ->
  exists arr',
    fold_left (fun acc st =>
                 match acc with
                 | None => None
                 | Some arr => match step_indices ci nc nb st with
                               | None => None
                               | Some idx => increment arr idx
                               end
                 end) steps (Some arr0) = Some arr' /\
    length arr' = length arr0 /\
    forall k, nth k arr' 0 = nth k arr0 0 + Z.of_nat (count_occ Z.eq_dec (concat idxs) (Z.of_nat k)).
Proof.
  induction steps as [|st steps IH]; intros idxs arr0 Hlen HF; revert Hlen; inversion HF as [|? idx ? idxs' [Hst Hidx] HF']; subst; intros Hlen.
  - exists arr0. cbn [fold_left concat count_occ]. split; [reflexivity|]. split; [reflexivity|]. intros; lia.
  - cbn [fold_left]. rewrite Hst.
    destruct (increment_spec arr0 idx) as (arr1 & -> & Hl1 & Hn1); [now rewrite Hlen|].
    destruct (IH idxs' arr1) as (arr' & Hf & Hl' & Hn'); [unfold zlen in *; lia|exact HF'|].
    exists arr'. split; [exact Hf|]. split; [lia|]. intros k. rewrite Hn', Hn1. cbn [concat].
    rewrite count_occ_app. lia.
Qed.

Lemma ravel_all_maps {X} nc nb (f g h r : X -> Z) L :
  (forall x, In x L -> ravel nc nb (f x) (g x) (h x) = Some (r x)) ->
  ravel_all nc nb (map f L) (map g L) (map h L) = Some (map r L).
Proof.
  induction L as [|x L IH]; intros H; cbn [map ravel_all]; [reflexivity|].
  rewrite (H x) by now left. rewrite IH; [reflexivity|]. intros y Hy. apply H. now right.
Qed.

Lemma radix_inj n a b a' b' : 0 <= b < n -> 0 <= b' < n -> a * n + b = a' * n + b' -> a = a' /\ b = b'.
Proof. intros. assert (a = a') by nia. subst. lia. Qed.

(* ================= the core theorem ================= *)
Section Core.
Variable t : list Z.
Variable bs W : Z.
Variable ci : list Z.
Variable nc : Z.
Let n := length t.
Let nb := W + 1.
Hypothesis Hbs : 0 < bs.
Hypothesis HW : 0 <= W.
Hypothesis Hsorted : forall i j, (i <= j < n)%nat -> nth i t 0 <= nth j t 0.
Hypothesis Hci_len : length ci = n.
Hypothesis Hci : forall a, (a < n)%nat -> 0 <= nth a ci 0 < nc.

Definition rav (e : event) : Z := (nth (ea e) ci 0 * nc + nth (eb e) ci 0) * nb + ed e.

Lemma step_indices_at s : (1 <= s)%nat ->
  step_indices ci nc nb (step_at t bs W s) = Some (map rav (events_at t bs W s)).
Proof.
  intros Hs. unfold step_indices, step_at, events_at. cbn [st_shift st_mask st_diff]. fold n.
  rewrite Hci_len.
  rewrite (firstn_as_map ci (n - s) 0) by lia.
  rewrite (skipn_as_map ci s 0), Hci_len.
  rewrite !select_map, map_map.
  apply ravel_all_maps. intros a Ha. apply filter_In in Ha as [Ha E]. apply in_seq in Ha.
  unfold ravel, rav. cbn [ea eb ed].
  pose proof (Hci a ltac:(lia)). pose proof (Hci (a + s)%nat ltac:(lia)).
  pose proof (D_nonneg t bs Hbs Hsorted a (a + s) ltac:(fold n; lia)).
  replace ((0 <=? nth a ci 0) && (nth a ci 0 <? nc) && (0 <=? nth (a + s) ci 0) && (nth (a + s) ci 0 <? nc) &&
           (0 <=? D t bs a (a + s)) && (D t bs a (a + s) <? nb)) with true; [reflexivity|].
  symmetry. rewrite !andb_true_iff. unfold nb. repeat split; lia.
Qed.

Lemma rav_range e : In e (all_events t bs W) -> 0 <= rav e < nc * nc * nb.
Proof.
  destruct e as [a b d]. intros H. apply (events_mem t bs W) in H as (Hab & -> & HdW). fold n in Hab.
  unfold rav. cbn [ea eb ed].
  pose proof (Hci a ltac:(lia)). pose proof (Hci b ltac:(lia)).
  pose proof (D_nonneg t bs Hbs Hsorted a b ltac:(fold n; lia)). unfold nb.
  set (x := nth a ci 0) in *. set (y := nth b ci 0) in *. set (d := D t bs a b) in *.
  assert (0 <= x * nc + y <= nc * nc - 1) by nia.
  set (m := x * nc + y) in *. set (q := nc * nc) in *. nia.
Qed.

Lemma rav_eq e (i j k : Z) : In e (all_events t bs W) -> 0 <= i < nc -> 0 <= j < nc -> 0 <= k <= W ->
  (rav e =? (i * nc + j) * nb + k) =
  (nth (ea e) ci 0 =? i) && (nth (eb e) ci 0 =? j) && (ed e =? k).
Proof.
  destruct e as [a b d]. intros H Hi Hj Hk. apply (events_mem t bs W) in H as (Hab & -> & HdW). fold n in Hab.
  unfold rav. cbn [ea eb ed].
  pose proof (Hci a ltac:(lia)) as Ha. pose proof (Hci b ltac:(lia)) as Hb.
  pose proof (D_nonneg t bs Hbs Hsorted a b ltac:(fold n; lia)) as Hd.
  set (x := nth a ci 0) in *. set (y := nth b ci 0) in *. set (d := D t bs a b) in *.
  destruct ((x * nc + y) * nb + d =? (i * nc + j) * nb + k) eqn:E.
  - apply Z.eqb_eq in E. apply radix_inj in E as [E1 E2]; [|unfold nb; lia|unfold nb; lia].
    apply radix_inj in E1 as [E3 E4]; [|lia|lia]. subst.
    now rewrite !Z.eqb_refl.
  - symmetry. apply andb_false_iff. apply Z.eqb_neq in E.
    destruct (x =? i) eqn:E1; [|left; reflexivity]. destruct (y =? j) eqn:E2; [|left; reflexivity].
    right. apply Z.eqb_neq. intros ->. apply E. apply Z.eqb_eq in E1, E2. now subst.
Qed.

Lemma NoDup_events_at s : NoDup (events_at t bs W s).
Proof.
  unfold events_at. apply NoDup_map_inj_in; [|apply NoDup_filter, seq_NoDup].
  intros x y _ _ H. now injection H.
Qed.

Lemma NoDup_all_events : NoDup (all_events t bs W).
Proof.
  unfold all_events. apply NoDup_flat_map; [apply seq_NoDup|intros s _; apply NoDup_events_at|].
  intros s s' [a b d] _ _ H1 H2. unfold events_at in H1, H2.
  apply in_map_iff in H1 as (a1 & E1 & _). apply in_map_iff in H2 as (a2 & E2 & _).
  injection E1 as <- Hb1 _. injection E2 as E2a Hb2 _. lia.
Qed.

Definition ev_of (p : nat * nat) : event := mkev (fst p) (snd p) (D t bs (fst p) (snd p)).
Definition within (p : nat * nat) : bool := D t bs (fst p) (snd p) <=? W.

Lemma events_perm : Permutation (all_events t bs W) (map ev_of (filter within (all_pairs n))).
Proof.
  apply NoDup_Permutation.
  - apply NoDup_all_events.
  - apply NoDup_map_inj_in; [|apply NoDup_filter, NoDup_all_pairs].
    intros [a b] [a' b'] _ _ H. unfold ev_of in H. cbn [fst snd] in H. injection H as -> -> _. reflexivity.
  - intros [a b d]. rewrite (events_mem t bs W). fold n. rewrite in_map_iff. split.
    + intros (Hab & -> & HdW). exists (a, b). split; [reflexivity|]. apply filter_In.
      split; [apply in_all_pairs; exact Hab|]. unfold within. cbn [fst snd]. lia.
    + intros ([a' b'] & Heq & Hin). apply filter_In in Hin as [Hin Hw]. apply in_all_pairs in Hin.
      unfold ev_of in Heq. cbn [fst snd] in Heq. injection Heq as -> -> <-. unfold within in Hw. cbn [fst snd] in Hw.
      repeat split; lia.
Qed.

(* the number of pairs a < b with relabelled clusters (i, j) and lag bin k *)
Definition pair_count_ci (i j k : Z) : Z :=
  Z.of_nat (length (filter (fun p => (nth (fst p) ci 0 =? i) && (nth (snd p) ci 0 =? j) &&
                                     (D t bs (fst p) (snd p) =? k)) (all_pairs n))).

Lemma count_events (i j k : Z) : 0 <= i < nc -> 0 <= j < nc -> 0 <= k <= W ->
  Z.of_nat (count_occ Z.eq_dec (map rav (all_events t bs W)) ((i * nc + j) * nb + k)) = pair_count_ci i j k.
Proof.
  intros Hi Hj Hk. unfold pair_count_ci. f_equal.
  rewrite count_occ_filter, filter_map_comm, map_length.
  rewrite (filter_ext_in _ (fun e => (nth (ea e) ci 0 =? i) && (nth (eb e) ci 0 =? j) && (ed e =? k)))
    by (intros e He; apply rav_eq; assumption).
  rewrite (Permutation_filter_length _ _ _ events_perm).
  rewrite filter_map_comm, map_length, filter_filter'.
  f_equal. apply filter_ext. intros [a b]. unfold within, ev_of. cbn [fst snd ea eb ed].
  destruct (D t bs a b =? k) eqn:E; [|now rewrite andb_false_r, andb_false_r].
  replace (D t bs a b <=? W) with true by lia. reflexivity.
Qed.

Lemma accumulate_core :
  exists steps flat, ccg_steps t bs W = Some steps /\ accumulate ci nc nb steps = Some flat /\
    length flat = Z.to_nat (nc * nc * nb) /\
    forall i j k, 0 <= i < nc -> 0 <= j < nc -> 0 <= k <= W ->
      nthZ flat ((i * nc + j) * nb + k) = pair_count_ci i j k.
Proof.
  destruct (ccg_steps_spec t bs W Hbs HW Hsorted) as (k0 & Hsteps & Hk0 & Hall). fold n in Hk0.
  set (idxs := map (fun s => map rav (events_at t bs W s)) (seq 1 k0)).
  assert (Hconcat : concat idxs = map rav (all_events t bs W)).
  { unfold idxs. rewrite <- Hall, flat_map_concat_map, concat_map, map_map. reflexivity. }
  assert (Hnn : 0 <= nc * nc * nb) by (unfold nb; nia).
  destruct (accumulate_spec ci nc nb (nc * nc * nb) (map (step_at t bs W) (seq 1 k0)) idxs
              (repeat 0 (Z.to_nat (nc * nc * nb)))) as (flat & Hf & Hlen & Hn).
  - unfold zlen. rewrite repeat_length. lia.
  - unfold idxs. clear Hconcat Hall Hsteps.
    assert (Hin : forall s, In s (seq 1 k0) -> (1 <= s <= k0)%nat) by (intros s Hs; apply in_seq in Hs; lia).
    induction (seq 1 k0) as [|s l IH]; cbn [map]; constructor.
    + split; [apply step_indices_at; apply Hin; now left|].
      apply Forall_forall. intros x Hx. apply in_map_iff in Hx as (e & <- & He). apply rav_range.
      unfold all_events. apply in_flat_map. exists s. split; [|exact He].
      apply in_seq. specialize (Hin s (or_introl eq_refl)). fold n. lia.
    + apply IH. intros s' Hs'. apply Hin. now right.
  - exists (map (step_at t bs W) (seq 1 k0)), flat. split; [exact Hsteps|]. split; [exact Hf|].
    split; [now rewrite Hlen, repeat_length|].
    intros i j k Hi Hj Hk. unfold nthZ. rewrite Hn.
    assert (nth (Z.to_nat ((i * nc + j) * nb + k)) (repeat 0 (Z.to_nat (nc * nc * nb))) 0 = 0) as ->.
    { clear. generalize (Z.to_nat ((i * nc + j) * nb + k)). induction (Z.to_nat (nc * nc * nb)) as [|m IH]; intros [|q]; cbn; auto. }
    assert (Hpos : 0 <= (i * nc + j) * nb + k).
    { assert (0 <= i * nc) by (apply Z.mul_nonneg_nonneg; lia).
      assert (0 <= (i * nc + j) * nb) by (apply Z.mul_nonneg_nonneg; unfold nb; lia). lia. }
    rewrite Hconcat, Z2Nat.id by exact Hpos. rewrite count_events by assumption. lia.
Qed.
End Core.
