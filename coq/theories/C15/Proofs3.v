(* C15/Proofs3.v -- part 3: sortedness bridge, _index_of / _unique, and the pair-count theorem for
   correlograms() with the caller's cluster list. *)
From Coq Require Import ZArith List Lia Bool Arith Permutation QArith Qround.
From PV Require Import Base.NpList Base.NpSearch C15.Model C15.Spec C15.Proofs C15.Proofs2.
Import ListNotations.
Open Scope Z_scope.

(* ================= sortedness ================= *)
Lemma sortedZ_nth t : sortedZ t -> forall i j, (i <= j < length t)%nat -> nth i t 0 <= nth j t 0.
Proof.
  induction t as [|x r IH]; intros Hs i j Hij; [cbn in Hij; lia|].
  destruct i as [|i].
  - pose proof (sorted_head_le x r (Z.of_nat j) Hs) as H. unfold zlen, nthZ in H.
    rewrite Nat2Z.id in H. change (nth 0 (x :: r) 0) with x. apply H. lia.
  - destruct j as [|j]; [lia|]. cbn [nth]. apply IH; [eapply sorted_tail; exact Hs|]. cbn [length] in Hij. lia.
Qed.

Lemma loop_events_sorted t bs W : sortedZ t -> 1 <= bs -> 0 <= W ->
  exists steps, ccg_steps t bs W = Some steps /\
                concat (map step_events steps) = flat_map (events_at t bs W) (seq 1 (length t - 1)).
Proof.
  intros Hs Hbs HW. apply loop_events; [lia|exact HW|apply sortedZ_nth; exact Hs].
Qed.

Lemma NoDup_all_events' t bs W : NoDup (all_events t bs W).
Proof. exact (NoDup_all_events t bs W (repeat 0 (length t)) (repeat_length 0 (length t))). Qed.

(* ================= _index_of ================= *)
Lemma fold_max_ge h l : h <= fold_right Z.max h l /\ forall x, In x l -> x <= fold_right Z.max h l.
Proof.
  induction l as [|y r [IH1 IH2]]; cbn [fold_right In]; [split; [lia|tauto]|].
  split; [lia|]. intros x [->|H]; [lia|]. specialize (IH2 x H). lia.
Qed.

Lemma map_fst_combine {X Y} (a : list X) (b : list Y) : length a = length b -> map fst (combine a b) = a.
Proof.
  revert b; induction a as [|x a IH]; intros [|y b] H; cbn in *; try reflexivity; try discriminate.
  f_equal. apply IH. lia.
Qed.

Lemma nth_error_combine {X Y} (a : list X) (b : list Y) p x y :
  nth_error a p = Some x -> nth_error b p = Some y -> nth_error (combine a b) p = Some (x, y).
Proof.
  revert a b; induction p as [|p IH]; intros [|x' a] [|y' b] Ha Hb; cbn in *; try discriminate.
  - now injection Ha as ->; injection Hb as ->.
  - now apply IH.
Qed.

Definition lkmax (l : list Z) : Z := match l with [] => 0 | _ => fold_right Z.max (hd 0 l) l end.
Lemma lkmax_ge l x : In x l -> x <= lkmax l.
Proof. destruct l as [|y r]; [intros []|]. unfold lkmax. apply (fold_max_ge (hd 0 (y :: r)) (y :: r)). Qed.
Lemma lkmax_nonneg l : (forall x, In x l -> 0 <= x) -> 0 <= lkmax l.
Proof.
  destruct l as [|y r]; intros H; [cbn; lia|]. unfold lkmax.
  pose proof (proj1 (fold_max_ge (hd 0 (y :: r)) (y :: r))) as H1. cbn [hd] in *.
  pose proof (H y (or_introl eq_refl)). lia.
Qed.

Section IndexOf.
Variable lookup : list Z.
Hypothesis Hnd : NoDup lookup.
Hypothesis Hnn : forall x, In x lookup -> 0 <= x.

Definition lk_max : Z := lkmax lookup.
Definition lk_len : Z := lk_max + 1 + 1.
(* the lookup  tmp[x]  of _index_of *)
Definition tab (x : Z) : Z := nth (pyidx (Z.of_nat (length (index_table lookup))) x) (index_table lookup) 0.

Lemma lk_max_ge x : In x lookup -> x <= lk_max.
Proof. apply lkmax_ge. Qed.

Lemma lk_max_nonneg : 0 <= lk_max.
Proof. apply lkmax_nonneg. exact Hnn. Qed.

Lemma index_table_unfold :
  index_table lookup =
  scatter (upd (repeat 0 (Z.to_nat lk_len)) (pyidx lk_len (-1)) (-1))
          (combine (map (pyidx lk_len) lookup) (map Z.of_nat (seq 0 (length lookup)))).
Proof. reflexivity. Qed.

Lemma index_table_length : length (index_table lookup) = Z.to_nat lk_len.
Proof. rewrite index_table_unfold, scatter_length, upd_length, repeat_length. reflexivity. Qed.

Lemma tab_pos p : (p < length lookup)%nat -> tab (nth p lookup (-1)) = Z.of_nat p.
Proof.
  intros Hp. unfold tab. rewrite index_table_length.
  pose proof lk_max_nonneg as Hm.
  set (x := nth p lookup (-1)).
  assert (Hin : In x lookup) by (apply nth_In; exact Hp).
  pose proof (Hnn x Hin) as Hx0. pose proof (lk_max_ge x Hin) as Hx1.
  assert (Hpy : forall y, 0 <= y -> pyidx lk_len y = Z.to_nat y).
  { intros y Hy. unfold pyidx. replace (y <? 0) with false by lia. reflexivity. }
  rewrite Z2Nat.id by (unfold lk_len; lia). rewrite Hpy by exact Hx0.
  rewrite index_table_unfold.
  rewrite scatter_nth.
  2:{ intros [j v] Hw. apply in_combine_l in Hw. apply in_map_iff in Hw as (y & <- & Hy). cbn [fst].
      rewrite upd_length, repeat_length. rewrite Hpy by (apply Hnn; exact Hy).
      pose proof (Hnn y Hy). pose proof (lk_max_ge y Hy). unfold lk_len. lia. }
  rewrite (last_write_unique (Z.to_nat x) _ p (Z.of_nat p)); [reflexivity| |].
  - rewrite map_fst_combine by (now rewrite !map_length, seq_length).
    apply NoDup_map_inj_in; [|exact Hnd]. intros a b Ha Hb. rewrite !Hpy by (apply Hnn; assumption).
    pose proof (Hnn a Ha). pose proof (Hnn b Hb). lia.
  - apply nth_error_combine.
    + rewrite nth_error_map. rewrite (nth_error_nth' lookup (-1) Hp). fold x. cbn [option_map].
      now rewrite Hpy by exact Hx0.
    + rewrite nth_error_map, (nth_error_nth' (seq 0 (length lookup)) 0%nat) by (now rewrite seq_length).
      now rewrite seq_nth by exact Hp.
Qed.

Lemma tab_in x : In x lookup -> exists p, (p < length lookup)%nat /\ nth p lookup (-1) = x /\ tab x = Z.of_nat p.
Proof.
  intros H. destruct (In_nth lookup x (-1) H) as (p & Hp & Hx). exists p. split; [exact Hp|]. split; [exact Hx|].
  rewrite <- Hx. now apply tab_pos.
Qed.

Lemma tab_range x : In x lookup -> 0 <= tab x < zlen lookup.
Proof. intros H. destruct (tab_in x H) as (p & Hp & _ & ->). unfold zlen. lia. Qed.

Lemma tab_eqb x i : In x lookup -> (i < length lookup)%nat -> (tab x =? Z.of_nat i) = (x =? nth i lookup (-1)).
Proof.
  intros H Hi. destruct (tab_in x H) as (p & Hp & Hx & ->).
  destruct (Z.of_nat p =? Z.of_nat i) eqn:E.
  - apply Z.eqb_eq in E. apply Nat2Z.inj in E. subst i. rewrite Hx. symmetry. apply Z.eqb_refl.
  - symmetry. apply Z.eqb_neq. intros Heq. apply Z.eqb_neq in E. apply E. f_equal.
    apply (proj1 (NoDup_nth lookup (-1)) Hnd p i Hp Hi). now rewrite Hx.
Qed.

Lemma index_of_chk_map labels : (forall x, In x labels -> In x lookup) ->
  index_of_chk labels lookup = Some (map tab labels).
Proof.
  intros Hsub. unfold index_of_chk. rewrite index_table_length.
  pose proof lk_max_nonneg as Hm.
  replace (forallb _ labels) with true; [reflexivity|].
  symmetry. apply forallb_forall. intros x Hx. specialize (Hsub x Hx).
  pose proof (Hnn x Hsub). pose proof (lk_max_ge x Hsub).
  rewrite Z2Nat.id by (unfold lk_len; lia). unfold lk_len. lia.
Qed.
End IndexOf.

(* ================= parameters ================= *)
Lemma clip5_nonneg x : (0 <= clip5 x)%Q.
Proof.
  unfold clip5, clipQ.
  assert (H0 : (0 <= clip_lo)%Q) by (unfold clip_lo, Qle; cbn; lia).
  assert (H1 : (0 <= clip_hi)%Q) by (unfold clip_hi, Qle; cbn; lia).
  destruct (Qle_bool x clip_lo) eqn:E1.
  - destruct (Qle_bool clip_hi clip_lo); assumption.
  - destruct (Qle_bool clip_hi x) eqn:E2; [assumption|].
    assert (~ (x <= clip_lo)%Q) as Hn by (rewrite <- Qle_bool_iff, E1; discriminate).
    apply Qnot_le_lt in Hn. apply Qlt_le_weak. eapply Qle_lt_trans; [exact H0|exact Hn].
Qed.

Lemma half_of_nonneg bin win : 0 <= half_of bin win.
Proof.
  unfold half_of. change 0 with (Qfloor 0). apply Qfloor_resp_le.
  unfold Qdiv. apply Qmult_le_0_compat; [apply Qmult_le_0_compat|].
  - unfold Qle; cbn; lia.
  - apply clip5_nonneg.
  - apply Qinv_le_0_compat, clip5_nonneg.
Qed.

(* ================= the (nc, nc, nb) view of the flat array ================= *)
Lemma nth_map_zrange' {X} (f : Z -> X) m k d : (k < m)%nat -> nth k (map f (zrange 0 m)) d = f (Z.of_nat k).
Proof.
  intros H. rewrite (nth_indep _ d (f 0)) by (rewrite map_length, zrange_length; exact H).
  rewrite map_nth, zrange_nth by exact H. reflexivity.
Qed.

Lemma cube_of_shape nc nb flat : Shape (Z.to_nat nc) (Z.to_nat nc) (Z.to_nat nb) (cube_of nc nb flat).
Proof.
  unfold Shape, cube_of. split; [now rewrite map_length, zrange_length|].
  apply Forall_forall. intros row Hrow. apply in_map_iff in Hrow as (i & <- & _).
  split; [now rewrite map_length, zrange_length|].
  apply Forall_forall. intros c Hc. apply in_map_iff in Hc as (j & <- & _).
  now rewrite map_length, zrange_length.
Qed.

Lemma cube_of_nth nc nb flat i j k : (i < Z.to_nat nc)%nat -> (j < Z.to_nat nc)%nat -> (k < Z.to_nat nb)%nat ->
  nth k (cell (cube_of nc nb flat) i j) 0 = nthZ flat ((Z.of_nat i * nc + Z.of_nat j) * nb + Z.of_nat k).
Proof.
  intros Hi Hj Hk. unfold cell, cube_of.
  rewrite (nth_map_zrange' _ _ i []) by exact Hi.
  rewrite (nth_map_zrange' _ _ j []) by exact Hj.
  now rewrite (nth_map_zrange' _ _ k 0) by exact Hk.
Qed.

(* ================= correlograms with the caller's cluster list ================= *)
Definition ids_ok (labels ids : list Z) : Prop :=
  NoDup ids /\ (forall x, In x ids -> 0 <= x) /\ (forall x, In x labels -> In x ids).

Lemma nth_map_tab ids labels a : (a < length labels)%nat ->
  nth a (map (tab ids) labels) 0 = tab ids (nth a labels (-1)).
Proof.
  intros Ha. rewrite (nth_indep _ 0 (tab ids (-1))) by (now rewrite map_length). apply map_nth.
Qed.

Lemma ccg_core_spec t labels ids bs W :
  sortedZ t -> length labels = length t -> ids_ok labels ids -> 1 <= bs -> 0 <= W ->
  exists C, ccg_core t (map (tab ids) labels) (zlen ids) bs W = Some C /\ OneSided_Spec t labels ids bs W C.
Proof.
  intros Hs Hlen (Hnd & Hnn & Hsub) Hbs HW.
  assert (Hrange : forall a, (a < length t)%nat -> 0 <= nth a (map (tab ids) labels) 0 < zlen ids).
  { intros a Ha. rewrite nth_map_tab by lia. apply tab_range; [exact Hnd|exact Hnn|].
    apply Hsub, nth_In. lia. }
  destruct (accumulate_core t bs W (map (tab ids) labels) (zlen ids) ltac:(lia) HW (sortedZ_nth t Hs)
              ltac:(now rewrite map_length) Hrange) as (steps & flat & Hst & Hacc & Hfl & Hent).
  exists (cube_of (zlen ids) (W + 1) flat). unfold ccg_core. rewrite Hst, Hacc. split; [reflexivity|].
  split.
  - pose proof (cube_of_shape (zlen ids) (W + 1) flat) as H. unfold zlen in H. rewrite Nat2Z.id in H. exact H.
  - intros i j k Hi Hj Hk.
    rewrite cube_of_nth by (unfold zlen; lia).
    rewrite Hent by (unfold zlen; lia).
    unfold pair_count_ci, pair_count. f_equal. f_equal.
    apply filter_ext_in. intros [a b] Hab. apply in_all_pairs in Hab. cbn [fst snd].
    rewrite !nth_map_tab by lia.
    rewrite (tab_eqb ids Hnd Hnn _ i) by (try (apply Hsub, nth_In); lia).
    rewrite (tab_eqb ids Hnd Hnn _ j) by (try (apply Hsub, nth_In); lia).
    reflexivity.
Qed.

Lemma correlograms_onesided t labels ids rate bin win :
  (0 < rate)%Q -> sortedZ t -> length labels = length t -> ids_ok labels ids -> 1 <= binsize_of rate bin ->
  exists C, correlograms t labels (Some ids) rate bin win false = Some C /\
            OneSided_Spec t labels ids (binsize_of rate bin) (half_of bin win) C.
Proof.
  intros Hr Hs Hlen Hok Hbs. unfold correlograms.
  replace (Qle_bool rate 0) with false.
  2:{ symmetry. apply not_true_is_false. rewrite Qle_bool_iff. apply Qlt_not_le. exact Hr. }
  replace (sortedZb t) with true by (symmetry; apply sortedZb_spec; exact Hs).
  replace (Nat.eqb (length t) (length labels)) with true by (symmetry; apply Nat.eqb_eq; lia).
  cbn [negb]. replace (binsize_of rate bin <? 1) with false by lia.
  cbn [clusters_of]. destruct Hok as (Hnd & Hnn & Hsub).
  rewrite (index_of_chk_map ids Hnn labels Hsub).
  destruct (ccg_core_spec t labels ids (binsize_of rate bin) (half_of bin win) Hs Hlen (conj Hnd (conj Hnn Hsub)) Hbs
              (half_of_nonneg bin win)) as (C & -> & HC).
  exists C. split; [reflexivity|exact HC].
Qed.
