(* C15/Proofs3.v -- part 3: sortedness bridge, _index_of / _unique, and the pair-count theorem for
   correlograms() with the caller's cluster list. *)
From Coq Require Import ZArith List Lia Bool Arith Permutation QArith Qround Sorted.
From PV Require Import Base.NpList Base.NpSearch C15.Model C15.Spec C15.Proofs C15.Proofs2.
Import ListNotations.
Open Scope Z_scope.

(* ================= sortedness ================= *)
Lemma sortedZ_nth t : sortedZ t -> forall i j, (i <= j < length t)%nat -> nth i t 0 <= nth j t 0.
Proof.
  induction t as [|x r IH]; intros Hs i j Hij; [cbn in Hij; lia|].
  destruct i as [|i].
  - pose proof (sorted_head_le x r (Z.of_nat j) Hs) as H. unfold zlen, nthZ in H.
    rewrite Nat2Z.id in H. change (nth 0 (x :: r) 0) with x. apply H. lia.
  - destruct j as [|j]; [lia|]. cbn [nth]. apply IH; [eapply sorted_tail; exact Hs|]. cbn [length] in Hij. lia.
Qed.

Lemma loop_events_sorted t bs W : sortedZ t -> 1 <= bs -> 0 <= W ->
  exists steps, ccg_steps t bs W = Some steps /\
                concat (map step_events steps) = flat_map (events_at t bs W) (seq 1 (length t - 1)).
Proof.
  intros Hs Hbs HW. apply loop_events; [lia|exact HW|apply sortedZ_nth; exact Hs].
Qed.

Lemma NoDup_all_events' t bs W : NoDup (all_events t bs W).
Proof. exact (NoDup_all_events t bs W (repeat 0 (length t)) (repeat_length 0 (length t))). Qed.

(* ================= _index_of ================= *)
Lemma fold_max_ge h l : h <= fold_right Z.max h l /\ forall x, In x l -> x <= fold_right Z.max h l.
Proof.
  induction l as [|y r [IH1 IH2]]; cbn [fold_right In]; [split; [lia|tauto]|].
  split; [lia|]. intros x [->|H]; [lia|]. specialize (IH2 x H). lia.
Qed.

Lemma map_fst_combine {X Y} (a : list X) (b : list Y) : length a = length b -> map fst (combine a b) = a.
Proof.
  revert b; induction a as [|x a IH]; intros [|y b] H; cbn in *; try reflexivity; try discriminate.
  f_equal. apply IH. lia.
Qed.

Lemma nth_error_combine {X Y} (a : list X) (b : list Y) p x y :
  nth_error a p = Some x -> nth_error b p = Some y -> nth_error (combine a b) p = Some (x, y).
Proof.
  revert a b; induction p as [|p IH]; intros [|x' a] [|y' b] Ha Hb; cbn in *; try discriminate.
  - now injection Ha as ->; injection Hb as ->.
  - now apply IH.
Qed.

Definition lkmax (l : list Z) : Z := match l with [] => 0 | _ => fold_right Z.max (hd 0 l) l end.
Lemma lkmax_ge l x : In x l -> x <= lkmax l.
Proof. destruct l as [|y r]; [intros []|]. unfold lkmax. apply (fold_max_ge (hd 0 (y :: r)) (y :: r)). Qed.
Lemma lkmax_nonneg l : (forall x, In x l -> 0 <= x) -> 0 <= lkmax l.
Proof.
  destruct l as [|y r]; intros H; [cbn; lia|]. unfold lkmax.
  pose proof (proj1 (fold_max_ge (hd 0 (y :: r)) (y :: r))) as H1. cbn [hd] in *.
  pose proof (H y (or_introl eq_refl)). lia.
Qed.

Section IndexOf.
Variable lookup : list Z.
Hypothesis Hnd : NoDup lookup.
Hypothesis Hnn : forall x, In x lookup -> 0 <= x.

Definition lk_max : Z := lkmax lookup.
Definition lk_len : Z := lk_max + 1 + 1.
(* the lookup  tmp[x]  of _index_of *)
Definition tab (x : Z) : Z := nth (pyidx (Z.of_nat (length (index_table lookup))) x) (index_table lookup) 0.

Lemma lk_max_ge x : In x lookup -> x <= lk_max.
Proof. apply lkmax_ge. Qed.

Lemma lk_max_nonneg : 0 <= lk_max.
Proof. apply lkmax_nonneg. exact Hnn. Qed.

Lemma index_table_unfold :
  index_table lookup =
  scatter (upd (repeat 0 (Z.to_nat lk_len)) (pyidx lk_len (-1)) (-1))
          (combine (map (pyidx lk_len) lookup) (map Z.of_nat (seq 0 (length lookup)))).
Proof. reflexivity. Qed.

Lemma index_table_length : length (index_table lookup) = Z.to_nat lk_len.
Proof. rewrite index_table_unfold, scatter_length, upd_length, repeat_length. reflexivity. Qed.

Lemma tab_pos p : (p < length lookup)%nat -> tab (nth p lookup (-1)) = Z.of_nat p.
Proof.
  intros Hp. unfold tab. rewrite index_table_length.
  pose proof lk_max_nonneg as Hm.
  set (x := nth p lookup (-1)).
  assert (Hin : In x lookup) by (apply nth_In; exact Hp).
  pose proof (Hnn x Hin) as Hx0. pose proof (lk_max_ge x Hin) as Hx1.
  assert (Hpy : forall y, 0 <= y -> pyidx lk_len y = Z.to_nat y).
  { intros y Hy. unfold pyidx. replace (y <? 0) with false by lia. reflexivity. }
  rewrite Z2Nat.id by (unfold lk_len; lia). rewrite Hpy by exact Hx0.
  rewrite index_table_unfold.
  rewrite scatter_nth.
  2:{ intros [j v] Hw. apply in_combine_l in Hw. apply in_map_iff in Hw as (y & <- & Hy). cbn [fst].
      rewrite upd_length, repeat_length. rewrite Hpy by (apply Hnn; exact Hy).
      pose proof (Hnn y Hy). pose proof (lk_max_ge y Hy). unfold lk_len. lia. }
  rewrite (last_write_unique (Z.to_nat x) _ p (Z.of_nat p)); [reflexivity| |].
  - rewrite map_fst_combine by (now rewrite !map_length, seq_length).
    apply NoDup_map_inj_in; [|exact Hnd]. intros a b Ha Hb. rewrite !Hpy by (apply Hnn; assumption).
    pose proof (Hnn a Ha). pose proof (Hnn b Hb). lia.
  - apply nth_error_combine.
    + rewrite nth_error_map. rewrite (nth_error_nth' lookup (-1) Hp). fold x. cbn [option_map].
      now rewrite Hpy by exact Hx0.
    + rewrite nth_error_map, (nth_error_nth' (seq 0 (length lookup)) 0%nat) by (now rewrite seq_length).
      now rewrite seq_nth by exact Hp.
Qed.

Lemma tab_in x : In x lookup -> exists p, (p < length lookup)%nat /\ nth p lookup (-1) = x /\ tab x = Z.of_nat p.
Proof.
  intros H. destruct (In_nth lookup x (-1) H) as (p & Hp & Hx). exists p. split; [exact Hp|]. split; [exact Hx|].
  rewrite <- Hx. now apply tab_pos.
Qed.

Lemma tab_range x : In x lookup -> 0 <= tab x < zlen lookup.
Proof. intros H. destruct (tab_in x H) as (p & Hp & _ & ->). unfold zlen. lia. Qed.

Lemma tab_eqb x i : In x lookup -> (i < length lookup)%nat -> (tab x =? Z.of_nat i) = (x =? nth i lookup (-1)).
Proof.
  intros H Hi. destruct (tab_in x H) as (p & Hp & Hx & ->).
  destruct (Z.of_nat p =? Z.of_nat i) eqn:E.
  - apply Z.eqb_eq in E. apply Nat2Z.inj in E. subst i. rewrite Hx. symmetry. apply Z.eqb_refl.
  - symmetry. apply Z.eqb_neq. intros Heq. apply Z.eqb_neq in E. apply E. f_equal.
    apply (proj1 (NoDup_nth lookup (-1)) Hnd p i Hp Hi). now rewrite Hx.
Qed.

Lemma index_of_chk_map labels : (forall x, In x labels -> In x lookup) ->
  index_of_chk labels lookup = Some (map tab labels).
Proof.
  intros Hsub. unfold index_of_chk. rewrite index_table_length.
  pose proof lk_max_nonneg as Hm.
  replace (forallb _ labels) with true; [reflexivity|].
  symmetry. apply forallb_forall. intros x Hx. specialize (Hsub x Hx).
  pose proof (Hnn x Hsub). pose proof (lk_max_ge x Hsub).
  rewrite Z2Nat.id by (unfold lk_len; lia). unfold lk_len. lia.
Qed.
End IndexOf.

(* ================= parameters ================= *)
Lemma clip5_nonneg x : (0 <= clip5 x)%Q.
Proof.
  unfold clip5, clipQ.
  assert (H0 : (0 <= clip_lo)%Q) by (unfold clip_lo, Qle; cbn; lia).
  assert (H1 : (0 <= clip_hi)%Q) by (unfold clip_hi, Qle; cbn; lia).
  destruct (Qle_bool x clip_lo) eqn:E1.
  - destruct (Qle_bool clip_hi clip_lo); assumption.
  - destruct (Qle_bool clip_hi x) eqn:E2; [assumption|].
    assert (~ (x <= clip_lo)%Q) as Hn by (rewrite <- Qle_bool_iff, E1; discriminate).
    apply Qnot_le_lt in Hn. apply Qlt_le_weak. eapply Qle_lt_trans; [exact H0|exact Hn].
Qed.

Lemma half_of_nonneg bin win : 0 <= half_of bin win.
Proof.
  unfold half_of. change 0 with (Qfloor 0). apply Qfloor_resp_le.
  unfold Qdiv. apply Qmult_le_0_compat; [apply Qmult_le_0_compat|].
  - unfold Qle; cbn; lia.
  - apply clip5_nonneg.
  - apply Qinv_le_0_compat, clip5_nonneg.
Qed.

(* ================= the (nc, nc, nb) view of the flat array ================= *)
Lemma nth_map_zrange' {X} (f : Z -> X) m k d : (k < m)%nat -> nth k (map f (zrange 0 m)) d = f (Z.of_nat k).
Proof.
  intros H. rewrite (nth_indep _ d (f 0)) by (rewrite map_length, zrange_length; exact H).
  rewrite map_nth, zrange_nth by exact H. reflexivity.
Qed.

Lemma cube_of_shape nc nb flat : Shape (Z.to_nat nc) (Z.to_nat nc) (Z.to_nat nb) (cube_of nc nb flat).
Proof.
  unfold Shape, cube_of. split; [now rewrite map_length, zrange_length|].
  apply Forall_forall. intros row Hrow. apply in_map_iff in Hrow as (i & <- & _).
  split; [now rewrite map_length, zrange_length|].
  apply Forall_forall. intros c Hc. apply in_map_iff in Hc as (j & <- & _).
  now rewrite map_length, zrange_length.
Qed.

Lemma cube_of_nth nc nb flat i j k : (i < Z.to_nat nc)%nat -> (j < Z.to_nat nc)%nat -> (k < Z.to_nat nb)%nat ->
  nth k (cell (cube_of nc nb flat) i j) 0 = nthZ flat ((Z.of_nat i * nc + Z.of_nat j) * nb + Z.of_nat k).
Proof.
  intros Hi Hj Hk. unfold cell, cube_of.
  rewrite (nth_map_zrange' _ _ i []) by exact Hi.
  rewrite (nth_map_zrange' _ _ j []) by exact Hj.
  now rewrite (nth_map_zrange' _ _ k 0) by exact Hk.
Qed.

(* ================= correlograms with the caller's cluster list ================= *)
Lemma nth_map_tab ids labels a : (a < length labels)%nat ->
  nth a (map (tab ids) labels) 0 = tab ids (nth a labels (-1)).
Proof.
  intros Ha. rewrite (nth_indep _ 0 (tab ids (-1))) by (now rewrite map_length). apply map_nth.
Qed.

Lemma ccg_core_spec t labels ids bs W :
  sortedZ t -> length labels = length t -> ids_ok labels ids -> 1 <= bs -> 0 <= W ->
  exists C, ccg_core t (map (tab ids) labels) (zlen ids) bs W = Some C /\ OneSided_Spec t labels ids bs W C.
Proof.
  intros Hs Hlen (Hnd & Hnn & Hsub) Hbs HW.
  assert (Hrange : forall a, (a < length t)%nat -> 0 <= nth a (map (tab ids) labels) 0 < zlen ids).
  { intros a Ha. rewrite nth_map_tab by lia. apply tab_range; [exact Hnd|exact Hnn|].
    apply Hsub, nth_In. lia. }
  destruct (accumulate_core t bs W (map (tab ids) labels) (zlen ids) ltac:(lia) HW (sortedZ_nth t Hs)
              ltac:(now rewrite map_length) Hrange) as (steps & flat & Hst & Hacc & Hfl & Hent).
  exists (cube_of (zlen ids) (W + 1) flat). unfold ccg_core. rewrite Hst, Hacc. split; [reflexivity|].
  split.
  - pose proof (cube_of_shape (zlen ids) (W + 1) flat) as H. unfold zlen in H. rewrite Nat2Z.id in H. exact H.
  - intros i j k Hi Hj Hk.
    rewrite cube_of_nth by (unfold zlen; lia).
    rewrite Hent by (unfold zlen; lia).
    unfold pair_count_ci, pair_count. f_equal. f_equal.
    apply filter_ext_in. intros [a b] Hab. apply in_all_pairs in Hab. cbn [fst snd].
    rewrite !nth_map_tab by lia.
    rewrite (tab_eqb ids Hnd Hnn _ i) by (try (apply Hsub, nth_In); lia).
    rewrite (tab_eqb ids Hnd Hnn _ j) by (try (apply Hsub, nth_In); lia).
    reflexivity.
Qed.

Lemma correlograms_onesided t labels ids rate bin win :
  (0 < rate)%Q -> sortedZ t -> length labels = length t -> ids_ok labels ids -> 1 <= binsize_of rate bin ->
  exists C, correlograms t labels (Some ids) rate bin win false = Some C /\
            OneSided_Spec t labels ids (binsize_of rate bin) (half_of bin win) C.
Proof.
  intros Hr Hs Hlen Hok Hbs. unfold correlograms.
  replace (Qle_bool rate 0) with false.
  2:{ symmetry. apply not_true_is_false. rewrite Qle_bool_iff. apply Qlt_not_le. exact Hr. }
  replace (sortedZb t) with true by (symmetry; apply sortedZb_spec; exact Hs).
  replace (Nat.eqb (length t) (length labels)) with true by (symmetry; apply Nat.eqb_eq; lia).
  cbn [negb]. replace (binsize_of rate bin <? 1) with false by lia.
  cbn [clusters_of]. destruct Hok as (Hnd & Hnn & Hsub).
  rewrite (index_of_chk_map ids Hnn labels Hsub).
  destruct (ccg_core_spec t labels ids (binsize_of rate bin) (half_of bin win) Hs Hlen (conj Hnd (conj Hnn Hsub)) Hbs
              (half_of_nonneg bin win)) as (C & -> & HC).
  exists C. split; [reflexivity|exact HC].
Qed.

(* ================= the default cluster list: _unique ================= *)
Lemma zrange_NoDup a k : NoDup (zrange a k).
Proof.
  revert a; induction k as [|k IH]; intros a; cbn [zrange]; constructor; [|apply IH].
  intros H. apply zrange_ge in H. lia.
Qed.

Lemma zrange_sorted a k : StronglySorted Z.lt (zrange a k).
Proof.
  revert a; induction k as [|k IH]; intros a; cbn [zrange]; constructor; [apply IH|].
  apply Forall_forall. intros x H. apply zrange_ge in H. lia.
Qed.

Lemma filter_sorted (p : Z -> bool) l : StronglySorted Z.lt l -> StronglySorted Z.lt (filter p l).
Proof.
  induction 1 as [|x l Hs IH Hx]; cbn [filter]; [constructor|].
  destruct (p x); [|exact IH]. constructor; [exact IH|].
  apply Forall_forall. intros y Hy. apply filter_In in Hy as [Hy _].
  rewrite Forall_forall in Hx. now apply Hx.
Qed.

Lemma unique_in x c : In c (unique x) <-> 0 <= c /\ In c x.
Proof.
  unfold unique. set (x' := filter (fun v => 0 <=? v) x). rewrite filter_In. split.
  - intros [_ H]. apply existsb_exists in H as (y & Hy & E). apply Z.eqb_eq in E. subst y.
    apply filter_In in Hy as [Hy Hc]. split; [lia|exact Hy].
  - intros [Hc Hin]. assert (Hin' : In c x') by (apply filter_In; split; [exact Hin|lia]). split.
    + apply zrange_in. pose proof (zmax_ge x' c Hin'). pose proof (zmax_nonneg x'). lia.
    + apply existsb_exists. exists c. split; [exact Hin'|apply Z.eqb_refl].
Qed.

Lemma unique_sorted x : StronglySorted Z.lt (unique x).
Proof. unfold unique. apply filter_sorted, zrange_sorted. Qed.

Lemma unique_ids_ok labels : (forall x, In x labels -> 0 <= x) -> ids_ok labels (unique labels).
Proof.
  intros Hnn. split; [unfold unique; apply NoDup_filter, zrange_NoDup|]. split.
  - intros x H. now apply unique_in in H.
  - intros x H. apply unique_in. split; [now apply Hnn|exact H].
Qed.

(* ================= order of the clusters, ids without spikes ================= *)
Lemma pair_count_absent t bs labels x y k : length labels = length t ->
  ~ In x labels \/ ~ In y labels -> pair_count t bs labels x y k = 0.
Proof.
  intros Hlen Habs. unfold pair_count. rewrite filter_nil; [reflexivity|].
  intros [a b] Hab. apply in_all_pairs in Hab. cbn [fst snd].
  destruct (nth a labels (-1) =? x) eqn:E1; [|reflexivity].
  destruct (nth b labels (-1) =? y) eqn:E2; [|reflexivity].
  exfalso. apply Z.eqb_eq in E1, E2. destruct Habs as [H|H]; apply H; [rewrite <- E1|rewrite <- E2]; apply nth_In; lia.
Qed.

(* ================= _symmetrize_correlograms ================= *)
Lemma shape_cell n1 n2 n3 C i j : Shape n1 n2 n3 C -> (i < n1)%nat -> (j < n2)%nat -> length (cell C i j) = n3.
Proof.
  intros [H1 H2] Hi Hj. unfold cell. rewrite Forall_forall in H2.
  destruct (H2 (nth i C [])) as [Hr Hc]; [apply nth_In; lia|].
  rewrite Forall_forall in Hc. apply Hc. apply nth_In. lia.
Qed.

Lemma nth_cons_tl (L : list Z) x k : L <> [] -> (1 <= k)%nat -> nth k (x :: tl L) 0 = nth k L 0.
Proof. intros HL Hk. destruct L as [|c r]; [congruence|]. destruct k; [lia|reflexivity]. Qed.

Lemma sym_centre_unfold C i j w : length (cell C i j) = S w -> length (cell C j i) = S w ->
  sym_centre C i j = Z.max (nth 0 (cell C i j) 0) (nth 0 (cell C j i) 0) :: tl (cell C i j).
Proof.
  intros H1 H2. unfold sym_centre. destruct (cell C i j) as [|c0 r]; [discriminate|].
  destruct (cell C j i) as [|c0' r']; [discriminate|]. reflexivity.
Qed.

Lemma symmetrize_spec nc w C : Shape nc nc (S w) C ->
  exists S', symmetrize C = Some S' /\ Sym_Spec nc w C S'.
Proof.
  intros HS. pose proof HS as [Hlen Hrows]. unfold symmetrize. rewrite Hlen.
  replace (forallb (fun row => Nat.eqb (length row) nc) C) with true.
  2:{ symmetry. apply forallb_forall. intros row Hr. rewrite Forall_forall in Hrows. apply Nat.eqb_eq. now apply Hrows. }
  eexists. split; [reflexivity|].
  set (S' := map _ (seq 0 nc)).
  assert (Hcell : forall i j, (i < nc)%nat -> (j < nc)%nat ->
            cell S' i j = rev (tl (cell C j i)) ++ Z.max (nth 0 (cell C i j) 0) (nth 0 (cell C j i) 0) :: tl (cell C i j)).
  { intros i j Hi Hj. unfold cell, S'. rewrite (nth_map_seq _ nc i []) by exact Hi.
    rewrite (nth_map_seq _ nc j []) by exact Hj.
    pose proof (shape_cell _ _ _ C i j HS Hi Hj) as L1. pose proof (shape_cell _ _ _ C j i HS Hj Hi) as L2.
    rewrite (sym_centre_unfold C j i w L2 L1), (sym_centre_unfold C i j w L1 L2). reflexivity. }
  assert (Hthree : forall i j, (i < nc)%nat -> (j < nc)%nat ->
    (forall k, (1 <= k <= w)%nat -> nth (w + k) (cell S' i j) 0 = nth k (cell C i j) 0) /\
    (forall k, (1 <= k <= w)%nat -> nth (w - k) (cell S' i j) 0 = nth k (cell C j i) 0) /\
    nth w (cell S' i j) 0 = Z.max (nth 0 (cell C i j) 0) (nth 0 (cell C j i) 0)).
  { intros i j Hi Hj. rewrite (Hcell i j Hi Hj).
    pose proof (shape_cell _ _ _ C i j HS Hi Hj) as L1. pose proof (shape_cell _ _ _ C j i HS Hj Hi) as L2.
    assert (Lt : length (tl (cell C j i)) = w) by (destruct (cell C j i); cbn in *; [discriminate|lia]).
    assert (Lr : length (rev (tl (cell C j i))) = w) by (now rewrite rev_length).
    assert (N1 : cell C i j <> []) by (intros E; rewrite E in L1; discriminate).
    assert (N2 : cell C j i <> []) by (intros E; rewrite E in L2; discriminate).
    split; [|split].
    - intros k Hk. rewrite app_nth2 by lia. rewrite Lr. replace (w + k - w)%nat with k by lia.
      apply nth_cons_tl; [exact N1|lia].
    - intros k Hk. rewrite app_nth1 by lia. rewrite rev_nth by lia. rewrite Lt.
      replace (w - S (w - k))%nat with (k - 1)%nat by lia.
      rewrite <- (nth_cons_tl (cell C j i) 0 k N2) by lia.
      destruct k; [lia|]. cbn [nth]. now replace (S k - 1)%nat with k by lia.
    - rewrite app_nth2 by lia. rewrite Lr, Nat.sub_diag. reflexivity. }
  split.
  - split; [unfold S'; now rewrite map_length, seq_length|].
    apply Forall_forall. intros row Hr. unfold S' in Hr. apply in_map_iff in Hr as (i & <- & Hi). apply in_seq in Hi.
    split; [now rewrite map_length, seq_length|].
    apply Forall_forall. intros c Hc. apply in_map_iff in Hc as (j & <- & Hj). apply in_seq in Hj.
    pose proof (shape_cell _ _ _ C i j HS ltac:(lia) ltac:(lia)) as L1.
    pose proof (shape_cell _ _ _ C j i HS ltac:(lia) ltac:(lia)) as L2.
    rewrite (sym_centre_unfold C j i w L2 L1), (sym_centre_unfold C i j w L1 L2).
    rewrite app_length, rev_length. cbn [length].
    destruct (cell C j i); destruct (cell C i j); cbn in *; try discriminate. lia.
  - intros i j Hi Hj. destruct (Hthree i j Hi Hj) as (P1 & P2 & P3). destruct (Hthree j i Hj Hi) as (Q1 & Q2 & Q3).
    split; [exact P1|]. split; [exact P2|]. split; [exact P3|].
    intros k Hk. destruct (Nat.lt_trichotomy k w) as [Hlt|[->|Hgt]].
    + replace k with (w - (w - k))%nat at 1 by lia. rewrite P2 by lia.
      replace (2 * w - k)%nat with (w + (w - k))%nat by lia. now rewrite Q1 by lia.
    + replace (2 * w - w)%nat with w by lia. rewrite P3, Q3. apply Z.max_comm.
    + replace k with (w + (k - w))%nat at 1 by lia. rewrite P1 by lia.
      replace (2 * w - k)%nat with (w - (k - w))%nat by lia. now rewrite Q2 by lia.
Qed.

Lemma correlograms_sym t labels ids rate bin win :
  (0 < rate)%Q -> sortedZ t -> length labels = length t -> ids_ok labels ids -> 1 <= binsize_of rate bin ->
  exists C S', correlograms t labels (Some ids) rate bin win false = Some C /\
               correlograms t labels (Some ids) rate bin win true = Some S' /\
               OneSided_Spec t labels ids (binsize_of rate bin) (half_of bin win) C /\
               Sym_Spec (length ids) (Z.to_nat (half_of bin win)) C S'.
Proof.
  intros Hr Hs Hlen Hok Hbs.
  destruct (correlograms_onesided t labels ids rate bin win Hr Hs Hlen Hok Hbs) as (C & HC & Hspec).
  pose proof (half_of_nonneg bin win) as HW.
  assert (HS : Shape (length ids) (length ids) (S (Z.to_nat (half_of bin win))) C).
  { destruct Hspec as [H _]. now rewrite Z2Nat.inj_add, Nat.add_1_r in H by lia. }
  destruct (symmetrize_spec _ _ C HS) as (S' & HS' & Hsym).
  exists C, S'. split; [exact HC|]. split; [|split; [exact Hspec|exact Hsym]].
  revert HC. unfold correlograms.
  destruct (Qle_bool rate 0); [discriminate|]. destruct (negb (sortedZb t)); [discriminate|].
  destruct (negb (Nat.eqb (length t) (length labels))); [discriminate|].
  destruct (binsize_of rate bin <? 1); [discriminate|].
  destruct (index_of_chk labels (clusters_of labels (Some ids))) as [ci|]; [|discriminate].
  destruct (ccg_core t ci _ _ _) as [C0|]; [|discriminate].
  intros H. injection H as ->. exact HS'.
Qed.

(* ================= firing_rate ================= *)
Lemma nth_map' {X Y} (f : X -> Y) l i dx dy : (i < length l)%nat -> nth i (map f l) dy = f (nth i l dx).
Proof. intros H. rewrite (nth_indep _ dy (f dx)) by (now rewrite map_length). apply map_nth. Qed.

Lemma nth_app_zeros (l : list Z) m i : nth i (l ++ repeat 0 m) 0 = nth i l 0.
Proof.
  destruct (Nat.lt_ge_cases i (length l)) as [H|H]; [now apply app_nth1|].
  rewrite app_nth2 by exact H. rewrite (nth_overflow l) by exact H.
  generalize (i - length l)%nat. clear. induction m as [|m IH]; intros [|k]; cbn; auto.
Qed.

Lemma count_tab ids labels i : NoDup ids -> (forall x, In x ids -> 0 <= x) -> (forall x, In x labels -> In x ids) ->
  (i < length ids)%nat ->
  count_occ Z.eq_dec (map (tab ids) labels) (Z.of_nat i) = count_occ Z.eq_dec labels (nth i ids (-1)).
Proof.
  intros Hnd Hnn Hsub Hi. rewrite !count_occ_filter, filter_map_comm, map_length. f_equal.
  apply filter_ext_in. intros x Hx. apply tab_eqb; auto.
Qed.

Lemma firing_rate_spec labels ids bin dur : ids_ok labels ids -> (0 < bin)%Q ->
  exists R, firing_rate labels (Some ids) bin dur = Some R /\ Rate_Spec labels ids bin (eff_dur dur) R.
Proof.
  intros (Hnd & Hnn & Hsub) Hbin. unfold firing_rate. cbn [clusters_of].
  rewrite (index_of_chk_map ids Hnn labels Hsub).
  replace (Qle_bool bin 0) with false.
  2:{ symmetry. apply not_true_is_false. rewrite Qle_bool_iff. apply Qlt_not_le. exact Hbin. }
  set (ci := map (tab ids) labels).
  assert (Hci : Forall (fun x => 0 <= x < zlen ids) ci).
  { apply Forall_forall. intros y Hy. apply in_map_iff in Hy as (x & <- & Hx). apply tab_range; auto. }
  replace (existsb (fun x => x <? 0) ci) with false.
  2:{ symmetry. apply not_true_is_false. intros H. apply existsb_exists in H as (y & Hy & E).
      rewrite Forall_forall in Hci. specialize (Hci y Hy). lia. }
  pose proof (bincount_length ci (zlen ids) ltac:(unfold zlen; lia) Hci) as Hbl.
  unfold zlen in Hbl. rewrite Nat2Z.id in Hbl.
  set (bc := bincount ci ++ repeat 0 (length ids - length (bincount ci))).
  assert (Hlen : length bc = length ids) by (unfold bc; rewrite app_length, repeat_length; lia).
  replace (Nat.eqb (length bc) (length ids)) with true by (symmetry; apply Nat.eqb_eq; exact Hlen).
  cbn [negb]. eexists. split; [reflexivity|].
  assert (Hbc : forall i, (i < length ids)%nat -> nth i bc 0 = n_spikes labels (nth i ids (-1))).
  { intros i Hi. unfold bc. rewrite nth_app_zeros, bincount_nth.
    - unfold n_spikes, ci. now rewrite count_tab.
    - eapply Forall_impl; [|exact Hci]. cbn. intros; lia. }
  split; [now rewrite map_length|]. split.
  - apply Forall_forall. intros row Hr. apply in_map_iff in Hr as (bi & <- & _). now rewrite map_length.
  - intros i j Hi Hj. rewrite (nth_map' _ bc i 0 []) by lia. rewrite (nth_map' _ bc j 0 0%Q) by lia.
    rewrite !Hbc by assumption. rewrite Z.mul_comm. reflexivity.
Qed.

Lemma rate_empty labels ids bin d R i j : Rate_Spec labels ids bin d R ->
  (i < length ids)%nat -> (j < length ids)%nat ->
  ~ In (nth i ids (-1)) labels \/ ~ In (nth j ids (-1)) labels -> (nth j (nth i R []) 0 == 0)%Q.
Proof.
  intros (_ & _ & H) Hi Hj Habs. rewrite (H i j Hi Hj).
  assert (n_spikes labels (nth i ids (-1)) * n_spikes labels (nth j ids (-1)) = 0) as ->.
  { unfold n_spikes. destruct Habs as [Ha|Ha]; apply (count_occ_not_In Z.eq_dec) in Ha; rewrite Ha; lia. }
  apply Qmult_0_l.
Qed.

Lemma onesided_absent t labels ids bs W C i j k : length labels = length t ->
  OneSided_Spec t labels ids bs W C -> (i < length ids)%nat -> (j < length ids)%nat -> Z.of_nat k <= W ->
  ~ In (nth i ids (-1)) labels \/ ~ In (nth j ids (-1)) labels -> nth k (cell C i j) 0 = 0.
Proof. intros Hlen [_ H] Hi Hj Hk Habs. rewrite H by assumption. now apply pair_count_absent. Qed.

Lemma correlograms_order t labels ids ids' rate bin win C C' :
  (0 < rate)%Q -> sortedZ t -> length labels = length t -> ids_ok labels ids -> ids_ok labels ids' ->
  1 <= binsize_of rate bin ->
  correlograms t labels (Some ids) rate bin win false = Some C ->
  correlograms t labels (Some ids') rate bin win false = Some C' ->
  forall i j i' j' k, (i < length ids)%nat -> (j < length ids)%nat -> (i' < length ids')%nat -> (j' < length ids')%nat ->
    nth i ids (-1) = nth i' ids' (-1) -> nth j ids (-1) = nth j' ids' (-1) -> Z.of_nat k <= half_of bin win ->
    nth k (cell C i j) 0 = nth k (cell C' i' j') 0.
Proof.
  intros Hr Hs Hlen Hok Hok' Hbs HC HC' i j i' j' k Hi Hj Hi' Hj' Ei Ej Hk.
  destruct (correlograms_onesided t labels ids rate bin win Hr Hs Hlen Hok Hbs) as (C0 & E0 & [_ H0]).
  destruct (correlograms_onesided t labels ids' rate bin win Hr Hs Hlen Hok' Hbs) as (C1 & E1 & [_ H1]).
  rewrite HC in E0. injection E0 as <-. rewrite HC' in E1. injection E1 as <-.
  rewrite H0, H1 by assumption. now rewrite Ei, Ej.
Qed.

Lemma correlograms_absent t labels ids rate bin win C :
  (0 < rate)%Q -> sortedZ t -> length labels = length t -> ids_ok labels ids -> 1 <= binsize_of rate bin ->
  correlograms t labels (Some ids) rate bin win false = Some C ->
  forall i j k, (i < length ids)%nat -> (j < length ids)%nat -> Z.of_nat k <= half_of bin win ->
    ~ In (nth i ids (-1)) labels \/ ~ In (nth j ids (-1)) labels -> nth k (cell C i j) 0 = 0.
Proof.
  intros Hr Hs Hlen Hok Hbs HC i j k Hi Hj Hk Habs.
  destruct (correlograms_onesided t labels ids rate bin win Hr Hs Hlen Hok Hbs) as (C0 & E0 & H0).
  rewrite HC in E0. injection E0 as <-. eapply onesided_absent; eassumption.
Qed.

Lemma correlograms_unsorted t labels ids rate bin win symm : ~ sortedZ t -> correlograms t labels ids rate bin win symm = None.
Proof.
  intros H. unfold correlograms. destruct (Qle_bool rate 0); [reflexivity|].
  replace (sortedZb t) with false; [reflexivity|].
  symmetry. apply not_true_is_false. now rewrite sortedZb_spec.
Qed.

Lemma default_ids labels : (forall x, In x labels -> 0 <= x) ->
  ids_ok labels (unique labels) /\ StronglySorted Z.lt (unique labels) /\
  (forall c, In c (unique labels) <-> In c labels).
Proof.
  intros Hnn. split; [now apply unique_ids_ok|]. split; [apply unique_sorted|].
  intros c. rewrite unique_in. split; [tauto|]. intros H. split; [now apply Hnn|exact H].
Qed.
