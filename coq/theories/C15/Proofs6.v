(* C15/Proofs6.v -- stage 3: the float parameter layer (ParamsModel.v) derives, in the exact regime
   (Spec.params_regime), the integers Model.v works with. *)
From Coq Require Import ZArith List Lia Bool QArith Qround Qabs Qpower Lqa.
From PV Require Import Base.NpList Base.NpSearch C15.Model C15.Spec C15.ParamsModel C15.Proofs3.
Import ListNotations.
Open Scope Z_scope.

(* ================= Nearest ================= *)
Lemma is_f64_wd x y : (x == y)%Q -> is_f64 x -> is_f64 y.
Proof. intros E (m & e & H1 & H2 & H3). exists m, e. split; [exact H1|]. split; [exact H2|]. now rewrite <- E. Qed.

Lemma Nearest_wd x x' f : (x == x')%Q -> Nearest x f -> Nearest x' f.
Proof.
  intros E [H1 H2]. split; [exact H1|]. intros g Hg. specialize (H2 g Hg).
  assert (A : (x' - f == x - f)%Q) by (rewrite E; reflexivity).
  assert (B : (x' - g == x - g)%Q) by (rewrite E; reflexivity).
  now rewrite (Qabs_wd _ _ A), (Qabs_wd _ _ B).
Qed.

Lemma Nearest_refl x : is_f64 x -> Nearest x x.
Proof.
  intros H. split; [exact H|]. intros g _.
  assert (A : (x - x == 0)%Q) by ring. rewrite (Qabs_wd _ _ A). apply Qabs_nonneg.
Qed.

(* an exactly representable result is returned exactly *)
Lemma Nearest_exact x f : is_f64 x -> Nearest x f -> (f == x)%Q.
Proof.
  intros Hx [_ H]. specialize (H x Hx).
  assert (A : (x - x == 0)%Q) by ring. rewrite (Qabs_wd _ _ A) in H. change (Qabs 0) with 0%Q in H.
  apply Qabs_Qle_condition in H. destruct H as [H1 H2]. lra.
Qed.

(* the result never leaves an interval whose end points are floats *)
Lemma Nearest_sandwich x f lo hi : is_f64 lo -> is_f64 hi -> (lo <= x)%Q -> (x <= hi)%Q -> Nearest x f ->
  (lo <= f)%Q /\ (f <= hi)%Q.
Proof.
  intros Hlo Hhi L U [_ H]. split.
  - specialize (H lo Hlo). rewrite (Qabs_pos (x - lo)) in H by lra.
    apply Qabs_Qle_condition in H. destruct H as [H1 H2]. lra.
  - specialize (H hi Hhi). rewrite (Qabs_neg (x - hi)) in H by lra.
    apply Qabs_Qle_condition in H. destruct H as [H1 H2]. lra.
Qed.

(* ================= representable values ================= *)
Lemma is_f64_Z z : Z.abs z < 2 ^ 53 -> is_f64 (inject_Z z).
Proof.
  intros H. exists z, 0. split; [exact H|]. split; [lia|]. change (2 ^ 0)%Q with 1%Q. ring.
Qed.

Lemma Qpower2_pos k : 0 <= k -> (2 ^ k == inject_Z (2 ^ k))%Q.
Proof. intros H. symmetry. apply (Zpower_Qpower 2 k H). Qed.

(* n / 2^k *)
Lemma is_f64_Qmake n (d : positive) k : Z.abs n < 2 ^ 53 -> 0 <= k <= 1074 -> Z.pos d = 2 ^ k -> is_f64 (n # d).
Proof.
  intros Hn Hk Hd. exists n, (- k). split; [exact Hn|]. split; [lia|].
  rewrite Qmake_Qdiv, Hd, Qpower_opp, (Qpower2_pos k) by lia. reflexivity.
Qed.

Definition pow2d (d : positive) : Prop := Z.pos d = 2 ^ Z.log2 (Z.pos d).

Lemma dyadic_spec nb db x : 0 <= db -> dyadic nb db x = true ->
  exists n d, (x == n # d)%Q /\ Z.abs n < 2 ^ nb /\ pow2d d /\ 0 <= Z.log2 (Z.pos d) <= db.
Proof.
  intros Hdb H. unfold dyadic in H. apply andb_true_iff in H as [H H3]. apply andb_true_iff in H as [H1 H2].
  exists (Qnum (Qred x)), (Qden (Qred x)). split.
  - rewrite <- (Qred_correct x) at 1. destruct (Qred x); reflexivity.
  - split; [lia|]. unfold is_pow2 in H1. apply Z.eqb_eq in H1. split; [exact H1|].
    split; [apply Z.log2_nonneg|]. apply Z.leb_le in H3. rewrite H1 in H3.
    apply (Z.pow_le_mono_r_iff 2); lia.
Qed.

Lemma dyadic_f64 nb db x : 0 <= nb <= 53 -> 0 <= db <= 1074 -> dyadic nb db x = true -> is_f64 x.
Proof.
  intros Hnb Hdb H. destruct (dyadic_spec nb db x ltac:(lia) H) as (n & d & E & Hn & Hd & Hk).
  apply (is_f64_wd (n # d)); [now symmetry|]. apply (is_f64_Qmake n d (Z.log2 (Z.pos d))); [|lia|exact Hd].
  assert (2 ^ nb <= 2 ^ 53) by (apply Z.pow_le_mono_r; lia). lia.
Qed.

(* ================= truncation ================= *)
Lemma Qtrunc_Z p s : (p == inject_Z s)%Q -> Qtrunc p = s.
Proof.
  intros H. unfold Qtrunc. destruct (Qle_bool 0 p).
  - rewrite (Qfloor_comp _ _ H). apply Qfloor_Z.
  - rewrite (Qceiling_comp _ _ H). apply Qceiling_Z.
Qed.

Lemma Qfloor_unique q k : (inject_Z k <= q)%Q -> (q < inject_Z (k + 1))%Q -> Qfloor q = k.
Proof.
  intros L U. pose proof (Qfloor_le q) as A. pose proof (Qlt_floor q) as B.
  assert (k < Qfloor q + 1) by (rewrite Zlt_Qlt; eapply Qle_lt_trans; eassumption).
  assert (Qfloor q < k + 1) by (rewrite Zlt_Qlt; eapply Qle_lt_trans; eassumption).
  lia.
Qed.

Lemma Qtrunc_nonneg q : (0 <= q)%Q -> Qtrunc q = Qfloor q.
Proof. intros H. unfold Qtrunc. apply Qle_bool_iff in H. now rewrite H. Qed.

(* ================= np.clip is the identity in the regime ================= *)
Lemma clip_lo_f_small : (clip_lo_f < 1 # 4096)%Q.
Proof. reflexivity. Qed.
Lemma clip_lo_small : (clip_lo < 1 # 4096)%Q.
Proof. reflexivity. Qed.
(* the float constant is not the rational 10^-5 but lies within 10^-21 of it, above *)
Lemma clip_lo_f_close : (clip_lo < clip_lo_f)%Q /\ (clip_lo_f - clip_lo < 1 # 1000000000000000000000)%Q.
Proof. split; reflexivity. Qed.

Lemma clipQ_id x lo : (lo < x)%Q -> (x < clip_hi)%Q -> clipQ x lo clip_hi = x.
Proof.
  intros L U. unfold clipQ. destruct (Qle_bool x lo) eqn:E1; [apply Qle_bool_iff in E1; lra|].
  destruct (Qle_bool clip_hi x) eqn:E2; [apply Qle_bool_iff in E2; lra|reflexivity].
Qed.

Lemma in_range_clip x : in_range (1 # 4096) (4096 # 1) x = true ->
  clipf x = x /\ clip5 x = x /\ (1 # 4096 <= x)%Q /\ (x <= 4096 # 1)%Q.
Proof.
  unfold in_range. intros H. apply andb_true_iff in H as [L U]. apply Qle_bool_iff in L, U.
  pose proof clip_lo_f_small. pose proof clip_lo_small.
  assert (x < clip_hi)%Q by (unfold clip_hi; lra).
  split; [apply clipQ_id; [lra|assumption]|]. split; [apply clipQ_id; [lra|assumption]|]. split; assumption.
Qed.

(* ================= binsize ================= *)
Lemma Qmake_nonneg_num n d : (0 <= n # d)%Q -> 0 <= n.
Proof. unfold Qle. cbn. lia. Qed.
Lemma Qmake_pos_num n d : (0 < n # d)%Q -> 0 < n.
Proof. unfold Qlt. cbn. lia. Qed.

Lemma binsize_exact rate bin bs : (0 < rate)%Q -> dyadic 20 12 rate = true -> dyadic 13 12 bin = true ->
  in_range (1 # 4096) (4096 # 1) bin = true -> f_binsize rate bin bs -> bs = binsize_of rate bin.
Proof.
  intros Hr D1 D2 R (p & Hp & ->). destruct (in_range_clip bin R) as (C1 & C2 & L & U).
  unfold binsize_of. rewrite C1 in Hp. rewrite C2.
  destruct (dyadic_spec 20 12 rate ltac:(lia) D1) as (n1 & d1 & E1 & N1 & P1 & K1).
  destruct (dyadic_spec 13 12 bin ltac:(lia) D2) as (n2 & d2 & E2 & N2 & P2 & K2).
  assert (F : is_f64 (rate * bin)).
  { apply (is_f64_wd ((n1 * n2) # (d1 * d2))); [rewrite E1, E2; reflexivity|].
    apply (is_f64_Qmake _ _ (Z.log2 (Z.pos d1) + Z.log2 (Z.pos d2))).
    - rewrite Z.abs_mul. assert (Z.abs n1 * Z.abs n2 < 2 ^ 20 * 2 ^ 13) by (apply Z.mul_lt_mono_nonneg; lia). lia.
    - lia.
    - rewrite Pos2Z.inj_mul, Z.pow_add_r by lia. unfold pow2d in P1, P2. congruence. }
  pose proof (Nearest_exact _ _ F Hp) as E.
  assert (0 <= rate * bin)%Q by (apply Qmult_le_0_compat; lra).
  rewrite Qtrunc_nonneg by (rewrite E; assumption). now apply Qfloor_comp.
Qed.

(* ================= winsize_bins ================= *)
(* the floor of a quotient of small integers survives one rounding: x = P / d with d <= 2^26, x < 2^25 *)
Lemma floor_nearest (P : Z) (d : positive) x q : 0 <= P < 2 ^ 25 -> Z.pos d <= 2 ^ 26 -> (x == P # d)%Q ->
  Nearest x q -> Qtrunc q = P / Z.pos d /\ Qfloor x = P / Z.pos d.
Proof.
  intros HP Hd E N. set (D := Z.pos d) in *. set (k := P / D).
  assert (HD : 0 < D) by (unfold D; lia).
  assert (K1 : D * k <= P) by (apply Z.mul_div_le; lia).
  assert (K2 : P < D * Z.succ k) by (apply Z.mul_succ_div_gt; lia).
  assert (K0 : 0 <= k) by (apply Z.div_pos; lia).
  assert (K3 : k <= P) by (unfold k; apply Z.div_le_upper_bound; nia).
  split; [|rewrite (Qfloor_comp _ _ E); reflexivity].
  set (M := (k + 1) * 2 ^ 26 - 1).
  assert (Flo : is_f64 (inject_Z k)) by (apply is_f64_Z; lia).
  assert (Fhi : is_f64 (M # (2 ^ 26))).
  { apply (is_f64_Qmake _ _ 26); [unfold M; lia|lia|reflexivity]. }
  assert (L : (inject_Z k <= x)%Q) by (rewrite E; unfold Qle; cbn; fold D; lia).
  assert (U : (x <= M # (2 ^ 26))%Q).
  { rewrite E. unfold Qle. cbn [Qnum Qden]. fold D. change (Z.pos (2 ^ 26)) with (2 ^ 26). unfold M. nia. }
  destruct (Nearest_sandwich x q _ _ Flo Fhi L U N) as [A B].
  assert (B' : (q < inject_Z (k + 1))%Q).
  { eapply Qle_lt_trans; [exact B|]. unfold Qlt. cbn [Qnum Qden inject_Z]. change (Z.pos (2 ^ 26)) with (2 ^ 26).
    unfold M. lia. }
  rewrite Qtrunc_nonneg.
  - apply Qfloor_unique; assumption.
  - eapply Qle_trans; [|exact A]. change 0%Q with (inject_Z 0). rewrite <- Zle_Qle. exact K0.
Qed.

Lemma pow2d_le d k : pow2d d -> 0 <= Z.log2 (Z.pos d) <= k -> Z.pos d <= 2 ^ k.
Proof. intros P K. rewrite P. apply Z.pow_le_mono_r; lia. Qed.

Lemma winsize_exact bin win wb : dyadic 13 12 bin = true -> in_range (1 # 4096) (4096 # 1) bin = true ->
  dyadic 13 12 win = true -> in_range (1 # 4096) (4096 # 1) win = true ->
  f_winsize bin win wb -> wb = 2 * half_of bin win + 1.
Proof.
  intros D2 R2 D3 R3 (h & q & Hh & Hq & ->).
  destruct (in_range_clip bin R2) as (C1 & C2 & L2 & U2). destruct (in_range_clip win R3) as (C3 & C4 & L3 & U3).
  unfold half_of. rewrite C1 in Hq. rewrite C3 in Hh. rewrite C2, C4.
  destruct (dyadic_spec 13 12 bin ltac:(lia) D2) as (nb & db & Eb & Nb & Pb & Kb).
  destruct (dyadic_spec 13 12 win ltac:(lia) D3) as (nw & dw & Ew & Nw & Pw & Kw).
  assert (Hnb : 0 < nb) by (apply (Qmake_pos_num nb db); rewrite <- Eb; eapply Qlt_le_trans; [|exact L2]; reflexivity).
  assert (Hnw : 0 < nw) by (apply (Qmake_pos_num nw dw); rewrite <- Ew; eapply Qlt_le_trans; [|exact L3]; reflexivity).
  pose proof (pow2d_le _ _ Pb Kb) as Bb. pose proof (pow2d_le _ _ Pw Kw) as Bw.
  assert (F : is_f64 ((1 # 2) * win)).
  { apply (is_f64_wd (nw # (2 * dw))).
    - rewrite Ew. unfold Qeq, Qmult. cbn [Qnum Qden]. rewrite !Pos2Z.inj_mul. ring.
    - apply (is_f64_Qmake _ _ (Z.log2 (Z.pos dw) + 1)); [lia|lia|].
      rewrite Pos2Z.inj_mul, Z.pow_add_r by lia. unfold pow2d in Pw. rewrite <- Pw. lia. }
  pose proof (Nearest_exact _ _ F Hh) as Eh.
  assert (Hq' : Nearest ((1 # 2) * win / bin) q) by (apply (Nearest_wd (h / bin)); [now rewrite Eh|exact Hq]).
  destruct nb as [|pb|pb]; try lia.
  assert (Ex : ((1 # 2) * win / bin == (nw * Z.pos db) # (2 * dw * pb))%Q).
  { rewrite Ew, Eb. unfold Qeq, Qdiv, Qmult, Qinv. cbn [Qnum Qden]. rewrite !Pos2Z.inj_mul. ring. }
  assert (HP : 0 <= nw * Z.pos db < 2 ^ 25).
  { split; [lia|]. assert (nw * Z.pos db <= (2 ^ 13 - 1) * 2 ^ 12) by (apply Z.mul_le_mono_nonneg; lia). lia. }
  assert (Hd : Z.pos (2 * dw * pb) <= 2 ^ 26).
  { rewrite !Pos2Z.inj_mul. assert (Z.pos dw * Z.pos pb <= 2 ^ 12 * 2 ^ 13) by (apply Z.mul_le_mono_nonneg; lia). lia. }
  destruct (floor_nearest _ _ _ _ HP Hd Ex Hq') as [T Fl]. rewrite T, Fl. reflexivity.
Qed.

(* ================= spike samples ================= *)
Lemma samples_exact rate : (0 < rate)%Q -> forall t times samples,
  forallb (fun s => (Z.abs s <? 2 ^ 50) && exact_f64 (inject_Z s / rate)) t = true ->
  Forall2 (fun tm s => (tm == inject_Z s / rate)%Q) times t ->
  f_samples times rate samples -> samples = t /\ Forall is_f64 times.
Proof.
  intros Hr t times samples Hreg H1. revert samples Hreg. unfold f_samples.
  induction H1 as [|tm s times t Htm H1 IH]; intros samples Hreg H2.
  - inversion H2. split; [reflexivity|constructor].
  - inversion H2 as [|tm' s' times' samples' (p & Hp & Hs) H2' E1 E2]. subst.
    cbn [forallb] in Hreg. apply andb_true_iff in Hreg as [Hs Hreg]. apply andb_true_iff in Hs as [Hs1 Hs2].
    destruct (IH samples' Hreg H2') as [-> Ft]. split.
    + f_equal. apply Qtrunc_Z. apply Nearest_exact; [apply is_f64_Z; lia|].
      apply (Nearest_wd (tm * rate)); [|exact Hp]. rewrite Htm. field. lra.
    + constructor; [|exact Ft]. apply (is_f64_wd (inject_Z s / rate)); [now symmetry|].
      apply (dyadic_f64 53 900); [lia|lia|exact Hs2].
Qed.

(* ================= C15_params ================= *)
Lemma params_exact (t : list Z) (rate bin win : Q) (times : list Q) (samples : list Z) (bs wb : Z) :
  params_regime t rate bin win = true ->
  Forall2 (fun tm s => (tm == inject_Z s / rate)%Q) times t ->
  f_samples times rate samples -> f_binsize rate bin bs -> f_winsize bin win wb ->
  (Forall is_f64 times /\ is_f64 rate /\ is_f64 bin /\ is_f64 win) /\
  samples = t /\ bs = binsize_of rate bin /\
  wb = 2 * half_of bin win + 1 /\ wb / 2 = half_of bin win /\ wb mod 2 = 1 /\ 1 <= wb.
Proof.
  intros Hreg Ht Hs Hb Hw. unfold params_regime in Hreg.
  repeat (apply andb_true_iff in Hreg as [Hreg ?]).
  assert (Hr : (0 < rate)%Q).
  { destruct (Qle_bool rate 0) eqn:E; [discriminate|]. apply Qnot_le_lt. intros C. apply Qle_bool_iff in C. congruence. }
  destruct (samples_exact rate Hr t times samples Hreg Ht Hs) as [-> Ft].
  pose proof (winsize_exact bin win wb ltac:(assumption) ltac:(assumption) ltac:(assumption) ltac:(assumption) Hw) as Ew.
  pose proof (half_of_nonneg bin win) as Hh.
  split; [|split; [reflexivity|]]; [|split; [now apply binsize_exact|]].
  - split; [exact Ft|]. split; [apply (dyadic_f64 20 12); [lia|lia|assumption]|].
    split; apply (dyadic_f64 13 12); try lia; assumption.
  - split; [exact Ew|]. rewrite Ew. repeat split; [| |lia]; Z.div_mod_to_equations; lia.
Qed.

(* ================= a sufficient criterion for Nearest (inexact results) =================
   f = m * 2^e with 2^52 < m < 2^53 (a normalised positive float, not the first of its binade): every other float
   is at least one ulp = 2^e away, so any x within half an ulp of f has f as a nearest float. *)
Lemma f64_scale m e c : c <= e -> (inject_Z m * 2 ^ e == inject_Z (m * 2 ^ (e - c)) * 2 ^ c)%Q.
Proof.
  intros H. rewrite inject_Z_mult, (Zpower_Qpower 2 (e - c)) by lia.
  replace e with ((e - c) + c) at 1 by lia. rewrite Qpower_plus by discriminate.
  change (inject_Z 2) with 2%Q. generalize (2 ^ (e - c))%Q (2 ^ c)%Q. intros a b. ring.
Qed.

Lemma Qpow2_pos c : (0 < 2 ^ c)%Q.
Proof. apply Qpower_0_lt. reflexivity. Qed.

Lemma spacing m e g : 2 ^ 52 < m < 2 ^ 53 -> is_f64 g ->
  (g == inject_Z m * 2 ^ e)%Q \/ (2 ^ e <= Qabs (g - inject_Z m * 2 ^ e))%Q.
Proof.
  intros Hm (m' & e' & Hm' & _ & Eg).
  set (c := Z.min e e'). set (F := m * 2 ^ (e - c)). set (G := m' * 2 ^ (e' - c)). set (U := 2 ^ (e - c)).
  assert (EF : (inject_Z m * 2 ^ e == inject_Z F * 2 ^ c)%Q) by (apply f64_scale; unfold c; lia).
  assert (EG : (g == inject_Z G * 2 ^ c)%Q) by (rewrite Eg; apply f64_scale; unfold c; lia).
  assert (EU : (2 ^ e == inject_Z U * 2 ^ c)%Q).
  { unfold U. rewrite (Zpower_Qpower 2 (e - c)) by (unfold c; lia). rewrite <- Qpower_plus by discriminate.
    replace (e - c + c) with e by lia. reflexivity. }
  assert (Int : G = F \/ U <= Z.abs (G - F)).
  { destruct (Z.le_gt_cases e e') as [Hle|Hgt].
    - assert (c = e) by (unfold c; lia). unfold U. replace (e - c) with 0 by lia. change (2 ^ 0) with 1. lia.
    - assert (Hc : c = e') by (unfold c; lia). right. unfold G, F, U. rewrite Hc. replace (e' - e') with 0 by lia.
      change (2 ^ 0) with 1. rewrite Z.mul_1_r.
      assert (2 <= 2 ^ (e - e')) by (change 2 with (2 ^ 1) at 1; apply Z.pow_le_mono_r; lia).
      assert ((2 ^ 52 + 1) * 2 ^ (e - e') <= m * 2 ^ (e - e')) by (apply Z.mul_le_mono_nonneg_r; lia).
      lia. }
  destruct Int as [I|I].
  - left. rewrite EG, EF, I. reflexivity.
  - right.
    assert (Ed : (g - inject_Z m * 2 ^ e == inject_Z (G - F) * 2 ^ c)%Q).
    { rewrite EG, EF. unfold Zminus. rewrite inject_Z_plus, inject_Z_opp. ring. }
    rewrite (Qabs_wd _ _ Ed), Qabs_Qmult, EU. rewrite (Qabs_pos (2 ^ c)) by (apply Qlt_le_weak, Qpow2_pos).
    apply Qmult_le_compat_r; [|apply Qlt_le_weak, Qpow2_pos].
    change (Qabs (inject_Z (G - F))) with (inject_Z (Z.abs (G - F))). rewrite <- Zle_Qle. exact I.
Qed.

Lemma nearest_criterion m e x : 2 ^ 52 < m < 2 ^ 53 -> -1074 <= e <= 971 ->
  (Qabs (x - inject_Z m * 2 ^ e) * 2 <= 2 ^ e)%Q -> Nearest x (inject_Z m * 2 ^ e).
Proof.
  intros Hm He Hx. split; [exists m, e; split; [lia|]; split; [exact He|reflexivity]|].
  intros g Hg. destruct (spacing m e g Hm Hg) as [E|S].
  - assert (A : (x - g == x - inject_Z m * 2 ^ e)%Q) by (rewrite E; reflexivity).
    rewrite (Qabs_wd _ _ A). apply Qle_refl.
  - set (f := (inject_Z m * 2 ^ e)%Q) in *.
    pose proof (Qabs_triangle (g - x) (x - f)) as T.
    assert (A : (g - x + (x - f) == g - f)%Q) by ring. rewrite (Qabs_wd _ _ A) in T.
    rewrite (Qabs_Qminus g x) in T.
    generalize dependent (Qabs (x - f)). generalize dependent (Qabs (x - g)). generalize dependent (Qabs (g - f)).
    intros a S b T c Hx. pose proof (Qpow2_pos e). lra.
Qed.

(* the same, for a float given as a fraction n / 2^k *)
Lemma nearest_criterion_frac (n : Z) (k : Z) x : 2 ^ 52 < n < 2 ^ 53 -> 0 <= k <= 1074 ->
  (Qabs (x - (n # Z.to_pos (2 ^ k))) * 2 <= 1 # Z.to_pos (2 ^ k))%Q -> Nearest x (n # Z.to_pos (2 ^ k)).
Proof.
  intros Hn Hk Hx.
  assert (P : 0 < 2 ^ k) by (apply Z.pow_pos_nonneg; lia).
  assert (E : (n # Z.to_pos (2 ^ k) == inject_Z n * 2 ^ (- k))%Q).
  { rewrite Qmake_Qdiv, Z2Pos.id, Qpower_opp, (Qpower2_pos k) by lia. reflexivity. }
  assert (E1 : (1 # Z.to_pos (2 ^ k) == 2 ^ (- k))%Q).
  { rewrite Qmake_Qdiv, Z2Pos.id, Qpower_opp, (Qpower2_pos k) by lia. unfold Qdiv. ring. }
  destruct (nearest_criterion n (- k) x Hn ltac:(lia)) as [F N].
  - assert (A : (x - inject_Z n * 2 ^ (- k) == x - (n # Z.to_pos (2 ^ k)))%Q) by (rewrite E; reflexivity).
    rewrite (Qabs_wd _ _ A), <- E1. exact Hx.
  - split; [apply (is_f64_wd _ _ (Qeq_sym _ _ E) F)|].
    intros g Hg. specialize (N g Hg).
    assert (A : (x - (n # Z.to_pos (2 ^ k)) == x - inject_Z n * 2 ^ (- k))%Q) by (rewrite E; reflexivity).
    rewrite (Qabs_wd _ _ A). exact N.
Qed.

(* float64(1e-5) really is a float nearest to 10^-5: the constant used by clipf *)
Lemma clip_lo_f_nearest : Nearest clip_lo clip_lo_f.
Proof.
  change clip_lo_f with (5902958103587057 # Z.to_pos (2 ^ 69)).
  apply nearest_criterion_frac; [split; reflexivity|lia|]. vm_compute. discriminate.
Qed.

(* a genuinely rounded division: .5 * 7 / 3 = 1.1666... -> 0x1.2aaaaaaaaaaabp+0 = 5254199565265579 / 2^52 *)
Lemma nearest_7_6 : Nearest ((7 # 2) / 3) (5254199565265579 # Z.to_pos (2 ^ 52)).
Proof. apply nearest_criterion_frac; [split; reflexivity|lia|]. vm_compute. discriminate. Qed.
