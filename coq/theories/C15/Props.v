(* C15/Props.v -- the property theorems, and nothing else. *)
From Coq Require Import ZArith List Lia Bool QArith.
From PV Require Import Base.NpList Base.NpSearch C15.Model C15.Spec C15.Proofs C15.Proofs2 C15.Proofs3 C15.Proofs4.
Import ListNotations.
Open Scope Z_scope.

(* The shift loop of correlograms(), for every non-decreasing spike train, binsize >= 1 and half
   window W >= 0: fuel n is enough (the while loop stops after at most n-1 shifts), and the increments
   it performs, in the order it performs them, are exactly, shift after shift, the spikes a whose
   partner a+shift lies within the half window -- the shrinking mask never hides such a spike and the
   early stop never skips a later shift that would still contribute. *)
Theorem C15_loop : forall (t : list Z) (bs W : Z), sortedZ t -> 1 <= bs -> 0 <= W ->
  exists steps, ccg_steps t bs W = Some steps /\
                concat (map step_events steps) = flat_map (events_at t bs W) (seq 1 (length t - 1)).
Proof. exact loop_events_sorted. Qed.
Print Assumptions C15_loop.

(* (a, b, d) is incremented iff a is before b in the array, d is the binned lag and d <= W *)
Theorem C15_mem : forall (t : list Z) (bs W : Z) (a b : nat) (d : Z),
  In (mkev a b d) (all_events t bs W) <-> (a < b < length t)%nat /\ d = D t bs a b /\ d <= W.
Proof. exact events_mem. Qed.
Print Assumptions C15_mem.

(* no pair is counted twice *)
Theorem C15_nodup : forall (t : list Z) (bs W : Z), NoDup (all_events t bs W).
Proof. exact NoDup_all_events'. Qed.
Print Assumptions C15_nodup.

(* THE HEADLINE.  correlograms(..., symmetrize=False) for every non-decreasing spike train, EVERY
   labelling and every caller's cluster list (distinct non-negative ids containing every label, in
   any order, possibly with ids that have no spikes), every rate > 0 / bin / window with
   binsize = floor(rate * clip(bin)) >= 1: the call succeeds (no assertion, no IndexError, no
   ravel_multi_index / bincount / broadcast error, the loop does not run out of fuel), the array has shape
   (len ids, len ids, W + 1) with W = floor(clip(window) / (2 clip(bin))), and entry (i, j, k) is the number of
   index pairs a < b with label a = ids[i], label b = ids[j] and floor((t_b - t_a) / binsize) = k. *)
Theorem C15_pairs : forall (t labels ids : list Z) (rate bin win : Q),
  (0 < rate)%Q -> sortedZ t -> length labels = length t -> ids_ok labels ids -> 1 <= binsize_of rate bin ->
  exists C, correlograms t labels (Some ids) rate bin win false = Some C /\
            OneSided_Spec t labels ids (binsize_of rate bin) (half_of bin win) C.
Proof. exact correlograms_onesided. Qed.
Print Assumptions C15_pairs.

(* cluster_ids=None: the cluster list is _unique(labels), which for non-negative labels is a valid
   list (so C15_pairs applies to it), strictly increasing, and contains exactly the labels *)
Theorem C15_default_ids : forall labels : list Z, (forall x, In x labels -> 0 <= x) ->
  ids_ok labels (clusters_of labels None) /\ Sorted.StronglySorted Z.lt (clusters_of labels None) /\
  (forall c, In c (clusters_of labels None) <-> In c labels).
Proof. exact default_ids. Qed.
Print Assumptions C15_default_ids.

(* ... and the call with cluster_ids=None is the call with that list *)
Theorem C15_default_call : forall t labels rate bin win symm dur,
  correlograms t labels None rate bin win symm =
  correlograms t labels (Some (clusters_of labels None)) rate bin win symm /\
  firing_rate labels None bin dur = firing_rate labels (Some (clusters_of labels None)) bin dur.
Proof. intros. split; reflexivity. Qed.
Print Assumptions C15_default_call.

(* clusters in the caller's order: the entry for a pair of cluster ids does not depend on which other
   ids the caller lists nor on the order -- it sits at the positions the two ids have in the caller's list *)
Theorem C15_order : forall (t labels ids ids' : list Z) (rate bin win : Q) (C C' : cube),
  (0 < rate)%Q -> sortedZ t -> length labels = length t -> ids_ok labels ids -> ids_ok labels ids' ->
  1 <= binsize_of rate bin ->
  correlograms t labels (Some ids) rate bin win false = Some C ->
  correlograms t labels (Some ids') rate bin win false = Some C' ->
  forall i j i' j' k, (i < length ids)%nat -> (j < length ids)%nat -> (i' < length ids')%nat -> (j' < length ids')%nat ->
    nth i ids (-1) = nth i' ids' (-1) -> nth j ids (-1) = nth j' ids' (-1) -> Z.of_nat k <= half_of bin win ->
    nth k (cell C i j) 0 = nth k (cell C' i' j') 0.
Proof. exact correlograms_order. Qed.
Print Assumptions C15_order.

(* ids without spikes give zero rows and zero columns *)
Theorem C15_order_empty : forall (t labels ids : list Z) (rate bin win : Q) (C : cube),
  (0 < rate)%Q -> sortedZ t -> length labels = length t -> ids_ok labels ids -> 1 <= binsize_of rate bin ->
  correlograms t labels (Some ids) rate bin win false = Some C ->
  forall i j k, (i < length ids)%nat -> (j < length ids)%nat -> Z.of_nat k <= half_of bin win ->
    ~ In (nth i ids (-1)) labels \/ ~ In (nth j ids (-1)) labels -> nth k (cell C i j) 0 = 0.
Proof. exact correlograms_absent. Qed.
Print Assumptions C15_order_empty.

(* _symmetrize_correlograms on ANY (nc, nc, w+1) array: 2w+1 bins, positive lags reproduce the one-sided
   entries, negative lags are the transposed entries, the centre is the larger of the two zero-lag
   entries, and S[i,j,k] = S[j,i,-k] *)
Theorem C15_sym_array : forall (nc w : nat) (C : cube), Shape nc nc (S w) C ->
  exists S', symmetrize C = Some S' /\ Sym_Spec nc w C S'.
Proof. exact symmetrize_spec. Qed.
Print Assumptions C15_sym_array.

(* correlograms(..., symmetrize=True) is that symmetrisation of the one-sided pair counts *)
Theorem C15_sym : forall (t labels ids : list Z) (rate bin win : Q),
  (0 < rate)%Q -> sortedZ t -> length labels = length t -> ids_ok labels ids -> 1 <= binsize_of rate bin ->
  exists C S', correlograms t labels (Some ids) rate bin win false = Some C /\
               correlograms t labels (Some ids) rate bin win true = Some S' /\
               OneSided_Spec t labels ids (binsize_of rate bin) (half_of bin win) C /\
               Sym_Spec (length ids) (Z.to_nat (half_of bin win)) C S'.
Proof. exact correlograms_sym. Qed.
Print Assumptions C15_sym.

(* firing_rate: R[i][j] = n_i * n_j * bin / (duration or 1), clusters in the caller's order *)
Theorem C15_rate : forall (labels ids : list Z) (bin : Q) (dur : option Q), ids_ok labels ids -> (0 < bin)%Q ->
  exists R, firing_rate labels (Some ids) bin dur = Some R /\ Rate_Spec labels ids bin (eff_dur dur) R.
Proof. exact firing_rate_spec. Qed.
Print Assumptions C15_rate.

(* ... zero for empty clusters *)
Theorem C15_rate_empty : forall (labels ids : list Z) (bin d : Q) (R : list (list Q)) (i j : nat),
  Rate_Spec labels ids bin d R -> (i < length ids)%nat -> (j < length ids)%nat ->
  ~ In (nth i ids (-1)) labels \/ ~ In (nth j ids (-1)) labels -> (nth j (nth i R []) 0 == 0)%Q.
Proof. exact rate_empty. Qed.
Print Assumptions C15_rate_empty.

(* the hypothesis "non-decreasing" is what the code asserts: otherwise the call is rejected *)
Theorem C15_rejects_unsorted : forall t labels ids rate bin win symm,
  ~ sortedZ t -> correlograms t labels ids rate bin win symm = None.
Proof. exact correlograms_unsorted. Qed.
Print Assumptions C15_rejects_unsorted.

(* ---- the boolean checkers that Corr.v evaluates on phylib's observed arrays are sound for the Spec ----
   (so a run without code 21/22/23/24/26 certifies, case by case, the declarative statements on the
   arrays phylib actually returned, not only their agreement with the model) *)
Theorem C15_checker_onesided : forall (t labels ids : list Z) (bs W : Z) (C : cube),
  length labels = length t -> 0 <= W ->
  onesided_b t labels ids bs W C = true -> OneSided_Spec t labels ids bs W C.
Proof. exact onesided_b_sound. Qed.
Print Assumptions C15_checker_onesided.

Theorem C15_checker_sym : forall (t labels ids : list Z) (bs W : Z) (S' : cube),
  length labels = length t -> 0 <= W ->
  let E := expected_cube t labels ids bs W in
  let nc := length ids in let w := Z.to_nat W in
  shape_b nc nc (2 * w + 1) S' = true -> sym_pos_b E S' nc w = true -> sym_mirror_b S' nc = true ->
  sym_centre_b E S' nc w = true ->
  OneSided_Spec t labels ids bs W E /\ Sym_Spec nc w E S'.
Proof.
  intros t labels ids bs W S' Hlen HW E nc w H1 H2 H3 H4.
  split; [now apply expected_cube_spec|now apply sym_checks_sound].
Qed.
Print Assumptions C15_checker_sym.

Theorem C15_checker_rate : forall (labels ids : list Z) (bin d : Q) (R : list (list Q)),
  rate_b labels ids bin d R = true -> Rate_Spec labels ids bin d R.
Proof. exact rate_b_sound. Qed.
Print Assumptions C15_checker_rate.

(* ---- non-vacuity: concrete, non-trivial instances ---- *)
(* 5 spikes, two at the same sample, ids in the caller's order [7; 4; 9; 1] (7 and 9 have no spikes),
   binsize 1, W = 2 *)
Example C15_ex_steps :
  option_map (map step_events) (ccg_steps [0; 0; 1; 1; 2] 1 2) =
  Some [ [mkev 0 1 0; mkev 1 2 1; mkev 2 3 0; mkev 3 4 1];
         [mkev 0 2 1; mkev 1 3 1; mkev 2 4 1];
         [mkev 0 3 1; mkev 1 4 2];
         [mkev 0 4 2] ].
Proof. vm_compute. reflexivity. Qed.
Example C15_ex_mem : In (mkev 1 4 2) (all_events [0; 0; 1; 1; 2] 1 2) /\ D [0; 0; 1; 1; 2] 1 1 4 = 2.
Proof. vm_compute. tauto. Qed.
Example C15_ex_pairs :
  correlograms [0; 0; 1; 1; 2] [4; 1; 1; 4; 4] (Some [7; 4; 9; 1]) 1 1 4 false =
  Some [ [[0;0;0]; [0;0;0]; [0;0;0]; [0;0;0]];
         [[0;0;0]; [0;2;1]; [0;0;0]; [1;1;0]];
         [[0;0;0]; [0;0;0]; [0;0;0]; [0;0;0]];
         [[0;0;0]; [1;2;1]; [0;0;0]; [0;1;0]] ]
  /\ ids_ok [4; 1; 1; 4; 4] [7; 4; 9; 1] /\ sortedZ [0; 0; 1; 1; 2] /\ binsize_of 1 1 = 1 /\ half_of 1 4 = 2.
Proof.
  split; [vm_compute; reflexivity|]. split.
  - split; [repeat (constructor; [cbn; lia|]); constructor|]. split; intros x H; cbn in H |- *; lia.
  - split; [apply sortedZb_spec; reflexivity|]. split; vm_compute; reflexivity.
Qed.
Example C15_ex_pair_count : pair_count [0; 0; 1; 1; 2] 1 [4; 1; 1; 4; 4] 4 4 1 = 2 /\
                            pair_count [0; 0; 1; 1; 2] 1 [4; 1; 1; 4; 4] 1 4 0 = 1.
Proof. vm_compute. tauto. Qed.
(* the same call with the ids permuted: entries move with the ids *)
Example C15_ex_order :
  correlograms [0; 0; 1; 1; 2] [4; 1; 1; 4; 4] (Some [1; 4]) 1 1 4 false =
  Some [ [[0;1;0]; [1;2;1]]; [[1;1;0]; [0;2;1]] ].
Proof. vm_compute. reflexivity. Qed.
Example C15_ex_default : clusters_of [5; 2; 5; 5; 2] None = [2; 5].
Proof. vm_compute. reflexivity. Qed.
Example C15_ex_sym :
  correlograms [0; 0; 1; 1; 2] [4; 1; 1; 4; 4] (Some [1; 4]) 1 1 4 true =
  Some [ [[0;1;0;1;0]; [0;1;1;2;1]]; [[1;2;1;1;0]; [1;2;0;2;1]] ].
Proof. vm_compute. reflexivity. Qed.
Example C15_ex_rate :
  option_map (map (map Qred)) (firing_rate [4; 1; 4; 4] (Some [4; 9; 1]) (1 # 4) (Some (2 # 1))) =
  Some [ [9 # 8; 0; 3 # 8]; [0; 0; 0]; [3 # 8; 0; 1 # 8] ]%Q.
Proof. vm_compute. reflexivity. Qed.
Example C15_ex_unsorted : correlograms [0; 2; 1] [1; 1; 1] None 1 1 2 false = None /\ ~ sortedZ [0; 2; 1].
Proof. split; [vm_compute; reflexivity|]. rewrite <- sortedZb_spec. vm_compute. discriminate. Qed.
Example C15_ex_checker :
  onesided_b [0; 0; 1; 1; 2] [4; 1; 1; 4; 4] [1; 4] 1 2 [ [[0;1;0]; [1;2;1]]; [[1;1;0]; [0;2;1]] ] = true /\
  onesided_b [0; 0; 1; 1; 2] [4; 1; 1; 4; 4] [1; 4] 1 2 [ [[0;1;0]; [1;2;1]]; [[1;1;0]; [0;2;2]] ] = false.
Proof. vm_compute. tauto. Qed.
