(* C15/Props.v -- the property theorems, and nothing else. *)
From Coq Require Import ZArith List Lia Bool QArith.
From PV Require Import Base.NpList Base.NpSearch C15.Model C15.Spec C15.Proofs C15.Proofs2 C15.Proofs3.
Import ListNotations.
Open Scope Z_scope.

(* The shift loop of correlograms(), for every non-decreasing spike train, binsize >= 1 and half
   window W >= 0: fuel n is enough (the while loop stops after at most n-1 shifts), and the increments
   it performs, in the order it performs them, are exactly, shift after shift, the spikes a whose
   partner a+shift lies within the half window -- the shrinking mask never hides such a spike and the
   early stop never skips a later shift that would still contribute. *)
Theorem C15_loop : forall (t : list Z) (bs W : Z), sortedZ t -> 1 <= bs -> 0 <= W ->
  exists steps, ccg_steps t bs W = Some steps /\
                concat (map step_events steps) = flat_map (events_at t bs W) (seq 1 (length t - 1)).
Proof. exact loop_events_sorted. Qed.
Print Assumptions C15_loop.

(* (a, b, d) is incremented iff a is before b in the array, d is the binned lag and d <= W *)
Theorem C15_mem : forall (t : list Z) (bs W : Z) (a b : nat) (d : Z),
  In (mkev a b d) (all_events t bs W) <-> (a < b < length t)%nat /\ d = D t bs a b /\ d <= W.
Proof. exact events_mem. Qed.
Print Assumptions C15_mem.

(* no pair is counted twice *)
Theorem C15_nodup : forall (t : list Z) (bs W : Z), NoDup (all_events t bs W).
Proof. exact NoDup_all_events'. Qed.
Print Assumptions C15_nodup.
