(* C15/Props.v -- the property theorems, and nothing else. *)
From Coq Require Import ZArith List Lia Bool QArith Qround Qabs.
From PV Require Import Base.NpList Base.NpSearch C15.Model C15.Spec C15.Proofs C15.Proofs2 C15.Proofs3 C15.Proofs4.
From PV Require Import C15.ParamsModel C15.Proofs5 C15.Proofs6 C15.Proofs7 C15.Proofs8.
Import ListNotations.
Open Scope Z_scope.

(* The shift loop of correlograms(), for every non-decreasing spike train, binsize >= 1 and half
   window W >= 0: fuel n is enough (the while loop stops after at most n-1 shifts), and the increments
   it performs, in the order it performs them, are exactly, shift after shift, the spikes a whose
   partner a+shift lies within the half window -- the shrinking mask never hides such a spike and the
   early stop never skips a later shift that would still contribute. *)
Theorem C15_loop : forall (t : list Z) (bs W : Z), sortedZ t -> 1 <= bs -> 0 <= W ->
  exists steps, ccg_steps t bs W = Some steps /\
                concat (map step_events steps) = flat_map (events_at t bs W) (seq 1 (length t - 1)).
Proof. exact loop_events_sorted. Qed.
Print Assumptions C15_loop.

(* (a, b, d) is incremented iff a is before b in the array, d is the binned lag and d <= W *)
Theorem C15_mem : forall (t : list Z) (bs W : Z) (a b : nat) (d : Z),
  In (mkev a b d) (all_events t bs W) <-> (a < b < length t)%nat /\ d = D t bs a b /\ d <= W.
Proof. exact events_mem. Qed.
Print Assumptions C15_mem.

(* no pair is counted twice *)
Theorem C15_nodup : forall (t : list Z) (bs W : Z), NoDup (all_events t bs W).
Proof. exact NoDup_all_events'. Qed.
Print Assumptions C15_nodup.

(* THE HEADLINE.  correlograms(..., symmetrize=False) for every non-decreasing spike train, EVERY
   labelling and every caller's cluster list (distinct non-negative ids containing every label, in
   any order, possibly with ids that have no spikes), every rate > 0 / bin / window with
   binsize = floor(rate * clip(bin)) >= 1: the call succeeds (no assertion, no IndexError, no
   ravel_multi_index / bincount / broadcast error, the loop does not run out of fuel), the array has shape
   (len ids, len ids, W + 1) with W = floor(clip(window) / (2 clip(bin))), and entry (i, j, k) is the number of
   index pairs a < b with label a = ids[i], label b = ids[j] and floor((t_b - t_a) / binsize) = k. *)
Theorem C15_pairs : forall (t labels ids : list Z) (rate bin win : Q),
  (0 < rate)%Q -> sortedZ t -> length labels = length t -> ids_ok labels ids -> 1 <= binsize_of rate bin ->
  exists C, correlograms t labels (Some ids) rate bin win false = Some C /\
            OneSided_Spec t labels ids (binsize_of rate bin) (half_of bin win) C.
Proof. exact correlograms_onesided. Qed.
Print Assumptions C15_pairs.

(* cluster_ids=None: the cluster list is _unique(labels), which for non-negative labels is a valid
   list (so C15_pairs applies to it), strictly increasing, and contains exactly the labels *)
Theorem C15_default_ids : forall labels : list Z, (forall x, In x labels -> 0 <= x) ->
  ids_ok labels (clusters_of labels None) /\ Sorted.StronglySorted Z.lt (clusters_of labels None) /\
  (forall c, In c (clusters_of labels None) <-> In c labels).
Proof. exact default_ids. Qed.
Print Assumptions C15_default_ids.

(* ... and the call with cluster_ids=None is the call with that list *)
Theorem C15_default_call : forall t labels rate bin win symm dur,
  correlograms t labels None rate bin win symm =
  correlograms t labels (Some (clusters_of labels None)) rate bin win symm /\
  firing_rate labels None bin dur = firing_rate labels (Some (clusters_of labels None)) bin dur.
Proof. intros. split; reflexivity. Qed.
Print Assumptions C15_default_call.

(* clusters in the caller's order: the entry for a pair of cluster ids does not depend on which other
   ids the caller lists nor on the order -- it sits at the positions the two ids have in the caller's list *)
Theorem C15_order : forall (t labels ids ids' : list Z) (rate bin win : Q) (C C' : cube),
  (0 < rate)%Q -> sortedZ t -> length labels = length t -> ids_ok labels ids -> ids_ok labels ids' ->
  1 <= binsize_of rate bin ->
  correlograms t labels (Some ids) rate bin win false = Some C ->
  correlograms t labels (Some ids') rate bin win false = Some C' ->
  forall i j i' j' k, (i < length ids)%nat -> (j < length ids)%nat -> (i' < length ids')%nat -> (j' < length ids')%nat ->
    nth i ids (-1) = nth i' ids' (-1) -> nth j ids (-1) = nth j' ids' (-1) -> Z.of_nat k <= half_of bin win ->
    nth k (cell C i j) 0 = nth k (cell C' i' j') 0.
Proof. exact correlograms_order. Qed.
Print Assumptions C15_order.

(* ids without spikes give zero rows and zero columns *)
Theorem C15_order_empty : forall (t labels ids : list Z) (rate bin win : Q) (C : cube),
  (0 < rate)%Q -> sortedZ t -> length labels = length t -> ids_ok labels ids -> 1 <= binsize_of rate bin ->
  correlograms t labels (Some ids) rate bin win false = Some C ->
  forall i j k, (i < length ids)%nat -> (j < length ids)%nat -> Z.of_nat k <= half_of bin win ->
    ~ In (nth i ids (-1)) labels \/ ~ In (nth j ids (-1)) labels -> nth k (cell C i j) 0 = 0.
Proof. exact correlograms_absent. Qed.
Print Assumptions C15_order_empty.

(* _symmetrize_correlograms on ANY (nc, nc, w+1) array: 2w+1 bins, positive lags reproduce the one-sided
   entries, negative lags are the transposed entries, the centre is the larger of the two zero-lag
   entries, and S[i,j,k] = S[j,i,-k] *)
Theorem C15_sym_array : forall (nc w : nat) (C : cube), Shape nc nc (S w) C ->
  exists S', symmetrize C = Some S' /\ Sym_Spec nc w C S'.
Proof. exact symmetrize_spec. Qed.
Print Assumptions C15_sym_array.

(* correlograms(..., symmetrize=True) is that symmetrisation of the one-sided pair counts *)
Theorem C15_sym : forall (t labels ids : list Z) (rate bin win : Q),
  (0 < rate)%Q -> sortedZ t -> length labels = length t -> ids_ok labels ids -> 1 <= binsize_of rate bin ->
  exists C S', correlograms t labels (Some ids) rate bin win false = Some C /\
               correlograms t labels (Some ids) rate bin win true = Some S' /\
               OneSided_Spec t labels ids (binsize_of rate bin) (half_of bin win) C /\
               Sym_Spec (length ids) (Z.to_nat (half_of bin win)) C S'.
Proof. exact correlograms_sym. Qed.
Print Assumptions C15_sym.

(* firing_rate: R[i][j] = n_i * n_j * bin / (duration or 1), clusters in the caller's order *)
Theorem C15_rate : forall (labels ids : list Z) (bin : Q) (dur : option Q), ids_ok labels ids -> (0 < bin)%Q ->
  exists R, firing_rate labels (Some ids) bin dur = Some R /\ Rate_Spec labels ids bin (eff_dur dur) R.
Proof. exact firing_rate_spec. Qed.
Print Assumptions C15_rate.

(* ... zero for empty clusters *)
Theorem C15_rate_empty : forall (labels ids : list Z) (bin d : Q) (R : list (list Q)) (i j : nat),
  Rate_Spec labels ids bin d R -> (i < length ids)%nat -> (j < length ids)%nat ->
  ~ In (nth i ids (-1)) labels \/ ~ In (nth j ids (-1)) labels -> (nth j (nth i R []) 0 == 0)%Q.
Proof. exact rate_empty. Qed.
Print Assumptions C15_rate_empty.

(* the hypothesis "non-decreasing" is what the code asserts: otherwise the call is rejected *)
Theorem C15_rejects_unsorted : forall t labels ids rate bin win symm,
  ~ sortedZ t -> correlograms t labels ids rate bin win symm = None.
Proof. exact correlograms_unsorted. Qed.
Print Assumptions C15_rejects_unsorted.

(* ---- the boolean checkers that Corr.v evaluates on phylib's observed arrays are sound for the Spec ----
   (so a run without code 21/22/23/24/26 certifies, case by case, the declarative statements on the
   arrays phylib actually returned, not only their agreement with the model) *)
Theorem C15_checker_onesided : forall (t labels ids : list Z) (bs W : Z) (C : cube),
  length labels = length t -> 0 <= W ->
  onesided_b t labels ids bs W C = true -> OneSided_Spec t labels ids bs W C.
Proof. exact onesided_b_sound. Qed.
Print Assumptions C15_checker_onesided.

Theorem C15_checker_sym : forall (t labels ids : list Z) (bs W : Z) (S' : cube),
  length labels = length t -> 0 <= W ->
  let E := expected_cube t labels ids bs W in
  let nc := length ids in let w := Z.to_nat W in
  shape_b nc nc (2 * w + 1) S' = true -> sym_pos_b E S' nc w = true -> sym_mirror_b S' nc = true ->
  sym_centre_b E S' nc w = true ->
  OneSided_Spec t labels ids bs W E /\ Sym_Spec nc w E S'.
Proof.
  intros t labels ids bs W S' Hlen HW E nc w H1 H2 H3 H4.
  split; [now apply expected_cube_spec|now apply sym_checks_sound].
Qed.
Print Assumptions C15_checker_sym.

Theorem C15_checker_rate : forall (labels ids : list Z) (bin d : Q) (R : list (list Q)),
  rate_b labels ids bin d R = true -> Rate_Spec labels ids bin d R.
Proof. exact rate_b_sound. Qed.
Print Assumptions C15_checker_rate.

(* ================= stage 3 ================= *)

(* ---- the checkers are also COMPLETE: an array satisfying the declarative clause passes the check, so a
   flagged clause 21/23/24/26 is a refutation of the declarative statement on phylib's output (together with
   C15_checker_*: checker = true <-> Spec) ---- *)
Theorem C15_checker_onesided_complete : forall (t labels ids : list Z) (bs W : Z) (C : cube),
  length labels = length t -> 0 <= W ->
  OneSided_Spec t labels ids bs W C -> onesided_b t labels ids bs W C = true.
Proof. exact onesided_b_complete'. Qed.
Print Assumptions C15_checker_onesided_complete.

Theorem C15_checker_sym_complete : forall (t labels ids : list Z) (bs W : Z) (C S' : cube),
  length labels = length t -> 0 <= W ->
  OneSided_Spec t labels ids bs W C -> Sym_Spec (length ids) (Z.to_nat W) C S' ->
  let E := expected_cube t labels ids bs W in
  let nc := length ids in let w := Z.to_nat W in
  shape_b nc nc (2 * w + 1) S' = true /\ sym_pos_b E S' nc w = true /\ sym_mirror_b S' nc = true /\
  sym_centre_b E S' nc w = true.
Proof. exact sym_checks_complete'. Qed.
Print Assumptions C15_checker_sym_complete.

Theorem C15_checker_rate_complete : forall (labels ids : list Z) (bin d : Q) (R : list (list Q)),
  Rate_Spec labels ids bin d R -> rate_b labels ids bin d R = true.
Proof. exact rate_b_complete. Qed.
Print Assumptions C15_checker_rate_complete.

(* ---- the counts are bounded.  The code's array is np.int32 (_create_correlograms_array) and the increment
   `arr[:len(bbins)] += bbins` casts the int64 bincount into it (same-kind cast, silent wrap-around).  No entry of a
   correct one-sided (resp. symmetrised) correlogram exceeds n(n-1)/2, so for n <= 65536 spikes
   (65536 * 65535 / 2 = 2147450880 < 2^31) no entry could wrap even in the ORIGINAL int32 array, for any labelling, bin and
   window; one spike more and it did (defect repaired on fix-c15: the array is int64 now, see C15_int64_exact). ---- *)
Theorem C15_count_bound : forall (t labels ids : list Z) (bs W : Z) (C : cube),
  OneSided_Spec t labels ids bs W C ->
  forall i j k, (i < length ids)%nat -> (j < length ids)%nat -> Z.of_nat k <= W ->
    0 <= nth k (cell C i j) 0 /\
    2 * nth k (cell C i j) 0 <= Z.of_nat (length t) * (Z.of_nat (length t) - 1) /\
    (Z.of_nat (length t) <= 65536 -> nth k (cell C i j) 0 < 2 ^ 31).
Proof. exact onesided_count_bound. Qed.
Print Assumptions C15_count_bound.

Theorem C15_count_bound_sym : forall (t labels ids : list Z) (bs W : Z) (C S' : cube), 0 <= W ->
  OneSided_Spec t labels ids bs W C -> Sym_Spec (length ids) (Z.to_nat W) C S' ->
  forall i j k, (i < length ids)%nat -> (j < length ids)%nat -> (k <= 2 * Z.to_nat W)%nat ->
    0 <= nth k (cell S' i j) 0 /\
    2 * nth k (cell S' i j) 0 <= Z.of_nat (length t) * (Z.of_nat (length t) - 1) /\
    (Z.of_nat (length t) <= 65536 -> nth k (cell S' i j) 0 < 2 ^ 31).
Proof. exact sym_count_bound. Qed.
Print Assumptions C15_count_bound_sym.

(* ... and the bound is attained: n coincident spikes of one cluster put all n(n-1)/2 pairs into the zero-lag
   entry -- with 65537 such spikes the true count is 2147516416 >= 2^31 (the unrepaired phylib returned -2147450880
   there: the failing input of the defect, kept as an InCoinc case of the generator) *)
Theorem C15_count_bound_tight : forall (s c bs : Z) (n : nat),
  2 * pair_count (repeat s n) bs (repeat c n) c c 0 = Z.of_nat n * (Z.of_nat n - 1).
Proof. exact pair_count_coincident. Qed.
Print Assumptions C15_count_bound_tight.

(* ... hence the np.int64 storage of the code (after fix-c15; `_create_correlograms_array`, the int64 bincount is
   added into it, `np.maximum`/`dstack` keep the dtype) is exact for every train of at most 2^32 spikes
   (2^32 * (2^32 - 1) / 2 = 2^63 - 2^31 <= 2^63 - 1): wrap64 = the value an int64 cell holds after the exact count was
   added into it; every partial sum of the non-negative increments lies between 0 and the final count.
   (Before the fix the array was int32 and the analogous statement held only up to 65536 spikes -- third conjunct of
   C15_count_bound -- and FAILED at 65537: C15_count_bound_tight, C15_ex_int32.) *)
Theorem C15_int64_exact : forall (t labels ids : list Z) (bs W : Z) (C : cube),
  OneSided_Spec t labels ids bs W C -> Z.of_nat (length t) <= 2 ^ 32 ->
  forall i j k, (i < length ids)%nat -> (j < length ids)%nat -> Z.of_nat k <= W ->
    wrap64 (nth k (cell C i j) 0) = nth k (cell C i j) 0.
Proof. exact onesided_int64_exact. Qed.
Print Assumptions C15_int64_exact.

Theorem C15_int64_exact_sym : forall (t labels ids : list Z) (bs W : Z) (C S' : cube), 0 <= W ->
  OneSided_Spec t labels ids bs W C -> Sym_Spec (length ids) (Z.to_nat W) C S' -> Z.of_nat (length t) <= 2 ^ 32 ->
  forall i j k, (i < length ids)%nat -> (j < length ids)%nat -> (k <= 2 * Z.to_nat W)%nat ->
    wrap64 (nth k (cell S' i j) 0) = nth k (cell S' i j) 0.
Proof. exact sym_int64_exact. Qed.
Print Assumptions C15_int64_exact_sym.

(* n coincident spikes of one cluster, caller's list [c]: the model's result in closed form, for EVERY n -- all
   n(n-1)/2 pairs in the zero-lag entry, zeros elsewhere; symmetrised: the same count at the centre of 2W+1 bins.
   Corr.v judges such cases (constructor InCoinc) against this closed form, so that the 65537-spike input on which the
   unrepaired int32 array wrapped is checked without evaluating the quadratic model on it. *)
Theorem C15_coincident : forall (s c : Z) (n : nat) (rate bin win : Q), (0 < rate)%Q -> 0 <= c ->
  1 <= binsize_of rate bin ->
  correlograms (repeat s n) (repeat c n) (Some [c]) rate bin win false =
    Some (coinc_onesided (Z.of_nat n) (half_of bin win)) /\
  correlograms (repeat s n) (repeat c n) (Some [c]) rate bin win true =
    Some (coinc_sym (Z.of_nat n) (half_of bin win)).
Proof. exact correlograms_coincident. Qed.
Print Assumptions C15_coincident.

(* ---- error exits of the asserts on the parameters (rate > 0, equal shapes, binsize >= 1; firing_rate:
   bin_size > 0) and the `duration or 1.` default: None and 0 both mean 1, so there is no division by zero ---- *)
Theorem C15_rejects_params : forall t labels ids rate bin win symm,
  (rate <= 0)%Q \/ length t <> length labels \/ binsize_of rate bin < 1 ->
  correlograms t labels ids rate bin win symm = None.
Proof. exact correlograms_rejects. Qed.
Print Assumptions C15_rejects_params.

Theorem C15_rate_rejects : forall labels ids bin dur, (bin <= 0)%Q -> firing_rate labels ids bin dur = None.
Proof. exact firing_rate_rejects. Qed.
Print Assumptions C15_rate_rejects.

Theorem C15_rate_duration : forall labels ids bin,
  (forall dur, ~ (eff_dur dur == 0)%Q) /\
  (forall d, (d == 0)%Q -> firing_rate labels ids bin (Some d) = firing_rate labels ids bin None) /\
  firing_rate labels ids bin None = firing_rate labels ids bin (Some 1%Q).
Proof.
  intros. split; [exact eff_dur_nonzero|]. split.
  - intros d Hd. exact (proj1 (firing_rate_zero_duration labels ids bin d Hd)).
  - exact (proj2 (firing_rate_zero_duration labels ids bin 0%Q ltac:(reflexivity))).
Qed.
Print Assumptions C15_rate_duration.

(* ---- THE PARAMETER LAYER (ParamsModel.v).  The code receives float64 spike times, sample_rate, bin_size and
   window_size and derives the integers everything above is about with three float computations:
     spike_samples = (spike_times * sample_rate).astype(int64),  binsize = int(sample_rate * clip(bin_size)),
     winsize_bins = 2 * int(.5 * clip(window_size) / clip(bin_size)) + 1.
   An IEEE operation returns A float64 NEAREST to the exact result (`Nearest`, relational, any tie rule).
   In the regime the comparator checks on the abstract input of every case (Spec.params_regime: rate, bin, window
   dyadic with numerators < 2^20 / 2^13 and denominators <= 2^12, 2^-12 <= bin, window <= 2^12, every time s/rate a
   float64, |s| < 2^50 -- "sample rates for which time*rate is exact"), WHATEVER the rounding does:
   the samples are the integers s, binsize is floor(rate*bin) = Model.binsize_of, winsize_bins is
   2*Model.half_of + 1 (odd, >= 1, // 2 = half_of: the two asserts cannot fire) -- although .5*window/bin is in
   general NOT exact (e.g. 3.5/3): its floor survives the rounding. ---- *)
Theorem C15_params : forall (t : list Z) (rate bin win : Q) (times : list Q) (samples : list Z) (bs wb : Z),
  params_regime t rate bin win = true ->
  Forall2 (fun tm s => (tm == inject_Z s / rate)%Q) times t ->
  f_samples times rate samples -> f_binsize rate bin bs -> f_winsize bin win wb ->
  (Forall is_f64 times /\ is_f64 rate /\ is_f64 bin /\ is_f64 win) /\
  samples = t /\ bs = binsize_of rate bin /\
  wb = 2 * half_of bin win + 1 /\ wb / 2 = half_of bin win /\ wb mod 2 = 1 /\ 1 <= wb.
Proof. exact params_exact. Qed.
Print Assumptions C15_params.

(* the float layer of firing_rate: bc * np.c_[bc] (exact int64) * (bin_size / (duration or 1.)) = int -> float64
   conversion, one division, one product, each returning a nearest float.  Under the two booleans Corr.v checks
   (code 3 otherwise: bin/duration and every exact entry are float64 values) the float entry IS the exact
   rational n_i * n_j * bin / duration of C15_rate *)
Theorem C15_rate_params : forall (ni nj : Z) (bin d r : Q), Z.abs (ni * nj) < 2 ^ 53 ->
  exact_f64 (bin / d) = true -> exact_f64 (inject_Z (ni * nj) * (bin / d)) = true ->
  f_rate_entry ni nj bin d r -> (r == inject_Z (ni * nj) * (bin / d))%Q.
Proof.
  intros ni nj bin d r Hn H1 H2. apply rate_entry_exact; [exact Hn| |]; now apply exact_f64_is_f64.
Qed.
Print Assumptions C15_rate_params.

(* what `Nearest` gives (the only facts about rounding used): an exactly representable result is returned
   exactly; a result never leaves an interval whose end points are floats; and `Nearest` is satisfiable for inexact
   results: a normalised float within half an ulp of x is a nearest float of x *)
Theorem C15_nearest :
  (forall x f, is_f64 x -> Nearest x f -> (f == x)%Q) /\
  (forall x f lo hi, is_f64 lo -> is_f64 hi -> (lo <= x)%Q -> (x <= hi)%Q -> Nearest x f -> (lo <= f)%Q /\ (f <= hi)%Q) /\
  (forall m e x, 2 ^ 52 < m < 2 ^ 53 -> -1074 <= e <= 971 ->
     (Qabs (x - inject_Z m * 2 ^ e) * 2 <= 2 ^ e)%Q -> Nearest x (inject_Z m * 2 ^ e)).
Proof. split; [exact Nearest_exact|]. split; [exact Nearest_sandwich|exact nearest_criterion]. Qed.
Print Assumptions C15_nearest.

(* the constant of np.clip(x, 1e-5, 1e5): float64(1e-5) is 5902958103587057 / 2^69 -- a float nearest to 10^-5,
   slightly above it -- and on [2^-12, 2^12] both the float clip and the rational clip of Model.v are the identity *)
Theorem C15_clip_constant :
  Nearest clip_lo clip_lo_f /\ (clip_lo < clip_lo_f)%Q /\
  forall x, in_range (1 # 4096) (4096 # 1) x = true -> clipf x = x /\ clip5 x = x.
Proof.
  split; [exact clip_lo_f_nearest|]. split; [exact (proj1 clip_lo_f_close)|].
  intros x H. destruct (in_range_clip x H) as (A & B & _). now split.
Qed.
Print Assumptions C15_clip_constant.

(* ---- non-vacuity: concrete, non-trivial instances ---- *)
(* 5 spikes, two at the same sample, ids in the caller's order [7; 4; 9; 1] (7 and 9 have no spikes),
   binsize 1, W = 2 *)
Example C15_ex_steps :
  option_map (map step_events) (ccg_steps [0; 0; 1; 1; 2] 1 2) =
  Some [ [mkev 0 1 0; mkev 1 2 1; mkev 2 3 0; mkev 3 4 1];
         [mkev 0 2 1; mkev 1 3 1; mkev 2 4 1];
         [mkev 0 3 1; mkev 1 4 2];
         [mkev 0 4 2] ].
Proof. vm_compute. reflexivity. Qed.
Example C15_ex_mem : In (mkev 1 4 2) (all_events [0; 0; 1; 1; 2] 1 2) /\ D [0; 0; 1; 1; 2] 1 1 4 = 2.
Proof. vm_compute. tauto. Qed.
Example C15_ex_pairs :
  correlograms [0; 0; 1; 1; 2] [4; 1; 1; 4; 4] (Some [7; 4; 9; 1]) 1 1 4 false =
  Some [ [[0;0;0]; [0;0;0]; [0;0;0]; [0;0;0]];
         [[0;0;0]; [0;2;1]; [0;0;0]; [1;1;0]];
         [[0;0;0]; [0;0;0]; [0;0;0]; [0;0;0]];
         [[0;0;0]; [1;2;1]; [0;0;0]; [0;1;0]] ]
  /\ ids_ok [4; 1; 1; 4; 4] [7; 4; 9; 1] /\ sortedZ [0; 0; 1; 1; 2] /\ binsize_of 1 1 = 1 /\ half_of 1 4 = 2.
Proof.
  split; [vm_compute; reflexivity|]. split.
  - split; [repeat (constructor; [cbn; lia|]); constructor|]. split; intros x H; cbn in H |- *; lia.
  - split; [apply sortedZb_spec; reflexivity|]. split; vm_compute; reflexivity.
Qed.
Example C15_ex_pair_count : pair_count [0; 0; 1; 1; 2] 1 [4; 1; 1; 4; 4] 4 4 1 = 2 /\
                            pair_count [0; 0; 1; 1; 2] 1 [4; 1; 1; 4; 4] 1 4 0 = 1.
Proof. vm_compute. tauto. Qed.
(* the same call with the ids permuted: entries move with the ids *)
Example C15_ex_order :
  correlograms [0; 0; 1; 1; 2] [4; 1; 1; 4; 4] (Some [1; 4]) 1 1 4 false =
  Some [ [[0;1;0]; [1;2;1]]; [[1;1;0]; [0;2;1]] ].
Proof. vm_compute. reflexivity. Qed.
Example C15_ex_default : clusters_of [5; 2; 5; 5; 2] None = [2; 5].
Proof. vm_compute. reflexivity. Qed.
Example C15_ex_sym :
  correlograms [0; 0; 1; 1; 2] [4; 1; 1; 4; 4] (Some [1; 4]) 1 1 4 true =
  Some [ [[0;1;0;1;0]; [0;1;1;2;1]]; [[1;2;1;1;0]; [1;2;0;2;1]] ].
Proof. vm_compute. reflexivity. Qed.
Example C15_ex_rate :
  option_map (map (map Qred)) (firing_rate [4; 1; 4; 4] (Some [4; 9; 1]) (1 # 4) (Some (2 # 1))) =
  Some [ [9 # 8; 0; 3 # 8]; [0; 0; 0]; [3 # 8; 0; 1 # 8] ]%Q.
Proof. vm_compute. reflexivity. Qed.
Example C15_ex_unsorted : correlograms [0; 2; 1] [1; 1; 1] None 1 1 2 false = None /\ ~ sortedZ [0; 2; 1].
Proof. split; [vm_compute; reflexivity|]. rewrite <- sortedZb_spec. vm_compute. discriminate. Qed.
Example C15_ex_checker :
  onesided_b [0; 0; 1; 1; 2] [4; 1; 1; 4; 4] [1; 4] 1 2 [ [[0;1;0]; [1;2;1]]; [[1;1;0]; [0;2;1]] ] = true /\
  onesided_b [0; 0; 1; 1; 2] [4; 1; 1; 4; 4] [1; 4] 1 2 [ [[0;1;0]; [1;2;1]]; [[1;1;0]; [0;2;2]] ] = false.
Proof. vm_compute. tauto. Qed.

(* ---- stage 3 examples ---- *)
Example C15_ex_checker_complete :
  OneSided_Spec [0; 0; 1; 1; 2] [4; 1; 1; 4; 4] [1; 4] 1 2 [ [[0;1;0]; [1;2;1]]; [[1;1;0]; [0;2;1]] ].
Proof. apply C15_checker_onesided; [reflexivity|lia|vm_compute; reflexivity]. Qed.
Example C15_ex_rate_complete :
  rate_b [4; 1; 4; 4] [4; 9; 1] (1 # 4) (2 # 1) [ [9 # 8; 0; 3 # 8]; [0; 0; 0]; [6 # 16; 0; 1 # 8] ]%Q = true.
Proof. vm_compute. reflexivity. Qed.
(* 65537 coincident spikes: the true count no longer fits int32 (nothing is evaluated on the 65537-element lists) *)
Example C15_ex_count_tight :
  pair_count (repeat 0 (Z.to_nat 65537)) 1 (repeat 7 (Z.to_nat 65537)) 7 7 0 = 2147516416 /\ 2 ^ 31 <= 2147516416 /\
  2 * 2147450880 = 65536 * 65535 /\ 2147450880 < 2 ^ 31.
Proof.
  split; [|split; [|split]]; [|vm_compute; congruence|reflexivity|reflexivity].
  pose proof (C15_count_bound_tight 0 7 1 (Z.to_nat 65537)) as H. rewrite Z2Nat.id in H by lia. lia.
Qed.
Example C15_ex_rejects :
  correlograms [0; 1] [1; 1] None 1 (1 # 2) 2 false = None /\ binsize_of 1 (1 # 2) = 0 /\
  firing_rate [1; 1] None 0 None = None /\
  option_map (map (map Qred)) (firing_rate [1; 1] None (1 # 2) (Some 0%Q)) = Some [[2 # 1]]%Q.
Proof. vm_compute. tauto. Qed.
(* the parameter layer on a case whose division is NOT exact: times [0;1;2;2] s at rate 3, bin 3 s, window 7 s:
   .5 * 7 / 3 = 1.1666..., rounded to 5254199565265579 / 2^52, int() = 1 = half_of 3 7, winsize_bins = 3 *)
Example C15_ex_params :
  params_regime [0; 3; 6; 6] 3 3 7 = true /\
  Forall2 (fun tm s => (tm == inject_Z s / 3)%Q) [0; 1; 2; 2]%Q [0; 3; 6; 6] /\
  f_samples [0; 1; 2; 2]%Q 3 [0; 3; 6; 6] /\ f_binsize 3 3 9 /\ f_winsize 3 7 3 /\
  binsize_of 3 3 = 9 /\ half_of 3 7 = 1.
Proof.
  split; [vm_compute; reflexivity|]. split; [repeat constructor|]. split; [|split; [|split; [|split; vm_compute; reflexivity]]].
  - assert (S : forall (tm : Q) (s : Z), Z.abs s < 2 ^ 53 -> (inject_Z s == tm * 3)%Q ->
                  exists p, Nearest (tm * 3) p /\ s = Qtrunc p).
    { intros tm s Hs E. exists (inject_Z s). split; [|symmetry; apply Qtrunc_Z; reflexivity].
      apply (Nearest_wd (inject_Z s)); [exact E|]. apply Nearest_refl, is_f64_Z, Hs. }
    repeat constructor; apply S; (reflexivity || (vm_compute; reflexivity)).
  - exists 9%Q. split; [|reflexivity]. apply (Nearest_wd (inject_Z 9)); [vm_compute; reflexivity|].
    apply Nearest_refl, is_f64_Z. reflexivity.
  - exists (7 # 2)%Q, (5254199565265579 # Z.to_pos (2 ^ 52))%Q. split; [|split; [|vm_compute; reflexivity]].
    + apply (Nearest_wd (7 # 2)); [vm_compute; reflexivity|]. apply Nearest_refl.
      apply (is_f64_Qmake 7 2 1); [reflexivity|lia|reflexivity].
    + apply (Nearest_wd ((7 # 2) / 3)); [vm_compute; reflexivity|]. exact nearest_7_6.
Qed.
(* what the unrepaired phylib (int32 array) returned for 65537 coincident spikes (measured): the wrapped value of the
   true count; the repaired int64 array holds it, and everything up to 2^32 spikes *)
Example C15_ex_int32 : wrap32 2147516416 = -2147450880 /\ wrap32 2147450880 = 2147450880 /\
                       wrap64 2147516416 = 2147516416 /\ wrap64 (tri (2 ^ 32)) = tri (2 ^ 32) /\
                       wrap64 (tri (2 ^ 32 + 1)) <> tri (2 ^ 32 + 1).
Proof. vm_compute. repeat split; congruence. Qed.
Example C15_ex_coincident :
  correlograms (repeat 5 4) (repeat 7 4) (Some [7]) 1 1 4 true = Some [[ [0; 0; 6; 0; 0] ]] /\
  coinc_sym 4 2 = [[ [0; 0; 6; 0; 0] ]] /\ coinc_onesided 65537 1 = [[ [2147516416; 0] ]].
Proof. vm_compute. repeat split; reflexivity. Qed.
Example C15_ex_rate_params :
  exact_f64 ((3 # 8) / (1 # 2)) = true /\ exact_f64 (inject_Z (3 * 2) * ((3 # 8) / (1 # 2))) = true /\
  f_rate_entry 3 2 (3 # 8) (1 # 2) (9 # 2).
Proof.
  split; [vm_compute; reflexivity|]. split; [vm_compute; reflexivity|].
  exists 6%Q, (3 # 4)%Q. split; [|split].
  - apply (Nearest_wd (inject_Z 6)); [reflexivity|]. apply Nearest_refl, is_f64_Z. reflexivity.
  - apply (Nearest_wd (3 # 4)); [vm_compute; reflexivity|]. apply Nearest_refl.
    apply (is_f64_Qmake 3 4 2); [reflexivity|lia|reflexivity].
  - apply (Nearest_wd (9 # 2)); [vm_compute; reflexivity|]. apply Nearest_refl.
    apply (is_f64_Qmake 9 2 1); [reflexivity|lia|reflexivity].
Qed.
