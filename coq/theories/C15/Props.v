From Coq Require Import ZArith List Lia Bool.
From PV Require Import C15.Model C15.Spec C15.Proofs.
Import ListNotations.
Open Scope Z_scope.
Theorem C15_tmp : ccg_steps [0;1] 1 1 <> None.
Proof. exact tmp_example. Qed.
Print Assumptions C15_tmp.
