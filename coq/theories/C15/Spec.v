(* C15/Spec.v -- the property, stated independently of the algorithm, and the boolean checkers that
   Corr.v runs on the implementation's observed output. *)
From Coq Require Import ZArith List Lia Bool QArith Qround.
From PV Require Import Base.NpList Base.NpSearch C15.Model.
Import ListNotations.
Open Scope Z_scope.

(* ================= declarative statement ================= *)

(* binned lag between spike a and spike b:  floor((t_b - t_a) / binsize) *)
Definition D (t : list Z) (bs : Z) (a b : nat) : Z := (nth b t 0 - nth a t 0) / bs.

(* all index pairs a < b < n  ("a before b in the array"), each exactly once *)
Definition all_pairs (n : nat) : list (nat * nat) :=
  flat_map (fun a => map (pair a) (seq (S a) (n - S a))) (seq 0 n).

(* the number of spike pairs (a before b) with a in cluster x, b in cluster y and lag bin k *)
Definition pair_count (t : list Z) (bs : Z) (labels : list Z) (x y k : Z) : Z :=
  Z.of_nat (length (filter (fun p => (nth (fst p) labels (-1) =? x) && (nth (snd p) labels (-1) =? y) &&
                                     (D t bs (fst p) (snd p) =? k))
                           (all_pairs (length t)))).

(* shape (n1, n2, n3) *)
Definition Shape (n1 n2 n3 : nat) (C : cube) : Prop :=
  length C = n1 /\ Forall (fun row => length row = n2 /\ Forall (fun c => length c = n3) row) C.

(* the regime of the cluster list: distinct non-negative ids containing every label (what _index_of
   "implicitly assumes") *)
Definition ids_ok (labels ids : list Z) : Prop :=
  NoDup ids /\ (forall x, In x ids -> 0 <= x) /\ (forall x, In x labels -> In x ids).

(* one-sided correlogram: clusters in the caller's order, bins 0 .. W *)
Definition OneSided_Spec (t labels ids : list Z) (bs W : Z) (C : cube) : Prop :=
  Shape (length ids) (length ids) (Z.to_nat (W + 1)) C /\
  forall (i j k : nat), (i < length ids)%nat -> (j < length ids)%nat -> Z.of_nat k <= W ->
    nth k (cell C i j) 0 = pair_count t bs labels (nth i ids (-1)) (nth j ids (-1)) (Z.of_nat k).

(* symmetrised correlogram S of the one-sided C with half-window W = w bins *)
Definition Sym_Spec (nc w : nat) (C S : cube) : Prop :=
  Shape nc nc (2 * w + 1) S /\
  forall i j, (i < nc)%nat -> (j < nc)%nat ->
    (forall k, (1 <= k <= w)%nat -> nth (w + k) (cell S i j) 0 = nth k (cell C i j) 0) /\
    (forall k, (1 <= k <= w)%nat -> nth (w - k) (cell S i j) 0 = nth k (cell C j i) 0) /\
    nth w (cell S i j) 0 = Z.max (nth 0 (cell C i j) 0) (nth 0 (cell C j i) 0) /\
    (forall k, (k <= 2 * w)%nat -> nth k (cell S i j) 0 = nth (2 * w - k) (cell S j i) 0).

(* number of spikes of cluster x *)
Definition n_spikes (labels : list Z) (x : Z) : Z := Z.of_nat (count_occ Z.eq_dec labels x).

(* `duration or 1.` *)
Definition eff_dur (dur : option Q) : Q :=
  match dur with None => 1%Q | Some d => if Qeq_bool d 0 then 1%Q else d end.

Definition Rate_Spec (labels ids : list Z) (bin dur : Q) (R : list (list Q)) : Prop :=
  length R = length ids /\ Forall (fun row => length row = length ids) R /\
  forall i j, (i < length ids)%nat -> (j < length ids)%nat ->
    (nth j (nth i R []) 0 ==
     inject_Z (n_spikes labels (nth i ids (-1)%Z) * n_spikes labels (nth j ids (-1)%Z))%Z * (bin / dur))%Q.

(* ================= boolean checkers ================= *)

Record key := mkkey { kx : Z; ky : Z; kd : Z }.

(* l = combine samples labels.  All pairs (earlier, later) of the list whose lag bin is <= W,
   as (label earlier, label later, lag bin) *)
Fixpoint pair_keys (bs W : Z) (l : list (Z * Z)) : list key :=
  match l with
  | [] => []
  | p :: r =>
      flat_map (fun q => let d := (fst q - fst p) / bs in
                         if d <=? W then [mkkey (snd p) (snd q) d] else []) r
      ++ pair_keys bs W r
  end.

Definition count_key (keys : list key) (x y k : Z) : Z :=
  Z.of_nat (length (filter (fun q => (kx q =? x) && (ky q =? y) && (kd q =? k)) keys)).

Definition expected_cube (t labels ids : list Z) (bs W : Z) : cube :=
  let keys := pair_keys bs W (combine t labels) in
  map (fun x => map (fun y => map (fun k => count_key keys x y k) (zrange 0 (Z.to_nat (W + 1)))) ids) ids.

Fixpoint zlist_eqb (a b : list Z) : bool :=
  match a, b with
  | [], [] => true
  | x :: a', y :: b' => (x =? y) && zlist_eqb a' b'
  | _, _ => false
  end.
Fixpoint list_eqb {A} (eqb : A -> A -> bool) (a b : list A) : bool :=
  match a, b with
  | [], [] => true
  | x :: a', y :: b' => eqb x y && list_eqb eqb a' b'
  | _, _ => false
  end.
Definition cube_eqb : cube -> cube -> bool := list_eqb (list_eqb zlist_eqb).

Definition shape_b (n1 n2 n3 : nat) (C : cube) : bool :=
  Nat.eqb (length C) n1 &&
  forallb (fun row => Nat.eqb (length row) n2 && forallb (fun c => Nat.eqb (length c) n3) row) C.

Definition all_ij (nc : nat) (f : nat -> nat -> bool) : bool :=
  forallb (fun i => forallb (fun j => f i j) (seq 0 nc)) (seq 0 nc).

(* clause 21 (one-sided output): every entry is the pair count, clusters in the caller's order *)
Definition onesided_b (t labels ids : list Z) (bs W : Z) (C : cube) : bool :=
  cube_eqb C (expected_cube t labels ids bs W).

(* clause 21 (symmetrised output): positive lags reproduce the one-sided counts *)
Definition sym_pos_b (E S : cube) (nc w : nat) : bool :=
  all_ij nc (fun i j => zlist_eqb (skipn (w + 1) (cell S i j)) (tl (cell E i j))).
(* clause 23: C[i,j,k] = C[j,i,-k] *)
Definition sym_mirror_b (S : cube) (nc : nat) : bool :=
  all_ij nc (fun i j => zlist_eqb (cell S i j) (rev (cell S j i))).
(* clause 24: the centre bin is the larger of the two one-sided zero-lag counts *)
Definition sym_centre_b (E S : cube) (nc w : nat) : bool :=
  all_ij nc (fun i j => match nth_error (cell S i j) w, cell E i j, cell E j i with
                        | Some c, e0 :: _, e0' :: _ => c =? Z.max e0 e0'
                        | _, _, _ => false
                        end).

(* clause 26: firing-rate normaliser *)
Definition expected_rate (labels ids : list Z) (bin dur : Q) : list (list Q) :=
  map (fun x => map (fun y => (inject_Z (n_spikes labels x * n_spikes labels y) * (bin / dur))%Q) ids) ids.
Definition rate_b (labels ids : list Z) (bin dur : Q) (R : list (list Q)) : bool :=
  list_eqb (list_eqb Qeq_bool) R (expected_rate labels ids bin dur).

(* ================= the exact-arithmetic regime of the parameter layer =================
   (stage 3) The boolean Corr.v evaluates on the ABSTRACT input of every correlograms case (code 3 when
   false) and the hypothesis of C15_params: sample_rate, bin_size, window_size dyadic with small numerators,
   2^-12 <= bin, window <= 2^12 (np.clip is the identity), every spike time  s / rate  a float64 and every
   sample below 2^50 ("sample rates for which time*rate is exact"). *)
Definition is_pow2 (p : positive) : bool := Z.pos p =? 2 ^ Z.log2 (Z.pos p).
(* dyadic, numerator below 2^nb, denominator at most 2^db *)
Definition dyadic (nb db : Z) (x : Q) : bool :=
  let r := Qred x in
  is_pow2 (Qden r) && (Z.abs (Qnum r) <? 2 ^ nb) && (Z.pos (Qden r) <=? 2 ^ db).
Definition in_range (lo hi x : Q) : bool := Qle_bool lo x && Qle_bool x hi.
(* a float64 with unbounded-enough exponent: 53-bit numerator, power-of-two denominator up to 2^900 *)
Definition exact_f64 (x : Q) : bool := dyadic 53 900 x.

Definition params_regime (t : list Z) (rate bin win : Q) : bool :=
  forallb (fun s => (Z.abs s <? 2 ^ 50) && exact_f64 (inject_Z s / rate)) t &&
  negb (Qle_bool rate 0) && dyadic 20 12 rate &&
  dyadic 13 12 bin && in_range (1 # 4096) (4096 # 1) bin &&
  dyadic 13 12 win && in_range (1 # 4096) (4096 # 1) win.

(* ================= n coincident spikes of one cluster, in closed form =================
   (stage 3, fix-c15) all n(n-1)/2 pairs fall into the zero-lag entry.  C15_coincident proves that this is what
   the model returns for EVERY n; Corr.v uses it for trains too long to evaluate the model on (the 65537-spike
   input on which the int32 array of the unrepaired code wrapped). *)
Definition tri (n : Z) : Z := n * (n - 1) / 2.
Definition coinc_onesided (n W : Z) : cube := [[ tri n :: repeat 0 (Z.to_nat W) ]].
Definition coinc_sym (n W : Z) : cube := [[ repeat 0 (Z.to_nat W) ++ tri n :: repeat 0 (Z.to_nat W) ]].
