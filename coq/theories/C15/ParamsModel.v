(* C15/ParamsModel.v -- (stage 3) model of the FLOAT parameter layer of correlograms(): the three places where
   phylib/stats/ccg.py turns float64 arguments into the integers the rest of the function (and Model.v) works with.

     spike_samples = (spike_times * sample_rate).astype(np.int64)          ccg.py:117
     bin_size = np.clip(bin_size, 1e-5, 1e5); binsize = int(sample_rate * bin_size)       :125-126
     window_size = np.clip(window_size, 1e-5, 1e5)
     winsize_bins = 2 * int(.5 * window_size / bin_size) + 1               :130-131

   Floats are exact dyadic rationals (Q).  An IEEE-754 round-to-nearest operation is modelled RELATIONALLY: its
   result is *a* float64 nearest to the exact result (`Nearest`), whatever the tie-breaking rule; no rounding
   function is assumed.  (Overflow to inf is not described by `Nearest`; in the regime of C15_params every exact
   result is below 2^53.)  No proofs here. *)
From Coq Require Import ZArith List Lia Bool QArith Qround Qabs Qpower.
From PV Require Import C15.Model.
Import ListNotations.
Open Scope Z_scope.

(* a finite binary64 value: m * 2^e with |m| < 2^53, -1074 <= e <= 971 (subnormals included) *)
Definition is_f64 (x : Q) : Prop :=
  exists m e : Z, Z.abs m < 2 ^ 53 /\ -1074 <= e <= 971 /\ (x == inject_Z m * 2 ^ e)%Q.

(* f is a float64 nearest to the exact result x *)
Definition Nearest (x f : Q) : Prop :=
  is_f64 f /\ forall g, is_f64 g -> (Qabs (x - f) <= Qabs (x - g))%Q.

(* int(x) of a Python float / ndarray.astype(np.int64): truncation toward zero *)
Definition Qtrunc (x : Q) : Z := if Qle_bool 0 x then Qfloor x else Qceiling x.

(* float64(1e-5) = 0x1.4f8b588e368f1p-17 = 5902958103587057 * 2^-69 (slightly ABOVE 10^-5); 1e5 is exact.
   (Python: (1e-5).as_integer_ratio() == (5902958103587057, 2**69); the harness asserts this at import.) *)
Definition clip_lo_f : Q := 5902958103587057 # (2 ^ 69).
Definition clipf (x : Q) : Q := clipQ x clip_lo_f clip_hi.           (* np.clip(x, 1e-5, 1e5) on floats: exact *)

(* spike_samples = (spike_times * sample_rate).astype(np.int64) *)
Definition f_samples (times : list Q) (rate : Q) (samples : list Z) : Prop :=
  Forall2 (fun tm s => exists p, Nearest (tm * rate) p /\ s = Qtrunc p) times samples.

(* binsize = int(sample_rate * clip(bin_size)) *)
Definition f_binsize (rate bin : Q) (bs : Z) : Prop :=
  exists p, Nearest (rate * clipf bin) p /\ bs = Qtrunc p.

(* winsize_bins = 2 * int(.5 * clip(window_size) / clip(bin_size)) + 1   -- two roundings, left to right *)
Definition f_winsize (bin win : Q) (wb : Z) : Prop :=
  exists h q, Nearest ((1 # 2) * clipf win) h /\ Nearest (h / clipf bin) q /\ wb = 2 * Qtrunc q + 1.
