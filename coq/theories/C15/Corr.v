(* C15/Corr.v -- comparator evaluated by vm_compute on generated case files.
   codes: 1  = observed output differs from the model (determined observable)
          21 = C15_pairs / C15_order: an entry at a lag >= 0 (one-sided output: every entry; symmetrised
               output: the positive lags) is not the number of spike pairs of that lag bin, clusters in
               the caller's order
          22 = shape: (nc, nc, W+1) one-sided, (nc, nc, 2W+1) symmetrised
          23 = C15_sym: S[i,j,k] = S[j,i,-k] fails
          24 = C15_sym: the centre bin is not the larger of the two one-sided zero-lag counts
          26 = C15_rate: firing-rate normaliser is not n_i * n_j * bin / duration
          3  = input outside the stated regime (harness bug): Spec.params_regime (the hypothesis of C15_params,
               checked on the abstract input: dyadic rate/bin/window, every time s/rate a float64), sorted train,
               at most 2^32 spikes (C15_int64_exact), valid id list *)
From Coq Require Import ZArith List Lia Bool QArith Qround.
From PV Require Export Base.NpList Base.NpSearch C15.Model C15.Spec.
Import ListNotations.
Open Scope Z_scope.

Inductive input :=
| InCCG (t labels : list Z) (ids : option (list Z)) (rate bin win : Q) (symm : bool)
| InRate (labels : list Z) (ids : option (list Z)) (bin : Q) (dur : option Q)
(* n spikes at sample s, all of cluster c, cluster_ids = [c]: judged against the closed form of C15_coincident *)
| InCoinc (n s c : Z) (rate bin win : Q) (symm : bool).

(* a float64 printed exactly: m * 2^e ; TBad = nan / inf *)
Inductive tok := TF (m e : Z) | TBad.

Inductive observed :=
| ObsCCG (shape : list Z) (C : cube)
| ObsRate (shape : list Z) (R : list (list tok))
| ObsCrash.

Record case := { cid : Z; cin : input; cobs : observed }.

Definition flag (code : Z) (ok : bool) : list Z := if ok then [] else [code].
Definition opt_eqb {A} (eqb : A -> A -> bool) (m : option A) (o : A) : bool :=
  match m with Some x => eqb x o | None => false end.

Definition tokQ (x : tok) : option Q :=
  match x with
  | TF m e => Some (if 0 <=? e then inject_Z (m * 2 ^ e) else Qmake m (Z.to_pos (2 ^ (- e))))
  | TBad => None
  end.
Fixpoint all_some {A} (l : list (option A)) : option (list A) :=
  match l with
  | [] => Some []
  | Some x :: r => option_map (cons x) (all_some r)
  | None :: _ => None
  end.
Definition toksQ (R : list (list tok)) : option (list (list Q)) :=
  all_some (map (fun row => all_some (map tokQ row)) R).

(* ---- regime ---- *)
Fixpoint memZ (x : Z) (l : list Z) : bool :=
  match l with [] => false | y :: r => (x =? y) || memZ x r end.
Fixpoint nodupb (l : list Z) : bool :=
  match l with [] => true | x :: r => negb (memZ x r) && nodupb r end.

Definition labels_ok (labels : list Z) (ids : option (list Z)) : bool :=
  match ids with
  | None => forallb (fun x => (0 <=? x) && (x <? 2 ^ 20)) labels
  | Some l => nodupb l && forallb (fun x => (0 <=? x) && (x <? 2 ^ 20)) l &&
              forallb (fun x => memZ x l) labels
  end.

Definition ccg_regime (t labels : list Z) (ids : option (list Z)) (rate bin win : Q) : bool :=
  sortedZb t && Nat.eqb (length t) (length labels) && (Z.of_nat (length t) <=? 2 ^ 32) &&   (* C15_int64_exact: no count of the int64 array can wrap *)
  labels_ok labels ids &&
  params_regime t rate bin win &&          (* Spec.v: the hypothesis of C15_params, incl. "time = s/rate is a float64" *)
  (1 <=? binsize_of rate bin).

Definition rate_regime (labels : list Z) (ids : option (list Z)) (bin : Q) (dur : option Q) : bool :=
  labels_ok labels ids && (Z.of_nat (length labels) <? 2 ^ 20) &&
  negb (Qle_bool bin 0) && dyadic 20 20 bin &&
  match dur with
  | None => true
  | Some d => Qle_bool 0 d && dyadic 20 20 d
  end.

Definition coinc_regime (n s c : Z) (rate bin win : Q) : bool :=
  (0 <=? n) && (n <=? 2 ^ 32) && (0 <=? c) && (c <? 2 ^ 20) &&
  params_regime [s] rate bin win && (1 <=? binsize_of rate bin).

(* exact_f64 (Spec.v): every entry of the exact result is a float64 (so the float computation is exact) *)
Definition check (c : case) : list Z :=
  match cin c, cobs c with
  | InCCG t labels ids rate bin win symm, o =>
      if negb (ccg_regime t labels ids rate bin win) then [3] else
      let cl := clusters_of labels ids in
      let nc := length cl in
      let bs := binsize_of rate bin in
      let W := half_of bin win in
      let w := Z.to_nat W in
      match correlograms t labels ids rate bin win symm with
      | None => [3]                        (* inside the regime the model always returns an array *)
      | Some M =>
          let E := expected_cube t labels cl bs W in
          match o with
          | ObsCCG shape C =>
              let nb := if symm then 2 * W + 1 else W + 1 in
              flag 1 (cube_eqb M C) ++
              flag 22 (zlist_eqb shape [Z.of_nat nc; Z.of_nat nc; nb] && shape_b nc nc (Z.to_nat nb) C) ++
              (if symm then
                 flag 21 (sym_pos_b E C nc w) ++ flag 23 (sym_mirror_b C nc) ++ flag 24 (sym_centre_b E C nc w)
               else flag 21 (onesided_b t labels cl bs W C))
          | _ => if symm then [1; 21; 22; 23; 24] else [1; 21; 22]
          end
      end
  | InCoinc n s c rate bin win symm, o =>
      if negb (coinc_regime n s c rate bin win) then [3] else
      let W := half_of bin win in
      let w := Z.to_nat W in
      let E1 := coinc_onesided n W in
      let E := if symm then coinc_sym n W else E1 in
      (* self-check on short trains: the closed form is what the model computes (C15_coincident: for every n) *)
      (* (an `if`, not `&&`: vm_compute is call-by-value and must not run the quadratic model on a long train) *)
      if (if n <=? 64 then negb (opt_eqb cube_eqb (correlograms (repeat s (Z.to_nat n)) (repeat c (Z.to_nat n)) (Some [c])
                                                                rate bin win symm) E) else false) then [3] else
      match o with
      | ObsCCG shape C =>
          let nb := if symm then 2 * W + 1 else W + 1 in
          flag 1 (cube_eqb E C) ++
          flag 22 (zlist_eqb shape [1; 1; nb] && shape_b 1 1 (Z.to_nat nb) C) ++
          (if symm then
             flag 21 (sym_pos_b E1 C 1 w) ++ flag 23 (sym_mirror_b C 1) ++ flag 24 (sym_centre_b E1 C 1 w)
           else flag 21 (cube_eqb C E1))
      | _ => if symm then [1; 21; 22; 23; 24] else [1; 21; 22]
      end
  | InRate labels ids bin dur, o =>
      if negb (rate_regime labels ids bin dur) then [3] else
      let cl := clusters_of labels ids in
      let nc := Z.of_nat (length cl) in
      let E := expected_rate labels cl bin (eff_dur dur) in
      if negb (exact_f64 (bin / eff_dur dur) && forallb (forallb exact_f64) E) then [3] else
      match firing_rate labels ids bin dur with
      | None => [3]
      | Some M =>
          match o with
          | ObsRate shape R =>
              match toksQ R with
              | Some RQ =>
                  flag 1 (list_eqb (list_eqb Qeq_bool) M RQ) ++
                  flag 26 (zlist_eqb shape [nc; nc] && rate_b labels cl bin (eff_dur dur) RQ)
              | None => [1; 26]
              end
          | _ => [1; 26]
          end
      end
  end.

Definition run (cases : list case) : list (Z * Z) :=
  flat_map (fun c => map (fun code => (cid c, code)) (check c)) cases.
